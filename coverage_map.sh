#!/bin/bash
# Statement coverage of the library (/repo) by the correspondence harnesses: builds every
# harness with `go build -cover -coverpkg=all`, runs the quick tier of each check with
# GOCOVERDIR set, merges, and writes coverage/library_coverage.{txt,func.txt}.
# Not part of any registered check; evidence written by these runs goes to the usual place.
set -u
cd "$(dirname "$0")"
D=${1:-/tmp/lead/covall}
rm -rf "$D"; mkdir -p "$D" coverage
for p in $(cat propcfg/ENABLED); do
  VERIF_COVER="$D" VERIF_NO_SEARCH=1 ./check "$p" | tail -1 | cut -c1-150
done
cd harness
export GOFLAGS=-mod=mod GOPROXY=off
go tool covdata percent -i="$D" -pkg=github.com/ipni/go-libipni/... > ../coverage/library_coverage.txt 2>&1
go tool covdata textfmt -i="$D" -pkg=github.com/ipni/go-libipni/... -o "$D/all.txt"
go tool cover -func="$D/all.txt" > ../coverage/library_coverage.func.txt 2>&1
tail -1 ../coverage/library_coverage.func.txt
python3 ../coverage_gaps.py
