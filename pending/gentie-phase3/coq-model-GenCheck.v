(* GenCheck -- comparison helpers for the translator's differential check (harness/cmd/gencheck).

   Every case of that harness is a closed boolean: the application of a definition of
   gen/Gen_Funcs_<pkg>.v (the Gallina that astgen produced from a Go function) to the inputs the
   harness chose, compared with what the REAL Go function returned on the same inputs.  The
   parameters that stand for external calls (ext_ / obs_ / fld_ ...) are given as finite lookup
   tables holding the values the harness observed from the real callee; a call the harness did
   not foresee hits the table's default, which is chosen so that the comparison fails.
   Nothing here models anything: these definitions only look up and compare. *)
From Coq Require Import ZArith NArith List Bool String.
From Gen Require Import Gen_Funcs_prelude.
Import ListNotations.

Definition gc_true (b : bool) : bool := b.

(* ---- equality ---- *)
Definition eq_bytes (a b : list N) : bool := Gen_Funcs_prelude.bytes_eqb a b.

Fixpoint eq_list {A : Type} (eqb : A -> A -> bool) (a b : list A) : bool :=
  match a, b with
  | [], [] => true
  | x :: a', y :: b' => eqb x y && eq_list eqb a' b'
  | _, _ => false
  end.

Definition eq_pair {A B : Type} (ea : A -> A -> bool) (eb : B -> B -> bool) (x y : A * B) : bool :=
  ea (fst x) (fst y) && eb (snd x) (snd y).

Definition eq_opt {A : Type} (eqb : A -> A -> bool) (x y : option A) : bool :=
  match x, y with
  | None, None => true
  | Some a, Some b => eqb a b
  | _, _ => false
  end.

(* errors: the generated definition names an error by its (format) text; the Go side gives
   err.Error().  [eq_err_nil]: both nil or both non-nil.  [eq_err_text]: also the same text
   (used where the Go error is errors.New / a package-level variable, so the texts coincide) *)
Definition eq_err_nil (g o : option string) : bool := Bool.eqb (isNone g) (isNone o).
Definition eq_err_text (g o : option string) : bool := err_eqb g o.

(* a definition that may panic against (panicked?, value) observed under recover() *)
Definition eq_gores {A : Type} (eqb : A -> A -> bool) (g : gores A) (o : option A) : bool :=
  match g, o with
  | GoRet a, Some b => eqb a b
  | GoPanic, None => true
  | _, _ => false
  end.

(* ---- lookup tables standing for external functions ---- *)
Fixpoint look {K V : Type} (eqb : K -> K -> bool) (t : list (K * V)) (d : V) (k : K) : V :=
  match t with
  | [] => d
  | (k', v) :: r => if eqb k k' then v else look eqb r d k
  end.

Definition kZ := Z.eqb.
Definition kB := eq_bytes.
Definition kP {A B : Type} (ea : A -> A -> bool) (eb : B -> B -> bool) := eq_pair ea eb.

(* the sentinel an unforeseen external call yields *)
Definition unforeseen : option string := Some "gencheck: external call not foreseen by the harness"%string.
