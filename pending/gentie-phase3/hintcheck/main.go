// hintcheck: compares the hand-written type hints of astgen's table with what go/types says.
package main

import (
	"bytes"
	"fmt"
	"go/ast"
	"go/printer"
	"go/token"
	"go/types"
	"os"
	"sort"
	"strings"

	"golang.org/x/tools/go/packages"
)

func exprStr(fset *token.FileSet, e ast.Node) string {
	var b bytes.Buffer
	_ = printer.Fprint(&b, fset, e)
	return strings.Join(strings.Fields(b.String()), " ")
}

// kind of a Go type in the translator's reading
func kindOf(t types.Type) string {
	if t == nil {
		return "?"
	}
	switch t.String() {
	case "github.com/libp2p/go-libp2p/core/peer.ID", "github.com/multiformats/go-multihash.Multihash":
		return "bytes"
	case "github.com/multiformats/go-multicodec.Code", "time.Duration":
		return "Z"
	case "error":
		return "err"
	}
	switch u := t.Underlying().(type) {
	case *types.Basic:
		switch {
		case u.Info()&types.IsInteger != 0:
			return "Z"
		case u.Info()&types.IsBoolean != 0:
			return "bool"
		case u.Info()&types.IsString != 0:
			return "bytes"
		}
	case *types.Slice:
		if b, ok := u.Elem().Underlying().(*types.Basic); ok && b.Kind() == types.Byte {
			return "bytes"
		}
		return "list:" + kindOf(u.Elem())
	case *types.Tuple:
		var ps []string
		for i := 0; i < u.Len(); i++ {
			ps = append(ps, kindOf(u.At(i).Type()))
		}
		return "tuple:" + strings.Join(ps, ",")
	case *types.Pointer:
		if _, ok := u.Elem().Underlying().(*types.Struct); ok {
			return "T/S"
		}
		return "ptr:" + kindOf(u.Elem())
	case *types.Interface:
		if t.String() == "error" {
			return "err"
		}
	}
	return "T/S"
}

func normHint(h string) string {
	switch {
	case strings.HasPrefix(h, "T:"), strings.HasPrefix(h, "S:"):
		return "T/S"
	case strings.HasPrefix(h, "list:"):
		return "list:" + normHint(strings.TrimPrefix(h, "list:"))
	case strings.HasPrefix(h, "tuple:"):
		var ps []string
		for _, p := range strings.Split(strings.TrimPrefix(h, "tuple:"), ",") {
			ps = append(ps, normHint(p))
		}
		return "tuple:" + strings.Join(ps, ",")
	}
	return h
}

func main() {
	dirs := map[string]bool{}
	for _, s := range funcSpecs {
		dirs["./"+s.dir] = true
	}
	var pats []string
	for d := range dirs {
		pats = append(pats, d)
	}
	sort.Strings(pats)
	cfg := &packages.Config{Mode: packages.NeedName | packages.NeedFiles | packages.NeedSyntax | packages.NeedTypes | packages.NeedTypesInfo | packages.NeedImports | packages.NeedDeps,
		Dir: "/repo", Env: append(os.Environ(), "GOFLAGS=-mod=mod", "GOPROXY=off")}
	pkgs, err := packages.Load(cfg, pats...)
	if err != nil {
		panic(err)
	}
	byDir := map[string]*packages.Package{}
	for _, p := range pkgs {
		byDir[strings.TrimPrefix(p.PkgPath, "github.com/ipni/go-libipni/")] = p
		if len(p.Errors) > 0 {
			fmt.Println("package errors:", p.PkgPath, p.Errors[0])
		}
	}
	total, checked, wrong, unresolved := 0, 0, 0, 0
	for _, s := range funcSpecs {
		if len(s.hints) == 0 {
			continue
		}
		p := byDir[s.dir]
		if p == nil {
			fmt.Println("no package for", s.dir)
			continue
		}
		// the function
		var fd *ast.FuncDecl
		for _, f := range p.Syntax {
			for _, d := range f.Decls {
				if x, ok := d.(*ast.FuncDecl); ok {
					name := x.Name.Name
					if x.Recv != nil && len(x.Recv.List) == 1 {
						t := exprStr(p.Fset, x.Recv.List[0].Type)
						name = strings.TrimPrefix(t, "*") + "." + name
					}
					if name == s.fn {
						fd = x
					}
				}
			}
		}
		if fd == nil {
			fmt.Println("function not found:", s.dir, s.fn)
			continue
		}
		keys := make([]string, 0, len(s.hints))
		for k := range s.hints {
			keys = append(keys, k)
		}
		sort.Strings(keys)
		for _, key := range keys {
			hint := s.hints[key]
			total++
			// collect the types of every expression in the function whose text is the key, or
			// (for ".Sel" / ".Meth()") whose selector / method name is the key
			found := map[string]bool{}
			ast.Inspect(fd, func(n ast.Node) bool {
				e, ok := n.(ast.Expr)
				if !ok {
					return true
				}
				var t types.Type
				match := false
				switch {
				case strings.HasPrefix(key, ".") && strings.HasSuffix(key, "()"):
					if c, ok := e.(*ast.CallExpr); ok {
						if se, ok := c.Fun.(*ast.SelectorExpr); ok && se.Sel.Name == strings.TrimSuffix(key[1:], "()") {
							match, t = true, p.TypesInfo.TypeOf(c)
						}
					}
				case strings.HasSuffix(key, "()") && !strings.Contains(key, "."):
					if c, ok := e.(*ast.CallExpr); ok {
						if id, ok := c.Fun.(*ast.Ident); ok && id.Name == strings.TrimSuffix(key, "()") {
							match, t = true, p.TypesInfo.TypeOf(c)
						}
					}
				case strings.HasPrefix(key, "."):
					if se, ok := e.(*ast.SelectorExpr); ok && se.Sel.Name == key[1:] {
						if _, isCallee := p.TypesInfo.Types[se]; isCallee {
							match, t = true, p.TypesInfo.TypeOf(se)
						}
					}
				default:
					if exprStr(p.Fset, e) == key {
						match = true
						t = p.TypesInfo.TypeOf(e)
						if id, ok := e.(*ast.Ident); ok && t == nil {
							if o := p.TypesInfo.ObjectOf(id); o != nil {
								t = o.Type()
							}
						}
					}
				}
				if match && t != nil {
					found[kindOf(t)+"  ("+t.String()+")"] = true
				}
				return true
			})
			if len(found) == 0 {
				unresolved++
				fmt.Printf("UNRESOLVED  %s %s  hint %q : %s\n", s.dir, s.fn, key, hint)
				continue
			}
			checked++
			ok := false
			var got []string
			for g := range found {
				got = append(got, g)
				k := strings.SplitN(g, "  ", 2)[0]
				if k == normHint(hint) || (normHint(hint) == "T/S" && strings.HasPrefix(k, "ptr:")) {
					ok = true
				}
			}
			sort.Strings(got)
			if !ok {
				wrong++
				fmt.Printf("MISMATCH    %s %s  hint %q : %s   go/types: %s\n", s.dir, s.fn, key, hint, strings.Join(got, " | "))
			}
		}
	}
	// the declared result types of external calls (ext: callee text -> res)
	etotal, ewrong, eunres := 0, 0, 0
	for _, s := range funcSpecs {
		if len(s.ext) == 0 {
			continue
		}
		p := byDir[s.dir]
		if p == nil {
			continue
		}
		var fd *ast.FuncDecl
		for _, f := range p.Syntax {
			for _, d := range f.Decls {
				if x, ok := d.(*ast.FuncDecl); ok {
					name := x.Name.Name
					if x.Recv != nil && len(x.Recv.List) == 1 {
						name = strings.TrimPrefix(exprStr(p.Fset, x.Recv.List[0].Type), "*") + "." + name
					}
					if name == s.fn {
						fd = x
					}
				}
			}
		}
		if fd == nil {
			continue
		}
		keys := make([]string, 0, len(s.ext))
		for k := range s.ext {
			keys = append(keys, k)
		}
		sort.Strings(keys)
		for _, key := range keys {
			es := s.ext[key]
			if len(es.res) == 0 {
				continue
			}
			etotal++
			var got []string
			seen := false
			ast.Inspect(fd, func(n ast.Node) bool {
				c, ok := n.(*ast.CallExpr)
				if !ok || exprStr(p.Fset, c.Fun) != key || seen {
					return true
				}
				t := p.TypesInfo.TypeOf(c)
				if t == nil {
					return true
				}
				seen = true
				if tu, ok := t.(*types.Tuple); ok {
					for i := 0; i < tu.Len(); i++ {
						got = append(got, kindOf(tu.At(i).Type()))
					}
				} else {
					got = []string{kindOf(t)}
				}
				return true
			})
			if !seen {
				eunres++
				fmt.Printf("EXT UNRESOLVED  %s %s  %q\n", s.dir, s.fn, key)
				continue
			}
			var want []string
			for _, r := range es.res {
				want = append(want, normHint(r))
			}
			okk := len(want) == len(got)
			for i := 0; okk && i < len(want); i++ {
				if want[i] != got[i] && !(want[i] == "T/S" && strings.HasPrefix(got[i], "ptr:")) {
					okk = false
				}
			}
			if !okk {
				ewrong++
				fmt.Printf("EXT MISMATCH    %s %s  %q declared %v   go/types: %v\n", s.dir, s.fn, key, want, got)
			}
		}
	}
	fmt.Printf("ext result declarations: %d, mismatches: %d, unresolved: %d\n", etotal, ewrong, eunres)
	fmt.Printf("hints: %d, resolved against go/types: %d, mismatches: %d, unresolved: %d\n", total, checked, wrong, unresolved)
}
