package main

type extSpec struct {
	res   []string
	drop  []int
	state string
	args  []string
}

type fspec struct {
	dir, file, fn, name, mode string
	from, to                  string
	outs                      []string
	slice, logStmts, atoms    bool
	hints                     map[string]string
	ext                       map[string]extSpec
	writer, prop, lit         string
	auto, nilEmpty            bool
	fieldObs, fieldVars       bool
	once                      []string
}
