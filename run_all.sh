#!/bin/sh
# run every registered quick (or thorough) check sequentially; summary at the end
cd "$(dirname "$0")"
tier=${1:-quick}
for id in $(cat propcfg/ENABLED); do
  s=$(date +%s)
  out=$(./check $id --tier $tier 2>&1); rc=$?
  e=$(date +%s)
  echo "$id rc=$rc $((e-s))s $(echo "$out" | grep -c VIOLATION) violations :: $(echo "$out" | grep "^$id:" | cut -c1-160)"
done
