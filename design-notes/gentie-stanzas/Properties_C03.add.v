(* ---- ties to the Gallina regenerated from the Go source (proofs/GenTie_C03.v) ---- *)
From Coq Require Import ZArith NArith List Bool Lia String.
From Lib Require Import Bytes Cid.
From Model Require Import C03_SignedHead.
From Proofs Require Import GenTie_Lib.
From Gen Require Import Gen_Consts Gen_Funcs_prelude Gen_Funcs_head Gen_Funcs_ipnisync.
Import ListNotations.
Local Open Scope Z_scope.
From Proofs Require Import GenTie_C03.

Theorem gen_tie_Validate_payload : forall (c : cid) (t : option bytes),
  head_Validate_payload (Cid.fmt c) t = FFall (payload c t).
Proof. exact GenTie_C03.tie_Validate_payload. Qed.
Print Assumptions gen_tie_Validate_payload.

Theorem gen_tie_Sign_payload : forall (c : cid) (t : option bytes),
  head_Sign_payload (Cid.fmt c) t = FFall (payload c t).
Proof. exact GenTie_C03.tie_Sign_payload. Qed.
Print Assumptions gen_tie_Sign_payload.

Theorem gen_Validate_payload_no_panic : forall cb t, head_Validate_payload cb t <> FPanic.
Proof. exact GenTie_C03.Validate_payload_no_panic. Qed.
Print Assumptions gen_Validate_payload_no_panic.

Theorem gen_tie_Validate_guards : forall sg pk : list N,
  guard_class (head_Validate_guards pk sg) =
  if is_nil sg then Some ENoSig else if is_nil pk then Some ENoKey else None.
Proof. exact GenTie_C03.tie_Validate_guards. Qed.
Print Assumptions gen_tie_Validate_guards.

Theorem gen_tie_GetHead_signer_check : forall (signer : bytes) (expected : option bytes),
  (forall e, expected = Some e -> e <> []) ->          (* a peer ID is never the empty string *)
  signer_ok (ipnisync_GetHead_signer_check (match expected with Some e => e | None => [] end) signer)
  = Some (match expected with None => true | Some e => Bytes.bytes_eqb signer e end).
Proof. exact GenTie_C03.tie_GetHead_signer_check. Qed.
Print Assumptions gen_tie_GetHead_signer_check.
