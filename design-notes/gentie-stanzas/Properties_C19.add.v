(* ---- ties to the Gallina regenerated from the Go source (proofs/GenTie_C19.v) ---- *)
From Coq Require Import ZArith NArith List Bool Lia String.
From Lib Require Import Bytes.
From Model Require Import C19_FindWire.
From Proofs Require Import GenTie_Lib.
From Gen Require Import Gen_Consts Gen_Funcs_prelude Gen_Funcs_rwriter Gen_Funcs_apierror.
Import ListNotations.
Local Open Scope Z_scope.
From Proofs Require Import GenTie_C19.

Theorem gen_tie_media_switch : forall (prefer nd ok sat : bool) (e : mt),
  rwriter_New_media_switch (mt_bytes e) nd ok prefer sat
  = FFall (let '(nd', ok') := upd prefer nd ok e in (nd', ok', nd' && ok')).
Proof. exact GenTie_C19.tie_media_switch. Qed.
Print Assumptions gen_tie_media_switch.

Theorem gen_media_switch_other : forall (prefer nd ok sat : bool) (b : list N),
  b <> mt_bytes MTNd -> b <> mt_bytes MTJson -> b <> mt_bytes MTAny ->
  rwriter_New_media_switch b nd ok prefer sat = FFall (nd, ok, nd && ok).
Proof. exact GenTie_C19.media_switch_other. Qed.
Print Assumptions gen_media_switch_other.

Theorem gen_negotiate_uses_tail : forall scan prefer accepts,
  negotiate_with scan prefer accepts =
  match scan_values scan false false accepts with
  | None => Err EInvalidAccept
  | Some (nd, ok) => negotiate_tail prefer (List.length accepts) nd ok
  end.
Proof. exact GenTie_C19.negotiate_uses_tail. Qed.
Print Assumptions gen_negotiate_uses_tail.

Theorem gen_tie_accept_verdict : forall (prefer nd ok : bool) (accepts : list (list N)),
  verdict_class (rwriter_New_accept_verdict accepts nd ok prefer)
  = match negotiate_tail prefer (List.length accepts) nd ok with Err c => Some c | _ => None end.
Proof. exact GenTie_C19.tie_accept_verdict. Qed.
Print Assumptions gen_tie_accept_verdict.

Theorem gen_content_type_table : forall nd : bool,
  rwriter_New_content_type nd = FFall
    (if nd then ["w.Header().Set(""Content-Type"", mediaTypeNDJson)"; "w.Header().Set(""Connection"", ""Keep-Alive"")";
                 "w.Header().Set(""X-Content-Type-Options"", ""nosniff"")"]
     else ["w.Header().Set(""Content-Type"", mediaTypeJson)"])%string.
Proof. exact GenTie_C19.content_type_table. Qed.
Print Assumptions gen_content_type_table.

Theorem gen_WriteHeader_table : forall code st : Z,
  match rwriter_WriteHeader code st with
  | FFall (st', tr) => st' = (if code =? 200 then st else code) /\ (tr = [] <-> code = 200)
  | _ => False
  end.
Proof. exact GenTie_C19.WriteHeader_table. Qed.
Print Assumptions gen_WriteHeader_table.

Theorem gen_tie_Close : forall s : pwstate,
  close_class (rwriter_ProviderResponseWriter_Close (Z.of_nat (pw_count s))
                 (match w_mode (pw_w s) with ND => true | JS => false end))
  = Some (match pw_close s with
          | Err c => c
          | Ok (BLines _) => 0%N
          | Ok (BDoc _) => 1%N
          | _ => 99%N
          end).
Proof. exact GenTie_C19.tie_Close. Qed.
Print Assumptions gen_tie_Close.

Theorem gen_tie_WriteProviderResult : forall (s : pwstate) (r : presult),
  match rwriter_ProviderResponseWriter_WriteProviderResult None (Z.of_nat (pw_count s))
          (match w_mode (pw_w s) with ND => true | JS => false end) with
  | FReturn ret (cnt, tr) =>
      ret = "return nil"%string /\ cnt = Z.of_nat (pw_count (pw_write s r)) /\
      (* NDJSON: encoded and flushed at once; JSON: kept for Close *)
      (In "pw.Flush()"%string tr <-> w_mode (pw_w s) = ND) /\
      (In "pw.result.ProviderResults = append(pw.result.ProviderResults, pr)"%string tr <-> w_mode (pw_w s) = JS)
  | _ => False
  end.
Proof. exact GenTie_C19.tie_WriteProviderResult. Qed.
Print Assumptions gen_tie_WriteProviderResult.

Theorem gen_MatchQueryParam_table : forall (value : list N) (present : bool) (labels : list (list N)),
  rwriter_MatchQueryParam value labels present =
  if present then (true, existsb (fun l => Gen_Funcs_prelude.bytes_eqb l value) labels) else (false, false).
Proof. exact GenTie_C19.MatchQueryParam_table. Qed.
Print Assumptions gen_MatchQueryParam_table.

Theorem gen_tie_FromResponse : forall (new : option string -> Z -> option string) (status : Z) (body : bytes),
  let t := trim_space body in
  let msg := if is_nil t then None else Some (string_of_bytes t) in
  apierror_FromResponse new trim_space status body = (if status =? 0 then msg else new msg status)
  /\ from_response status body =
     (if status =? 0 then (if is_nil t then None else Some (Some t, 0))
      else Some (if is_nil t then None else Some t, status)).
Proof. exact GenTie_C19.tie_FromResponse. Qed.
Print Assumptions gen_tie_FromResponse.

Theorem gen_tie_DecodeError_tail : forall (e0 : option string) (msg : list N) (st : Z),
  match apierror_DecodeError_tail msg st e0 with
  | FReturn s _ => s = (if (st =? 0)%Z then "return err" else "return New(err, e.Status)")%string
  | _ => False
  end.
Proof. exact GenTie_C19.tie_DecodeError_tail. Qed.
Print Assumptions gen_tie_DecodeError_tail.

Theorem gen_Error_Error_table : forall (err : option string) (st : Z) (text : list N),
  match apierror_Error_Error text err st with
  | FReturn s _ =>
      s = (match err with
           | Some _ => "return e.err.Error()"
           | None => if (st =? 0)%Z then "return """""
                     else if is_nil text then "return fmt.Sprintf(""%d"", e.status)"
                     else "return fmt.Sprintf(""%d %s"", e.status, text)"
           end)%string
  | _ => False
  end.
Proof. exact GenTie_C19.Error_Error_table. Qed.
Print Assumptions gen_Error_Error_table.
