(* ---- ties to the Gallina regenerated from the Go source (proofs/GenTie_C20.v) ---- *)
From Coq Require Import ZArith NArith List Bool Lia String.
From Lib Require Import Bytes Escape.
From Model Require Import C20_Maurl C20_Mautil.
From Proofs Require Import GenTie_Lib.
From Gen Require Import Gen_Consts Gen_Funcs_prelude Gen_Funcs_maurl Gen_Funcs_mautil.
Import ListNotations.
Local Open Scope Z_scope.
From Proofs Require Import GenTie_C20.

Theorem gen_tie_ToURL_scheme : forall m : maddr,
  maurl_ToURL_scheme (existsb is_http m) (existsb is_https m) (existsb is_tls m) (existsb is_ws m) (existsb is_wss m)
  = FFall (scheme_bytes (scheme_of m)).
Proof. exact GenTie_C20.tie_ToURL_scheme. Qed.
Print Assumptions gen_tie_ToURL_scheme.

Theorem gen_tie_ToURL_path : forall (unesc_new : bytes -> res bytes) (m : maddr),
  maurl_ToURL_path (fun b => to_go (path_unescape b)) (fun b => to_go (unesc_new b))
     (match first_httppath m with Some b => httppath_bts b | None => [] end)
     (match first_httpath m with Some b => b | None => [] end)
     None                                       (* err is nil at this point of ToURL *)
     (has (first_httppath m)) (has (first_httpath m))
  = FFall (path_of_with unesc_new m).
Proof. exact GenTie_C20.tie_ToURL_path. Qed.
Print Assumptions gen_tie_ToURL_path.

Theorem gen_ToURL_host_brackets_table :
  forall (IP : Type) (parse : list N -> IP) (isnil : IP -> bool) (to4 : IP -> IP) (equal : IP -> IP -> bool)
         (sprintf : list N -> list N -> list N) (host : list N),
  maurl_ToURL_host_brackets IP sprintf parse isnil equal to4 host
  = FFall (if negb (isnil (parse host)) && negb (equal (to4 (parse host)) (parse host))
           then sprintf (bytes_of_string "[%s]") host else host).
Proof. exact GenTie_C20.ToURL_host_brackets_table. Qed.
Print Assumptions gen_ToURL_host_brackets_table.

Theorem gen_pathVal_table : forall (index : list N -> Z -> Z) (b : list N),
  maurl_pathVal index b = if 0 <=? index b 47 then Some "encoded path '%s' contains a slash"%string else None.
Proof. exact GenTie_C20.pathVal_table. Qed.
Print Assumptions gen_pathVal_table.

Theorem gen_tie_FilterPublic_keep : forall a : addr,
  mautil_FilterPublic_keep (option (N * bool)) addr N (fun a => (comp_of a, a)) Z.of_N
     (fun c => match c with None => true | Some _ => false end) a_nil
     comp_code comp_value a (a_unspec a) (a_public a)
  = keep_public a.
Proof. exact GenTie_C20.tie_FilterPublic_keep. Qed.
Print Assumptions gen_tie_FilterPublic_keep.

Theorem gen_tie_FindHTTPAddrs_keep : forall a : addr,
  mautil_FindHTTPAddrs_keep addr N Z.of_N a_nil a_protos a = has_http a.
Proof. exact GenTie_C20.tie_FindHTTPAddrs_keep. Qed.
Print Assumptions gen_tie_FindHTTPAddrs_keep.

Theorem gen_FilterPublic_nil_result_table : forall (T : Type) (l : list T),
  mautil_FilterPublic_nil_result T l = if is_nil l then FReturn "return nil"%string [] else FFall [].
Proof. exact GenTie_C20.FilterPublic_nil_result_table. Qed.
Print Assumptions gen_FilterPublic_nil_result_table.

Theorem gen_MultiaddrsEqual_head_table : forall (T : Type) (a b : list T),
  mautil_MultiaddrsEqual_head T a b =
  if negb (len a =? len b) then FReturn "return false"%string []
  else if len a =? 0 then FReturn "return true"%string []
  else if len a =? 1 then FReturn "return ma1[0].Equal(ma2[0])"%string []
  else FFall [].
Proof. exact GenTie_C20.MultiaddrsEqual_head_table. Qed.
Print Assumptions gen_MultiaddrsEqual_head_table.
