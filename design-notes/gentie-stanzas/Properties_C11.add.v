(* ---- ties to the Gallina regenerated from the Go source (proofs/GenTie_C11.v) ---- *)
From Coq Require Import ZArith NArith List Bool Lia String.
From Lib Require Import Bytes Varint.
From Model Require Import C11_Metadata.
From Proofs Require Import GenTie_Lib.
From Gen Require Import Gen_Consts Gen_Funcs_prelude Gen_Funcs_metadata.
Import ListNotations.
Local Open Scope Z_scope.
From Proofs Require Import GenTie_C11.

Theorem gen_tie_ids :
  metadata_Bitswap_ID = Z.of_N id_bitswap /\
  metadata_GraphsyncFilecoinV1_ID = Z.of_N id_graphsync /\
  metadata_IpfsGatewayHttp_ID = Z.of_N id_gateway.
Proof. exact GenTie_C11.tie_ids. Qed.
Print Assumptions gen_tie_ids.

Theorem gen_tie_Validate : forall m : list proto,
  metadata_Metadata_Validate proto idZ m =
  match validate m with
  | Ok _ => None
  | Err c => Some (if (c =? EEmpty)%N then "at least one transport must be specified"
                   else "metadata transports must be sorted by ID")%string
  | Panic _ => None
  end.
Proof. exact GenTie_C11.tie_Validate. Qed.
Print Assumptions gen_tie_Validate.

Theorem gen_tie_Get : forall (m : list proto) (id : N) (dflt : proto),
  metadata_Metadata_Get proto dflt idZ (Z.of_N id) m = match get m id with Some p => p | None => dflt end.
Proof. exact GenTie_C11.tie_Get. Qed.
Print Assumptions gen_tie_Get.

Theorem gen_tie_Protocols : forall m : list proto,
  metadata_Metadata_Protocols proto idZ m = map Z.of_N (protocols m).
Proof. exact GenTie_C11.tie_Protocols. Qed.
Print Assumptions gen_tie_Protocols.

Theorem gen_tie_Unknown_ReadFrom_tail : forall (usz : Z -> Z) (pl : list N) (size v n : Z) (err : option string) (p1 p2 : list N),
  match metadata_Unknown_ReadFrom_tail usz err n p1 p2 size pl v with
  | FReturn s (cnt, _) =>
      if Z.of_N max_metadata_size <? size
      then s = "return cr.readCount, ErrTooLong"%string
      else cnt = usz v + usz size + n /\ (err <> None \/ size <> n)
  | FFall (cnt, _) => (size <=? Z.of_N max_metadata_size) = true /\ err = None /\ size = n /\ cnt = usz v + usz size + n
  | _ => False
  end.
Proof. exact GenTie_C11.tie_Unknown_ReadFrom_tail. Qed.
Print Assumptions gen_tie_Unknown_ReadFrom_tail.

Theorem gen_read_unknown_decisions : forall data v k1 size k2,
  Varint.dec data = Ok (v, k1) -> Varint.dec (skipn k1 data) = Ok (size, k2) ->
  let body := firstn (N.to_nat size) (skipn (k1 + k2) data) in
  fst (read_unknown data) =
    if (max_metadata_size <? size)%N then Err ETooLong
    else if (Nat.eqb (List.length body) 0 && (0 <? size)%N)%bool then Err EEOF       (* r.Read: io.EOF *)
    else if negb (N.of_nat (List.length body) =? size)%N then Err EShort               (* size != n *)
    else Ok (PUnknown v (enc v ++ enc size ++ body)%list, (List.length (enc v) + List.length (enc size) + List.length body)%nat).
Proof. exact GenTie_C11.read_unknown_decisions. Qed.
Print Assumptions gen_read_unknown_decisions.

Theorem gen_tie_Graphsync_id_check : forall v : N,
  match metadata_GraphsyncFilecoinV1_ReadFrom_id_check (Z.of_N v) with
  | FReturn _ _ => (v =? id_graphsync)%N = false
  | FFall _ => (v =? id_graphsync)%N = true
  | _ => False
  end.
Proof. exact GenTie_C11.tie_Graphsync_id_check. Qed.
Print Assumptions gen_tie_Graphsync_id_check.

Theorem gen_tie_Graphsync_trailing : forall (data : list N) (n : Z),
  match metadata_GraphsyncFilecoinV1_UnmarshalBinary_tail data None n with
  | FReturn s _ => s = (if (n =? len data)%Z then "return nil" else "return dagcbor.ErrTrailingBytes")%string
  | _ => False
  end.
Proof. exact GenTie_C11.tie_Graphsync_trailing. Qed.
Print Assumptions gen_tie_Graphsync_trailing.

Theorem gen_tie_Bitswap_ReadFrom_tail : forall (want buf : bytes),
  match metadata_Bitswap_ReadFrom_tail want buf None (len buf) (len want) with
  | FReturn s (cnt, _) =>
      cnt = len buf /\
      s = (if negb (Nat.eqb (List.length buf) (List.length want)) then "return bRead, fmt.Errorf(""expected %d readable bytes but read %d"", wantLen, read)"
           else if Bytes.bytes_eqb buf want then "return bRead, nil"
           else "return bRead, fmt.Errorf(""transport ID does not match %s"", multicodec.TransportBitswap)")%string
  | _ => False
  end.
Proof. exact GenTie_C11.tie_Bitswap_ReadFrom_tail. Qed.
Print Assumptions gen_tie_Bitswap_ReadFrom_tail.
