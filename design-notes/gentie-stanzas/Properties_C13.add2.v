(* ---- phase 2: further ties to the Gallina regenerated from the Go source (proofs/GenTie_C13.v) ---- *)
From Coq Require Import ZArith NArith List Bool Lia String.
From Lib Require Import Bytes Cid.
From Model Require Import C13_DagCbor C13_IpldSchema.
From Proofs Require Import GenTie_Lib.
From Gen Require Import Gen_Consts Gen_Funcs_prelude Gen_Funcs_schema.
Import ListNotations.
Local Open Scope Z_scope.
From Proofs Require Import GenTie_C13.

Theorem gen_tie_Validate : forall a : ad,
  validate a = isNone (schema_Advertisement_Validate (a_ctx a) (a_meta a)).
Proof. exact GenTie_C13.tie_Validate. Qed.
Print Assumptions gen_tie_Validate.

Theorem gen_Validate_error_order : forall ctx md : list N,
  schema_MaxContextIDLen < len ctx ->
  schema_Advertisement_Validate ctx md = Some "context id too long"%string.
Proof. exact GenTie_C13.Validate_error_order. Qed.
Print Assumptions gen_Validate_error_order.
