(* ---- ties to the Gallina regenerated from the Go source (proofs/GenTie_C04.v) ---- *)
From Coq Require Import ZArith NArith List Bool Lia String.
From Lib Require Import Bytes.
From Model Require Import C04_SyncFailure.
From Proofs Require Import GenTie_Lib.
From Gen Require Import Gen_Consts Gen_Funcs_prelude Gen_Funcs_ipnisync.
Import ListNotations.
Local Open Scope Z_scope.
From Proofs Require Import GenTie_C04.

Theorem gen_tie_fetch_error_ladder : forall (sy : syncer) (tried : nat) (done_retry reset : bool) (root : nat),
  read_after_error
    (ipnisync_fetch_error_ladder nat 0%nat reset done_retry (Z.of_nat tried) (sy_nopath sy) root (sy_urls sy))
  = Some (model_after_error sy tried done_retry reset).
Proof. exact GenTie_C04.tie_fetch_error_ladder. Qed.
Print Assumptions gen_tie_fetch_error_ladder.

Theorem gen_tie_fetch_status_switch : forall (sy : syncer) (try_nopath : bool) (c : N) (U : Type) (root cur : U),
  read_after_status
    (ipnisync_fetch_status_switch U (Z.of_N c) root (sy_nopath sy) (sy_plain sy) cur try_nopath)
  = Some (model_after_status sy try_nopath c).
Proof. exact GenTie_C04.tie_fetch_status_switch. Qed.
Print Assumptions gen_tie_fetch_status_switch.
