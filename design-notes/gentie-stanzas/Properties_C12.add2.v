(* ---- phase 2: further ties to the Gallina regenerated from the Go source (proofs/GenTie_C12.v) ---- *)
From Coq Require Import ZArith NArith List Bool Lia String.
From Lib Require Import Bytes.
From Model Require Import C12_DHash.
From Proofs Require Import C12_DHash GenTie_Lib.
From Gen Require Import Gen_Consts Gen_Funcs_prelude Gen_Funcs_dhash.
Import ListNotations.
Local Open Scope Z_scope.
From Gen Require Import Gen_Funcs_findclient.
From Proofs Require Import GenTie_C12.

Theorem gen_FindAsync_skip_ladder_table :
  forall (dvk : list N -> list N -> list N * option string) (split : list N -> list N * list N * option string)
         (mh evk md : list N) (mderr : option string),
  match findclient_FindAsync_skip_ladder dvk split mh evk mderr md with
  | FFall _ =>
      snd (dvk evk mh) = None /\ snd (split (fst (dvk evk mh))) = None /\ mderr = None /\ md <> []
  | FContinue _ _ =>
      snd (dvk evk mh) <> None \/ snd (split (fst (dvk evk mh))) <> None \/ mderr <> None \/ md = []
  | _ => False
  end.
Proof. exact GenTie_C12.FindAsync_skip_ladder_table. Qed.
Print Assumptions gen_FindAsync_skip_ladder_table.
