(* ---- ties to the Gallina regenerated from the Go source (proofs/GenTie_C01.v) ---- *)
From Coq Require Import ZArith NArith List Bool Lia String.
From Lib Require Import Bytes.
From Model Require Import C01_ChainSync.
From Gen Require Import Gen_Funcs_prelude Gen_Funcs_dagsync.
Import ListNotations.
Local Open Scope Z_scope.
From Proofs Require Import GenTie_C01.

Theorem gen_tie_recursionLimit : forall depth,
  rl depth = dagsync_recursionLimit RL rl_depth rl_none depth.
Proof. exact GenTie_C01.tie_recursionLimit. Qed.
Print Assumptions gen_tie_recursionLimit.

Theorem gen_tie_SyncAdChain_limits : forall (cfg : subcfg) (st : substate) (a : adcall),
  dagsync_SyncAdChain_limits ocid ocid RL ocid_eqb rl_depth rl_none ocid_isnil (fun c => c) None
     (eff_latest cfg st)               (* s.GetLatestSync(peerInfo.ID) *)
     None                              (* cid.Undef *)
     (a_depth a) (a_resync a) (a_seg a) (a_stop a)
     (rl (c_ads_depth cfg))            (* s.adsDepthLimit = recursionLimit(opts.adsDepthLimit), NewSubscriber L239 *)
     (c_first_depth cfg) (c_seg_depth cfg)
  = FFall (go_depth cfg a (go_stop cfg st a), go_stop cfg st a, resolve_seg cfg (a_seg a)).
Proof. exact GenTie_C01.tie_SyncAdChain_limits. Qed.
Print Assumptions gen_tie_SyncAdChain_limits.

Theorem gen_tie_handle_segment_decision : forall (segdl : Z) (h : hook_kind) (lim : RL),
  dagsync_handle_segment_decision hook_kind RL (fun h => negb (has_hook h)) None rl_depth_of rl_mode
     h segdl (lim, true)
  = FFall (seg_enabled segdl h lim).
Proof. exact GenTie_C01.tie_handle_segment_decision. Qed.
Print Assumptions gen_tie_handle_segment_decision.

Theorem gen_seg_loop_uses_seg_step : forall f w v stop orig segdl h nd dsf next acc,
  seg_loop (S f) w v stop orig segdl h nd dsf next acc =
  let o := walk (walk_fuel w) w v stop (Some nd) next (h_store acc) in
  match o_res o with
  | WOk =>
    let acc' := HO (h_hooks acc ++ o_order o) (h_reqs acc ++ o_reqs o) (o_store o)
                   (h_count acc + length (o_order o)) None in
    match seg_step orig segdl nd dsf stop (nominated w h (o_order o)) with
    | SegStop => acc'
    | SegNext nd' dsf' n => seg_loop f w v stop orig segdl h nd' dsf' n acc'
    end
  | e => HO (h_hooks acc) (h_reqs acc ++ o_reqs o) (o_store o) 0 (Some e)
  end.
Proof. exact GenTie_C01.seg_loop_uses_seg_step. Qed.
Print Assumptions gen_seg_loop_uses_seg_step.

Theorem gen_tie_handle_segment_step : forall (orig : option nat) (segdl nd dsf : nat) (stop nom : option cid),
  read_step nom
    (dagsync_handle_segment_step ocid ocid_eqb ocid_isnil
       (Z.of_nat segdl) stop
       (rl_depth_of orig) (rl_mode orig)
       false             (* segSync.nextSyncCid.Equals(cid.Undef): None below stands for nil and for cid.Undef *)
       (Z.of_nat dsf)
       None              (* cid.Undef *)
       (Z.of_nat nd)
       None              (* segSync.err: no hook failure *)
       nom)              (* *segSync.nextSyncCid *)
  = Some (seg_step orig segdl nd dsf stop nom).
Proof. exact GenTie_C01.tie_handle_segment_step. Qed.
Print Assumptions gen_tie_handle_segment_step.

Theorem gen_tie_SyncEntries_scoped : forall (T : Type) (sel h : T) (depth : Z),
  match dagsync_SyncEntries_scoped T h depth sel with
  | FFall tr => (depth =? 0) = match tr with [] => true | _ => false end
  | _ => False
  end.
Proof. exact GenTie_C01.tie_SyncEntries_scoped. Qed.
Print Assumptions gen_tie_SyncEntries_scoped.
