(* ---- phase 2: further ties to the Gallina regenerated from the Go source (proofs/GenTie_C16.v) ---- *)
From Coq Require Import ZArith NArith List Bool Lia String.
From Lib Require Import Bytes.
From Model Require Import Announce_Receiver C16_ReceiverClose.
From Proofs Require Import GenTie_Lib.
From Gen Require Import Gen_Consts Gen_Funcs_prelude Gen_Funcs_announce.
Import ListNotations.
Local Open Scope Z_scope.
From Proofs Require Import GenTie_C16.

Theorem gen_tie_Receiver_Close : forall (CF SD SUB TOP : Type) (nilCF : CF -> bool) (nilSD : SD -> bool) (nilSUB : SUB -> bool) (closeSD : SD -> option string) (closeTOP : TOP -> option string) (cancelPubsub cancelWatch : CF) (sender : SD) (topic : TOP) (sub : SUB) (closed : bool), match go_close CF SD SUB TOP nilCF nilSD nilSUB closeSD closeTOP cancelPubsub cancelWatch sender topic sub closed with | FReturn ret (closed', tr) => pcs closed tr = close_path closed (negb (nilCF cancelWatch)) /\ closed' = true /\ (closed = true -> ret = "return nil" /\ tr = ["r.announceMutex.Lock()"; "r.announceMutex.Unlock()"]) | _ => False end.
Proof. exact GenTie_C16.tie_Receiver_Close. Qed.
Print Assumptions gen_tie_Receiver_Close.

Theorem gen_Close_cancels_sub_under_lock : forall (CF SD SUB TOP : Type) (nilCF : CF -> bool) (nilSD : SD -> bool) (nilSUB : SUB -> bool) (closeSD : SD -> option string) (closeTOP : TOP -> option string) (cancelPubsub cancelWatch : CF) (sender : SD) (topic : TOP) (sub : SUB), match go_close CF SD SUB TOP nilCF nilSD nilSUB closeSD closeTOP cancelPubsub cancelWatch sender topic sub false with | FReturn _ (_, tr) => nilSUB sub = false -> exists rest : list string, tr = "r.announceMutex.Lock()" :: "r.closed = true" :: "r.topicSub.Cancel()" :: "r.announceMutex.Unlock()" :: "close(r.done)" :: rest | _ => False end.
Proof. exact GenTie_C16.Close_cancels_sub_under_lock. Qed.
Print Assumptions gen_Close_cancels_sub_under_lock.

Theorem gen_model_close_order : forall (s : st) (t : nat) (th : thread) (c : nat),
  (t_pc th = ClCheck -> step_thread s t th c = goto s t th (if closed s then ClEarlyUnlock else ClSet)) /\
  (t_pc th = ClEarlyUnlock -> step_thread s t th c = ret (with_mu s None) t th RetEarly) /\
  (t_pc th = ClSet -> step_thread s t th c = goto (do_set_closed s) t th ClUnlock) /\
  (t_pc th = ClUnlock -> step_thread s t th c = goto (with_mu s None) t th ClCloseDone) /\
  (t_pc th = ClCloseDone -> step_thread s t th c = goto (do_close_done s) t th ClCancelWatch) /\
  (t_pc th = ClCancelWatch -> step_thread s t th c =
     if has_watcher s then goto (do_cancel_watch s) t th ClWaitWatch else ret s t th RetNil).
Proof. exact GenTie_C16.model_close_order. Qed.
Print Assumptions gen_model_close_order.

Theorem gen_tie_UncacheCid :
  announce_Receiver_UncacheCid
  = FFall ["r.announceMutex.Lock()"; "r.announceCache.remove(adCid.String())"; "r.announceMutex.Unlock()"]%string.
Proof. exact GenTie_C16.tie_UncacheCid. Qed.
Print Assumptions gen_tie_UncacheCid.

Theorem gen_tie_announceCheck_closed : forall (T : Type) (isnil : T -> bool) (allow : T) (called closed hit : bool),
  read_check (announce_announceCheck T isnil called hit allow closed)
  = Some (check_result (isnil allow || called) closed hit) /\
  (* the closed flag is read under the mutex, after the allow callback *)
  match announce_announceCheck T isnil called hit allow closed with
  | FReturn _ tr => (isnil allow || called) = true ->
                    tr = ["r.announceMutex.Lock()"; "defer r.announceMutex.Unlock()"]%string
  | _ => False
  end.
Proof. exact GenTie_C16.tie_announceCheck_closed. Qed.
Print Assumptions gen_tie_announceCheck_closed.

Theorem gen_model_direct_closed : forall (s : st) (t : nat) (th : thread) (c : nat),
  (t_pc th = DiAllow -> step_thread s t th c =
     if call_allowed (t_call th) then goto s t th DiLock else ret s t th RetIgnored) /\
  (t_pc th = DiCheck -> step_thread s t th c =
     if closed s then goto s t th DiUnlockClosed else goto s t th DiUpdate) /\
  (t_pc th = DiUnlockClosed -> step_thread s t th c = ret (with_mu s None) t th RetClosed).
Proof. exact GenTie_C16.model_direct_closed. Qed.
Print Assumptions gen_model_direct_closed.
