(* ---- phase 2: further ties to the Gallina regenerated from the Go source (proofs/GenTie_C20.v) ---- *)
From Coq Require Import ZArith NArith List Bool Lia String.
From Lib Require Import Bytes Escape.
From Model Require Import C20_Maurl C20_Mautil.
From Proofs Require Import GenTie_Lib.
From Gen Require Import Gen_Consts Gen_Funcs_prelude Gen_Funcs_maurl Gen_Funcs_mautil.
Import ListNotations.
Local Open Scope Z_scope.
From Proofs Require Import GenTie_C20.

Theorem gen_tie_CleanPeerAddrInfo : forall (nilv dflt : addr) (oof : frag (list addr)) (fuel : nat) (l : list addr),
  (List.length l < fuel)%nat ->
  mautil_CleanPeerAddrInfo_loop addr a_nil nilv dflt fuel oof l
  = match clean_f fuel l with Ok t => FFall t | _ => oof end.
Proof. exact GenTie_C20.tie_CleanPeerAddrInfo. Qed.
Print Assumptions gen_tie_CleanPeerAddrInfo.

Theorem gen_FromURL_tail_table : forall (C M U : Type) (join : M -> C -> M) (newc : list N -> list N -> C * option string) (qesc : list N -> list N) (pathOf schemeOf : U -> list N) (u : U) (nHTTPPATH nTCP : list N), (forall n v : list N, snd (newc n v) = None) -> forall (port : list N) (host : M), match maurl_FromURL_tail C M U join newc qesc pathOf schemeOf u nHTTPPATH nTCP port host with | FReturn ret (_, tr) => ret = "return joint, nil" /\ existsb (String.eqb "wport := multiaddr.Join(*addr, port)") tr = negb (is_nil port) /\ existsb (String.eqb "joint = multiaddr.Join(joint, httppath)") tr = negb (is_nil (pathOf u)) | _ => False end.
Proof. exact GenTie_C20.FromURL_tail_table. Qed.
Print Assumptions gen_FromURL_tail_table.

Theorem gen_model_from_url_parts : forall esc (u : url),
  port_comps u = match u_port u with None => Ok [] | Some p => q <- port_stb p ;; Ok [CTcp q] end /\
  (C20_Maurl.is_nil (u_path u) = true -> forall h p, host_comp u = Ok h -> port_comps u = Ok p ->
     from_url_with esc u = Ok (h :: p ++ [scheme_comp (u_scheme u)])%list).
Proof. exact GenTie_C20.model_from_url_parts. Qed.
Print Assumptions gen_model_from_url_parts.
