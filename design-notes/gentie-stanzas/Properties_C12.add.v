(* ---- ties to the Gallina regenerated from the Go source (proofs/GenTie_C12.v) ---- *)
From Coq Require Import ZArith NArith List Bool Lia String.
From Lib Require Import Bytes.
From Model Require Import C12_DHash.
From Proofs Require Import C12_DHash GenTie_Lib.
From Gen Require Import Gen_Consts Gen_Funcs_prelude Gen_Funcs_dhash.
Import ListNotations.
Local Open Scope Z_scope.
From Proofs Require Import GenTie_C12.

Theorem gen_tie_DecryptValueKey : forall (P : prims) aes (evk mh : bytes),
  agreesE (decrypt_aes P (firstn nonce_len evk) (skipn nonce_len evk) mh)
          (aes (firstn nonce_len evk) (skipn nonce_len evk) mh) ->
  agrees (decrypt_value_key P evk mh) (dhash_DecryptValueKey aes evk mh).
Proof. exact GenTie_C12.tie_DecryptValueKey. Qed.
Print Assumptions gen_tie_DecryptValueKey.

Theorem gen_tie_DecryptMetadata : forall (P : prims) aes (emd vk : bytes),
  agreesE (decrypt_aes P (firstn nonce_len emd) (skipn nonce_len emd) vk)
          (aes (firstn nonce_len emd) (skipn nonce_len emd) vk) ->
  agrees (decrypt_metadata P emd vk) (dhash_DecryptMetadata aes emd vk).
Proof. exact GenTie_C12.tie_DecryptMetadata. Qed.
Print Assumptions gen_tie_DecryptMetadata.

Theorem gen_DecryptValueKey_no_panic : forall aes evk mh, dhash_DecryptValueKey aes evk mh <> GoPanic.
Proof. exact GenTie_C12.DecryptValueKey_no_panic. Qed.
Print Assumptions gen_DecryptValueKey_no_panic.

Theorem gen_tie_EncryptValueKey : forall (P : prims) (vk mh : bytes),
  (forall c, encrypt_aes P vk mh <> Panic c) ->
  match encrypt_value_key P vk mh, dhash_EncryptValueKey (fun p k => to_go3 (encrypt_aes P p k)) vk mh with
  | Ok b, (b', None) => b = b'
  | Err _, (_, Some _) => True
  | _, _ => False
  end.
Proof. exact GenTie_C12.tie_EncryptValueKey. Qed.
Print Assumptions gen_tie_EncryptValueKey.

Theorem gen_tie_EncryptMetadata : forall (P : prims) (md vk : bytes),
  (forall c, encrypt_aes P md vk <> Panic c) ->
  match encrypt_metadata P md vk, dhash_EncryptMetadata (fun p k => to_go3 (encrypt_aes P p k)) md vk with
  | Ok b, (b', None) => b = b'
  | Err _, (_, Some _) => True
  | _, _ => False
  end.
Proof. exact GenTie_C12.tie_EncryptMetadata. Qed.
Print Assumptions gen_tie_EncryptMetadata.

Theorem gen_tie_deriveKey : forall (sha : bytes -> bytes) pass,
  dhash_deriveKey sha pass = ideal_key sha pass.
Proof. exact GenTie_C12.tie_deriveKey. Qed.
Print Assumptions gen_tie_deriveKey.

Theorem gen_tie_SecondMultihash : forall (sha : bytes -> bytes) seal open mh,
  second_multihash (ideal sha seal open) mh
  = Ok (dhash_SecondMultihash sha (fun d code => (mh_encode (Z.to_N code) d, None)) mh).
Proof. exact GenTie_C12.tie_SecondMultihash. Qed.
Print Assumptions gen_tie_SecondMultihash.

Theorem gen_tie_CreateValueKey : forall pid ctx, dhash_CreateValueKey pid ctx = create_value_key pid ctx.
Proof. exact GenTie_C12.tie_CreateValueKey. Qed.
Print Assumptions gen_tie_CreateValueKey.

Theorem gen_tie_DecryptAES : forall (sha : bytes -> bytes) seal open (nonce ct pass : bytes),
  agreesE (decrypt_aes (ideal sha seal open) nonce ct pass)
          (dhash_DecryptAES bytes bytes (fun k => (k, None)) (fun b => (b, None)) (dhash_deriveKey sha)
                            (go_open open) nonce ct pass).
Proof. exact GenTie_C12.tie_DecryptAES. Qed.
Print Assumptions gen_tie_DecryptAES.

Theorem gen_tie_EncryptAES : forall (sha : bytes -> bytes) seal open (payload pass : bytes),
  law_sha_min sha ->
  dhash_EncryptAES bytes bytes (fun k => (k, None))
     (fun _ n => le64 (Z.to_N n)) (fun b => (b, None)) (dhash_deriveKey sha)
     (fun a b c d => sha (a ++ b ++ c ++ d)%list) seal payload pass
  = match encrypt_aes (ideal sha seal open) payload pass with
    | Ok (n, c) => GoRet (n, c, None)
    | _ => GoPanic
    end.
Proof. exact GenTie_C12.tie_EncryptAES. Qed.
Print Assumptions gen_tie_EncryptAES.
