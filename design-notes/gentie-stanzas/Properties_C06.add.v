(* ---- ties to the Gallina regenerated from the Go source (proofs/GenTie_C06.v) ---- *)
From Coq Require Import ZArith NArith List Bool Lia.
From Model Require Import C06_PCache.
From Gen Require Import Gen_Funcs_prelude Gen_Funcs_pcache.
Local Open Scope Z_scope.
From Proofs Require Import GenTie_C06.

Theorem gen_tie_needMerge : forall u m : nat,
  real_need_merge u m = pcache_needMerge (Z.of_nat u) (Z.of_nat m).
Proof. exact GenTie_C06.tie_needMerge. Qed.
Print Assumptions gen_tie_needMerge.

Theorem gen_needMerge_monotone : forall u u' m m' : Z,
  0 <= u <= u' -> 0 <= m' <= m -> pcache_needMerge u m = true -> pcache_needMerge u' m' = true.
Proof. exact GenTie_C06.needMerge_monotone. Qed.
Print Assumptions gen_needMerge_monotone.
