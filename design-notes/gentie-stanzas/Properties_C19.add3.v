(* ---- phase 3: ties to the Gallina regenerated from the Go source (proofs/GenTie_P3_C19.v) ---- *)
From Coq Require Import ZArith NArith List Bool Lia String.
From Lib Require Import Bytes.
From Model Require Import C19_FindWire.
From Proofs Require Import GenTie_Lib GenTie_C19.
From Gen Require Import Gen_Consts Gen_Funcs_prelude Gen_Funcs_rwriter Gen_Funcs_apierror.
Import ListNotations.
Local Open Scope Z_scope.
From Proofs Require Import GenTie_P3_C19.

Theorem gen_tie_New_path : forall (d58 dhex dcid : list N -> option (list N)) (mhtype cidtype p b0 mh0 cid0 : list N), let k := {| k_b58 := d58 (key_text p); k_hex := dhex (key_text p); k_cid := dcid (key_text p) |} in let run := rwriter_New_path (list N) N (dec_pair d58) (dec_pair dcid) (fun (_ : Z) (mh : list N) => mh) (dec_pair dhex) mhdec path_base path_dir trim_space (fun c : list N => c) p b0 cid0 mh0 cidtype mhtype in match parse_key mhtype cidtype p k with | Ok (_, b, _) => exists tr : list string, run = FFall (b, b, b, tr) | Err c => exists o : list N * list N * list N * list string, run = FReturn (path_err_stmt c) o | Panic _ => False end.
Proof. exact GenTie_P3_C19.tie_New_path. Qed.
Print Assumptions gen_tie_New_path.

Theorem gen_parse_key_no_panic : forall (mhtype cidtype p : bytes) (k : keyv) (c : N), parse_key mhtype cidtype p k <> Panic c.
Proof. exact GenTie_P3_C19.parse_key_no_panic. Qed.
Print Assumptions gen_parse_key_no_panic.

Theorem gen_tie_DecodeError_head : forall (data : list N) (uerr : option string), apierror_DecodeError_head data uerr = (if is_nil data then FReturn "return nil" [] else match uerr with | Some _ => FReturn "return fmt.Errorf(""cannot decode error message: %s"", err)" ["err := json.Unmarshal(data, &e)"] | None => FFall ["err := json.Unmarshal(data, &e)"] end).
Proof. exact GenTie_P3_C19.tie_DecodeError_head. Qed.
Print Assumptions gen_tie_DecodeError_head.

Theorem gen_tie_DecodeError_whole : forall (data : list N) (d : option jv) (uerr e0 : option string), d = None <-> data = [] -> isSome uerr = negb (is_ok (decode_error d)) -> match decode_error d with | Ok (Some ae) => (exists tr : list string, apierror_DecodeError_head data uerr = FFall tr) /\ match apierror_DecodeError_tail (ae_msg ae) (status_of ae) e0 with | FReturn s _ => s = match ae_status ae with | Some _ => "return New(err, e.Status)" | None => "return err" end | _ => False end | Ok None => exists tr : list string, apierror_DecodeError_head data uerr = FReturn "return nil" tr | Err _ => exists tr : list string, apierror_DecodeError_head data uerr = FReturn "return fmt.Errorf(""cannot decode error message: %s"", err)" tr | Panic _ => True end.
Proof. exact GenTie_P3_C19.tie_DecodeError_whole. Qed.
Print Assumptions gen_tie_DecodeError_whole.
