(* ---- phase 3: ties to the Gallina regenerated from the Go source (proofs/GenTie_P3_C12.v) ---- *)
From Coq Require Import ZArith NArith List Bool Lia String.
From Lib Require Import Bytes.
From Model Require Import C12_DHash.
From Proofs Require Import GenTie_Lib.
From Gen Require Import Gen_Consts Gen_Funcs_prelude Gen_Funcs_findclient.
Import ListNotations.
Local Open Scope Z_scope.
From Proofs Require Import GenTie_P3_C12.

Theorem gen_tie_evk_body_pcache : forall (dec_vk dec_md : bytes -> bytes -> res bytes) (P : prims) (st : store) (mh evk : list N) (known : list N -> option N) (sel : Z), match find_one dec_vk dec_md P st (Some known) mh evk with | Ok rs => (exists tr : list string, body dec_vk dec_md P st mh evk (Some known) sel = FFall (rs, tr)) \/ rs = [] /\ (exists tr : list string, body dec_vk dec_md P st mh evk (Some known) sel = FContinue "" ([], tr)) | Err _ => False | Panic _ => True end.
Proof. exact GenTie_P3_C12.tie_evk_body_pcache. Qed.
Print Assumptions gen_tie_evk_body_pcache.

Theorem gen_tie_evk_body_metadata_only : forall (dec_vk dec_md : bytes -> bytes -> res bytes) (P : prims) (st : store) (mh evk : list N) (sel : Z), match find_one dec_vk dec_md P st None mh evk with | Ok [] => exists tr : list string, body dec_vk dec_md P st mh evk None sel = FContinue "" ([], tr) /\ ~ In "resChan <- pr" tr | Ok (r :: rest) => rest = [] /\ snd r = 0%N /\ (exists tr : list string, body dec_vk dec_md P st mh evk None sel = (if sel =? 0 then FContinue "" ([], (tr ++ ["resChan <- pr"])%list) else FReturn "return ctx.Err()" ([], (tr ++ ["<-ctx.Done()"])%list))) | Err _ => False | Panic _ => True end.
Proof. exact GenTie_P3_C12.tie_evk_body_metadata_only. Qed.
Print Assumptions gen_tie_evk_body_metadata_only.
