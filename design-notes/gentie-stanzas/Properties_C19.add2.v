(* ---- phase 2: further ties to the Gallina regenerated from the Go source (proofs/GenTie_C19.v) ---- *)
From Coq Require Import ZArith NArith List Bool Lia String.
From Lib Require Import Bytes.
From Model Require Import C19_FindWire.
From Proofs Require Import GenTie_Lib.
From Gen Require Import Gen_Consts Gen_Funcs_prelude Gen_Funcs_rwriter Gen_Funcs_apierror.
Import ListNotations.
Local Open Scope Z_scope.
From Proofs Require Import GenTie_C19.

Theorem gen_tie_accept_scan : forall (M : Type) (m0 : M) (split : list N -> list N -> list (list N)) (parse : list N -> list N * M * option string) (elems : list N -> list mt) (enc : mt -> list N), (forall v : list N, split v (bytes_of_string ",") = map enc (elems v)) -> (forall e : mt, parse (enc e) = match e with | MTErr => ([], m0, Some "mime: invalid media parameter") | _ => (mt_bytes e, m0, None) end) -> forall (prefer : bool) (accepts : list (list N)), match scan_values (fun a b : bool => scan_elems prefer a b false) false false (map elems accepts) with | Some (nd, ok) => rwriter_New_accept_scan M parse split accepts false false prefer = FFall (nd, ok) | None => exists p : bool * bool, rwriter_New_accept_scan M parse split accepts false false prefer = FReturn bad_accept p end.
Proof. exact GenTie_C19.tie_accept_scan. Qed.
Print Assumptions gen_tie_accept_scan.

Theorem gen_Error_Text_table : forall (msg : list N) (sprintf : list N -> Z -> list N) (stext : Z -> list N)
    (join : list (list N) -> list N -> list N) (err : option string) (st : Z),
  apierror_Error_Text msg sprintf stext join err st =
  join ((if st =? 0 then []
         else sprintf (bytes_of_string "%d") st :: (if is_nil (stext st) then [] else [bytes_of_string " "; stext st]))
        ++ (match err with
            | None => []
            | Some _ => (if st =? 0 then [] else [bytes_of_string ": "]) ++ [msg]
            end))%list [].
Proof. exact GenTie_C19.Error_Text_table. Qed.
Print Assumptions gen_Error_Text_table.
