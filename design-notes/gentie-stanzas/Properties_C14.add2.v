(* ---- phase 2: further ties to the Gallina regenerated from the Go source (proofs/GenTie_C14.v) ---- *)
From Coq Require Import ZArith NArith List Bool Lia String.
From Lib Require Import Bytes.
From Model Require Import C14_Events.
From Proofs Require Import GenTie_Lib.
From Gen Require Import Gen_Consts Gen_Funcs_prelude Gen_Funcs_dagsync.
Import ListNotations.
Local Open Scope Z_scope.
From Proofs Require Import GenTie_C14.

Theorem gen_tie_distributeEvents_remove : forall (ch : nat) (l : list nat),
  dagsync_distributeEvents_remove nat Nat.eqb 0%nat 0%nat ch l
  = FFall (swap_remove ch l, if memn ch l then rm_stmts else []).
Proof. exact GenTie_C14.tie_distributeEvents_remove. Qed.
Print Assumptions gen_tie_distributeEvents_remove.

Theorem gen_tie_distributeEvents_add : forall (ch : nat) (l : list nat),
  dagsync_distributeEvents_add nat ch l = FFall (l ++ [ch])%list.
Proof. exact GenTie_C14.tie_distributeEvents_add. Qed.
Print Assumptions gen_tie_distributeEvents_add.

Theorem gen_tie_distributeEvents_forward : forall (ok : bool) (l : list nat),
  dagsync_distributeEvents_forward nat ok l =
  if ok then FFall (l, map (fun _ => "ch <- event"%string) l)
  else FReturn "return"%string (l, map (fun _ => "close(ch)"%string) l).
Proof. exact GenTie_C14.tie_distributeEvents_forward. Qed.
Print Assumptions gen_tie_distributeEvents_forward.

Theorem gen_model_dist_steps : forall (s : core),
  (forall e, d_pc s = DFwd e [] -> cstep s LDist = Some (set_dpc s DSelect)) /\
  (d_pc s = DClosing [] -> cstep s LDist = Some (set_dpc s DDone)) /\
  (forall l x, d_pc s = DSelect -> memn l (d_list s) = true -> lst s l = Some x ->
     exists s', cstep s (LRm l) = Some s' /\ d_list s' = swap_remove l (d_list s)).
Proof. exact GenTie_C14.model_dist_steps. Qed.
Print Assumptions gen_model_dist_steps.

Theorem gen_tie_sendSyncFinishedEvent :
  dagsync_sendSyncFinishedEvent
  = FFall ["h.subscriber.latestSyncHandler.setLatestSync(h.peerID, c)";
           "h.subscriber.inEvents <- SyncFinished{Cid: c, PeerID: h.peerID, Count: count}"]%string.
Proof. exact GenTie_C14.tie_sendSyncFinishedEvent. Qed.
Print Assumptions gen_tie_sendSyncFinishedEvent.
