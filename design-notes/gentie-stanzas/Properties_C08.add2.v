(* ---- phase 2: further ties to the Gallina regenerated from the Go source (proofs/GenTie_C08.v) ---- *)
From Coq Require Import ZArith NArith List Bool Lia String.
From Lib Require Import Bytes.
From Model Require Import C08_AnnounceQueue.
From Model Require C01_ChainSync.
From Proofs Require Import GenTie_Lib.
From Proofs Require GenTie_C01.
From Gen Require Import Gen_Consts Gen_Funcs_prelude Gen_Funcs_dagsync.
Import ListNotations.
Local Open Scope Z_scope.
From Proofs Require Import GenTie_C08.

Theorem gen_tie_watch_pending_slot : forall old : option nat,
  read_swap (dagsync_watch_pending_slot (option nat) (fun o => match o with None => true | Some _ => false end) old)
  = Some (swap_next old).
Proof. exact GenTie_C08.tie_watch_pending_slot. Qed.
Print Assumptions gen_tie_watch_pending_slot.

Theorem gen_model_swap_step : forall v cap (s : st) (t : nat) (th : thread) (ok : bool),
  t_pc th = WSwap ->
  exists s' y, step_thread v cap s t th ok = Some (put s' t (set_pc th (swap_next (pending s (t_h th)))), y) /\
               pending s' (t_h th) = Some (t_msg th).
Proof. exact GenTie_C08.model_swap_step. Qed.
Print Assumptions gen_model_swap_step.

Theorem gen_tie_asyncSyncAdChain_take : forall ctxerr : option string,
  dagsync_asyncSyncAdChain_take ctxerr =
  match ctxerr with
  | Some _ => FReturn "return"%string []
  | None => FFall ["amsg := h.pendingMsg.Swap(nil)"; "h.syncMutex.Lock()"]%string
  end.
Proof. exact GenTie_C08.tie_asyncSyncAdChain_take. Qed.
Print Assumptions gen_tie_asyncSyncAdChain_take.

Theorem gen_model_take_step : forall v cap (s : st) (t : nat) (th : thread) (ok : bool) (m : nat),
  t_pc th = GTake -> pending s (t_h th) = Some m ->
  exists s' y, step_thread v cap s t th ok = Some (put s' t (set_pc (set_msg th m) (if lockfix v then PLockS else PRead)), y) /\
               pending s' (t_h th) = None.
Proof. exact GenTie_C08.model_take_step. Qed.
Print Assumptions gen_model_take_step.

Theorem gen_tie_asyncSyncAdChain_limits : forall (cfg : C01_ChainSync.subcfg) (latest : option C01_ChainSync.cid),
  dagsync_asyncSyncAdChain_limits GenTie_C01.ocid GenTie_C01.RL GenTie_C01.rl_depth GenTie_C01.rl_none GenTie_C01.ocid_isnil
     latest (C01_ChainSync.rl (C01_ChainSync.c_ads_depth cfg)) (C01_ChainSync.c_first_depth cfg)
  = FFall (C01_ChainSync.go_depth cfg
             (C01_ChainSync.ADCALL None None false 0 0 None None) latest, latest).
Proof. exact GenTie_C08.tie_asyncSyncAdChain_limits. Qed.
Print Assumptions gen_tie_asyncSyncAdChain_limits.

Theorem gen_asyncSyncAdChain_outcome_table : forall err : option string,
  dagsync_asyncSyncAdChain_outcome err =
  match err with
  | Some _ => FReturn "return"%string ["h.asyncSyncFailed(nextCid, err)"]%string
  | None => FFall ["updatePeerstore()"; "h.sendSyncFinishedEvent(nextCid, syncCount)"]%string
  end.
Proof. exact GenTie_C08.asyncSyncAdChain_outcome_table. Qed.
Print Assumptions gen_asyncSyncAdChain_outcome_table.

Theorem gen_asyncSyncFailed_table : forall (R : Type) (isnil : R -> bool) (recv : R),
  dagsync_asyncSyncFailed R isnil recv =
  FFall ((if isnil recv then [] else ["h.subscriber.receiver.UncacheCid(c)"%string])
         ++ ["h.subscriber.inEvents <- SyncFinished{Cid: c, PeerID: h.peerID, Err: err}"%string])%list.
Proof. exact GenTie_C08.asyncSyncFailed_table. Qed.
Print Assumptions gen_asyncSyncFailed_table.
