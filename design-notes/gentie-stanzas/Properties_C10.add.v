(* ---- ties to the Gallina regenerated from the Go source (proofs/GenTie_C10.v) ---- *)
From Coq Require Import ZArith NArith List Bool Lia String.
From Lib Require Import Bytes Varint Cid Cbor.
From Model Require Import C10_AnnounceMsg.
From Proofs Require Import GenTie_Lib.
From Gen Require Import Gen_Consts Gen_Funcs_prelude Gen_Funcs_message.
Import ListNotations.
Local Open Scope Z_scope.
From Proofs Require Import GenTie_C10.

Theorem gen_tie_MarshalCBOR : forall m : msg, agrees (enc m) (go_marshal m).
Proof. exact GenTie_C10.tie_MarshalCBOR. Qed.
Print Assumptions gen_tie_MarshalCBOR.

Theorem gen_tie_addrs_header : forall maj n : N,
  read_guard (message_UnmarshalCBOR_addrs_header (Z.of_N n) (Z.of_N maj))
  = Some (match guard2 MaxLength MajArray maj n with Some _ => true | None => false end).
Proof. exact GenTie_C10.tie_addrs_header. Qed.
Print Assumptions gen_tie_addrs_header.

Theorem gen_tie_addr_header : forall maj n : N,
  read_guard (message_UnmarshalCBOR_addr_header (Z.of_N n) (Z.of_N maj))
  = Some (match guard2 ByteArrayMaxLen MajByteString maj n with Some _ => true | None => false end).
Proof. exact GenTie_C10.tie_addr_header. Qed.
Print Assumptions gen_tie_addr_header.

Theorem gen_tie_extra_header : forall maj n : N,
  read_guard (message_UnmarshalCBOR_extra_header (Z.of_N n) (Z.of_N maj))
  = Some (match guard2 ByteArrayMaxLen MajByteString maj n with Some _ => true | None => false end).
Proof. exact GenTie_C10.tie_extra_header. Qed.
Print Assumptions gen_tie_extra_header.

Theorem gen_dec_addrs_uses_guard2 : forall k b,
  dec_addrs (S k) b =
  ('(maj, extra, r) <~ glift (rd_head b) ;;
   match guard2 ByteArrayMaxLen MajByteString maj extra with
   | Some e => gerr e
   | None =>
     _ <~ gmake_pos 1 extra ;;
     '(x, r') <~ glift (read_full extra r) ;;
     '(xs, r'') <~ dec_addrs k r' ;;
     gret (mk_sl x :: xs, r'')
   end).
Proof. exact GenTie_C10.dec_addrs_uses_guard2. Qed.
Print Assumptions gen_dec_addrs_uses_guard2.

Theorem gen_tie_field_count : forall maj nf : N,
  match message_UnmarshalCBOR_field_count (Z.of_N nf) (Z.of_N maj) with
  | FReturn _ _ => field_guard maj nf = None
  | FFall (has, _) => field_guard maj nf = Some has
  | _ => False
  end.
Proof. exact GenTie_C10.tie_field_count. Qed.
Print Assumptions gen_tie_field_count.

Theorem gen_dec_g_uses_field_guard : forall b,
  dec_g b =
  ('(maj, nf, r1) <~ glift (rd_head b) ;;
   match field_guard maj nf with
   | None => gerr (if negb (maj =? MajArray)%N then EWrongMajor else EFieldCount)
   | Some hasOrigPeer =>
     '(c, r2) <~ rd_cid_g r1 ;;
     '(maj2, n, r3) <~ glift (rd_head r2) ;;
     match guard2 MaxLength MajArray maj2 n with
     | Some e => gerr e
     | None =>
       _ <~ gmake_pos SliceHeader n ;;
       '(addrs, r4) <~ dec_addrs (N.to_nat n) r3 ;;
       '(maj3, e, r5) <~ glift (rd_head r4) ;;
       match guard2 ByteArrayMaxLen MajByteString maj3 e with
       | Some e => gerr e
       | None =>
         _ <~ gmake_pos 1 e ;;
         '(x, r6) <~ glift (read_full e r5) ;;
         if negb hasOrigPeer then gret (Msg (Some c) (mk_sl addrs) (mk_sl x) [], r6) else
         '(s, r7) <~ rd_text_g MaxLength r6 ;;
         gret (Msg (Some c) (mk_sl addrs) (mk_sl x) s, r7)
       end
     end
   end).
Proof. exact GenTie_C10.dec_g_uses_field_guard. Qed.
Print Assumptions gen_dec_g_uses_field_guard.
