(* ---- phase 2: further ties to the Gallina regenerated from the Go source (proofs/GenTie_C10.v) ---- *)
From Coq Require Import ZArith NArith List Bool Lia String.
From Lib Require Import Bytes Varint Cid Cbor.
From Model Require Import C10_AnnounceMsg.
From Proofs Require Import GenTie_Lib.
From Gen Require Import Gen_Consts Gen_Funcs_prelude Gen_Funcs_message.
Import ListNotations.
Local Open Scope Z_scope.
From Gen Require Import Gen_Funcs_httpsender.
From Proofs Require Import GenTie_C10.

Theorem gen_tie_GetAddrs : forall l : list (bytes * aclass),
  match get_addrs l, message_Message_GetAddrs (list N) go_new_maddr go_contains (map encp l) with
  | Ok r, (r', None) => r' = r
  | Err _, (_, Some _) => True
  | _, _ => False
  end.
Proof. exact GenTie_C10.tie_GetAddrs. Qed.
Print Assumptions gen_tie_GetAddrs.

Theorem gen_addIDToAddrs_table : forall (MSG MA AI : Type) (addrsOf : MSG -> list (list N)) (mkai : list N -> list MA -> AI)
    (getaddrs : MSG -> list MA * option string) (msg : MSG) (p2perr : option string) (p2p : list MA) (pid : list N),
  match httpsender_addIDToAddrs MSG MA AI addrsOf mkai getaddrs msg p2perr p2p pid with
  | FReturn ret tr =>
      existsb (String.eqb "msg.SetAddrs(p2pAddrs)") tr =
        (negb (is_nil (addrsOf msg)) && isNone (snd (getaddrs msg)) && isNone p2perr)%bool /\
      (is_nil (addrsOf msg) = true -> ret = "return nil"%string /\ tr = [])
  | _ => False
  end.
Proof. exact GenTie_C10.addIDToAddrs_table. Qed.
Print Assumptions gen_addIDToAddrs_table.
