(* ---- phase 2: further ties to the Gallina regenerated from the Go source (proofs/GenTie_C15.v) ---- *)
From Coq Require Import ZArith NArith List Bool Lia String.
From Lib Require Import Bytes.
From Model Require Import C15_Shutdown.
From Proofs Require Import GenTie_Lib.
From Gen Require Import Gen_Consts Gen_Funcs_prelude Gen_Funcs_dagsync.
Import ListNotations.
Local Open Scope Z_scope.
From Proofs Require Import GenTie_C15.

Theorem gen_tie_doClose : forall (R : Type) (isnil : R -> bool) (closeR : R -> option string) (closed0 : bool) (recv : R),
  match dagsync_doClose R isnil closeR closed0 recv with
  | FReturn ret (closed', tr) =>
      pcs tr = close_path (negb (isnil recv)) /\ closed' = true /\ ret = "return err"%string
  | _ => False
  end.
Proof. exact GenTie_C15.tie_doClose. Qed.
Print Assumptions gen_tie_doClose.

Theorem gen_model_doClose_order : forall (s : st) (t : nat) (th : thread) (c : nat),
  (t_pc th = CSet -> step_thread true s t th c = go s t th CUnlock (with_exp_closed (w_stage 4))) /\
  (t_pc th = CUnlock -> step_thread true s t th c = go s t th CWaitExp (with_mu (w_stage 5) None)) /\
  (t_pc th = CWaitExp -> step_thread true s t th c =
     if none_active s exp_active
     then (if has_recv s then go s t th CRecvClose (w_stage 6) else go s t th CWaitAsync (w_stage 8))
     else None) /\
  (t_pc th = CRecvClose -> step_thread true s t th c = go s t th CWaitWatch (with_recv_closed (w_stage 7))) /\
  (t_pc th = CWaitWatch -> step_thread true s t th c = if watch_done s then go s t th CWaitAsync (w_stage 8) else None) /\
  (t_pc th = CWaitAsync -> step_thread true s t th c =
     if none_active s async_active then go s t th CCloseIn (w_stage 9) else None) /\
  (t_pc th = CWaitDist -> step_thread true s t th c =
     match C14_Events.d_pc (co s) with C14_Events.DDone => go s t th CWaitIC (w_stage 11) | _ => None end) /\
  (t_pc th = CWaitIC -> step_thread true s t th c =
     match ic_pc s with ICEnd => go s t th CPeerstore (w_stage 12) | _ => None end) /\
  (t_pc th = CPeerstore -> step_thread true s t th c = go s t th COnceDone (w_stage 12)).
Proof. exact GenTie_C15.model_doClose_order. Qed.
Print Assumptions gen_model_doClose_order.

Theorem gen_tie_shutdown_gate : forall closed : bool,
  match dagsync_SyncAdChain_shutdown_gate closed with
  | FReturn ret tr => closed = true /\ ret = "return cid.Undef, errors.New(""shutdown"")"%string
                      /\ gate_pcs tr = [ELock; EUnlock]            (* ERefuse: unlock and refuse *)
  | FFall tr => closed = false /\ gate_pcs tr = [ELock; EAdd; EUnlock]
                /\ In "defer s.expSyncWG.Done()"%string tr         (* registered before the lock is released ... *)
  | _ => False
  end.
Proof. exact GenTie_C15.tie_shutdown_gate. Qed.
Print Assumptions gen_tie_shutdown_gate.

Theorem gen_model_gate_order : forall (s : st) (t : nat) (th : thread) (c : nat),
  (t_pc th = ECheck -> step_thread true s t th c = if exp_closed s then go s t th ERefuse u0 else go s t th EAdd u0) /\
  (t_pc th = ERefuse -> step_thread true s t th c = go s t th (Fin RShutdown) (with_mu u0 None)) /\
  (t_pc th = EAdd -> step_thread true s t th c = go s t th EUnlock u0).
Proof. exact GenTie_C15.model_gate_order. Qed.
Print Assumptions gen_model_gate_order.
