(* ---- phase 3: ties to the Gallina regenerated from the Go source (proofs/GenTie_P3_C11.v) ---- *)
From Coq Require Import ZArith NArith List Bool Lia String.
From Lib Require Import Bytes Varint.
From Model Require Import C11_Metadata.
From Proofs Require Import GenTie_Lib C11_Metadata GenTie_C11.
From Gen Require Import Gen_Consts Gen_Funcs_prelude Gen_Funcs_metadata.
Import ListNotations.
Local Open Scope Z_scope.
From Proofs Require Import GenTie_P3_C11.

Theorem gen_tie_UnmarshalBinary_whole : forall (data : list N) (oof : frag (Z * list Z)), let run := metadata_UnmarshalBinary_all Z bufid idfun uvM rdM data (S (Datatypes.length data)) [] oof in match unmarshal data with | Ok l => exists r : Z, len data <= r /\ run = FReturn "return m.Validate()" (r, map idZ l) /\ metadata_Metadata_Validate Z idfun (map idZ l) = None | Err _ => (exists (r : Z) (ps : list Z), run = FReturn "return err" (r, ps)) \/ (exists (r : Z) (l : list proto), run = FReturn "return m.Validate()" (r, map idZ l) /\ metadata_Metadata_Validate Z idfun (map idZ l) <> None) | Panic _ => False end.
Proof. exact GenTie_P3_C11.tie_UnmarshalBinary_whole. Qed.
Print Assumptions gen_tie_UnmarshalBinary_whole.
