(* ---- ties to the Gallina regenerated from the Go source (proofs/GenTie_C18.v) ---- *)
From Coq Require Import ZArith NArith List Bool Lia String.
From Lib Require Import Bytes.
From Model Require Import C18_Requests.
From Proofs Require Import GenTie_Lib.
From Gen Require Import Gen_Consts Gen_Funcs_prelude Gen_Funcs_model.
Import ListNotations.
Local Open Scope Z_scope.
From Proofs Require Import GenTie_C18.

Theorem gen_tie_signer_check : forall signer provider : bytes,
  match model_ReadIngestRequest_signer_check provider signer with
  | FReturn s _ => Bytes.bytes_eqb signer provider = false /\ s = "return nil, errors.New(""request not signed by provider"")"%string
  | FFall _ => Bytes.bytes_eqb signer provider = true
  | _ => False
  end.
Proof. exact GenTie_C18.tie_signer_check. Qed.
Print Assumptions gen_tie_signer_check.

Theorem gen_read_ingest_decision :
  forall (pubkey sigt peerid : Type) verify (peer_id : pubkey -> peerid) peerid_eqb dec_ingest dec_peer w,
  @read_ingest pubkey sigt peerid verify peer_id peerid_eqb dec_ingest dec_peer w =
  match consume_envelope verify dec_ingest dec_peer w ingest_dom with
  | Ok (e, RIngest q) => if peerid_eqb (peer_id (SymCrypto.e_key e)) (ir_provider q) then Ok q else Err ENotSigner
  | Ok (_, _) => Err EWrongType
  | Err c => Err c
  | Panic c => Panic c
  end.
Proof. exact GenTie_C18.read_ingest_decision. Qed.
Print Assumptions gen_read_ingest_decision.

Theorem gen_UnmarshalRecord_guard_table : forall isnil : bool,
  model_IngestRequest_UnmarshalRecord_guard isnil =
  if isnil then FReturn "return fmt.Errorf(""cannot unmarshal IngestRequest to nil receiver"")"%string [] else FFall [].
Proof. exact GenTie_C18.UnmarshalRecord_guard_table. Qed.
Print Assumptions gen_UnmarshalRecord_guard_table.

Theorem gen_ingest_domain_codec :
  model_IngestRequest_Domain = bytes_of_string model_IngestRequestEnvelopeDomain /\
  model_IngestRequest_Codec = bytes_of_string model_IngestRequestEnvelopePayloadType.
Proof. exact GenTie_C18.ingest_domain_codec. Qed.
Print Assumptions gen_ingest_domain_codec.
