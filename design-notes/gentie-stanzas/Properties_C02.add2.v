(* ---- phase 2: further ties to the Gallina regenerated from the Go source (proofs/GenTie_C02.v) ---- *)
From Coq Require Import ZArith NArith List Bool Lia String.
From Lib Require Import Bytes.
From Model Require Import C01_ChainSync C02_FetchVerify.
From Proofs Require Import GenTie_Lib.
From Gen Require Import Gen_Consts Gen_Funcs_prelude Gen_Funcs_ipnisync.
Import ListNotations.
Local Open Scope Z_scope.
From Proofs Require Import GenTie_C02.

Theorem gen_tie_fetchBlock_verify_commit : forall (CID LNK CTX RD WR LC LS CM : Type) (commit : CM -> LNK -> option string) (mkl : CID -> LNK) (mklc : CTX -> LC) (opener : LS -> LC -> WR * CM * option string) (ctx : CTX) (c : CID) (tee : RD) (lsys : LS) (hash : list N) (sumerr : option string) (sum : list N), match go_verify CID LNK CTX RD WR LC LS CM commit mkl mklc opener ctx c tee lsys hash sumerr sum with | FReturn ret tr => has_stmt commit_stmt tr = isNone (snd (opener lsys (mklc ctx))) && isNone sumerr && Bytes.bytes_eqb hash sum /\ (ret = "return nil" <-> has_stmt commit_stmt tr = true /\ commit (snd (fst (opener lsys (mklc ctx)))) (mkl c) = None) | _ => False end.
Proof. exact GenTie_C02.tie_fetchBlock_verify_commit. Qed.
Print Assumptions gen_tie_fetchBlock_verify_commit.

Theorem gen_model_fetch_block_stores : forall (body : Type) (hashes_to : body -> cid -> bool) links_of
    (resp : responder body) (reqs : list cid) (c : cid) (s : bstore body) (b : body),
  local_ok body hashes_to links_of s c = None -> resp (List.length reqs) = Some b ->
  fetch_block body hashes_to links_of resp reqs c s =
    if hashes_to b c then ((reqs ++ [c])%list, (c, b) :: s, Some b) else ((reqs ++ [c])%list, s, None).
Proof. exact GenTie_C02.model_fetch_block_stores. Qed.
Print Assumptions gen_model_fetch_block_stores.

Theorem gen_tie_fetchBlock_present : forall (ND : Type) (isnil : ND -> bool) (n : ND) (err : option string),
  match ipnisync_fetchBlock_present ND isnil err n with
  | FReturn ret _ => ret = "return nil"%string /\ isnil n = false /\ err = None
  | FFall _ => isnil n = true \/ err <> None
  | _ => False
  end.
Proof. exact GenTie_C02.tie_fetchBlock_present. Qed.
Print Assumptions gen_tie_fetchBlock_present.

Theorem gen_model_fetch_block_present : forall (body : Type) (hashes_to : body -> cid -> bool) links_of
    (resp : responder body) (reqs : list cid) (c : cid) (s : bstore body) (b : body),
  local_ok body hashes_to links_of s c = Some b ->
  fetch_block body hashes_to links_of resp reqs c s = (reqs, s, Some b).
Proof. exact GenTie_C02.model_fetch_block_present. Qed.
Print Assumptions gen_model_fetch_block_present.

Theorem gen_tie_walkFetch_opener : forall (CID RD : Type) (c : CID) (ferr rerr : option string) (r : RD) (order : list CID),
  match ipnisync_walkFetch_opener CID RD c ferr rerr r order with
  | FReturn _ (order', _) =>
      order' = if (isNone ferr && isNone rerr)%bool then (order ++ [c])%list else order
  | _ => False
  end.
Proof. exact GenTie_C02.tie_walkFetch_opener. Qed.
Print Assumptions gen_tie_walkFetch_opener.
