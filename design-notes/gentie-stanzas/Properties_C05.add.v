(* ---- ties to the Gallina regenerated from the Go source (proofs/GenTie_C05.v) ---- *)
From Coq Require Import ZArith NArith List Bool Lia String.
From Lib Require Import Bytes.
From Model Require Import C05_AdSignature.
From Proofs Require Import GenTie_Lib.
From Gen Require Import Gen_Consts Gen_Funcs_prelude Gen_Funcs_schema.
Import ListNotations.
Local Open Scope Z_scope.
From Proofs Require Import GenTie_C05.

Theorem gen_tie_signaturePayload_buf : forall (pubkey sigt : Type) (a : ad pubkey sigt) (ent : bytes),
  schema_signaturePayload_buf (a_addrs a) (a_rm a) (a_md a) (a_provider a) (link_bytes (a_prev a)) ent
  = FFall (ad_raw a ent).
Proof. exact GenTie_C05.tie_signaturePayload_buf. Qed.
Print Assumptions gen_tie_signaturePayload_buf.

Theorem gen_tie_extendedProviderSignaturePayload_buf :
  forall (pubkey sigt : Type) (a : ad pubkey sigt) (x : ext pubkey sigt) (p : provider pubkey sigt) (ent : bytes),
  schema_extendedProviderSignaturePayload_buf (a_ctx a) (x_override x) (a_provider a) (link_bytes (a_prev a)) ent
     (p_addrs p) (p_id p) (p_md p)
  = FFall (ep_raw a x p ent).
Proof. exact GenTie_C05.tie_extendedProviderSignaturePayload_buf. Qed.
Print Assumptions gen_tie_extendedProviderSignaturePayload_buf.

Theorem gen_tie_ep_rm_guard : forall (pubkey sigt : Type) H (a : ad pubkey sigt) x p,
  match schema_extendedProviderSignaturePayload_rm_guard (a_rm a) with
  | FReturn _ _ => ep_payload H a x p = Err ERmExt
  | FFall _ => a_rm a = false
  | _ => False
  end.
Proof. exact GenTie_C05.tie_ep_rm_guard. Qed.
Print Assumptions gen_tie_ep_rm_guard.

Theorem gen_tie_oldFormat : forall advID : bytes,
  schema_VerifySignature_oldFormat advID = FFall (negb (Nat.eqb (List.length advID) sig_size)).
Proof. exact GenTie_C05.tie_oldFormat. Qed.
Print Assumptions gen_tie_oldFormat.

Theorem gen_tie_Sign_guard : forall (privkey pubkey sigt : Type) pub sign H (a : ad pubkey sigt) (k : privkey),
  match schema_Sign_guard (match a_ext a with None => true | Some _ => false end) with
  | FReturn _ _ => sign_plain pub sign H a k = Err EHasExt
  | FFall _ => a_ext a = None
  | _ => False
  end.
Proof. exact GenTie_C05.tie_Sign_guard. Qed.
Print Assumptions gen_tie_Sign_guard.

Theorem gen_Validate_caps : forall ctx md : list N,
  schema_Advertisement_Validate ctx md =
  if (schema_MaxContextIDLen <? len ctx) then Some "context id too long"%string
  else if (schema_MaxMetadataLen <? len md) then Some "metadata too long"%string
  else None.
Proof. exact GenTie_C05.Validate_caps. Qed.
Print Assumptions gen_Validate_caps.
