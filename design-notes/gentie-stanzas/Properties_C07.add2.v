(* ---- phase 2: further ties to the Gallina regenerated from the Go source (proofs/GenTie_C07.v) ---- *)
From Coq Require Import ZArith NArith List Bool Lia String.
From stdpp Require Import gmap.
From Model Require Import C06_PCache C07_PCacheConc.
From Proofs Require Import GenTie_Lib GenTie_C06.
From Gen Require Import Gen_Funcs_prelude Gen_Funcs_pcache.
Import ListNotations.
From Proofs Require Import GenTie_C07.

Theorem gen_tie_publication_decision : forall (u m : nat),
  match pcache_Refresh_merge_decision (Z.of_nat m) (Z.of_nat u) with
  | FReturn ret tr =>
      decide_next u m = TStore false /\ ret = "return nil"%string /\
      tr = ["pc.read.Store(&readOnly{m: read.m, u: updates})"; "pc.refreshes.Add(1)"]%string
  | FFall _ => decide_next u m = TAllocM
  | _ => False
  end.
Proof. exact GenTie_C07.tie_publication_decision. Qed.
Print Assumptions gen_tie_publication_decision.

Theorem gen_tie_reader_lookup_order : forall (ru rm : gmap N (option rec)) (pid : N) (v : option rec) miss,
  ru !! pid = Some v ->
  pcache_getReadOnly_lookup (option rec) miss (default None (rm !! pid)) (default None (ru !! pid))
     (bool_decide (is_Some (rm !! pid))) (bool_decide (is_Some (ru !! pid)))
  = FFall (v, []).
Proof. exact GenTie_C07.tie_reader_lookup_order. Qed.
Print Assumptions gen_tie_reader_lookup_order.
