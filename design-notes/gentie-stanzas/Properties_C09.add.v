(* ---- ties to the Gallina regenerated from the Go source (proofs/GenTie_C09.v) ---- *)
From Coq Require Import ZArith NArith List Bool Lia String.
From Lib Require Import Bytes.
From Model Require Import Announce_Receiver.
From Proofs Require Import GenTie_Lib.
From Gen Require Import Gen_Consts Gen_Funcs_prelude Gen_Funcs_announce.
Import ListNotations.
Local Open Scope Z_scope.
From Proofs Require Import GenTie_C09.

Theorem gen_tie_stringLRU_update : forall (E : Type) (elem : E) (cap : nat) (c : N) (l : list N),
  match announce_stringLRU_update E elem (len l) (memN c l) (Z.of_nat cap) with
  | FReturn ret tr =>
      ret = (if fst (lru_update cap c l) then "return true" else "return false")%string /\
      lru_run c tr l = snd (lru_update cap c l)
  | _ => False
  end.
Proof. exact GenTie_C09.tie_stringLRU_update. Qed.
Print Assumptions gen_tie_stringLRU_update.

Theorem gen_tie_stringLRU_remove : forall (E : Type) (elem : E) (c : N) (l : list N),
  match announce_stringLRU_remove E elem (memN c l) with
  | FReturn ret tr =>
      ret = (if memN c l then "return true" else "return false")%string /\
      (memN c l = true -> lru_run c tr l = lru_remove c l) /\ (memN c l = false -> tr = [])
  | _ => False
  end.
Proof. exact GenTie_C09.tie_stringLRU_remove. Qed.
Print Assumptions gen_tie_stringLRU_remove.

Theorem gen_seq_step_front : forall c s allowed a cancelled,
  match model_front allowed (closed s) (fst (lru_update (cap c) (a_cid a) (lru s))) with
  | Some o => exists s', seq_step c s (ODirect allowed a cancelled) = [(o, s')]
  | None => True
  end.
Proof. exact GenTie_C09.seq_step_front. Qed.
Print Assumptions gen_seq_step_front.

Theorem gen_tie_direct_front : forall (T A : Type) (isnil : T -> bool) (allow : T) (called closed hit : bool)
    (addrs filtered : list A) (filter resend : bool) (rep : option string),
  (* allowed = no allow-callback configured, or the callback said yes *)
  go_front T A isnil allow called closed hit addrs filtered filter resend rep
  = model_front (isnil allow || called) closed hit.
Proof. exact GenTie_C09.tie_direct_front. Qed.
Print Assumptions gen_tie_direct_front.

Theorem gen_handleAnnounce_filters : forall (A : Type) (addrs filtered : list A) (filter resend : bool) rep,
  match announce_handleAnnounce_front A resend None rep addrs filtered filter with
  | FFall tr => In "amsg.Addrs = mautil.FilterPublic(amsg.Addrs)"%string tr <-> filter = true
  | _ => False
  end.
Proof. exact GenTie_C09.handleAnnounce_filters. Qed.
Print Assumptions gen_handleAnnounce_filters.
