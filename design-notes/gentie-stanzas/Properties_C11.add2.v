(* ---- phase 2: further ties to the Gallina regenerated from the Go source (proofs/GenTie_C11.v) ---- *)
From Coq Require Import ZArith NArith List Bool Lia String.
From Lib Require Import Bytes Varint.
From Model Require Import C11_Metadata.
From Proofs Require Import GenTie_Lib.
From Gen Require Import Gen_Consts Gen_Funcs_prelude Gen_Funcs_metadata.
Import ListNotations.
Local Open Scope Z_scope.
From Proofs Require Import GenTie_C11.

Theorem gen_UnmarshalBinary_step : forall (P : Type) (newbuf : list N -> list N) (newt : Z -> P) (uv : list N -> Z * Z * option string) (readfrom : P -> list N -> Z * option string) (data : list N) (K : list P -> Z -> frag (Z * list P)) (oof : frag (Z * list P)) (fuel : nat) (ps : list P) (read : Z), 0 <= read -> metadata_UnmarshalBinary_loop_loop_1 P newbuf newt uv readfrom data K oof (S fuel) ps read = (if read <? len data then let rest := skipn (Z.to_nat read) data in let (p, o) := uv rest in let (v, _) := p in match o with | Some _ => FReturn "return err" (read, ps) | None => let (n, o0) := readfrom (newt v) (newbuf rest) in match o0 with | Some _ => FReturn "return err" (read, ps) | None => metadata_UnmarshalBinary_loop_loop_1 P newbuf newt uv readfrom data K oof fuel (ps ++ [newt v]) (read + n) end end else K ps read).
Proof. exact GenTie_C11.UnmarshalBinary_step. Qed.
Print Assumptions gen_UnmarshalBinary_step.

Theorem gen_UnmarshalBinary_done : forall (P : Type) (newbuf : list N -> list N) (newt : Z -> P) (uv : list N -> Z * Z * option string) (readfrom : P -> list N -> Z * option string) (data : list N) (K : list P -> Z -> frag (Z * list P)) (oof : frag (Z * list P)) (fuel : nat) (ps : list P) (read : Z), len data <= read -> metadata_UnmarshalBinary_loop_loop_1 P newbuf newt uv readfrom data K oof (S fuel) ps read = K ps read.
Proof. exact GenTie_C11.UnmarshalBinary_done. Qed.
Print Assumptions gen_UnmarshalBinary_done.
