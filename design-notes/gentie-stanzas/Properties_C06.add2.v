(* ---- phase 2: further ties to the Gallina regenerated from the Go source (proofs/GenTie_C06.v) ---- *)
From Coq Require Import ZArith NArith List Bool Lia.
From Model Require Import C06_PCache.
From Gen Require Import Gen_Funcs_prelude Gen_Funcs_pcache.
Local Open Scope Z_scope.
From stdpp Require Import gmap.
From Coq Require Import String.
From Proofs Require Import GenTie_Lib.
Import ListNotations.
From Proofs Require Import GenTie_C06.

Theorem gen_tie_Refresh_accept_newer : forall (seq' : N) (e : entry) (r : rec) (txt : list N) (exp0 : tm),
  match pcache_Refresh_accept_newer (option rec) tm (Some 0%Z) (fun _ => (r_time r, None)) None tm_after tm_zero
          txt exp0 (Some (e_last e)) (e_prov e) (Z.of_N (e_seq e)) (e_dirty e) (Some r) (Z.of_N seq') with
  | FFall (sq, ex, last, prov, dirty, _) | FContinue _ (sq, ex, last, prov, dirty, _) =>
      let e' := apply_entry seq' (Some e) r in
      sq = Z.of_N (e_seq e') /\ ex = e_expires e' /\ last = Some (e_last e') /\ prov = e_prov e' /\ dirty = e_dirty e'
  | _ => False
  end.
Proof. exact GenTie_C06.tie_Refresh_accept_newer. Qed.
Print Assumptions gen_tie_Refresh_accept_newer.

Theorem gen_tie_Refresh_publish_step : forall (now ttl : Z) (seq' : N) (e : entry) (ou : option (option rec)),
  match pcache_Refresh_publish_step tm tm_add tm_after tm_zero (Some now) (e_expires e)
          (Z.of_N (e_seq e)) (e_dirty e) ttl (Z.of_N seq') with
  | FFall (ex, dirty, tr) =>
      settle true ttl now seq' e =
        (if has_stmt "delete(pc.write, pid)" tr then None
         else Some (Entry (e_prov e) ex (e_last e) (e_seq e) (e_upd e) dirty)) /\
      upd_of true now seq' (Some e) ou =
        (if has_stmt "updates[pid] = nil" tr then Some None
         else if has_stmt "updates[pid] = apiToCacheInfo(cinfo.provider)" tr then Some (e_prov e)
         else ou)
  | _ => False
  end.
Proof. exact GenTie_C06.tie_Refresh_publish_step. Qed.
Print Assumptions gen_tie_Refresh_publish_step.

Theorem gen_tie_Refresh_merge_decision : forall (u m : nat),
  match pcache_Refresh_merge_decision (Z.of_nat m) (Z.of_nat u) with
  | FReturn _ tr => real_need_merge u m = false /\ has_stmt "pc.read.Store(&readOnly{m: read.m, u: updates})" tr = true
  | FFall _ => real_need_merge u m = true
  | _ => False
  end.
Proof. exact GenTie_C06.tie_Refresh_merge_decision. Qed.
Print Assumptions gen_tie_Refresh_merge_decision.

Theorem gen_tie_getReadOnly_lookup : forall (ru rm : gmap N (option rec)) (pid : N) (miss : option rec * option string),
  match pcache_getReadOnly_lookup (option rec) miss
          (default None (rm !! pid)) (default None (ru !! pid))
          (bool_decide (is_Some (rm !! pid))) (bool_decide (is_Some (ru !! pid))) with
  | FFall (rpi, _) =>
      match view_of ru rm pid with
      | Some v => rpi = v
      | None => rpi = fst miss /\ snd miss = None           (* fetchMissing's answer *)
      end
  | FReturn _ _ => view_of ru rm pid = None /\ snd miss <> None
  | _ => False
  end.
Proof. exact GenTie_C06.tie_getReadOnly_lookup. Qed.
Print Assumptions gen_tie_getReadOnly_lookup.
