(* ---- ties to the Gallina regenerated from the Go source (proofs/GenTie_C17.v) ---- *)
From Coq Require Import ZArith NArith List Bool Lia String.
From Lib Require Import Bytes.
From Model Require Import C17_GetResults.
From Proofs Require Import GenTie_Lib.
From Gen Require Import Gen_Consts Gen_Funcs_prelude Gen_Funcs_pcache.
Import ListNotations.
Local Open Scope Z_scope.
From Proofs Require Import GenTie_C17.

Theorem gen_tie_GetResults_chain_loop : forall pid ctx md provs mds (acc : list view),
  pcache_GetResults_chain_loop view addrinfo (fun p => pid_bytes (ai_id p)) mk_view
     (pid_bytes pid) ctx (mcontent md) (map mcontent mds) provs acc
  = FFall (acc ++ map view_of (expand pid ctx md provs mds 0))%list.
Proof. exact GenTie_C17.tie_GetResults_chain_loop. Qed.
Print Assumptions gen_tie_GetResults_chain_loop.

Theorem gen_tie_GetResults_ctx_loop : forall pid ctx md provs mds (acc : list view),
  pcache_GetResults_ctx_loop view addrinfo (fun p => pid_bytes (ai_id p)) mk_view
     (pid_bytes pid) ctx (mcontent md) (map mcontent mds) provs acc
  = FFall (acc ++ map view_of (expand pid ctx md provs mds 0))%list.
Proof. exact GenTie_C17.tie_GetResults_ctx_loop. Qed.
Print Assumptions gen_tie_GetResults_ctx_loop.
