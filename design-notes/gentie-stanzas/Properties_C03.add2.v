(* ---- phase 2: further ties to the Gallina regenerated from the Go source (proofs/GenTie_C03.v) ---- *)
From Coq Require Import ZArith NArith List Bool Lia String.
From Lib Require Import Bytes Cid.
From Model Require Import C03_SignedHead.
From Proofs Require Import GenTie_Lib.
From Gen Require Import Gen_Consts Gen_Funcs_prelude Gen_Funcs_head Gen_Funcs_ipnisync.
Import ListNotations.
Local Open Scope Z_scope.
From Proofs Require Import GenTie_C03.

Theorem gen_tie_Validate_verify : forall (ok : bool) (err : option string),
  match head_Validate_verify (ok, err) with
  | FFall _ => ok = true /\ err = None
  | FReturn s _ => (ok = false \/ err <> None) /\
                   (err = None -> s = "return """", ErrBadSignature"%string)
  | _ => False
  end.
Proof. exact GenTie_C03.tie_Validate_verify. Qed.
Print Assumptions gen_tie_Validate_verify.
