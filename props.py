"""Per-property configuration of the checks: one JSON file per property under
propcfg/ (see BUILDER_GUIDE.md for the keys)."""
import glob
import json
import os

_here = os.path.dirname(os.path.abspath(__file__))

COMMON_TB = [
    "Coq 8.16.1 kernel incl. the vm_compute virtual machine (no native_compute); coqc parser for generated case files",
    "Coq standard library (and std++ 1.8 where imported); no axioms declared by this development",
    "hand-written executable model (modelled, not verified Go source): tie is the correspondence run of this check",
    "Go harness under /verif/harness (case generation, canonicalisation, direct oracles, Coq term printer) and the Go toolchain/runtime",
]

PROPS = {}
for _f in sorted(glob.glob(os.path.join(_here, "propcfg", "C*.json"))):
    _c = json.load(open(_f))
    _pid = os.path.basename(_f)[:-5]
    if _c.get("disabled"):
        continue
    _tb = [t for t in _c.get("trusted_base", []) if t not in COMMON_TB]
    _c["trusted_base"] = COMMON_TB + _tb
    PROPS[_pid] = _c

ALL_IDS = ["C%02d" % i for i in range(1, 21)]
# properties without a registered check yet (kept current as checks land)
NOT_APPLICABLE = {i: "check not built yet (work in progress; see DESIGN.md section 4 for the plan)" for i in ALL_IDS if i not in PROPS}
