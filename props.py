"""Per-property configuration of the checks (see DESIGN.md section 4)."""

COMMON_TB = [
    "Coq 8.16.1 kernel incl. the vm_compute virtual machine (no native_compute); coqc parser for generated case files",
    "Coq standard library (and std++ 1.8 where imported); no axioms declared by this development",
    "hand-written executable model (modelled, not verified Go source): tie is the correspondence run of this check",
    "Go harness under /verif/harness (case generation, canonicalisation, direct oracles, Coq term printer) and the Go toolchain/runtime",
]

PROPS = {
    "C16": {
        "harness": "c16",
        "props_file": "props/Properties_C16.v",
        "coq_targets": ["props/Properties_C16.vo"],
        "model_targets": ["model/Announce_Receiver.vo"],
        "trusted_base": COMMON_TB + [
            "harness/cmd/astgen (go/parser based): Gen_Sync_announce.v is the synchronisation skeleton of announce/receiver.go, regenerated every run",
            "semantics given to Go mutex / channel / select / context in model/C16_ReceiverClose.v",
        ],
        "technique": "Coq proof over a thread-level transition system + regenerated sync skeleton + exhaustive sequential-history correspondence",
        "level_text": "Theorems in Coq over all schedules of a transition-system model of Receiver.{Close,Direct,Next,UncacheCid,watch}: mutex released on every return path (over the skeleton regenerated from the source), mutex free when idle, holder never blocks, no deadlock, late calls get the closed error, Close idempotent. Tied to the code by the regenerated skeleton and by exhaustive sequential histories (length<=4/5 over 8 calls) run on the real Receiver and accepted by the model, plus concurrent rounds. Partial: real scheduling is sampled.",
        "level_note": "Trusted: Coq kernel+vm_compute, the model's semantics of mutex/select/context, astgen, the harness; goroutine scheduling is sampled not enumerated.",
        "assumptions": [
            "goroutine scheduling is sampled (concurrent rounds), not enumerated; the theorems quantify over all schedules of the model",
            "'promptly' = a watchdog bound at run time, an enabled step / bounded own-steps in the model",
            "pubsub topic / libp2p host internals are outside the model (watcher modelled as a loop that exits on cancellation)",
        ],
    },
}

ALL_IDS = ["C%02d" % i for i in range(1, 21)]
# properties without a registered check yet (kept current as checks land)
NOT_APPLICABLE = {i: "check not built yet (work in progress; see DESIGN.md section 4 for the plan)" for i in ALL_IDS if i not in PROPS}
