#!/bin/sh
# MANIFEST.setup_cmd: build the framework from files on disk only (offline).
set -e
cd "$(dirname "$0")"
export GOFLAGS=-mod=mod GOPROXY=off
mkdir -p .build evidence replays coq/run coq/gen
cp /repo/go.sum harness/go.sum
(cd harness && go build -o ../.build/astgen ./cmd/astgen)
.build/astgen -repo /repo -out coq/gen
(cd coq && ./gen_coqproject.sh >/dev/null 2>&1; timeout 3000 make -k -j16 2>&1 | grep -v '^Warning' | tail -5)
# pre-build every harness binary (also warms the Go build cache)
for d in harness/cmd/*/; do
  n=$(basename "$d")
  [ "$n" = astgen ] && continue
  ls "$d"*.go >/dev/null 2>&1 || continue
  (cd harness && go build -tags verif -o ../.build/$n ./cmd/$n) || echo "setup: harness $n failed to build"
done
# warm the build cache for the race-detector runner that cmd/c07 builds at run time
(cd harness && go build -race -tags verif -o ../.build/c07race-warm ./cmd/c07/race) || echo "setup: c07 race runner failed to build"
rm -f .build/c07race-warm
echo setup done
