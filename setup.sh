#!/bin/sh
# MANIFEST.setup_cmd: build the framework from files on disk only (offline).
set -e
cd "$(dirname "$0")"
export GOFLAGS=-mod=mod GOPROXY=off
mkdir -p .build evidence replays coq/run coq/gen
cp /repo/go.sum harness/go.sum
(cd harness && go build -o ../.build/astgen ./cmd/astgen)
.build/astgen -repo /repo -out coq/gen
(cd coq && ./gen_coqproject.sh >/dev/null 2>&1; timeout 3000 make -j16 2>&1 | grep -v '^Warning' | tail -5)
# pre-build every harness binary (also warms the Go build cache)
for d in harness/cmd/*/; do
  n=$(basename "$d")
  [ "$n" = astgen ] && continue
  (cd harness && go build -tags verif -o ../.build/$n ./cmd/$n) || echo "setup: harness $n failed to build"
done
echo setup done
