#!/bin/sh
# usage: cq.sh file.v  (compile one file in /verif/coq)
cd /verif/coq && timeout ${CQ_TIMEOUT:-600} coqc -Q lib Lib -Q model Model -Q proofs Proofs -Q props Props -Q gen Gen -w -notation-overridden,-deprecated-hint-without-locality,-deprecated-syntactic-definition,-ambiguous-paths "$@"
