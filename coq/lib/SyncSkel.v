(* Synchronisation skeletons: the ordered, nested structure of the lock, channel,
   wait-group, once and atomic operations of a Go function, as regenerated from
   /repo by harness/cmd/astgen on every run (gen/Gen_Sync_*.v), and the finite
   analyses the concurrency theorems rest on:
     - balanced      : every return path releases every mutex it acquired, never
                       re-locks a mutex it holds and never unlocks one it does not hold;
     - cs_nonblocking: no channel operation, select without default, WaitGroup.Wait
                       or blocking callee while a mutex is held.
   Both are decided by enumeration of the (finitely many) paths of the skeleton,
   loops being taken zero times or once and required to be lock-neutral. *)
From Coq Require Export List String Bool.
Export ListNotations.
Open Scope string_scope.

Inductive sop : Type :=
| SLock (m : string)
| SUnlock (m : string)
| SDeferUnlock (m : string)
| SDefer (body : list sop)
| SSend (ch : string)
| SRecv (ch : string)
| SClose (ch : string)
| SSelect (hasDefault : bool) (cases : list (list sop))   (* each case: comm op :: body *)
| SIf (cond : string) (t e : list sop)
| SFor (body : list sop)
| SSwitch (cases : list (list sop))
| SReturn
| SBreak
| SContinue
| SGo (body : list sop)
| SCall (name : string)
| SFunc (body : list sop)          (* function literal that is stored or passed on *)
| SWgAdd (w : string)
| SWgDone (w : string)
| SWgWait (w : string)
| SOnce (o : string) (body : list sop)
| SAtomic (op : string) (v : string)
| SCancel (f : string).

Definition skel := list sop.

(* ------------------------------------------------------------------ *)
(* Path analysis                                                      *)

Fixpoint mem (s : string) (l : list string) : bool :=
  match l with [] => false | x :: r => String.eqb s x || mem s r end.
Fixpoint remove1 (s : string) (l : list string) : list string :=
  match l with [] => [] | x :: r => if String.eqb s x then r else x :: remove1 s r end.

(* how a straight-line segment ended *)
Inductive ending := Falls | Returns | Breaks | Continues.

Record pst := { held : list string; deferred : list string; ok : bool }.

Definition fail (p : pst) := {| held := held p; deferred := deferred p; ok := false |}.

Definition do_lock m p :=
  if mem m (held p) then fail p else {| held := m :: held p; deferred := deferred p; ok := ok p |}.
Definition do_unlock m p :=
  if mem m (held p) then {| held := remove1 m (held p); deferred := deferred p; ok := ok p |} else fail p.
Definition do_defer m p := {| held := held p; deferred := m :: deferred p; ok := ok p |}.

(* at a return: run deferred unlocks, require nothing held *)
Definition at_return (p : pst) : bool :=
  let p' := fold_left (fun q m => do_unlock m q) (deferred p) p in
  ok p' && match held p' with [] => true | _ => false end.

(* callee environment: name -> may the callee block? and does it lock a mutex itself? *)
Record callee := { c_blocks : bool; c_locks : list string }.

Section Paths.
  Variable env : string -> option callee.
  (* nonblocking analysis switch: when true, a blocking op with a mutex held fails *)
  Variable check_block : bool.

  Definition blocking_here (p : pst) : pst :=
    if check_block then match held p with [] => p | _ => fail p end else p.

  Definition do_call (name : string) (p : pst) : pst :=
    match env name with
    | None => p
    | Some c =>
      let p1 := if c_blocks c then blocking_here p else p in
      (* a callee that locks m while we hold m self-deadlocks *)
      if existsb (fun m => mem m (held p1)) (c_locks c) then fail p1 else p1
    end.

  (* all (ending, state) pairs of executing ops from state p.
     Loop bodies are run zero times or once; a body that falls through or continues
     must restore the held set it started with (checked). *)
  Fixpoint run_ops (fuel : nat) (ops : list sop) (p : pst) {struct fuel} : list (ending * pst) :=
    match fuel with
    | O => [(Falls, fail p)]
    | S f =>
      match ops with
      | [] => [(Falls, p)]
      | o :: rest =>
        let continue_with (ps : list (ending * pst)) :=
          flat_map (fun ep => match fst ep with
                              | Falls => run_ops f rest (snd ep)
                              | _ => [ep]
                              end) ps in
        match o with
        | SLock m => run_ops f rest (do_lock m p)
        | SUnlock m => run_ops f rest (do_unlock m p)
        | SDeferUnlock m => run_ops f rest (do_defer m p)
        | SDefer _ => run_ops f rest p
        | SSend _ | SRecv _ | SWgWait _ => run_ops f rest (blocking_here p)
        | SClose _ | SWgAdd _ | SWgDone _ | SAtomic _ _ | SCancel _ | SGo _ | SFunc _ => run_ops f rest p
        | SOnce _ body =>
          (* body runs inline (first caller) or not at all (later callers wait: blocking) *)
          continue_with ((run_ops f body p ++ [(Falls, blocking_here p)])%list)
        | SCall name => run_ops f rest (do_call name p)
        | SSelect hasDefault cases =>
          let p' := if hasDefault then p else blocking_here p in
          continue_with (flat_map (fun c => run_ops f c p') cases)
        | SIf _ t e => continue_with ((run_ops f t p ++ run_ops f e p)%list)
        | SSwitch cases =>
          continue_with ((Falls, p) :: flat_map (fun c => run_ops f c p) cases)
        | SFor body =>
          let once := run_ops f body p in
          let after := flat_map (fun ep =>
                         match fst ep with
                         | Falls | Continues =>
                           (* lock-neutral iteration required *)
                           let q := snd ep in
                           if list_eq_dec string_dec (held q) (held p) then [(Falls, q)]
                           else [(Falls, fail q)]
                         | Breaks => [(Falls, snd ep)]
                         | Returns => [ep]
                         end) once in
          continue_with ((Falls, p) :: after)
        | SReturn => [(Returns, p)]
        | SBreak => [(Breaks, p)]
        | SContinue => [(Continues, p)]
        end
      end
    end.

  Definition init_pst := {| held := []; deferred := []; ok := true |}.

  Definition all_paths_ok (fuel : nat) (body : skel) : bool :=
    forallb (fun ep => at_return (snd ep)) (run_ops fuel body init_pst).

  Definition path_count (fuel : nat) (body : skel) : nat := List.length (run_ops fuel body init_pst).
End Paths.

Definition no_env : string -> option callee := fun _ => None.

(* lock balance only *)
Definition balanced (fuel : nat) (body : skel) : bool := all_paths_ok no_env false fuel body.
(* lock balance + no blocking operation while a mutex is held *)
Definition balanced_nonblocking (env : string -> option callee) (fuel : nat) (body : skel) : bool :=
  all_paths_ok env true fuel body.

(* lookup in a generated function table *)
Fixpoint lookup (name : string) (tbl : list (string * skel)) : option skel :=
  match tbl with
  | [] => None
  | (n, s) :: r => if String.eqb name n then Some s else lookup name r
  end.

Definition lookup_or_nil name tbl : skel := match lookup name tbl with Some s => s | None => [SReturn; SLock "missing-function"] end.

(* structural equality, used by skeleton_matches theorems *)
Fixpoint sop_eqb (a b : sop) {struct a} : bool :=
  let fix l_eqb (x y : list sop) {struct x} : bool :=
    match x, y with
    | [], [] => true
    | a' :: x', b' :: y' => sop_eqb a' b' && l_eqb x' y'
    | _, _ => false
    end in
  let fix ll_eqb (x y : list (list sop)) {struct x} : bool :=
    match x, y with
    | [], [] => true
    | a' :: x', b' :: y' => l_eqb a' b' && ll_eqb x' y'
    | _, _ => false
    end in
  match a, b with
  | SLock m, SLock m' | SUnlock m, SUnlock m' | SDeferUnlock m, SDeferUnlock m'
  | SSend m, SSend m' | SRecv m, SRecv m' | SClose m, SClose m'
  | SCall m, SCall m' | SWgAdd m, SWgAdd m' | SWgDone m, SWgDone m' | SWgWait m, SWgWait m'
  | SCancel m, SCancel m' => String.eqb m m'
  | SDefer x, SDefer y | SFor x, SFor y | SGo x, SGo y | SFunc x, SFunc y => l_eqb x y
  | SSelect d x, SSelect d' y => Bool.eqb d d' && ll_eqb x y
  | SIf c t e, SIf c' t' e' => String.eqb c c' && l_eqb t t' && l_eqb e e'
  | SSwitch x, SSwitch y => ll_eqb x y
  | SReturn, SReturn | SBreak, SBreak | SContinue, SContinue => true
  | SOnce o x, SOnce o' y => String.eqb o o' && l_eqb x y
  | SAtomic o v, SAtomic o' v' => String.eqb o o' && String.eqb v v'
  | _, _ => false
  end.

Fixpoint skel_eqb (x y : skel) : bool :=
  match x, y with
  | [], [] => true
  | a :: x', b :: y' => sop_eqb a b && skel_eqb x' y'
  | _, _ => false
  end.

(* Conditions are free text; equality up to conditions is what the models use,
   so that renaming a variable in a condition does not break the tie. *)
Fixpoint strip (a : sop) : sop :=
  match a with
  | SIf _ t e => SIf "" (map strip t) (map strip e)
  | SDefer x => SDefer (map strip x)
  | SFor x => SFor (map strip x)
  | SGo x => SGo (map strip x)
  | SFunc x => SFunc (map strip x)
  | SSelect d cs => SSelect d (map (map strip) cs)
  | SSwitch cs => SSwitch (map (map strip) cs)
  | SOnce o x => SOnce o (map strip x)
  | o => o
  end.
Definition skel_same_shape (x y : skel) : bool := skel_eqb (map strip x) (map strip y).
