(* Executable labelled transition systems: all schedules = all label sequences. *)
From Coq Require Import List.
Import ListNotations.

Section LTS.
  Context {state label : Type}.
  Variable stepf : state -> label -> option state.

  Fixpoint run (s : state) (ls : list label) : option state :=
    match ls with
    | [] => Some s
    | l :: r => match stepf s l with Some s' => run s' r | None => None end
    end.

  Definition reachable (init s : state) : Prop := exists ls, run init ls = Some s.

  Lemma run_app s ls1 ls2 :
    run s (ls1 ++ ls2) = match run s ls1 with Some s' => run s' ls2 | None => None end.
  Proof.
    revert s; induction ls1 as [|l r IH]; intro s; cbn; [reflexivity|].
    destruct (stepf s l); [apply IH|reflexivity].
  Qed.

  Lemma reachable_step init s l s' : reachable init s -> stepf s l = Some s' -> reachable init s'.
  Proof.
    intros [ls H] E. exists (ls ++ [l]). rewrite run_app, H. cbn. rewrite E. reflexivity.
  Qed.

  Theorem invariant_reachable (Inv : state -> Prop) init :
    Inv init ->
    (forall s l s', Inv s -> stepf s l = Some s' -> Inv s') ->
    forall s, reachable init s -> Inv s.
  Proof.
    intros H0 Hs s [ls R]. revert init H0 R.
    induction ls as [|l r IH]; intros i Hi R; cbn in R.
    - inversion R; subst; exact Hi.
    - destruct (stepf i l) eqn:E; [|discriminate]. eapply IH; [eapply Hs; eauto|exact R].
  Qed.

  (* invariant that may use an already established one *)
  Theorem invariant_reachable2 (Inv0 Inv : state -> Prop) init :
    (forall s, reachable init s -> Inv0 s) ->
    Inv init ->
    (forall s l s', Inv0 s -> Inv s -> stepf s l = Some s' -> Inv s') ->
    forall s, reachable init s -> Inv s.
  Proof.
    intros H00 H0 Hs s [ls R].
    assert (G : forall ls i, reachable init i -> Inv i -> run i ls = Some s -> Inv s).
    { clear ls R. induction ls as [|l r IH]; intros i Ri Hi R; cbn in R.
      - inversion R; subst; exact Hi.
      - destruct (stepf i l) eqn:E; [|discriminate].
        eapply IH; [eapply reachable_step; eauto| eapply Hs; eauto |exact R]. }
    eapply G; [exists []; reflexivity|exact H0|exact R].
  Qed.
End LTS.
