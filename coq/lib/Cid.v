(* Binary layout of CIDs as go-cid v0.5.0 / go-multihash v0.2.3 parse and print it.

     CIDv0  =  0x12 0x20 ‖ 32-byte digest                (a bare sha2-256 multihash)
     CIDv1  =  varint 1 ‖ varint codec ‖ multihash
     multihash = varint code ‖ varint len ‖ digest[len]

   [parse] transcribes cid.CidFromBytes (with mh.readMultihashFromBuf inlined),
   [cast] transcribes cid.Cast (no trailing bytes), [fmt] is Cid.Bytes().
   A Go cid.Cid holds the raw byte string; because every varint must be minimal
   (go-varint) the structured form below and the raw string are in bijection on
   what the parser accepts: [parse_fmt] and [fmt_parse].

   Checked against the real go-cid by the C10 harness (family "cid"). *)
From Lib Require Import Bytes Varint.
From Coq Require Import Lia ZifyN ZifyNat ZifyBool.
Ltac Zify.zify_post_hook ::= Z.div_mod_to_equations.
Open Scope N_scope.
Local Arguments N.mul : simpl never.
Local Arguments N.add : simpl never.
Local Arguments N.sub : simpl never.
Local Arguments N.pow : simpl never.

Inductive cid :=
| CidV0 (digest : bytes)                     (* sha2-256, 32 bytes *)
| CidV1 (codec mhcode : N) (digest : bytes).

Definition blen (b : bytes) : N := N.of_nat (length b).

(* error classes (coarse; the C10 harness maps every CID error to one class) *)
Definition ECidShort := 20.
Definition ECidVersion := 21.
Definition ECidVarint := 22.
Definition ECidMhLen := 23.
Definition ECidTrailing := 24.

Definition SHA2_256 := 18.        (* 0x12 *)
Definition MaxInt32 := 2147483647.

(* representable values: what cid.NewCidV0 / NewCidV1 over a well-formed multihash yield *)
Definition cid_wf (c : cid) : bool :=
  match c with
  | CidV0 d => (blen d =? 32) && wf_bytes d
  | CidV1 codec code d => (codec <? 2 ^ 63) && (code <? 2 ^ 63) && (blen d <=? MaxInt32) && wf_bytes d
  end.

(* Cid.Bytes() *)
Definition fmt (c : cid) : bytes :=
  match c with
  | CidV0 d => SHA2_256 :: 32 :: d
  | CidV1 codec code d => Varint.enc 1 ++ Varint.enc codec ++ Varint.enc code ++ Varint.enc (blen d) ++ d
  end.

Definition byte_len (c : cid) : N := blen (fmt c).

(* go-varint FromUvarint then slicing, error class collapsed *)
Definition uvarint (b : bytes) : res (N * bytes) :=
  match Varint.dec_rest b with
  | Ok x => Ok x
  | Err _ => Err ECidVarint
  | Panic c => Panic c
  end.

(* mh.readMultihashFromBuf: code, digest, rest *)
Definition mh_parse (b : bytes) : res (N * bytes * bytes) :=
  if blen b <? 2 then Err ECidShort else
  '(code, r1) <- uvarint b ;;
  '(len, r2) <- uvarint r1 ;;
  if MaxInt32 <? len then Err ECidMhLen else
  if blen r2 <? len then Err ECidMhLen else
  Ok (code, firstn (N.to_nat len) r2, skipn (N.to_nat len) r2).

(* cid.CidFromBytes: the CID and the unread rest *)
Definition parse (b : bytes) : res (cid * bytes) :=
  let v0 := match b with b0 :: b1 :: _ :: _ => (b0 =? SHA2_256) && (b1 =? 32) | _ => false end in
  if v0 then
    (if blen b <? 34 then Err ECidShort
     else Ok (CidV0 (firstn 32 (skipn 2 b)), skipn 34 b))
  else
    '(vers, r1) <- uvarint b ;;
    if negb (vers =? 1) then Err ECidVersion else
    '(codec, r2) <- uvarint r1 ;;
    '(code, d, r3) <- mh_parse r2 ;;
    Ok (CidV1 codec code d, r3).

(* cid.Cast *)
Definition cast (b : bytes) : res cid :=
  '(c, r) <- parse b ;;
  match r with [] => Ok c | _ => Err ECidTrailing end.

(* ------------------------------------------------------------------ *)
(* proofs                                                              *)

Lemma wf_bytes_app a b : wf_bytes (a ++ b) = wf_bytes a && wf_bytes b.
Proof. unfold wf_bytes. apply forallb_app. Qed.

Lemma wf_bytes_firstn n b : wf_bytes b = true -> wf_bytes (firstn n b) = true.
Proof.
  intro H. rewrite <- (firstn_skipn n b), wf_bytes_app in H.
  apply andb_prop in H as [H _]. exact H.
Qed.

Lemma wf_bytes_skipn n b : wf_bytes b = true -> wf_bytes (skipn n b) = true.
Proof.
  intro H. rewrite <- (firstn_skipn n b), wf_bytes_app in H.
  apply andb_prop in H as [_ H]. exact H.
Qed.

Lemma blen_app a b : blen (a ++ b) = blen a + blen b.
Proof. unfold blen. rewrite app_length. lia. Qed.

Lemma blen_cons x a : blen (x :: a) = 1 + blen a.
Proof. unfold blen. cbn [length]. lia. Qed.

Lemma blen_nil : blen [] = 0.
Proof. reflexivity. Qed.

Lemma uvarint_enc n r : n < 2 ^ 63 -> uvarint (Varint.enc n ++ r) = Ok (n, r).
Proof. intro H. unfold uvarint. rewrite Varint.dec_rest_enc by exact H. reflexivity. Qed.

Lemma uvarint_canon b v r :
  wf_bytes b = true -> uvarint b = Ok (v, r) -> b = Varint.enc v ++ r /\ v < 2 ^ 63.
Proof.
  intros W H. unfold uvarint, Varint.dec_rest in H.
  destruct (Varint.dec b) as [[v' k]| |] eqn:E; try discriminate.
  inversion H; subst; clear H.
  apply Varint.dec_canonical in E as [E1 E2]; [|exact W].
  split; [|exact E2]. rewrite <- E1. symmetry. apply firstn_skipn.
Qed.

Lemma enc_nonempty n : exists x t, Varint.enc n = x :: t.
Proof.
  pose proof (Varint.enc_length n) as [H _].
  destruct (Varint.enc n) as [|x t]; [cbn in H; lia|]. eauto.
Qed.

Lemma firstn_blen_app (d r : bytes) : firstn (N.to_nat (blen d)) (d ++ r) = d.
Proof.
  unfold blen. rewrite Nat2N.id, firstn_app, Nat.sub_diag, firstn_all. cbn. apply app_nil_r.
Qed.

Lemma skipn_blen_app (d r : bytes) : skipn (N.to_nat (blen d)) (d ++ r) = r.
Proof.
  unfold blen. rewrite Nat2N.id, skipn_app, Nat.sub_diag, skipn_all. reflexivity.
Qed.

Lemma mh_parse_fmt code d r :
  code < 2 ^ 63 -> blen d <= MaxInt32 ->
  mh_parse (Varint.enc code ++ Varint.enc (blen d) ++ d ++ r) = Ok (code, d, r).
Proof.
  intros Hc Hd. unfold mh_parse.
  assert (L : blen (Varint.enc code ++ Varint.enc (blen d) ++ d ++ r) <? 2 = false).
  { rewrite !blen_app. unfold blen at 1 2.
    pose proof (Varint.enc_length code). pose proof (Varint.enc_length (blen d)). lia. }
  rewrite L. rewrite uvarint_enc by exact Hc. cbn [bind].
  rewrite uvarint_enc by (unfold MaxInt32 in Hd; lia). cbn [bind].
  replace (MaxInt32 <? blen d) with false by lia.
  replace (blen (d ++ r) <? blen d) with false by (rewrite blen_app; lia).
  rewrite firstn_blen_app, skipn_blen_app. reflexivity.
Qed.

Theorem parse_fmt c r : cid_wf c = true -> parse (fmt c ++ r) = Ok (c, r).
Proof.
  destruct c as [d|codec code d]; cbn [cid_wf fmt]; intro W.
  - apply andb_prop in W as [W1 W2]. apply N.eqb_eq in W1.
    unfold parse.
    assert (L : length d = 32%nat) by (unfold blen in W1; lia).
    destruct d as [|d0 d']; [discriminate L|].
    cbn [app]. rewrite !N.eqb_refl. cbn [andb].
    replace (blen (SHA2_256 :: 32 :: d0 :: d' ++ r) <? 34) with false
      by (rewrite !blen_cons, blen_app; unfold blen; cbn [length] in L; lia).
    change (skipn 2 (SHA2_256 :: 32 :: d0 :: d' ++ r)) with ((d0 :: d') ++ r).
    change (skipn 34 (SHA2_256 :: 32 :: d0 :: d' ++ r)) with (skipn 32 ((d0 :: d') ++ r)).
    rewrite <- L. rewrite firstn_app, Nat.sub_diag, firstn_all. cbn [firstn]. rewrite app_nil_r.
    rewrite skipn_app, Nat.sub_diag, skipn_all. reflexivity.
  - apply andb_prop in W as [W W4]. apply andb_prop in W as [W W3]. apply andb_prop in W as [W1 W2].
    unfold parse. change (Varint.enc 1) with [1]. cbn [app].
    assert (V0 : match (1 :: (Varint.enc codec ++ Varint.enc code ++ Varint.enc (blen d) ++ d) ++ r) with
                 | b0 :: b1 :: _ :: _ => (b0 =? SHA2_256) && (b1 =? 32) | _ => false end = false).
    { destruct ((Varint.enc codec ++ Varint.enc code ++ Varint.enc (blen d) ++ d) ++ r) as [|? [|? ?]]; reflexivity. }
    rewrite V0. change (1 :: ?x) with (Varint.enc 1 ++ x).
    rewrite uvarint_enc by (cbn; lia). cbn [bind]. cbn [N.eqb Pos.eqb negb].
    rewrite <- !app_assoc. rewrite uvarint_enc by lia. cbn [bind].
    rewrite mh_parse_fmt by lia. reflexivity.
Qed.

Theorem cast_fmt c : cid_wf c = true -> cast (fmt c) = Ok c.
Proof.
  intro W. unfold cast. rewrite <- (app_nil_r (fmt c)), parse_fmt by exact W. reflexivity.
Qed.

Lemma mh_parse_canon b code d r :
  wf_bytes b = true -> mh_parse b = Ok (code, d, r) ->
  b = Varint.enc code ++ Varint.enc (blen d) ++ d ++ r /\ code < 2 ^ 63 /\ blen d <= MaxInt32.
Proof.
  intros W H. unfold mh_parse in H.
  destruct (blen b <? 2); [discriminate|].
  destruct (uvarint b) as [[c1 r1]| |] eqn:E1; try discriminate. cbn [bind] in H.
  destruct (uvarint r1) as [[len r2]| |] eqn:E2; try discriminate. cbn [bind] in H.
  destruct (MaxInt32 <? len) eqn:E3; [discriminate|].
  destruct (blen r2 <? len) eqn:E4; [discriminate|].
  inversion H; subst; clear H.
  apply uvarint_canon in E1 as [-> Hc]; [|exact W].
  rewrite wf_bytes_app in W. apply andb_prop in W as [_ W].
  apply uvarint_canon in E2 as [-> Hl]; [|exact W].
  assert (L : blen (firstn (N.to_nat len) r2) = len).
  { unfold blen in *. rewrite firstn_length. lia. }
  rewrite L, firstn_skipn. split; [reflexivity|]. split; [exact Hc|lia].
Qed.

(* canonicity: what parses is exactly the printed form of the CID it parses to *)
Theorem fmt_parse b c r :
  wf_bytes b = true -> parse b = Ok (c, r) -> b = fmt c ++ r /\ cid_wf c = true.
Proof.
  intros W H. unfold parse in H.
  destruct (match b with b0 :: b1 :: _ :: _ => (b0 =? SHA2_256) && (b1 =? 32) | _ => false end) eqn:V0.
  - destruct b as [|b0 [|b1 [|b2 t]]]; try discriminate.
    apply andb_prop in V0 as [A B]. apply N.eqb_eq in A, B. subst b0 b1.
    destruct (blen (SHA2_256 :: 32 :: b2 :: t) <? 34) eqn:L; [discriminate|].
    remember (firstn 32 (skipn 2 (SHA2_256 :: 32 :: b2 :: t))) as d eqn:Ed.
    remember (skipn 34 (SHA2_256 :: 32 :: b2 :: t)) as rr eqn:Er.
    injection H as <- <-.
    change (skipn 2 (SHA2_256 :: 32 :: b2 :: t)) with (b2 :: t) in Ed.
    change (skipn 34 (SHA2_256 :: 32 :: b2 :: t)) with (skipn 32 (b2 :: t)) in Er.
    subst d rr.
    cbn [fmt]. split.
    + cbn [app]. rewrite firstn_skipn. reflexivity.
    + cbn [cid_wf]. apply andb_true_intro. split.
      * apply N.eqb_eq. unfold blen in *. rewrite firstn_length. cbn [length] in *. lia.
      * apply wf_bytes_firstn. apply (wf_bytes_skipn 2) in W. exact W.
  - destruct (uvarint b) as [[vers r1]| |] eqn:E1; try discriminate. cbn [bind] in H.
    destruct (vers =? 1) eqn:EV; [|discriminate]. cbn [negb] in H. apply N.eqb_eq in EV. subst vers.
    destruct (uvarint r1) as [[codec r2]| |] eqn:E2; try discriminate. cbn [bind] in H.
    destruct (mh_parse r2) as [[[code d] r3]| |] eqn:E3; try discriminate. cbn [bind] in H.
    inversion H; subst; clear H.
    apply uvarint_canon in E1 as [-> _]; [|exact W].
    rewrite wf_bytes_app in W. apply andb_prop in W as [_ W].
    apply uvarint_canon in E2 as [-> Hc]; [|exact W].
    rewrite wf_bytes_app in W. apply andb_prop in W as [_ W].
    pose proof W as W'.
    apply mh_parse_canon in E3 as (-> & Hcode & Hd); [|exact W].
    split.
    + cbn [fmt]. rewrite <- !app_assoc. reflexivity.
    + cbn [cid_wf]. rewrite !wf_bytes_app in W'.
      apply andb_prop in W' as [_ W']. apply andb_prop in W' as [_ W']. apply andb_prop in W' as [W' _].
      rewrite W'. replace (codec <? 2 ^ 63) with true by lia. replace (code <? 2 ^ 63) with true by lia.
      replace (blen d <=? MaxInt32) with true by lia. reflexivity.
Qed.

Theorem cast_canon b c : wf_bytes b = true -> cast b = Ok c -> b = fmt c /\ cid_wf c = true.
Proof.
  intros W H. unfold cast in H.
  destruct (parse b) as [[c' r]| |] eqn:E; try discriminate. cbn [bind] in H.
  destruct r; [|discriminate]. inversion H; subst; clear H.
  apply fmt_parse in E as [E1 E2]; [|exact W]. rewrite app_nil_r in E1. auto.
Qed.

(* the parser never panics *)
Theorem parse_total b : is_panic (parse b) = false.
Proof.
  unfold parse.
  destruct (match b with b0 :: b1 :: _ :: _ => (b0 =? SHA2_256) && (b1 =? 32) | _ => false end).
  - destruct (blen b <? 34); reflexivity.
  - unfold uvarint, Varint.dec_rest.
    assert (NP : forall i bs c, Varint.dec_f i bs <> Panic c).
    { intros i bs; revert i; induction bs as [|x t IH]; intros i c; cbn [Varint.dec_f]; [discriminate|].
      destruct ((Nat.eqb i 8 && (128 <=? x)) || Nat.leb 9 i)%bool; [discriminate|].
      destruct (x <? 128).
      - destruct ((x =? 0) && negb (Nat.eqb i 0)); discriminate.
      - specialize (IH (S i)). destruct (Varint.dec_f (S i) t) as [[? ?]| |]; try discriminate.
        intro H. inversion H; subst. eapply IH; reflexivity. }
    unfold Varint.dec.
    destruct (Varint.dec_f 0 b) as [[v k]| |] eqn:E1; [|reflexivity|exfalso; eapply NP; exact E1].
    cbn [bind]. destruct (negb (v =? 1)); [reflexivity|].
    destruct (Varint.dec_f 0 (skipn k b)) as [[v2 k2]| |] eqn:E2; [|reflexivity|exfalso; eapply NP; exact E2].
    cbn [bind]. unfold mh_parse.
    destruct (blen (skipn k2 (skipn k b)) <? 2); [reflexivity|].
    unfold uvarint, Varint.dec_rest, Varint.dec.
    destruct (Varint.dec_f 0 (skipn k2 (skipn k b))) as [[v3 k3]| |] eqn:E3; [|reflexivity|exfalso; eapply NP; exact E3].
    cbn [bind].
    destruct (Varint.dec_f 0 (skipn k3 (skipn k2 (skipn k b)))) as [[v4 k4]| |] eqn:E4; [|reflexivity|exfalso; eapply NP; exact E4].
    cbn [bind]. destruct (MaxInt32 <? v4); [reflexivity|].
    destruct (blen _ <? v4); reflexivity.
Qed.

Theorem cast_total b : is_panic (cast b) = false.
Proof.
  unfold cast. pose proof (parse_total b) as H.
  destruct (parse b) as [[c r]| |]; cbn in *; try congruence. destruct r; reflexivity.
Qed.

(* a parsed CID leaves at most what it was given *)
Lemma parse_rest_len b c r : parse b = Ok (c, r) -> blen r <= blen b.
Proof.
  intro H. unfold parse in H.
  destruct (match b with b0 :: b1 :: _ :: _ => (b0 =? SHA2_256) && (b1 =? 32) | _ => false end).
  - destruct (blen b <? 34); [discriminate|].
    remember (skipn 34 b) as rr eqn:Er. remember (firstn 32 (skipn 2 b)) as d.
    injection H as _ <-. subst rr.
    unfold blen. rewrite skipn_length. lia.
  - unfold uvarint, Varint.dec_rest in H.
    destruct (Varint.dec b) as [[v k]| |]; try discriminate. cbn [bind] in H.
    destruct (negb (v =? 1)); [discriminate|].
    destruct (Varint.dec (skipn k b)) as [[v2 k2]| |]; try discriminate. cbn [bind] in H.
    unfold mh_parse in H. destruct (blen _ <? 2); [discriminate|].
    unfold uvarint, Varint.dec_rest in H.
    destruct (Varint.dec (skipn k2 (skipn k b))) as [[v3 k3]| |]; try discriminate. cbn [bind] in H.
    destruct (Varint.dec (skipn k3 (skipn k2 (skipn k b)))) as [[v4 k4]| |]; try discriminate. cbn [bind] in H.
    destruct (MaxInt32 <? v4); [discriminate|]. destruct (blen _ <? v4); [discriminate|].
    inversion H; subst. unfold blen. rewrite !skipn_length. lia.
Qed.

From Coq Require Import String.
Local Open Scope string_scope.

Example parse_v0_ex :
  parse (unhex "1220000102030405060708090a0b0c0d0e0f101112131415161718191a1b1c1d1e1fff")
  = Ok (CidV0 (unhex "000102030405060708090a0b0c0d0e0f101112131415161718191a1b1c1d1e1f"), [255]%list).
Proof. vm_compute. reflexivity. Qed.

Example parse_v1_ex : parse (unhex "01551203aabbcc07") = Ok (CidV1 85 18 [170; 187; 204]%list, [7]%list).
Proof. vm_compute. reflexivity. Qed.
