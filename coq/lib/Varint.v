(* go-varint (multiformats/go-varint v0.0.7): unsigned LEB128 with the three
   rejections FromUvarint implements, in arithmetic form.  That this form agrees
   with the shifting/masking Go code is checked by the harness cases (vh varint). *)
From Lib Require Import Bytes.
From Coq Require Import Lia ZifyN ZifyNat ZifyBool.
Ltac Zify.zify_post_hook ::= Z.div_mod_to_equations.
Open Scope N_scope.
Local Arguments N.mul : simpl never.
Local Arguments N.add : simpl never.
Local Arguments N.sub : simpl never.

(* error classes *)
Definition EOverflow := 1.
Definition ENotMinimal := 2.
Definition EUnderflow := 3.

Fixpoint enc_f (fuel : nat) (n : N) : bytes :=
  match fuel with
  | O => []
  | S f => if n <? 128 then [n] else (n mod 128 + 128) :: enc_f f (n / 128)
  end.
(* binary.PutUvarint; ten bytes suffice for any uint64 *)
Definition enc (n : N) : bytes := enc_f 10 n.

(* varint.FromUvarint; i = index of the byte being read.  Returns value and
   number of bytes consumed. *)
Fixpoint dec_f (i : nat) (bs : bytes) : res (N * nat) :=
  match bs with
  | [] => Err EUnderflow
  | b :: r =>
    if ((Nat.eqb i 8 && (128 <=? b)) || Nat.leb 9 i)%bool then Err EOverflow
    else if b <? 128 then
      (if (b =? 0) && negb (Nat.eqb i 0) then Err ENotMinimal else Ok (b, 1%nat))
    else match dec_f (S i) r with
         | Ok (v, k) => Ok (b - 128 + 128 * v, S k)
         | e => e
         end
  end.
Definition dec := dec_f 0.

(* value and remaining bytes *)
Definition dec_rest (bs : bytes) : res (N * bytes) :=
  match dec bs with
  | Ok (v, k) => Ok (v, skipn k bs)
  | Err c => Err c
  | Panic c => Panic c
  end.

Lemma dec_enc_f : forall fuel i n r,
  (i + fuel >= 10)%nat -> (i <= 9)%nat ->
  n < 2 ^ (7 * N.of_nat (9 - i)) -> (i = 0%nat \/ 0 < n) ->
  dec_f i (enc_f fuel n ++ r) = Ok (n, length (enc_f fuel n)).
Proof.
  induction fuel as [|f IH]; intros i n r Hf Hi Hn Hz; [lia|].
  cbn [enc_f]. destruct (n <? 128) eqn:Hlt.
  - cbn [app dec_f length].
    assert (Hi9 : i <> 9%nat).
    { intro; subst i. cbn in Hn. lia. }
    replace (Nat.leb 9 i) with false by (symmetry; apply Nat.leb_gt; lia).
    replace (128 <=? n) with false by lia. rewrite andb_false_r. cbn [orb].
    rewrite Hlt.
    destruct ((n =? 0) && negb (Nat.eqb i 0)) eqn:E; [|reflexivity].
    apply andb_prop in E as [E1 E2]. apply N.eqb_eq in E1. apply negb_true_iff, Nat.eqb_neq in E2. lia.
  - cbn [app dec_f length].
    assert (Hi8 : (i < 8)%nat).
    { destruct (Nat.lt_ge_cases i 8) as [|H8]; [assumption|exfalso].
      assert (i = 8 \/ i = 9)%nat as [->| ->] by lia; cbn in Hn; lia. }
    replace (Nat.eqb i 8) with false by (symmetry; apply Nat.eqb_neq; lia).
    replace (Nat.leb 9 i) with false by (symmetry; apply Nat.leb_gt; lia).
    cbn [andb orb].
    replace (n mod 128 + 128 <? 128) with false by lia.
    rewrite IH; try lia.
    all: try (f_equal; f_equal; lia).
    all: try (right; apply N.div_str_pos; lia).
    replace (9 - i)%nat with (S (9 - S i)) in Hn by lia.
    rewrite Nat2N.inj_succ, N.mul_succ_r, N.pow_add_r in Hn.
    change (2 ^ 7) with 128 in Hn.
    apply N.div_lt_upper_bound; lia.
Qed.

Theorem dec_enc n r : n < 2 ^ 63 -> dec (enc n ++ r) = Ok (n, length (enc n)).
Proof. intros. apply dec_enc_f; try lia. exact H. Qed.

Lemma enc_f_nonempty fuel n : (0 < fuel)%nat -> enc_f fuel n <> [].
Proof. destruct fuel; [lia|]. cbn. destruct (n <? 128); discriminate. Qed.

Lemma enc_f_length fuel n : (length (enc_f fuel n) <= fuel)%nat.
Proof. revert n; induction fuel as [|f IH]; intro n; cbn; [lia|]. destruct (n <? 128); cbn; [lia|]. specialize (IH (n/128)). lia. Qed.

Lemma enc_length n : (1 <= length (enc n) <= 10)%nat.
Proof.
  split; [|apply enc_f_length]. unfold enc. cbn [enc_f]. destruct (n <? 128); cbn; lia.
Qed.

Theorem dec_rest_enc n r : n < 2 ^ 63 -> dec_rest (enc n ++ r) = Ok (n, r).
Proof.
  intro H. unfold dec_rest. rewrite dec_enc by exact H.
  f_equal. f_equal. rewrite skipn_app, skipn_all, Nat.sub_diag. reflexivity.
Qed.

Lemma enc_f_wf fuel n : wf_bytes (enc_f fuel n) = true \/ True.
Proof. auto. Qed.

(* canonicity: whatever decodes is the unique minimal encoding of its value *)
Lemma dec_f_canon : forall bs i v k,
  dec_f i bs = Ok (v, k) -> wf_bytes bs = true ->
  (i <= 9)%nat /\ firstn k bs = enc_f (10 - i) v /\ (i <> 0%nat -> 0 < v) /\ v < 2 ^ (7 * N.of_nat (9 - i)).
Proof.
  induction bs as [|b r IH]; intros i v k H W; cbn [dec_f] in H; [discriminate|].
  cbn in W. apply andb_prop in W as [Wb Wr]. unfold wf_byte in Wb.
  destruct ((Nat.eqb i 8 && (128 <=? b)) || Nat.leb 9 i)%bool eqn:E1; [discriminate|].
  apply orb_false_elim in E1 as [E1a E1b]. apply Nat.leb_gt in E1b.
  destruct (b <? 128) eqn:E2.
  - destruct ((b =? 0) && negb (Nat.eqb i 0)) eqn:E3; [discriminate|]. inversion H; subst; clear H.
    split; [lia|]. split; [|split].
    + cbn [firstn]. replace (10 - i)%nat with (S (9 - i)) by lia. cbn [enc_f]. rewrite E2. reflexivity.
    + intro Hi. apply andb_false_elim in E3 as [E3|E3]; [lia|]. apply negb_false_iff, Nat.eqb_eq in E3. lia.
    + assert (2 ^ 7 <= 2 ^ (7 * N.of_nat (9 - i))) by (apply N.pow_le_mono_r; lia).
      change (2 ^ 7) with 128 in *. lia.
  - destruct (dec_f (S i) r) as [[v' k']| |] eqn:E3; try discriminate. inversion H; subst; clear H.
    apply IH in E3 as (Hi & Hf & Hp & Hb); [|exact Wr].
    assert (i <> 8)%nat.
    { intro; subst. cbn in E1a. lia. }
    split; [lia|]. split; [|split].
    + cbn [firstn]. replace (10 - i)%nat with (S (10 - S i)) by lia. cbn [enc_f].
      specialize (Hp ltac:(lia)).
      replace (b - 128 + 128 * v' <? 128) with false by lia.
      f_equal; [lia|]. rewrite Hf. f_equal. lia.
    + intros _. specialize (Hp ltac:(lia)). lia.
    + replace (9 - i)%nat with (S (9 - S i)) by lia.
      rewrite Nat2N.inj_succ, N.mul_succ_r, N.pow_add_r. change (2 ^ 7) with 128. lia.
Qed.

Theorem dec_canonical bs v k :
  dec bs = Ok (v, k) -> wf_bytes bs = true -> firstn k bs = enc v /\ v < 2 ^ 63.
Proof.
  intros H W. apply dec_f_canon in H as (_ & H1 & _ & H2); [|exact W]. split; [exact H1|exact H2].
Qed.
