(* Bytes, result type and hexadecimal literals shared by the byte-level models. *)
From Coq Require Export List NArith ZArith Bool.
From Coq Require Import String Ascii.
Export ListNotations.
Open Scope N_scope.

Definition byte := N.
Definition bytes := list N.

Definition wf_byte (b : N) : bool := b <? 256.
Definition wf_bytes (l : bytes) : bool := forallb wf_byte l.

(* Outcome of a model function that mirrors a Go function which may return an
   error or panic.  A panic is never hidden by totality of the model. *)
Inductive res (A : Type) : Type :=
| Ok (a : A)
| Err (code : N)      (* coarse error class; 0 when the class is irrelevant *)
| Panic (code : N).
Arguments Ok {A} a.
Arguments Err {A} code.
Arguments Panic {A} code.

Definition bind {A B} (r : res A) (f : A -> res B) : res B :=
  match r with Ok a => f a | Err c => Err c | Panic c => Panic c end.
Notation "x <- r ;; k" := (bind r (fun x => k)) (at level 61, r at next level, right associativity).
Notation "' p <- r ;; k" := (bind r (fun p => k)) (at level 61, p pattern, r at next level, right associativity).

Definition is_ok {A} (r : res A) : bool := match r with Ok _ => true | _ => false end.
Definition is_panic {A} (r : res A) : bool := match r with Panic _ => true | _ => false end.

(* Hex literals: the harness writes payloads as strings of hex digits. *)
Definition hexval (c : ascii) : N :=
  let n := N_of_ascii c in
  if (48 <=? n) && (n <=? 57) then n - 48
  else if (97 <=? n) && (n <=? 102) then n - 87
  else if (65 <=? n) && (n <=? 70) then n - 55
  else 0.

Fixpoint unhex (s : string) : bytes :=
  match s with
  | String a (String b r) => (16 * hexval a + hexval b) :: unhex r
  | _ => []
  end.

Fixpoint bytes_eqb (a b : bytes) : bool :=
  match a, b with
  | [], [] => true
  | x :: a', y :: b' => (x =? y) && bytes_eqb a' b'
  | _, _ => false
  end.

Lemma bytes_eqb_eq a b : bytes_eqb a b = true <-> a = b.
Proof.
  revert b; induction a as [|x a IH]; intros [|y b]; cbn; split; intro H; try discriminate; auto.
  - apply andb_prop in H as [H1 H2]. apply N.eqb_eq in H1. apply IH in H2. congruence.
  - inversion H; subst. rewrite N.eqb_refl. cbn. apply IH; reflexivity.
Qed.

(* indices of the cases a checker rejects: what every cases_*.v file prints *)
Fixpoint bad_indices {A} (chk : A -> bool) (i : nat) (l : list A) : list nat :=
  match l with
  | [] => []
  | x :: r => if chk x then bad_indices chk (S i) r else i :: bad_indices chk (S i) r
  end.

Fixpoint list_eqb {A} (eqb : A -> A -> bool) (a b : list A) : bool :=
  match a, b with
  | [], [] => true
  | x :: a', y :: b' => eqb x y && list_eqb eqb a' b'
  | _, _ => false
  end.

Definition option_eqb {A} (eqb : A -> A -> bool) (a b : option A) : bool :=
  match a, b with
  | None, None => true
  | Some x, Some y => eqb x y
  | _, _ => false
  end.
