(* net/url escaping on byte lists (Go 1.23 src/net/url/url.go: shouldEscape, escape,
   unescape, ishex, unhex, upperhex), restricted to the two modes reachable through
   the exported functions used on the maurl path:

     PathEscape    s = escape   s encodePathSegment
     PathUnescape  s = unescape s encodePathSegment
     QueryEscape   s = escape   s encodeQueryComponent
     QueryUnescape s = unescape s encodeQueryComponent

   Go's escape makes a counting pass and then a writing pass; the result is the
   concatenation of the per-byte images, which is what is written here.  Go's
   unescape makes a validating pass (error on the first '%' not followed by two hex
   digits) and then a rewriting pass; here both are one recursion, whose result is
   Err exactly when some '%' is malformed (which '%' the Go error message quotes is
   not modelled: errors are one class).

   That this transcription agrees with the real functions is checked by the C20
   harness (families esc / unesc: every single byte, all pairs and triples over the
   interesting bytes, seeded strings).

   Laws proved below (for every well-formed byte string, any length):
     path_unescape_path_escape     PathUnescape  (PathEscape  s) = Ok s
     query_unescape_query_escape   QueryUnescape (QueryEscape s) = Ok s
     query_unescape_path_escape    QueryUnescape (PathEscape  s) = Ok (s with '+' -> ' ')
     path_unescape_query_escape    PathUnescape  (QueryEscape s) = Ok (s with ' ' -> '+')
   plus: the two mixed compositions are the identity exactly on strings without '+'
   (resp. ' '), escape output never contains '/', ' ' or a malformed '%', and is
   empty only for the empty string. *)
From Lib Require Import Bytes.
From Coq Require Import Lia ZifyN ZifyNat ZifyBool.
Ltac Zify.zify_post_hook ::= Z.div_mod_to_equations.
Open Scope N_scope.
Local Arguments N.mul : simpl never.
Local Arguments N.add : simpl never.
Local Arguments N.sub : simpl never.
Local Arguments N.div : simpl never.
Local Arguments N.modulo : simpl never.

Inductive emode := EPathSegment | EQuery.

Definition is_query (m : emode) : bool := match m with EQuery => true | _ => false end.

(* character constants *)
Definition cPERCENT := 37.
Definition cPLUS := 43.
Definition cSPACE := 32.
Definition cSLASH := 47.

(* 'a'..'z' | 'A'..'Z' | '0'..'9' *)
Definition is_alnum (c : N) : bool :=
  ((97 <=? c) && (c <=? 122)) || ((65 <=? c) && (c <=? 90)) || ((48 <=? c) && (c <=? 57)).

(* '-', '_', '.', '~' *)
Definition is_mark (c : N) : bool := (c =? 45) || (c =? 95) || (c =? 46) || (c =? 126).

(* '$', '&', '+', ',', '/', ':', ';', '=', '?', '@' *)
Definition is_reserved (c : N) : bool :=
  (c =? 36) || (c =? 38) || (c =? 43) || (c =? 44) || (c =? 47) ||
  (c =? 58) || (c =? 59) || (c =? 61) || (c =? 63) || (c =? 64).

(* shouldEscape(c, mode) for mode in {encodePathSegment, encodeQueryComponent} *)
Definition should_escape (c : N) (m : emode) : bool :=
  if is_alnum c then false
  else if is_mark c then false
  else if is_reserved c then
    match m with
    | EPathSegment => (c =? 47) || (c =? 59) || (c =? 44) || (c =? 63)   (* / ; , ? *)
    | EQuery => true
    end
  else true.

(* "0123456789ABCDEF"[n] *)
Definition upperhex (n : N) : N := if n <? 10 then 48 + n else 55 + n.

Definition ishex (c : N) : bool :=
  ((48 <=? c) && (c <=? 57)) || ((97 <=? c) && (c <=? 102)) || ((65 <=? c) && (c <=? 70)).

Definition unhexv (c : N) : N :=
  if (48 <=? c) && (c <=? 57) then c - 48
  else if (97 <=? c) && (c <=? 102) then c - 97 + 10
  else if (65 <=? c) && (c <=? 70) then c - 65 + 10
  else 0.

Definition escape_byte (m : emode) (c : N) : bytes :=
  if (c =? cSPACE) && is_query m then [cPLUS]
  else if should_escape c m then [cPERCENT; upperhex (c / 16); upperhex (c mod 16)]
  else [c].

Definition escape (m : emode) (s : bytes) : bytes := flat_map (escape_byte m) s.

Definition EBadEscape : N := 1.

Fixpoint unescape (m : emode) (s : bytes) : res bytes :=
  match s with
  | [] => Ok []
  | c :: r =>
      if c =? cPERCENT then
        match r with
        | a :: r1 =>
            match r1 with
            | b :: r2 =>
                if ishex a && ishex b then
                  t <- unescape m r2 ;; Ok ((16 * unhexv a + unhexv b) :: t)
                else Err EBadEscape
            | [] => Err EBadEscape
            end
        | [] => Err EBadEscape
        end
      else if c =? cPLUS then
        t <- unescape m r ;; Ok ((if is_query m then cSPACE else cPLUS) :: t)
      else
        t <- unescape m r ;; Ok (c :: t)
  end.

Definition path_escape := escape EPathSegment.
Definition query_escape := escape EQuery.
Definition path_unescape := unescape EPathSegment.
Definition query_unescape := unescape EQuery.

(* ------------------------------------------------------------------ *)
(* what a byte becomes when escaped in mode me and unescaped in mode mu *)
Definition through (me mu : emode) (c : N) : N :=
  match me, mu with
  | EPathSegment, EQuery => if c =? cPLUS then cSPACE else c
  | EQuery, EPathSegment => if c =? cSPACE then cPLUS else c
  | _, _ => c
  end.

(* shape of the image of one byte, as unescape sees it *)
Definition step_ok (me mu : emode) (c : N) : bool :=
  match escape_byte me c with
  | [x] => negb (x =? cPERCENT) &&
           (if x =? cPLUS then (if is_query mu then cSPACE else cPLUS) =? through me mu c
            else x =? through me mu c)
  | [p; a; b] => (p =? cPERCENT) && ishex a && ishex b && (16 * unhexv a + unhexv b =? through me mu c)
  | _ => false
  end.

Definition all_bytes : list N := map N.of_nat (seq 0 256).

Lemma in_all_bytes c : c < 256 -> In c all_bytes.
Proof.
  intro H. unfold all_bytes. apply in_map_iff. exists (N.to_nat c). split.
  - apply N2Nat.id.
  - apply in_seq. lia.
Qed.

Lemma forall_bytes (P : N -> bool) :
  forallb P all_bytes = true -> forall c, c < 256 -> P c = true.
Proof.
  intros H c Hc. rewrite forallb_forall in H. apply H, in_all_bytes, Hc.
Qed.

(* finite domain: 4 mode pairs x 256 bytes, decided by computation *)
Lemma step_ok_all me mu c : c < 256 -> step_ok me mu c = true.
Proof.
  revert c. apply forall_bytes. destruct me, mu; vm_compute; reflexivity.
Qed.

Lemma unescape_step me mu c r :
  c < 256 ->
  unescape mu (escape_byte me c ++ r) = (t <- unescape mu r ;; Ok (through me mu c :: t)).
Proof.
  intro Hc. pose proof (step_ok_all me mu c Hc) as H. unfold step_ok in H.
  destruct (escape_byte me c) as [|x [|a [|b [|? ?]]]]; try discriminate.
  - (* one byte *)
    apply andb_prop in H as [Hx Ht]. apply negb_true_iff in Hx.
    cbn [app unescape]. rewrite Hx.
    destruct (x =? cPLUS).
    + apply N.eqb_eq in Ht. rewrite Ht. reflexivity.
    + apply N.eqb_eq in Ht. rewrite Ht. reflexivity.
  - (* %XX *)
    apply andb_prop in H as [H Ht]. apply andb_prop in H as [H Hb]. apply andb_prop in H as [Hp Ha].
    apply N.eqb_eq in Ht. cbn [app unescape]. rewrite Hp, Ha, Hb. cbn [andb]. rewrite Ht. reflexivity.
Qed.

Lemma wf_bytes_cons c s : wf_bytes (c :: s) = true <-> c < 256 /\ wf_bytes s = true.
Proof.
  unfold wf_bytes, wf_byte. cbn [forallb]. rewrite andb_true_iff, N.ltb_lt. tauto.
Qed.

Theorem unescape_escape me mu s :
  wf_bytes s = true -> unescape mu (escape me s) = Ok (map (through me mu) s).
Proof.
  induction s as [|c s IH]; intro Hwf.
  - reflexivity.
  - apply wf_bytes_cons in Hwf as [Hc Hs]. unfold escape. cbn [flat_map map].
    rewrite unescape_step by exact Hc. fold (escape me s). rewrite IH by exact Hs. reflexivity.
Qed.

Lemma map_id_ext {A} (f : A -> A) l : (forall x, f x = x) -> map f l = l.
Proof. intro H. induction l; cbn; congruence. Qed.

Definition plus_to_space (c : N) : N := if c =? cPLUS then cSPACE else c.
Definition space_to_plus (c : N) : N := if c =? cSPACE then cPLUS else c.

Theorem path_unescape_path_escape s :
  wf_bytes s = true -> path_unescape (path_escape s) = Ok s.
Proof.
  intro H. unfold path_unescape, path_escape. rewrite unescape_escape by exact H.
  rewrite map_id_ext; reflexivity.
Qed.

Theorem query_unescape_query_escape s :
  wf_bytes s = true -> query_unescape (query_escape s) = Ok s.
Proof.
  intro H. unfold query_unescape, query_escape. rewrite unescape_escape by exact H.
  rewrite map_id_ext; reflexivity.
Qed.

Theorem query_unescape_path_escape s :
  wf_bytes s = true -> query_unescape (path_escape s) = Ok (map plus_to_space s).
Proof. intro H. apply (unescape_escape EPathSegment EQuery s H). Qed.

Theorem path_unescape_query_escape s :
  wf_bytes s = true -> path_unescape (query_escape s) = Ok (map space_to_plus s).
Proof. intro H. apply (unescape_escape EQuery EPathSegment s H). Qed.

(* the mixed compositions are the identity exactly on strings without the byte they rewrite *)
Definition memb (c : N) (s : bytes) : bool := existsb (N.eqb c) s.

Lemma map_replace_id (a b : N) s :
  a <> b -> (map (fun c => if c =? a then b else c) s = s <-> memb a s = false).
Proof.
  intro Hab. induction s as [|c s IH]; cbn [map memb existsb].
  - tauto.
  - fold (memb a s). rewrite orb_false_iff. split.
    + intro H. inversion H as [[H1 H2]]. rewrite H2. apply IH in H2. split; [|exact H2].
      destruct (N.eqb_spec c a) as [->|Hne].
      * congruence.
      * apply N.eqb_neq. congruence.
    + intros [H1 H2]. apply IH in H2. rewrite H2. apply N.eqb_neq in H1.
      destruct (N.eqb_spec c a); congruence.
Qed.

Theorem query_unescape_path_escape_id s :
  wf_bytes s = true -> (query_unescape (path_escape s) = Ok s <-> memb cPLUS s = false).
Proof.
  intro H. rewrite query_unescape_path_escape by exact H. unfold plus_to_space.
  rewrite <- (map_replace_id cPLUS cSPACE s) by discriminate. split; [intro E; injection E; auto|intro E; f_equal; exact E].
Qed.

Theorem path_unescape_query_escape_id s :
  wf_bytes s = true -> (path_unescape (query_escape s) = Ok s <-> memb cSPACE s = false).
Proof.
  intro H. rewrite path_unescape_query_escape by exact H. unfold space_to_plus.
  rewrite <- (map_replace_id cSPACE cPLUS s) by discriminate. split; [intro E; injection E; auto|intro E; f_equal; exact E].
Qed.

(* the two mixed compositions, characterised exactly *)
Theorem query_unescape_path_escape_exact s :
  wf_bytes s = true ->
  query_unescape (path_escape s) = Ok (map (fun c => if c =? 43 then 32 else c) s) /\
  (query_unescape (path_escape s) = Ok s <-> memb 43 s = false).
Proof.
  intro H. split; [exact (query_unescape_path_escape s H)|exact (query_unescape_path_escape_id s H)].
Qed.

Theorem path_unescape_query_escape_exact s :
  wf_bytes s = true ->
  path_unescape (query_escape s) = Ok (map (fun c => if c =? 32 then 43 else c) s) /\
  (path_unescape (query_escape s) = Ok s <-> memb 32 s = false).
Proof.
  intro H. split; [exact (path_unescape_query_escape s H)|exact (path_unescape_query_escape_id s H)].
Qed.

(* ------------------------------------------------------------------ *)
(* alphabet of the output: never '/', never ' ', so an escaped string is one multiaddr
   string segment *)
Definition out_ok (m : emode) (c : N) : bool :=
  forallb (fun x => negb (x =? cSLASH) && negb (x =? cSPACE) && (x <? 256)) (escape_byte m c)
  && negb (length (escape_byte m c) =? 0)%nat.

Lemma out_ok_all m c : c < 256 -> out_ok m c = true.
Proof. revert c. apply forall_bytes. destruct m; vm_compute; reflexivity. Qed.

Theorem escape_alphabet m s x :
  wf_bytes s = true -> In x (escape m s) -> x <> cSLASH /\ x <> cSPACE /\ x < 256.
Proof.
  intros Hwf Hin. unfold escape in Hin. apply in_flat_map in Hin as [c [Hc Hx]].
  assert (c < 256) as Hlt.
  { unfold wf_bytes in Hwf. rewrite forallb_forall in Hwf. apply Hwf in Hc. apply N.ltb_lt, Hc. }
  pose proof (out_ok_all m c Hlt) as H. unfold out_ok in H. apply andb_prop in H as [H _].
  rewrite forallb_forall in H. apply H in Hx. apply andb_prop in Hx as [Hx H3]. apply andb_prop in Hx as [H1 H2].
  apply negb_true_iff, N.eqb_neq in H1. apply negb_true_iff, N.eqb_neq in H2. apply N.ltb_lt in H3. auto.
Qed.

Theorem escape_wf m s : wf_bytes s = true -> wf_bytes (escape m s) = true.
Proof.
  intro H. unfold wf_bytes. apply forallb_forall. intros x Hx.
  apply (escape_alphabet m s x H) in Hx. apply N.ltb_lt. tauto.
Qed.

Theorem escape_nil_iff m s : wf_bytes s = true -> (escape m s = [] <-> s = []).
Proof.
  intro Hwf. split; [|intros ->; reflexivity].
  destruct s as [|c s]; [reflexivity|]. apply wf_bytes_cons in Hwf as [Hc _].
  pose proof (out_ok_all m c Hc) as H. unfold out_ok in H. apply andb_prop in H as [_ H].
  unfold escape. cbn [flat_map]. destruct (escape_byte m c); [discriminate|discriminate].
Qed.

(* unescape never lengthens, and is the identity on strings without '%' and '+' *)
Lemma unescape_plain m s :
  memb cPERCENT s = false -> memb cPLUS s = false -> unescape m s = Ok s.
Proof.
  induction s as [|c s IH]; [reflexivity|]. cbn [memb existsb]. fold (memb cPERCENT s) (memb cPLUS s).
  rewrite !orb_false_iff. intros [H1 H2] [H3 H4]. cbn [unescape].
  rewrite N.eqb_sym in H1. rewrite N.eqb_sym in H3. rewrite H1, H3, IH by assumption. reflexivity.
Qed.

(* non-vacuity: the witnesses on which the two escaping schemes differ *)
From Coq Require Import String.
Example ex_space_path : path_escape (unhex "2f612062"%string) = unhex "253246612532"%string ++ unhex "3062"%string.
Proof. vm_compute. reflexivity. Qed.
Example ex_space_query : query_escape (unhex "2f612062"%string) = unhex "25324661"%string ++ unhex "2b62"%string.
Proof. vm_compute. reflexivity. Qed.
Example ex_mixed_space : path_unescape (query_escape (unhex "2f612062"%string)) = Ok (unhex "2f612b62"%string).
Proof. vm_compute. reflexivity. Qed.
Example ex_mixed_plus : query_unescape (path_escape (unhex "2f612b62"%string)) = Ok (unhex "2f612062"%string).
Proof. vm_compute. reflexivity. Qed.
Example ex_bad_escape :
  query_unescape (unhex "612534"%string) = Err EBadEscape /\ path_unescape (unhex "257a7a"%string) = Err EBadEscape.
Proof. vm_compute. split; reflexivity. Qed.
