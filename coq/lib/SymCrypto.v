(* Symbolic (Dolev-Yao) cryptography shared by C03, C05 and C18.

   Three layers, from concrete to abstract:

   1. FRAMING (concrete, byte level -- this is code, not an assumption).
      libp2p core/record.makeUnsigned:
          unsigned dom ty pl = lp dom ++ lp ty ++ lp pl,   lp b = uvarint (len b) ++ b
      [unsigned_injective]: for byte strings shorter than 2^63 (every Go slice)
      the buffer that is signed determines (dom, ty, pl); so a signature over
      one (domain, payload type, payload) is a signature over no other.

   2. SIGNATURE SCHEME (abstract).  [Section Scheme] takes the key / signature /
      peer-ID types and the operations [pub sign verify peer_id] as Section
      Variables and the idealisations as NAMED PROPOSITIONS over them
      ([VerifySign], [VerifyUnique], [SignInjective], [PubInjective],
      [PeerIdInjective]); a client proves its theorems under
      `Hypothesis h : VerifySign pub sign verify` etc., which become explicit
      premises when the section closes.  Nothing is an Axiom or Parameter.
      On top: the libp2p envelope ([envelope], [seal], [validate], [consume]) and
      its laws ([validate_seal], [validate_iff], [validate_field_altered_*],
      [validate_other_domain]).

   3. SYMBOLIC INSTANCE (Module Sym).  Keys are numbers, a signature is the term
      [Sig k m] (or [Junk n] for bytes nobody produced by signing), verification
      is structural equality, a peer ID is the key number.  All five laws are
      PROVED for it ([Sym.laws]), so they are consistent, and the case files of
      the harness evaluate the models on it: the harness maps each real key to
      its index in its key pool and each real signature to the term naming who
      signed what.

   What the idealisation says, in words (trusted base of every theorem that
   names these hypotheses):
     VerifySign       a signature made with k over m verifies under pub k
     VerifyUnique     nothing else verifies: verify pk m s = true only if s IS the
                      signature of the key behind pk over m (unforgeability in its
                      symbolic, strong form: no second signature for (pk, m))
     SignInjective    a signature term determines its key and its message
     PubInjective     a public key determines the private key
     PeerIdInjective  a peer ID determines the public key (identity multihash for
                      small keys, collision-free sha2-256 for RSA)
   A symbolic signature value stands for the CLASS of byte strings the real
   verifier takes for one signature (ECDSA as implemented by go-libp2p accepts
   trailing bytes after the DER value and (r, n-s)); with that reading
   VerifyUnique is about classes, and the harnesses name such bytes as the
   signature they verify as.

   HOW A CLIENT (C03, C05, C18) USES THIS FILE
   * model file: `Section` with Variables privkey pubkey sigt peerid, pub, sign,
     verify, peer_id (and peerid_eqb : peerid -> peerid -> bool for Go's `==` on
     peer.ID); functions written against [envelope], [seal], [validate], [consume]
     (wire = option envelope: the protobuf layer is not modelled).  After `End`
     declare the type arguments implicit (`Arguments f {pubkey sigt} ...`).
   * proofs file: `Hypothesis VS : VerifySign pub sign verify.` etc. inside a Section;
     use [validate_iff] (exact acceptance condition), [validate_signed_iff],
     [validate_altered_one_field] / [validate_altered_*], [validate_other_domain],
     [unsigned_injective].  Each lemma ends up with only the laws its proof used.
   * case checkers: instantiate with [Sym.pub Sym.sign Sym.verify Sym.peer_id
     Sym.peerid_eqb]; signatures in cases are [Sym.Sig k m] / [Sym.Junk n]
     ([Sym.sig_eqb] compares them).
   * harness side: package verif/harness/keypool builds the deterministic pool of real
     keys (all four libp2p key types) and maps real keys / peer IDs / unknown
     signature bytes to the indices the symbolic instance uses. *)
From Lib Require Import Bytes Varint.
From Coq Require Import Lia ZifyN ZifyNat ZifyBool String Ascii.
Ltac Zify.zify_post_hook ::= Z.div_mod_to_equations.
Open Scope N_scope.
Local Arguments N.mul : simpl never.
Local Arguments N.add : simpl never.
Local Arguments N.sub : simpl never.
Local Arguments N.pow : simpl never.

(* ------------------------------------------------------------------ *)
(* 0. small helpers                                                     *)

Definition lenN (b : bytes) : N := N.of_nat (List.length b).

Lemma lenN_app a b : lenN (a ++ b)%list = lenN a + lenN b.
Proof. unfold lenN. rewrite app_length. lia. Qed.

Definition is_nil {A} (l : list A) : bool := match l with [] => true | _ => false end.

(* Go string constant -> its bytes (ASCII constants only) *)
Definition bytes_of_string (s : string) : bytes :=
  List.map N_of_ascii (list_ascii_of_string s).

Lemma app_eq_len {A} (a a' r r' : list A) :
  (a ++ r)%list = (a' ++ r')%list -> List.length a = List.length a' -> a = a' /\ r = r'.
Proof.
  revert a'; induction a as [|x a IH]; intros [|y a'] H L; cbn in *; try discriminate; auto.
  inversion H; subst. destruct (IH a' H2) as [-> ->]; [lia|]. auto.
Qed.

(* ------------------------------------------------------------------ *)
(* 1. framing: length-prefixed concatenation                            *)

(* one field: unsigned varint of the length, then the bytes *)
Definition lp (b : bytes) : bytes := (Varint.enc (lenN b) ++ b)%list.

(* core/record.makeUnsigned(domain, payloadType, payload) *)
Definition unsigned (dom ty pl : bytes) : bytes := (lp dom ++ lp ty ++ lp pl)%list.

(* a length-prefixed field can be split off the front of any byte string in one way only *)
Theorem lp_app_injective a a' r r' :
  lenN a < 2 ^ 63 -> lenN a' < 2 ^ 63 ->
  (lp a ++ r)%list = (lp a' ++ r')%list -> a = a' /\ r = r'.
Proof.
  intros Ha Ha' H. unfold lp in H. rewrite <- !app_assoc in H.
  pose proof (Varint.dec_rest_enc (lenN a) (a ++ r) Ha) as D.
  pose proof (Varint.dec_rest_enc (lenN a') (a' ++ r') Ha') as D'.
  rewrite H in D. rewrite D in D'. inversion D' as [[Hl Hr]].
  apply app_eq_len in Hr; [exact Hr|]. unfold lenN in Hl. lia.
Qed.

Corollary lp_injective a a' :
  lenN a < 2 ^ 63 -> lenN a' < 2 ^ 63 -> lp a = lp a' -> a = a'.
Proof.
  intros Ha Ha' H. destruct (lp_app_injective a a' [] [] Ha Ha') as [E _]; [|exact E].
  rewrite !app_nil_r. exact H.
Qed.

(* The signed buffer determines domain, payload type and payload. *)
Theorem unsigned_injective dom ty pl dom' ty' pl' :
  lenN dom < 2 ^ 63 -> lenN ty < 2 ^ 63 -> lenN pl < 2 ^ 63 ->
  lenN dom' < 2 ^ 63 -> lenN ty' < 2 ^ 63 -> lenN pl' < 2 ^ 63 ->
  unsigned dom ty pl = unsigned dom' ty' pl' ->
  dom = dom' /\ ty = ty' /\ pl = pl'.
Proof.
  intros Hd Ht Hp Hd' Ht' Hp' H. unfold unsigned in H.
  apply lp_app_injective in H as [E1 H]; [|assumption|assumption].
  apply lp_app_injective in H as [E2 H]; [|assumption|assumption].
  apply lp_injective in H; auto.
Qed.

(* without the length prefixes the concatenation would be ambiguous: bytes could be
   moved between domain and payload type (documents why the prefixes matter) *)
Example plain_concat_ambiguous :
  ([1;2] ++ [3] ++ [4] = [1] ++ [2;3] ++ [4])%list /\ unsigned [1;2] [3] [4] <> unsigned [1] [2;3] [4].
Proof. split; [reflexivity|]. vm_compute. discriminate. Qed.

Definition short (b : bytes) : Prop := lenN b < 2 ^ 63.

(* ------------------------------------------------------------------ *)
(* 2. abstract signature scheme, envelopes                              *)

Definition EEnvParse := 40.       (* protobuf / key bytes do not parse *)
Definition EEnvSignature := 41.   (* "invalid signature or incorrect domain" *)
Definition EEnvEmptyDomain := 42.
Definition EEnvEmptyType := 43.

Section Scheme.
  Variables privkey pubkey sigt : Type.
  Variable pub : privkey -> pubkey.
  Variable sign : privkey -> bytes -> sigt.
  Variable verify : pubkey -> bytes -> sigt -> bool.

  (* the idealisations, as named propositions (never assumed globally) *)
  Definition VerifySign : Prop := forall k m, verify (pub k) m (sign k m) = true.
  Definition VerifyUnique : Prop :=
    forall pk m s, verify pk m s = true -> exists k, pk = pub k /\ s = sign k m.
  Definition SignInjective : Prop :=
    forall k m k' m', sign k m = sign k' m' -> k = k' /\ m = m'.
  Definition PubInjective : Prop := forall k k', pub k = pub k' -> k = k'.

  (* exact characterisation of verification that the first four give *)
  Lemma verify_iff :
    VerifySign -> VerifyUnique ->
    forall pk m s, verify pk m s = true <-> exists k, pk = pub k /\ s = sign k m.
  Proof.
    intros VS VU pk m s. split; [apply VU|]. intros (k & -> & ->). apply VS.
  Qed.

  (* a signature made by k over m verifies under pk over m' only for pk = pub k, m' = m *)
  Lemma verify_sign_iff :
    VerifySign -> VerifyUnique -> SignInjective ->
    forall pk m' k m, verify pk m' (sign k m) = true <-> (pk = pub k /\ m' = m).
  Proof.
    intros VS VU SI pk m' k m. split.
    - intro H. apply VU in H as (k' & -> & E). apply SI in E as [-> ->]. auto.
    - intros [-> ->]. apply VS.
  Qed.

  (* under pub k only k's own signature over m verifies *)
  Lemma verify_own_unique :
    VerifyUnique -> PubInjective ->
    forall k m s, verify (pub k) m s = true -> s = sign k m.
  Proof.
    intros VU PI k m s H. apply VU in H as (k' & E & ->). apply PI in E as <-. reflexivity.
  Qed.

  (* ---- libp2p signed envelope (core/record) ---- *)

  Record envelope := Envelope {
    e_key : pubkey;       (* PublicKey *)
    e_ty : bytes;         (* PayloadType *)
    e_payload : bytes;    (* RawPayload *)
    e_sig : sigt          (* signature *)
  }.

  (* record.Seal after rec.MarshalRecord: dom = rec.Domain(), ty = rec.Codec() *)
  Definition seal (dom ty pl : bytes) (k : privkey) : res envelope :=
    if is_nil dom then Err EEnvEmptyDomain
    else if is_nil ty then Err EEnvEmptyType
    else Ok (Envelope (pub k) ty pl (sign k (unsigned dom ty pl))).

  (* Envelope.validate(domain) *)
  Definition validate (dom : bytes) (e : envelope) : bool :=
    verify (e_key e) (unsigned dom (e_ty e) (e_payload e)) (e_sig e).

  (* UnmarshalEnvelope + validate.  The protobuf layer is not modelled: the wire is
     [None] when proto.Unmarshal or crypto.PublicKeyFromProto fail, [Some e] with the
     four fields otherwise. *)
  Definition consume (w : option envelope) (dom : bytes) : res envelope :=
    match w with
    | None => Err EEnvParse
    | Some e => if validate dom e then Ok e else Err EEnvSignature
    end.

  Definition env_short (e : envelope) : Prop := short (e_ty e) /\ short (e_payload e).

  Lemma seal_ok dom ty pl k :
    dom <> [] -> ty <> [] ->
    seal dom ty pl k = Ok (Envelope (pub k) ty pl (sign k (unsigned dom ty pl))).
  Proof. intros Hd Ht. unfold seal. destruct dom; [congruence|]. destruct ty; [congruence|]. reflexivity. Qed.

  Lemma seal_inv dom ty pl k e :
    seal dom ty pl k = Ok e -> e = Envelope (pub k) ty pl (sign k (unsigned dom ty pl)) /\ dom <> [] /\ ty <> [].
  Proof.
    unfold seal. destruct dom; cbn; [discriminate|]. destruct ty; cbn; [discriminate|].
    intro H; inversion H; subst. repeat split; discriminate.
  Qed.

  (* what is sealed validates under the domain it was sealed for *)
  Lemma validate_seal :
    VerifySign -> forall dom ty pl k e, seal dom ty pl k = Ok e -> validate dom e = true.
  Proof.
    intros VS dom ty pl k e H. apply seal_inv in H as (-> & _ & _). unfold validate; cbn. apply VS.
  Qed.

  (* an envelope validates exactly when its signature is the signature, by the key it
     carries, over (dom, its type, its payload) *)
  Lemma validate_iff :
    VerifySign -> VerifyUnique ->
    forall dom e, validate dom e = true <->
      exists k, e_key e = pub k /\ e_sig e = sign k (unsigned dom (e_ty e) (e_payload e)).
  Proof. intros VS VU dom e. unfold validate. apply verify_iff; assumption. Qed.

  (* an envelope whose signature was made by k over (dom0, ty0, pl0) validates under dom
     iff its key is pub k and (dom, type, payload) are what was signed *)
  Lemma validate_signed_iff :
    VerifySign -> VerifyUnique -> SignInjective ->
    forall dom pk ty pl k dom0 ty0 pl0,
      short dom -> short ty -> short pl -> short dom0 -> short ty0 -> short pl0 ->
      (validate dom (Envelope pk ty pl (sign k (unsigned dom0 ty0 pl0))) = true <->
       pk = pub k /\ dom = dom0 /\ ty = ty0 /\ pl = pl0).
  Proof.
    intros VS VU SI dom pk ty pl k dom0 ty0 pl0 S1 S2 S3 S4 S5 S6. unfold validate; cbn.
    rewrite verify_sign_iff by assumption. split.
    - intros [-> E]. apply unsigned_injective in E; auto; tauto.
    - intros (-> & -> & -> & ->). auto.
  Qed.

  (* single-field alterations of a sealed envelope *)
  Section Altered.
    Hypothesis VS : VerifySign.
    Hypothesis VU : VerifyUnique.
    Hypothesis SI : SignInjective.
    Variables (dom ty pl : bytes) (k : privkey).
    Hypothesis Sd : short dom.
    Hypothesis St : short ty.
    Hypothesis Sp : short pl.
    Let s0 := sign k (unsigned dom ty pl).

    Lemma validate_altered_key pk' : pk' <> pub k -> validate dom (Envelope pk' ty pl s0) = false.
    Proof.
      intro N. destruct (validate dom _) eqn:E; [|reflexivity]. exfalso.
      apply validate_signed_iff in E; auto. tauto.
    Qed.

    Lemma validate_altered_type ty' : short ty' -> ty' <> ty -> validate dom (Envelope (pub k) ty' pl s0) = false.
    Proof.
      intros S N. destruct (validate dom _) eqn:E; [|reflexivity]. exfalso.
      apply validate_signed_iff in E; auto. tauto.
    Qed.

    Lemma validate_altered_payload pl' : short pl' -> pl' <> pl -> validate dom (Envelope (pub k) ty pl' s0) = false.
    Proof.
      intros S N. destruct (validate dom _) eqn:E; [|reflexivity]. exfalso.
      apply validate_signed_iff in E; auto. tauto.
    Qed.

    Lemma validate_altered_sig (PI : PubInjective) s' : s' <> s0 -> validate dom (Envelope (pub k) ty pl s') = false.
    Proof.
      intro N. destruct (validate dom _) eqn:E; [|reflexivity]. exfalso.
      unfold validate in E; cbn in E. apply verify_own_unique in E; auto.
    Qed.

    (* sealed for one domain, presented under another *)
    Lemma validate_other_domain dom' : short dom' -> dom' <> dom -> validate dom' (Envelope (pub k) ty pl s0) = false.
    Proof.
      intros S N. destruct (validate dom' _) eqn:E; [|reflexivity]. exfalso.
      apply validate_signed_iff in E; auto. tauto.
    Qed.
  End Altered.

  (* e' is e with exactly one of the four fields replaced by a different value *)
  Definition altered_one_field (e e' : envelope) : Prop :=
    (e_key e' <> e_key e /\ e_ty e' = e_ty e /\ e_payload e' = e_payload e /\ e_sig e' = e_sig e) \/
    (e_key e' = e_key e /\ e_ty e' <> e_ty e /\ e_payload e' = e_payload e /\ e_sig e' = e_sig e) \/
    (e_key e' = e_key e /\ e_ty e' = e_ty e /\ e_payload e' <> e_payload e /\ e_sig e' = e_sig e) \/
    (e_key e' = e_key e /\ e_ty e' = e_ty e /\ e_payload e' = e_payload e /\ e_sig e' <> e_sig e).

  (* no single-field alteration of a sealed envelope validates *)
  Lemma validate_altered_one_field :
    VerifySign -> VerifyUnique -> SignInjective -> PubInjective ->
    forall dom ty pl k e e',
      short dom -> short ty -> short pl ->
      seal dom ty pl k = Ok e -> altered_one_field e e' -> env_short e' ->
      validate dom e' = false.
  Proof.
    intros VS VU SI PI dom ty pl k e e' Sd St Sp Hs Ha [St' Sp'].
    apply seal_inv in Hs as (-> & _ & _). destruct e' as [pk' ty' pl' s']. unfold altered_one_field in Ha. cbn in *.
    destruct Ha as [(H1 & -> & -> & ->)|[(-> & H2 & -> & ->)|[(-> & -> & H3 & ->)|(-> & -> & -> & H4)]]].
    - apply validate_altered_key; auto.
    - apply validate_altered_type; auto.
    - apply validate_altered_payload; auto.
    - apply validate_altered_sig; auto.
  Qed.

  Lemma consume_ok_iff w dom e :
    consume w dom = Ok e <-> w = Some e /\ validate dom e = true.
  Proof.
    unfold consume. destruct w as [e'|]; [|split; [discriminate|intros [? _]; discriminate]].
    destruct (validate dom e') eqn:E; split.
    - intro H; inversion H; subst; auto.
    - intros [H V]; inversion H; subst; reflexivity.
    - discriminate.
    - intros [H V]; inversion H; subst; congruence.
  Qed.

  Lemma consume_not_panic w dom : is_panic (consume w dom) = false.
  Proof. unfold consume. destruct w; [destruct (validate _ _)|]; reflexivity. Qed.

  (* peer IDs (declared last so that no envelope lemma above can depend on them) *)
  Variable peerid : Type.
  Variable peer_id : pubkey -> peerid.
  Definition PeerIdInjective : Prop := forall a b, peer_id a = peer_id b -> a = b.
End Scheme.

Arguments Envelope {pubkey sigt} _ _ _ _.
Arguments e_key {pubkey sigt} _.
Arguments e_ty {pubkey sigt} _.
Arguments e_payload {pubkey sigt} _.
Arguments e_sig {pubkey sigt} _.
Arguments seal {privkey pubkey sigt} pub sign dom ty pl k.
Arguments validate {pubkey sigt} verify dom e.
Arguments consume {pubkey sigt} verify w dom.
Arguments env_short {pubkey sigt} e.
Arguments altered_one_field {pubkey sigt} e e'.
Arguments VerifySign {privkey pubkey sigt} pub sign verify.
Arguments VerifyUnique {privkey pubkey sigt} pub sign verify.
Arguments SignInjective {privkey sigt} sign.
Arguments PubInjective {privkey pubkey} pub.
Arguments PeerIdInjective {pubkey peerid} peer_id.

(* ------------------------------------------------------------------ *)
(* 3. the symbolic instance                                             *)

Module Sym.
  Definition privkey := N.
  Definition pubkey := N.
  Definition peerid := N.
  Inductive sigt :=
  | Sig (k : N) (m : bytes)     (* made by signing m with key k *)
  | Junk (n : N).               (* any other byte string in the signature field *)

  Definition pub (k : privkey) : pubkey := k.
  Definition sign (k : privkey) (m : bytes) : sigt := Sig k m.
  Definition verify (pk : pubkey) (m : bytes) (s : sigt) : bool :=
    match s with
    | Sig k m' => (k =? pk) && bytes_eqb m m'
    | Junk _ => false
    end.
  Definition peer_id (pk : pubkey) : peerid := pk.
  Definition peerid_eqb (a b : peerid) : bool := a =? b.

  Definition sig_eqb (a b : sigt) : bool :=
    match a, b with
    | Sig k m, Sig k' m' => (k =? k') && bytes_eqb m m'
    | Junk n, Junk n' => n =? n'
    | _, _ => false
    end.

  Lemma verify_sign : VerifySign pub sign verify.
  Proof.
    intros k m. cbn. rewrite N.eqb_refl. cbn. apply bytes_eqb_eq. reflexivity.
  Qed.
  Lemma verify_unique : VerifyUnique pub sign verify.
  Proof.
    intros pk m [k m'|n] H; cbn in H; [|discriminate].
    apply andb_prop in H as [H1 H2]. apply N.eqb_eq in H1. apply bytes_eqb_eq in H2. subst.
    exists pk. split; reflexivity.
  Qed.
  Lemma sign_injective : SignInjective sign.
  Proof. intros k m k' m' H. inversion H. auto. Qed.
  Lemma pub_injective : PubInjective pub.
  Proof. intros k k' H. exact H. Qed.
  Lemma peer_id_injective : PeerIdInjective peer_id.
  Proof. intros a b H. exact H. Qed.
  Lemma peerid_eqb_eq a b : peerid_eqb a b = true <-> a = b.
  Proof. apply N.eqb_eq. Qed.

  (* the five idealisations hold of the symbolic instance: they are consistent *)
  Theorem laws :
    VerifySign pub sign verify /\ VerifyUnique pub sign verify /\ SignInjective sign /\
    PubInjective pub /\ PeerIdInjective peer_id.
  Proof.
    split; [apply verify_sign|]. split; [apply verify_unique|]. split; [apply sign_injective|].
    split; [apply pub_injective|apply peer_id_injective].
  Qed.
End Sym.
