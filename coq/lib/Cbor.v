(* CBOR major-type heads, byte/text strings and the tag-42 CID item exactly as
   whyrusleeping/cbor-gen v0.2.0 (utils.go) writes and reads them.

   Writer (WriteMajorTypeHeader / WriteMajorTypeHeaderBuf / CborEncodeMajorType):
     always the shortest head: value < 24 in the first byte, else 1, 2, 4 or 8
     big-endian bytes after additional-information 24, 25, 26, 27.

   Reader (CborReadHeader / CborReadHeaderBuf), rejections in source order:
     * no byte left                                       -> EEOF
     * info 24 with value < 24, 25 with value <= 0xFF,
       26 with value <= 0xFFFF, 27 with value <= 0xFFFFFFFF -> ENonCanon
     * info 28..31 (reserved and the indefinite-length marker 31) -> EBadHeader
     * argument bytes missing                              -> EEOF
   So the head reader accepts ONLY minimal-length heads ([rd_head_canon]); it
   enforces nothing about the value itself: major 7 values (simple/float), tag
   numbers, negative ints pass through as (major, argument) pairs.  What cbor-gen
   does NOT enforce (outside the head): UTF-8 validity of text strings, map key
   order or duplicates, trailing bytes after an item; those are the caller's.

   Readers come in two forms: pure ([rd_bytes], [rd_text], [rd_cid]) and with a
   ghost allocation counter ([gres], [rd_bytes_g], ...) that adds what each
   `make`/string conversion requests *before* the bytes are known to be present;
   [snd_*_g] lemmas erase the counter.

   Reusable for DAG-CBOR: [wr_head]/[rd_head], [wr_bytes]/[rd_bytes],
   [wr_text]/[rd_text], [wr_cid]/[rd_cid] with round-trip and canonicity lemmas. *)
From Lib Require Import Bytes Varint Cid.
From Coq Require Import Lia ZifyN ZifyNat ZifyBool.
Ltac Zify.zify_post_hook ::= Z.div_mod_to_equations.
Open Scope N_scope.
Local Arguments N.mul : simpl never.
Local Arguments N.add : simpl never.
Local Arguments N.sub : simpl never.
Local Arguments N.pow : simpl never.
Local Arguments N.div : simpl never.
Local Arguments N.modulo : simpl never.

(* major types *)
Definition MajUnsignedInt := 0.
Definition MajNegativeInt := 1.
Definition MajByteString := 2.
Definition MajTextString := 3.
Definition MajArray := 4.
Definition MajMap := 5.
Definition MajTag := 6.
Definition MajOther := 7.

(* error classes *)
Definition EEOF := 1.          (* io.EOF / io.ErrUnexpectedEOF *)
Definition ENonCanon := 2.     (* "cbor input was not canonical" *)
Definition EBadHeader := 3.    (* "invalid header" *)
Definition EWrongMajor := 4.   (* item of another major type than expected *)
Definition ETooLarge := 5.     (* a length beyond the field's cap *)
Definition EFieldCount := 6.   (* struct array with the wrong number of fields *)
Definition ECid := 7.          (* tag other than 42, empty / short / non-binary-multibase CID, cid.Cast error *)
Definition EMake := 9.         (* panic class: make() with a length the runtime refuses *)

(* the cap ReadCid passes to ReadTaggedByteArray (a literal in utils.go) *)
Definition CidMaxLen := 512.

(* ------------------------------------------------------------------ *)
(* big-endian fixed-width integers                                      *)

Fixpoint be_enc (k : nat) (v : N) : bytes :=
  match k with
  | O => []
  | S k' => v / 256 ^ N.of_nat k' :: be_enc k' (v mod 256 ^ N.of_nat k')
  end.

Fixpoint be_dec (l : bytes) : N :=
  match l with
  | [] => 0
  | b :: r => b * 256 ^ N.of_nat (length r) + be_dec r
  end.

(* exactly n bytes or nothing: io.ReadFull / io.ReadAtLeast(buf, len(buf)) *)
Definition take (n : N) (b : bytes) : option (bytes * bytes) :=
  if blen b <? n then None else Some (firstn (N.to_nat n) b, skipn (N.to_nat n) b).

(* ------------------------------------------------------------------ *)
(* heads                                                               *)

Definition wr_head (maj v : N) : bytes :=
  if v <? 24 then [32 * maj + v]
  else if v <? 256 then (32 * maj + 24) :: be_enc 1 v
  else if v <? 65536 then (32 * maj + 25) :: be_enc 2 v
  else if v <? 4294967296 then (32 * maj + 26) :: be_enc 4 v
  else (32 * maj + 27) :: be_enc 8 v.

(* argument of k bytes that must exceed lim *)
Definition rd_arg (k : nat) (lim maj : N) (r : bytes) : res (N * N * bytes) :=
  match take (N.of_nat k) r with
  | None => Err EEOF
  | Some (x, r') => let v := be_dec x in if v <=? lim then Err ENonCanon else Ok (maj, v, r')
  end.

Definition rd_head (b : bytes) : res (N * N * bytes) :=
  match b with
  | [] => Err EEOF
  | first :: r =>
    let maj := first / 32 in
    let low := first mod 32 in
    if low <? 24 then Ok (maj, low, r)
    else if low =? 24 then rd_arg 1 23 maj r
    else if low =? 25 then rd_arg 2 255 maj r
    else if low =? 26 then rd_arg 4 65535 maj r
    else if low =? 27 then rd_arg 8 4294967295 maj r
    else Err EBadHeader
  end.

(* ------------------------------------------------------------------ *)
(* strings and the CID item, pure                                      *)

Definition read_full (n : N) (b : bytes) : res (bytes * bytes) :=
  match take n b with Some x => Ok x | None => Err EEOF end.

Definition wr_bytes (x : bytes) : bytes := wr_head MajByteString (blen x) ++ x.
Definition wr_text (x : bytes) : bytes := wr_head MajTextString (blen x) ++ x.

(* ReadByteArray(br, maxlen) *)
Definition rd_bytes (maxlen : N) (b : bytes) : res (bytes * bytes) :=
  '(maj, extra, r) <- rd_head b ;;
  if negb (maj =? MajByteString) then Err EWrongMajor else
  if maxlen <? extra then Err ETooLarge else
  read_full extra r.

(* ReadStringWithMax(r, maxLength); the bytes are not checked to be UTF-8 *)
Definition rd_text (maxlen : N) (b : bytes) : res (bytes * bytes) :=
  '(maj, l, r) <- rd_head b ;;
  if negb (maj =? MajTextString) then Err EWrongMajor else
  if maxlen <? l then Err ETooLarge else
  read_full l r.

(* bufToCid *)
Definition buf_to_cid (buf : bytes) : res cid :=
  match buf with
  | [] => Err ECid
  | [_] => Err ECid
  | b0 :: t => if negb (b0 =? 0) then Err ECid else
               match Cid.cast t with Ok c => Ok c | Err _ => Err ECid | Panic c => Panic c end
  end.

(* WriteCid / WriteCidBuf for a defined CID *)
Definition wr_cid (c : cid) : bytes :=
  wr_head MajTag 42 ++ wr_head MajByteString (Cid.byte_len c + 1) ++ 0 :: Cid.fmt c.

(* ReadCid = ReadTaggedByteArray(br, 42, 512) then bufToCid *)
Definition rd_cid (b : bytes) : res (cid * bytes) :=
  '(maj, extra, r) <- rd_head b ;;
  if negb (maj =? MajTag) then Err EWrongMajor else
  if negb (extra =? 42) then Err ECid else
  '(buf, r') <- rd_bytes CidMaxLen r ;;
  c <- buf_to_cid buf ;;
  Ok (c, r').

(* ------------------------------------------------------------------ *)
(* ghost allocation counter: a writer monad over [res]                  *)

Definition gres (A : Type) : Type := (N * res A)%type.
Definition gret {A} (a : A) : gres A := (0, Ok a).
Definition gerr {A} (c : N) : gres A := (0, Err c).
Definition glift {A} (r : res A) : gres A := (0, r).
Definition gbind {A B} (x : gres A) (f : A -> gres B) : gres B :=
  match x with
  | (a, Ok v) => let '(a', r) := f v in (a + a', r)
  | (a, Err c) => (a, Err c)
  | (a, Panic c) => (a, Panic c)
  end.
Notation "x <~ r ;; k" := (gbind r (fun x => k)) (at level 61, r at next level, right associativity).
Notation "' p <~ r ;; k" := (gbind r (fun p => k)) (at level 61, p pattern, r at next level, right associativity).

(* Go's make(T, n) for an input-controlled n: n elements of esize bytes.  A request
   the runtime cannot satisfy panics ("len out of range") or kills the process on
   OOM; both are the Panic outcome here.  The limit is far above every cap. *)
Definition MakeLimit := 2 ^ 32.
Definition gmake (esize n : N) : gres unit :=
  if esize * n <=? MakeLimit then (esize * n, Ok tt) else (0, Panic EMake).
(* `if extra > 0 { x = make(..., extra) }` *)
Definition gmake_pos (esize n : N) : gres unit :=
  if 0 <? n then gmake esize n else gret tt.

(* ReadByteArray: buf := make([]byte, extra) then ReadAtLeast *)
Definition rd_bytes_g (maxlen : N) (b : bytes) : gres (bytes * bytes) :=
  '(maj, extra, r) <~ glift (rd_head b) ;;
  if negb (maj =? MajByteString) then gerr EWrongMajor else
  if maxlen <? extra then gerr ETooLarge else
  _ <~ gmake 1 extra ;;
  glift (read_full extra r).

(* ReadStringWithMax: reads into a pooled buffer of fixed capacity (MaxLength, not
   input-controlled, not counted); string(buf) copies l bytes after a successful read *)
Definition rd_text_g (maxlen : N) (b : bytes) : gres (bytes * bytes) :=
  '(maj, l, r) <~ glift (rd_head b) ;;
  if negb (maj =? MajTextString) then gerr EWrongMajor else
  if maxlen <? l then gerr ETooLarge else
  '(x, r') <~ glift (read_full l r) ;;
  _ <~ gmake 1 l ;;
  gret (x, r').

Definition rd_cid_g (b : bytes) : gres (cid * bytes) :=
  '(maj, extra, r) <~ glift (rd_head b) ;;
  if negb (maj =? MajTag) then gerr EWrongMajor else
  if negb (extra =? 42) then gerr ECid else
  '(buf, r') <~ rd_bytes_g CidMaxLen r ;;
  c <~ glift (buf_to_cid buf) ;;
  gret (c, r').

(* ================================================================== *)
(* proofs                                                              *)

Lemma snd_gbind {A B} (x : gres A) (f : A -> gres B) :
  snd (gbind x f) = bind (snd x) (fun v => snd (f v)).
Proof. destruct x as [a [v|c|c]]; cbn; [destruct (f v); reflexivity|reflexivity|reflexivity]. Qed.

Lemma fst_gbind {A B} (x : gres A) (f : A -> gres B) :
  fst (gbind x f) = fst x + match snd x with Ok v => fst (f v) | _ => 0 end.
Proof. destruct x as [a [v|c|c]]; cbn; [destruct (f v); reflexivity|lia|lia]. Qed.

Lemma snd_gmake_ok es n : es * n <= MakeLimit -> gmake es n = (es * n, Ok tt).
Proof. intro H. unfold gmake. replace (es * n <=? MakeLimit) with true by lia. reflexivity. Qed.

(* --- big-endian ---------------------------------------------------- *)

Lemma be_enc_length k v : length (be_enc k v) = k.
Proof. revert v; induction k as [|k IH]; intro v; cbn [be_enc length]; [reflexivity|]. rewrite IH. reflexivity. Qed.

Lemma pow256_pos n : 0 < 256 ^ n.
Proof. apply N.neq_0_lt_0, N.pow_nonzero. discriminate. Qed.

Lemma pow256_succ k : 256 ^ N.of_nat (S k) = 256 * 256 ^ N.of_nat k.
Proof. rewrite Nat2N.inj_succ, N.pow_succ_r'. reflexivity. Qed.

Lemma be_dec_enc k v : v < 256 ^ N.of_nat k -> be_dec (be_enc k v) = v.
Proof.
  revert v; induction k as [|k IH]; intros v H; cbn [be_enc be_dec].
  - change (256 ^ N.of_nat 0) with 1 in H. lia.
  - rewrite be_enc_length. rewrite IH by (apply N.mod_lt; pose proof (pow256_pos (N.of_nat k)); lia).
    pose proof (pow256_pos (N.of_nat k)) as P.
    pose proof (N.div_mod v (256 ^ N.of_nat k) ltac:(lia)) as D. lia.
Qed.

Lemma be_dec_bound l : wf_bytes l = true -> be_dec l < 256 ^ N.of_nat (length l).
Proof.
  induction l as [|b r IH]; intro W; cbn [be_dec length].
  - change (256 ^ N.of_nat 0) with 1. lia.
  - cbn in W. apply andb_prop in W as [Wb Wr]. unfold wf_byte in Wb. specialize (IH Wr).
    rewrite pow256_succ. pose proof (pow256_pos (N.of_nat (length r))). nia.
Qed.

Lemma be_enc_dec l : wf_bytes l = true -> be_enc (length l) (be_dec l) = l.
Proof.
  induction l as [|b r IH]; intro W; cbn [be_dec length be_enc]; [reflexivity|].
  pose proof W as W0. cbn in W. apply andb_prop in W as [Wb Wr]. unfold wf_byte in Wb.
  pose proof (be_dec_bound r Wr) as Bd. pose proof (pow256_pos (N.of_nat (length r))) as P.
  set (p := 256 ^ N.of_nat (length r)) in *.
  assert (Q : (b * p + be_dec r) / p = b).
  { symmetry. apply N.div_unique with (r := be_dec r); lia. }
  assert (M : (b * p + be_dec r) mod p = be_dec r).
  { symmetry. apply N.mod_unique with (q := b); lia. }
  rewrite Q, M, IH by exact Wr. reflexivity.
Qed.

(* --- take ----------------------------------------------------------- *)

Lemma take_app x r : take (blen x) (x ++ r) = Some (x, r).
Proof.
  unfold take. replace (blen (x ++ r) <? blen x) with false by (rewrite blen_app; lia).
  rewrite firstn_blen_app, skipn_blen_app. reflexivity.
Qed.

Lemma take_some n b x r : take n b = Some (x, r) -> b = x ++ r /\ blen x = n.
Proof.
  unfold take. destruct (blen b <? n) eqn:E; [discriminate|]. intro H. injection H as <- <-.
  split; [symmetry; apply firstn_skipn|]. unfold blen in *. rewrite firstn_length. lia.
Qed.

Lemma take_none n b : take n b = None -> blen b < n.
Proof. unfold take. destruct (blen b <? n) eqn:E; [lia|discriminate]. Qed.

Lemma take_nat_app k x r : length x = k -> take (N.of_nat k) (x ++ r) = Some (x, r).
Proof. intros <-. apply take_app. Qed.

(* --- heads ---------------------------------------------------------- *)

Lemma rd_arg_enc k lim maj v r :
  v < 256 ^ N.of_nat k -> lim < v -> rd_arg k lim maj (be_enc k v ++ r) = Ok (maj, v, r).
Proof.
  intros H1 H2. unfold rd_arg. rewrite take_nat_app by apply be_enc_length.
  rewrite be_dec_enc by exact H1. replace (v <=? lim) with false by lia. reflexivity.
Qed.

(* round trip: every (major, uint64) head the writer emits is read back *)
Theorem rd_head_wr_head maj v r :
  maj < 8 -> v < 2 ^ 64 -> rd_head (wr_head maj v ++ r) = Ok (maj, v, r).
Proof.
  intros Hm Hv. unfold wr_head.
  destruct (v <? 24) eqn:E1; [|destruct (v <? 256) eqn:E2; [|destruct (v <? 65536) eqn:E3; [|destruct (v <? 4294967296) eqn:E4]]];
    cbn [app rd_head].
  - replace ((32 * maj + v) mod 32) with v by lia. replace ((32 * maj + v) / 32) with maj by lia.
    rewrite E1. reflexivity.
  - replace ((32 * maj + 24) mod 32) with 24 by lia. replace ((32 * maj + 24) / 32) with maj by lia.
    cbn [N.ltb N.compare Pos.compare Pos.compare_cont N.eqb Pos.eqb].
    apply rd_arg_enc; [change (256 ^ N.of_nat 1) with 256|]; lia.
  - replace ((32 * maj + 25) mod 32) with 25 by lia. replace ((32 * maj + 25) / 32) with maj by lia.
    cbn [N.ltb N.compare Pos.compare Pos.compare_cont N.eqb Pos.eqb].
    apply rd_arg_enc; [change (256 ^ N.of_nat 2) with 65536|]; lia.
  - replace ((32 * maj + 26) mod 32) with 26 by lia. replace ((32 * maj + 26) / 32) with maj by lia.
    cbn [N.ltb N.compare Pos.compare Pos.compare_cont N.eqb Pos.eqb].
    apply rd_arg_enc; [change (256 ^ N.of_nat 4) with 4294967296|]; lia.
  - replace ((32 * maj + 27) mod 32) with 27 by lia. replace ((32 * maj + 27) / 32) with maj by lia.
    cbn [N.ltb N.compare Pos.compare Pos.compare_cont N.eqb Pos.eqb].
    apply rd_arg_enc; [change (256 ^ N.of_nat 8) with (2 ^ 64)|]; lia.
Qed.

Lemma rd_arg_canon k lim maj r m v r' :
  wf_bytes r = true -> rd_arg k lim maj r = Ok (m, v, r') ->
  m = maj /\ r = be_enc k v ++ r' /\ lim < v /\ v < 256 ^ N.of_nat k.
Proof.
  intros W H. unfold rd_arg in H.
  destruct (take (N.of_nat k) r) as [[x t]|] eqn:T; [|discriminate].
  destruct (be_dec x <=? lim) eqn:E; [discriminate|]. injection H as <- <- <-.
  apply take_some in T as [-> L].
  rewrite wf_bytes_app in W. apply andb_prop in W as [Wx _].
  assert (Lx : length x = k) by (unfold blen in L; lia).
  split; [reflexivity|]. split; [|split].
  - rewrite <- Lx at 1. rewrite be_enc_dec by exact Wx. reflexivity.
  - lia.
  - rewrite <- Lx. apply be_dec_bound. exact Wx.
Qed.

(* canonicity: the reader accepts only what the writer would have written *)
Theorem rd_head_canon b maj v r :
  wf_bytes b = true -> rd_head b = Ok (maj, v, r) ->
  b = wr_head maj v ++ r /\ maj < 8 /\ v < 2 ^ 64.
Proof.
  intros W H. destruct b as [|first t]; [discriminate|]. cbn [rd_head] in H.
  pose proof W as W0. cbn in W. apply andb_prop in W as [Wf Wt]. unfold wf_byte in Wf.
  assert (Hm : first / 32 < 8) by lia.
  destruct (first mod 32 <? 24) eqn:E0.
  { injection H as <- <- <-. unfold wr_head. rewrite E0. cbn [app].
    split; [f_equal; lia|]. split; [exact Hm|lia]. }
  unfold wr_head.
  destruct (first mod 32 =? 24) eqn:E1;
    [|destruct (first mod 32 =? 25) eqn:E2;
      [|destruct (first mod 32 =? 26) eqn:E3;
        [|destruct (first mod 32 =? 27) eqn:E4; [|discriminate]]]];
    apply rd_arg_canon in H as (-> & -> & Hl & Hu); try exact Wt.
  - change (256 ^ N.of_nat 1) with 256 in Hu.
    replace (v <? 24) with false by lia. replace (v <? 256) with true by lia.
    cbn [app]. split; [f_equal; lia|]. split; [exact Hm|lia].
  - change (256 ^ N.of_nat 2) with 65536 in Hu.
    replace (v <? 24) with false by lia. replace (v <? 256) with false by lia.
    replace (v <? 65536) with true by lia.
    cbn [app]. split; [f_equal; lia|]. split; [exact Hm|lia].
  - change (256 ^ N.of_nat 4) with 4294967296 in Hu.
    replace (v <? 24) with false by lia. replace (v <? 256) with false by lia.
    replace (v <? 65536) with false by lia. replace (v <? 4294967296) with true by lia.
    cbn [app]. split; [f_equal; lia|]. split; [exact Hm|lia].
  - change (256 ^ N.of_nat 8) with (2 ^ 64) in Hu.
    replace (v <? 24) with false by lia. replace (v <? 256) with false by lia.
    replace (v <? 65536) with false by lia. replace (v <? 4294967296) with false by lia.
    cbn [app]. split; [f_equal; lia|]. split; [exact Hm|lia].
Qed.

Lemma rd_head_total b : is_panic (rd_head b) = false.
Proof.
  destruct b as [|f t]; [reflexivity|]. cbn [rd_head]. unfold rd_arg.
  repeat match goal with
         | |- context [if ?c then _ else _] => destruct c
         | |- context [match take ?n ?t with _ => _ end] => destruct (take n t) as [[? ?]|]
         end; reflexivity.
Qed.

Lemma rd_arg_rest k lim maj r m v r' : rd_arg k lim maj r = Ok (m, v, r') -> blen r' <= blen r.
Proof.
  unfold rd_arg. destruct (take (N.of_nat k) r) as [[x t]|] eqn:T; [|discriminate].
  destruct (be_dec x <=? lim); [discriminate|]. intro H. injection H as _ _ <-.
  apply take_some in T as [-> _]. rewrite blen_app. lia.
Qed.

(* a head consumes at least one byte *)
Lemma rd_head_rest b maj v r : rd_head b = Ok (maj, v, r) -> blen r < blen b.
Proof.
  destruct b as [|f t]; [discriminate|]. cbn [rd_head]. rewrite blen_cons.
  repeat match goal with |- context [if ?c then _ else _] => destruct c end;
    intro H; try discriminate; try (apply rd_arg_rest in H; lia).
  injection H as _ _ <-. lia.
Qed.

Lemma wr_head_length maj v : (1 <= length (wr_head maj v) <= 9)%nat.
Proof.
  unfold wr_head. repeat match goal with |- context [if ?c then _ else _] => destruct c end;
    cbn [length]; rewrite ?be_enc_length; lia.
Qed.

Lemma wr_head_wf maj v : maj < 8 -> v < 2 ^ 64 -> wf_bytes (wr_head maj v) = true.
Proof.
  intros Hm Hv.
  pose proof (rd_head_wr_head maj v [] Hm Hv) as R. rewrite app_nil_r in R.
  (* every byte is a quotient below 256 *)
  assert (BE : forall k x, x < 256 ^ N.of_nat k -> wf_bytes (be_enc k x) = true).
  { induction k as [|k IH]; intros x Hx; cbn [be_enc]; [reflexivity|].
    cbn. pose proof (pow256_pos (N.of_nat k)) as P. rewrite pow256_succ in Hx.
    rewrite IH by (apply N.mod_lt; lia). unfold wf_byte.
    replace (x / 256 ^ N.of_nat k <? 256) with true; [reflexivity|].
    symmetry. apply N.ltb_lt. apply N.div_lt_upper_bound; lia. }
  unfold wr_head.
  destruct (v <? 24) eqn:E1; [|destruct (v <? 256) eqn:E2; [|destruct (v <? 65536) eqn:E3; [|destruct (v <? 4294967296) eqn:E4]]].
  - cbn. unfold wf_byte. replace (32 * maj + v <? 256) with true by lia. reflexivity.
  - change (wf_bytes (?a :: ?l)) with (wf_byte a && wf_bytes l). rewrite BE by (change (256 ^ N.of_nat 1) with 256; lia).
    unfold wf_byte. replace (32 * maj + 24 <? 256) with true by lia. reflexivity.
  - change (wf_bytes (?a :: ?l)) with (wf_byte a && wf_bytes l). rewrite BE by (change (256 ^ N.of_nat 2) with 65536; lia).
    unfold wf_byte. replace (32 * maj + 25 <? 256) with true by lia. reflexivity.
  - change (wf_bytes (?a :: ?l)) with (wf_byte a && wf_bytes l). rewrite BE by (change (256 ^ N.of_nat 4) with 4294967296; lia).
    unfold wf_byte. replace (32 * maj + 26 <? 256) with true by lia. reflexivity.
  - change (wf_bytes (?a :: ?l)) with (wf_byte a && wf_bytes l). rewrite BE by (change (256 ^ N.of_nat 8) with (2 ^ 64); lia).
    unfold wf_byte. replace (32 * maj + 27 <? 256) with true by lia. reflexivity.
Qed.

(* --- strings -------------------------------------------------------- *)

Lemma read_full_app x r : read_full (blen x) (x ++ r) = Ok (x, r).
Proof. unfold read_full. rewrite take_app. reflexivity. Qed.

Lemma read_full_ok n b x r : read_full n b = Ok (x, r) -> b = x ++ r /\ blen x = n.
Proof. unfold read_full. destruct (take n b) as [[? ?]|] eqn:T; [|discriminate]. intro H. injection H as <- <-. apply take_some. exact T. Qed.

Lemma read_full_total n b : is_panic (read_full n b) = false.
Proof. unfold read_full. destruct (take n b) as [[? ?]|]; reflexivity. Qed.

Theorem rd_bytes_wr_bytes maxlen x r :
  blen x <= maxlen -> blen x < 2 ^ 64 -> rd_bytes maxlen (wr_bytes x ++ r) = Ok (x, r).
Proof.
  intros H1 H2. unfold rd_bytes, wr_bytes. rewrite <- app_assoc.
  rewrite rd_head_wr_head by (unfold MajByteString; lia). cbn [bind].
  rewrite N.eqb_refl. cbn [negb]. replace (maxlen <? blen x) with false by lia.
  apply read_full_app.
Qed.

Theorem rd_text_wr_text maxlen x r :
  blen x <= maxlen -> blen x < 2 ^ 64 -> rd_text maxlen (wr_text x ++ r) = Ok (x, r).
Proof.
  intros H1 H2. unfold rd_text, wr_text. rewrite <- app_assoc.
  rewrite rd_head_wr_head by (unfold MajTextString; lia). cbn [bind].
  rewrite N.eqb_refl. cbn [negb]. replace (maxlen <? blen x) with false by lia.
  apply read_full_app.
Qed.

Theorem rd_bytes_canon maxlen b x r :
  wf_bytes b = true -> rd_bytes maxlen b = Ok (x, r) -> b = wr_bytes x ++ r /\ blen x <= maxlen.
Proof.
  intros W H. unfold rd_bytes in H.
  destruct (rd_head b) as [[[maj extra] t]| |] eqn:E; try discriminate. cbn [bind] in H.
  destruct (maj =? MajByteString) eqn:Em; [|discriminate]. cbn [negb] in H. apply N.eqb_eq in Em. subst maj.
  destruct (maxlen <? extra) eqn:El; [discriminate|].
  apply read_full_ok in H as [-> L].
  apply rd_head_canon in E as (-> & _ & _); [|exact W].
  unfold wr_bytes. rewrite L, <- app_assoc. split; [reflexivity|lia].
Qed.

Theorem rd_text_canon maxlen b x r :
  wf_bytes b = true -> rd_text maxlen b = Ok (x, r) -> b = wr_text x ++ r /\ blen x <= maxlen.
Proof.
  intros W H. unfold rd_text in H.
  destruct (rd_head b) as [[[maj extra] t]| |] eqn:E; try discriminate. cbn [bind] in H.
  destruct (maj =? MajTextString) eqn:Em; [|discriminate]. cbn [negb] in H. apply N.eqb_eq in Em. subst maj.
  destruct (maxlen <? extra) eqn:El; [discriminate|].
  apply read_full_ok in H as [-> L].
  apply rd_head_canon in E as (-> & _ & _); [|exact W].
  unfold wr_text. rewrite L, <- app_assoc. split; [reflexivity|lia].
Qed.

(* --- CID item -------------------------------------------------------- *)

Lemma buf_to_cid_fmt c : cid_wf c = true -> buf_to_cid (0 :: Cid.fmt c) = Ok c.
Proof.
  intro W. unfold buf_to_cid.
  assert (NE : exists x t, Cid.fmt c = x :: t).
  { destruct c as [d|codec code d]; cbn [Cid.fmt]; [eauto|].
    change (Varint.enc 1) with [1]. cbn [app]. eauto. }
  destruct NE as (x & t & E). rewrite E. cbn [N.eqb negb]. rewrite <- E.
  rewrite Cid.cast_fmt by exact W. reflexivity.
Qed.

Theorem rd_cid_wr_cid c r :
  cid_wf c = true -> Cid.byte_len c + 1 <= CidMaxLen -> rd_cid (wr_cid c ++ r) = Ok (c, r).
Proof.
  intros W L. unfold rd_cid, wr_cid. rewrite <- app_assoc.
  rewrite rd_head_wr_head by (unfold MajTag; cbn; lia). cbn [bind].
  rewrite !N.eqb_refl. cbn [negb].
  change (wr_head MajByteString (Cid.byte_len c + 1) ++ 0 :: Cid.fmt c) with (wr_head MajByteString (Cid.byte_len c + 1) ++ (0 :: Cid.fmt c)).
  replace (Cid.byte_len c + 1) with (blen (0 :: Cid.fmt c)) by (rewrite blen_cons; unfold Cid.byte_len; lia).
  fold (wr_bytes (0 :: Cid.fmt c)).
  rewrite rd_bytes_wr_bytes.
  - cbn [bind]. rewrite buf_to_cid_fmt by exact W. reflexivity.
  - rewrite blen_cons. unfold Cid.byte_len in L. lia.
  - rewrite blen_cons. unfold Cid.byte_len, CidMaxLen in L. lia.
Qed.

Lemma buf_to_cid_canon buf c :
  wf_bytes buf = true -> buf_to_cid buf = Ok c -> buf = 0 :: Cid.fmt c /\ cid_wf c = true.
Proof.
  intros W H. unfold buf_to_cid in H.
  destruct buf as [|b0 [|b1 t]]; try discriminate.
  destruct (b0 =? 0) eqn:E0; [|discriminate]. cbn [negb] in H. apply N.eqb_eq in E0. subst b0.
  destruct (Cid.cast (b1 :: t)) as [c'| |] eqn:E; try discriminate. injection H as <-.
  apply Cid.cast_canon in E as [E1 E2].
  - rewrite E1. auto.
  - cbn in W. cbn. exact W.
Qed.

Theorem rd_cid_canon b c r :
  wf_bytes b = true -> rd_cid b = Ok (c, r) ->
  b = wr_cid c ++ r /\ cid_wf c = true /\ Cid.byte_len c + 1 <= CidMaxLen.
Proof.
  intros W H. unfold rd_cid in H.
  destruct (rd_head b) as [[[maj extra] t]| |] eqn:E; try discriminate. cbn [bind] in H.
  destruct (maj =? MajTag) eqn:Em; [|discriminate]. cbn [negb] in H. apply N.eqb_eq in Em. subst maj.
  destruct (extra =? 42) eqn:Ee; [|discriminate]. cbn [negb] in H. apply N.eqb_eq in Ee. subst extra.
  destruct (rd_bytes CidMaxLen t) as [[buf r']| |] eqn:Eb; try discriminate. cbn [bind] in H.
  destruct (buf_to_cid buf) as [c'| |] eqn:Ec; try discriminate. cbn [bind] in H. injection H as <- <-.
  apply rd_head_canon in E as (-> & _ & _); [|exact W].
  rewrite wf_bytes_app in W. apply andb_prop in W as [_ W].
  apply rd_bytes_canon in Eb as [-> Lb]; [|exact W].
  rewrite wf_bytes_app in W. apply andb_prop in W as [W _].
  unfold wr_bytes in W. rewrite wf_bytes_app in W. apply andb_prop in W as [_ W].
  apply buf_to_cid_canon in Ec as [-> Wc]; [|exact W].
  split; [|split; [exact Wc|]].
  - unfold wr_cid, wr_bytes. rewrite blen_cons. unfold Cid.byte_len.
    replace (1 + blen (Cid.fmt c')) with (blen (Cid.fmt c') + 1) by lia.
    rewrite <- !app_assoc. reflexivity.
  - rewrite blen_cons in Lb. unfold Cid.byte_len. lia.
Qed.

(* --- erasure of the ghost counter ------------------------------------ *)

Lemma snd_rd_bytes_g maxlen b : maxlen <= MakeLimit -> snd (rd_bytes_g maxlen b) = rd_bytes maxlen b.
Proof.
  intro HL. unfold rd_bytes_g, rd_bytes. rewrite snd_gbind. cbn [glift snd].
  destruct (rd_head b) as [[[maj extra] r]| |]; cbn [bind]; try reflexivity.
  destruct (negb (maj =? MajByteString)); [reflexivity|].
  destruct (maxlen <? extra) eqn:E; [reflexivity|].
  rewrite snd_gbind. rewrite snd_gmake_ok by lia. reflexivity.
Qed.

Lemma snd_rd_text_g maxlen b : maxlen <= MakeLimit -> snd (rd_text_g maxlen b) = rd_text maxlen b.
Proof.
  intro HL. unfold rd_text_g, rd_text. rewrite snd_gbind. cbn [glift snd].
  destruct (rd_head b) as [[[maj l] r]| |]; cbn [bind]; try reflexivity.
  destruct (negb (maj =? MajTextString)); [reflexivity|].
  destruct (maxlen <? l) eqn:E; [reflexivity|].
  rewrite snd_gbind. cbn [glift snd].
  destruct (read_full l r) as [[x r']| |]; cbn [bind]; try reflexivity.
  rewrite snd_gbind. rewrite snd_gmake_ok by lia. reflexivity.
Qed.

Lemma snd_rd_cid_g b : snd (rd_cid_g b) = rd_cid b.
Proof.
  unfold rd_cid_g, rd_cid. rewrite snd_gbind. cbn [glift snd].
  destruct (rd_head b) as [[[maj extra] r]| |]; cbn [bind]; try reflexivity.
  destruct (negb (maj =? MajTag)); [reflexivity|].
  destruct (negb (extra =? 42)); [reflexivity|].
  rewrite snd_gbind. rewrite snd_rd_bytes_g by (cbv; discriminate).
  destruct (rd_bytes CidMaxLen r) as [[buf r']| |]; cbn [bind]; try reflexivity.
  rewrite snd_gbind. cbn [glift snd].
  destruct (buf_to_cid buf); reflexivity.
Qed.

(* --- totality --------------------------------------------------------- *)

Lemma rd_bytes_total maxlen b : is_panic (rd_bytes maxlen b) = false.
Proof.
  unfold rd_bytes. pose proof (rd_head_total b).
  destruct (rd_head b) as [[[maj extra] r]| |]; cbn in *; try congruence.
  destruct (negb (maj =? MajByteString)); [reflexivity|]. destruct (maxlen <? extra); [reflexivity|].
  apply read_full_total.
Qed.

Lemma rd_text_total maxlen b : is_panic (rd_text maxlen b) = false.
Proof.
  unfold rd_text. pose proof (rd_head_total b).
  destruct (rd_head b) as [[[maj extra] r]| |]; cbn in *; try congruence.
  destruct (negb (maj =? MajTextString)); [reflexivity|]. destruct (maxlen <? extra); [reflexivity|].
  apply read_full_total.
Qed.

Lemma buf_to_cid_total buf : is_panic (buf_to_cid buf) = false.
Proof.
  unfold buf_to_cid. destruct buf as [|b0 [|b1 t]]; try reflexivity.
  destruct (negb (b0 =? 0)); [reflexivity|].
  pose proof (Cid.cast_total (b1 :: t)). destruct (Cid.cast (b1 :: t)); cbn in *; congruence.
Qed.

Lemma rd_cid_total b : is_panic (rd_cid b) = false.
Proof.
  unfold rd_cid. pose proof (rd_head_total b).
  destruct (rd_head b) as [[[maj extra] r]| |]; cbn in *; try congruence.
  destruct (negb (maj =? MajTag)); [reflexivity|]. destruct (negb (extra =? 42)); [reflexivity|].
  pose proof (rd_bytes_total CidMaxLen r).
  destruct (rd_bytes CidMaxLen r) as [[buf r']| |]; cbn in *; try congruence.
  pose proof (buf_to_cid_total buf). destruct (buf_to_cid buf); cbn in *; congruence.
Qed.

(* --- allocation of the single readers --------------------------------
   A reader that succeeds has allocated no more than it consumed; one that fails
   has allocated at most its cap.                                              *)

Lemma rd_bytes_g_alloc maxlen b :
  maxlen <= MakeLimit ->
  fst (rd_bytes_g maxlen b) <= maxlen /\
  (forall x r, snd (rd_bytes_g maxlen b) = Ok (x, r) -> fst (rd_bytes_g maxlen b) + blen r < blen b).
Proof.
  intro HL. unfold rd_bytes_g. rewrite fst_gbind, snd_gbind. cbn [glift fst snd].
  destruct (rd_head b) as [[[maj extra] r]| |] eqn:E; cbn [bind]; try (split; [lia|discriminate]).
  destruct (negb (maj =? MajByteString)); [cbn; split; [lia|discriminate]|].
  destruct (maxlen <? extra) eqn:El; [cbn; split; [lia|discriminate]|].
  rewrite fst_gbind, snd_gbind. rewrite snd_gmake_ok by lia. cbn [fst snd bind glift].
  apply rd_head_rest in E.
  split; [lia|]. intros x r' H. apply read_full_ok in H as [-> L]. rewrite blen_app in E. lia.
Qed.

Lemma rd_text_g_alloc maxlen b :
  maxlen <= MakeLimit ->
  fst (rd_text_g maxlen b) <= maxlen /\
  (forall x r, snd (rd_text_g maxlen b) = Ok (x, r) -> fst (rd_text_g maxlen b) + blen r < blen b).
Proof.
  intro HL. unfold rd_text_g. rewrite fst_gbind, snd_gbind. cbn [glift fst snd].
  destruct (rd_head b) as [[[maj l] r]| |] eqn:E; cbn [bind]; try (split; [lia|discriminate]).
  destruct (negb (maj =? MajTextString)); [cbn; split; [lia|discriminate]|].
  destruct (maxlen <? l) eqn:El; [cbn; split; [lia|discriminate]|].
  rewrite fst_gbind, snd_gbind. cbn [fst snd glift].
  destruct (read_full l r) as [[x r']| |] eqn:R; cbn [bind]; try (split; [lia|discriminate]).
  rewrite fst_gbind, snd_gbind. rewrite snd_gmake_ok by lia. cbn [fst snd bind gret].
  apply rd_head_rest in E. apply read_full_ok in R as [-> L]. rewrite blen_app in E.
  split; [lia|]. intros x0 r0 H. injection H as <- <-. lia.
Qed.

Lemma rd_cid_g_alloc b :
  fst (rd_cid_g b) <= CidMaxLen /\
  (forall c r, snd (rd_cid_g b) = Ok (c, r) -> fst (rd_cid_g b) + blen r < blen b).
Proof.
  unfold rd_cid_g. rewrite fst_gbind, snd_gbind. cbn [glift fst snd].
  destruct (rd_head b) as [[[maj extra] r]| |] eqn:E; cbn [bind]; try (split; [lia|discriminate]).
  destruct (negb (maj =? MajTag)); [cbn; split; [unfold CidMaxLen; lia|discriminate]|].
  destruct (negb (extra =? 42)); [cbn; split; [unfold CidMaxLen; lia|discriminate]|].
  rewrite fst_gbind, snd_gbind.
  pose proof (rd_bytes_g_alloc CidMaxLen r ltac:(cbv; discriminate)) as [A1 A2].
  apply rd_head_rest in E.
  destruct (snd (rd_bytes_g CidMaxLen r)) as [[buf r']| |] eqn:Eb; cbn [bind]; try (split; [lia|discriminate]).
  specialize (A2 buf r' eq_refl).
  rewrite fst_gbind, snd_gbind. cbn [glift fst snd].
  destruct (buf_to_cid buf) as [c| |]; cbn [bind gret fst snd]; try (split; [lia|discriminate]).
  split; [lia|]. intros c0 r0 H. injection H as <- <-. lia.
Qed.

(* examples: the forms the reader refuses and accepts *)
Example rd_head_ex_small : rd_head [131; 7] = Ok (4, 3, [7]).
Proof. reflexivity. Qed.
Example rd_head_ex_24 : rd_head [88; 24] = Ok (2, 24, []).
Proof. reflexivity. Qed.
Example rd_head_ex_noncanon_24 : rd_head [88; 23] = Err ENonCanon.
Proof. reflexivity. Qed.
Example rd_head_ex_noncanon_25 : rd_head [89; 0; 255] = Err ENonCanon.
Proof. reflexivity. Qed.
Example rd_head_ex_noncanon_27 : rd_head [91; 0; 0; 0; 0; 255; 255; 255; 255] = Err ENonCanon.
Proof. vm_compute. reflexivity. Qed.
Example rd_head_ex_indef : rd_head [95] = Err EBadHeader.
Proof. reflexivity. Qed.
Example rd_head_ex_2_63 : rd_head [155; 128; 0; 0; 0; 0; 0; 0; 0] = Ok (4, 2 ^ 63, []).
Proof. vm_compute. reflexivity. Qed.
Example wr_head_ex : wr_head 2 1000 = [89; 3; 232].
Proof. vm_compute. reflexivity. Qed.
