(* C17 — Find results expand extended providers per the IPNI rules, for any record.
   Only statements; proofs are in proofs/C17_GetResults.v. *)
From Lib Require Import Bytes.
From Model Require Import C17_GetResults.
From Proofs Require Import C17_GetResults.
Open Scope N_scope.

(* For every record, looked-up provider, context ID and metadata, the repaired GetResults
   returns exactly the list the property text describes. *)
Theorem get_results_eq_spec : forall r pid ctx md,
  get_results r pid ctx md = Ok (spec_results r pid ctx md).
Proof. exact get_results_eq_spec_l. Qed.
Print Assumptions get_results_eq_spec.

(* For every record, including provider / metadata lists of different lengths: results,
   never a panic. *)
Theorem get_results_no_panic : forall r pid ctx md,
  exists l, get_results r pid ctx md = Ok l.
Proof. exact get_results_no_panic_l. Qed.
Print Assumptions get_results_no_panic.

(* The code before the two repairs: both statements above are false of it. *)
Theorem get_results_v0_no_panic_refuted :
  exists r pid ctx md, get_results_v0 r pid ctx md = Panic PANIC_INDEX.
Proof. exact get_results_v0_no_panic_refuted. Qed.
Print Assumptions get_results_v0_no_panic_refuted.

Theorem get_results_v0_eq_spec_refuted :
  exists r pid ctx md l, get_results_v0 r pid ctx md = Ok l /\ l <> spec_results r pid ctx md.
Proof. exact get_results_v0_eq_spec_refuted. Qed.
Print Assumptions get_results_v0_eq_spec_refuted.

(* The repairs change nothing for records whose metadata lists are at least as long as
   their provider lists and whose contextual metadata is never empty-but-not-nil. *)
Theorem get_results_v0_agrees_on_well_shaped : forall r pid ctx md,
  well_shaped r -> get_results_v0 r pid ctx md = get_results r pid ctx md.
Proof. exact get_results_v0_agrees_on_well_shaped. Qed.
Print Assumptions get_results_v0_agrees_on_well_shaped.

(* Structure of the output, stated on the code's model directly. *)
Theorem main_provider_first : forall r pid ctx md l,
  get_results r pid ctx md = Ok l -> exists t, l = PR ctx md (r_main r) :: t.
Proof. exact main_provider_first_l. Qed.
Print Assumptions main_provider_first.

Theorem contextual_before_chain : forall r pid ctx md l x,
  r_ext r = Some x ->
  get_results r pid ctx md = Ok l ->
  exists lc lx,
    l = PR ctx md (r_main r) :: lc ++ lx /\
    match registered ctx (xp_ctxs x) with
    | Some c => Forall (from_set pid ctx md (cx_provs c)) lc /\
                (cx_override c = true -> lx = [])
    | None => lc = []
    end /\
    Forall (from_set pid ctx md (xp_provs x)) lx.
Proof. exact contextual_before_chain_l. Qed.
Print Assumptions contextual_before_chain.

Theorem override_drops_chain : forall r pid ctx md l x c,
  r_ext r = Some x -> registered ctx (xp_ctxs x) = Some c -> cx_override c = true ->
  get_results r pid ctx md = Ok l ->
  exists lc, l = PR ctx md (r_main r) :: lc /\ Forall (from_set pid ctx md (cx_provs c)) lc.
Proof. exact override_drops_chain_l. Qed.
Print Assumptions override_drops_chain.

(* Skip rule and substitution rule: after the first element no result names the looked-up
   provider with the looked-up (or no) metadata; every result carries non-empty metadata
   of its own or the looked-up metadata. *)
Theorem skip_and_substitution : forall r pid ctx md l,
  get_results r pid ctx md = Ok l ->
  Forall (fun e => (ai_id (pr_prov e) = pid -> mequal (pr_md e) md = false /\ mempty (pr_md e) = false) /\
                   (pr_md e = md \/ mempty (pr_md e) = false) /\ pr_ctx e = ctx) (tl l).
Proof. exact skip_and_substitution_l. Qed.
Print Assumptions skip_and_substitution.

(* Nothing but the provider's own entries is ever dropped. *)
Theorem extended_providers_complete : forall r pid ctx md l x p,
  r_ext r = Some x -> get_results r pid ctx md = Ok l -> ai_id p <> pid ->
  match registered ctx (xp_ctxs x) with
  | Some c => (In p (cx_provs c) -> In p (map pr_prov (tl l))) /\
              (cx_override c = false -> In p (xp_provs x) -> In p (map pr_prov (tl l)))
  | None => In p (xp_provs x) -> In p (map pr_prov (tl l))
  end.
Proof. exact extended_providers_complete_l. Qed.
Print Assumptions extended_providers_complete.

(* ---- ties to the Gallina regenerated from the Go source (proofs/GenTie_C17.v) ---- *)
From Coq Require Import ZArith NArith List Bool Lia String.
From Lib Require Import Bytes.
From Model Require Import C17_GetResults.
From Proofs Require Import GenTie_Lib.
From Gen Require Import Gen_Consts Gen_Funcs_prelude Gen_Funcs_pcache.
Import ListNotations.
Local Open Scope Z_scope.
From Proofs Require Import GenTie_C17.

Theorem gen_tie_GetResults_chain_loop : forall pid ctx md provs mds (acc : list view),
  pcache_GetResults_chain_loop view addrinfo (fun p => pid_bytes (ai_id p)) mk_view
     (pid_bytes pid) ctx (mcontent md) (map mcontent mds) provs acc
  = FFall (acc ++ map view_of (expand pid ctx md provs mds 0))%list.
Proof. exact GenTie_C17.tie_GetResults_chain_loop. Qed.
Print Assumptions gen_tie_GetResults_chain_loop.

Theorem gen_tie_GetResults_ctx_loop : forall pid ctx md provs mds (acc : list view),
  pcache_GetResults_ctx_loop view addrinfo (fun p => pid_bytes (ai_id p)) mk_view
     (pid_bytes pid) ctx (mcontent md) (map mcontent mds) provs acc
  = FFall (acc ++ map view_of (expand pid ctx md provs mds 0))%list.
Proof. exact GenTie_C17.tie_GetResults_ctx_loop. Qed.
Print Assumptions gen_tie_GetResults_ctx_loop.

(* A history of lookups on one cached record: whatever lookups (other context IDs, other
   metadata) came before or come after, the answer to a lookup is the specified expansion of
   the record for THAT lookup's arguments.  (The code must therefore leave the cached record
   untouched: the correspondence runs call histories on one cache and compares the source's
   record before and after.) *)
Theorem getresults_history_independent : forall r pid pre ctx md post,
  nth_error (run_calls r pid (pre ++ (ctx, md) :: post)) (List.length pre)
  = Some (Ok (spec_results r pid ctx md)).
Proof. exact getresults_history_independent_l. Qed.
Print Assumptions getresults_history_independent.
