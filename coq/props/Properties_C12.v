(* C12 — Double-hash encryption round-trips, is deterministic, and fails closed.

   Every statement quantifies over ALL total primitives sha / seal / open (I = the model
   run on them); what is assumed of them is a premise named law_* (model/C12_DHash.v),
   never an axiom; Proofs.C12_DHash.laws_inhabited shows each group of premises is
   satisfiable.  The model is of dhash.go with pending/C12-fix-*.diff applied; the
   *_v0_refuted theorems are about the unrepaired functions kept in the model. *)
From Lib Require Import Bytes Varint.
From Model Require Import C12_DHash.
From Proofs Require Import C12_DHash.
From Model Require Import Compose_C12_C17.
From Proofs Require Import Compose_C12_C17.
From Coq Require Import List.
Import ListNotations.
Open Scope N_scope.

(* Decrypting the encryption returns the payload, through each of the three entry-point
   pairs; encryption itself always succeeds.  Needs only: open inverts seal, the digest
   covers the 12-byte nonce, the sealed output is not empty (GCM appends a tag). *)
Theorem decrypt_encrypt :
  forall sha seal open, law_sha_min sha -> law_seal_nonempty seal -> law_round_trip seal open ->
  forall p pass,
    (forall n c, encrypt_aes (ideal sha seal open) p pass = Ok (n, c) -> decrypt_aes (ideal sha seal open) n c pass = Ok p) /\
    (forall evk, encrypt_value_key (ideal sha seal open) p pass = Ok evk -> decrypt_value_key (ideal sha seal open) evk pass = Ok p) /\
    (forall emd, encrypt_metadata (ideal sha seal open) p pass = Ok emd -> decrypt_metadata (ideal sha seal open) emd pass = Ok p) /\
    (exists n c, encrypt_aes (ideal sha seal open) p pass = Ok (n, c)) /\
    (exists evk, encrypt_value_key (ideal sha seal open) p pass = Ok evk) /\
    (exists emd, encrypt_metadata (ideal sha seal open) p pass = Ok emd).
Proof. exact decrypt_encrypt_all. Qed.
Print Assumptions decrypt_encrypt.

(* The recipe has no input besides payload, passphrase and the primitives: two sets of
   primitives that answer every query alike produce the same bytes (no clock, counter or
   random source in the recipe).  That the Go code is deterministic in the same sense is
   what the correspondence run and the direct "encrypt twice" oracle establish. *)
Theorem encrypt_deterministic :
  forall P Q p pass,
    (forall x, p_sha P x = p_sha Q x) -> (forall k n x, p_seal P k n x = p_seal Q k n x) ->
    encrypt_aes P p pass = encrypt_aes Q p pass /\
    encrypt_value_key P p pass = encrypt_value_key Q p pass /\
    encrypt_metadata P p pass = encrypt_metadata Q p pass.
Proof. exact encrypt_aes_ext. Qed.
Print Assumptions encrypt_deterministic.

(* ... so encrypted values can be compared without decrypting: under one passphrase the
   ciphertexts are equal exactly when the payloads are. *)
Theorem encrypted_values_comparable :
  forall sha seal open, law_sha_min sha -> law_seal_nonempty seal -> law_round_trip seal open ->
  forall p p' pass, encrypt_blob (ideal sha seal open) p pass = encrypt_blob (ideal sha seal open) p' pass <-> p = p'.
Proof. exact encrypt_comparable. Qed.
Print Assumptions encrypted_values_comparable.

(* A different passphrase fails, through every entry point (symbolic AEAD: only the
   genuine sealing opens, sealings under different keys differ; no SHA-256 collision
   between the two derived keys). *)
Theorem wrong_passphrase_fails :
  forall sha seal open, law_sha_min sha -> law_seal_nonempty seal -> law_authentic seal open -> law_seal_injective seal ->
  forall p pass pass', law_collision_free sha -> pass <> pass' ->
    decrypt_value_key (ideal sha seal open) (ideal_blob sha seal p pass) pass' = Err EAuth /\
    decrypt_metadata (ideal sha seal open) (ideal_blob sha seal p pass) pass' = Err EAuth /\
    decrypt_aes (ideal sha seal open) (ideal_nonce sha p pass)
                (seal (ideal_key sha pass) (ideal_nonce sha p pass) p) pass' = Err EAuth.
Proof. exact wrong_passphrase_cf. Qed.
Print Assumptions wrong_passphrase_fails.

(* Any input that is not, bit for bit, one of the honestly produced encryptions is
   rejected under every passphrase: every truncation, bit flip, extension or splice
   (ciphertext integrity relative to the list of everything ever encrypted). *)
Theorem tamper_fails :
  forall sha seal open honest, law_int_ctxt seal open (sealed_of sha honest) ->
  forall x pass',
    (forall p pass, In (p, pass) honest -> x <> ideal_blob sha seal p pass) ->
    (exists e, decrypt_value_key (ideal sha seal open) x pass' = Err e) /\
    (exists e, decrypt_metadata (ideal sha seal open) x pass' = Err e).
Proof. exact tamper_blob. Qed.
Print Assumptions tamper_fails.

Theorem tamper_fails_aes :
  forall sha seal open honest, law_int_ctxt seal open (sealed_of sha honest) ->
  forall n c pass',
    (forall p pass, In (p, pass) honest ->
       (n, c) <> (ideal_nonce sha p pass, seal (ideal_key sha pass) (ideal_nonce sha p pass) p)) ->
    exists e, decrypt_aes (ideal sha seal open) n c pass' = Err e.
Proof. exact tamper_aes. Qed.
Print Assumptions tamper_fails_aes.

(* Inputs of every length, nonces of every length, any primitives: an error or data,
   never a panic (no premise at all). *)
Theorem truncated_input_is_error_not_panic :
  forall sha seal open x pass nonce,
    is_panic (decrypt_value_key (ideal sha seal open) x pass) = false /\
    is_panic (decrypt_metadata (ideal sha seal open) x pass) = false /\
    is_panic (decrypt_aes (ideal sha seal open) nonce x pass) = false /\
    is_panic (split_value_key x) = false.
Proof. exact no_panic_all. Qed.
Print Assumptions truncated_input_is_error_not_panic.

(* The unrepaired code: every value key shorter than the nonce and every nonce whose
   length is not 12 panics (replayed on /repo by the harness). *)
Theorem truncated_input_v0_refuted :
  forall sha seal open,
    (forall evk mh, (length evk < 12)%nat -> decrypt_value_key_v0 (ideal sha seal open) evk mh = Panic PSliceBounds) /\
    (forall n c pass, length n <> 12%nat -> decrypt_aes_v0 (ideal sha seal open) n c pass = Panic PNonceSize) /\
    (forall ps mh, find_v0 (ideal sha seal open) hostile_store ps mh = Panic PSliceBounds).
Proof. exact v0_refuted_all. Qed.
Print Assumptions truncated_input_v0_refuted.

(* A value key splits back into exactly the peer ID and context ID it was built from, for
   every byte string libp2p accepts as a peer ID and every context ID (any length). *)
Theorem split_create :
  forall pid ctx, valid_peer_id pid -> split_value_key (create_value_key pid ctx) = Ok (pid, ctx).
Proof. exact split_create_valid. Qed.
Print Assumptions split_create.

(* ... in particular for identity-hashed keys (ed25519, secp256k1: marshalled key of at
   most 42 bytes inlined) and SHA-256-hashed keys (RSA, ECDSA), and more generally any
   multihash code below 2^63 with a digest of at most MaxInt32 bytes. *)
Theorem split_create_peer_id_kinds :
  (forall key ctx, (length key <= 42)%nat ->
     split_value_key (create_value_key (mh_encode IDENTITY key) ctx) = Ok (mh_encode IDENTITY key, ctx)) /\
  (forall digest ctx, length digest = 32%nat ->
     split_value_key (create_value_key (mh_encode SHA2_256 digest) ctx) = Ok (mh_encode SHA2_256 digest, ctx)) /\
  (forall code digest ctx, code < 2 ^ 63 -> N.of_nat (length digest) <= max_int32 ->
     split_value_key (create_value_key (mh_encode code digest) ctx) = Ok (mh_encode code digest, ctx)).
Proof. exact split_kinds_all. Qed.
Print Assumptions split_create_peer_id_kinds.

(* Conversely whatever SplitValueKey accepts is the concatenation of a valid peer ID and
   the returned context ID: nothing lost, nothing invented. *)
Theorem split_is_exact :
  forall vk pid ctx, split_value_key vk = Ok (pid, ctx) -> vk = create_value_key pid ctx /\ valid_peer_id pid.
Proof. exact split_sound. Qed.
Print Assumptions split_is_exact.

(* The second hash is a well-formed dbl-sha2-256 multihash (0x56, 0x20, the 32-byte
   SHA-256 of the 64-byte prefix followed by the original). *)
Theorem second_hash_shape :
  forall sha seal open mh, law_sha_len sha ->
    second_multihash (ideal sha seal open) mh = Ok (86 :: 32 :: sha (second_prefix ++ mh)) /\
    mh_read (86 :: 32 :: sha (second_prefix ++ mh)) = Ok (34%nat, DBL_SHA2_256, sha (second_prefix ++ mh)) /\
    mh_cast (86 :: 32 :: sha (second_prefix ++ mh)) = Ok tt.
Proof. exact second_shape. Qed.
Print Assumptions second_hash_shape.

(* It differs from the original: unconditionally when the original is a multihash of any
   other hash function; always, when no digest is embedded in its own preimage; and
   distinct originals have distinct second hashes when SHA-256 has no collision. *)
Theorem second_hash_differs :
  forall sha seal open,
    (forall mh rlen code dig, mh_read mh = Ok (rlen, code, dig) -> code <> DBL_SHA2_256 ->
       second_multihash (ideal sha seal open) mh <> Ok mh) /\
    (law_no_self_hash sha -> forall mh, second_multihash (ideal sha seal open) mh <> Ok mh) /\
    (law_collision_free sha -> forall mh mh',
       second_multihash (ideal sha seal open) mh = second_multihash (ideal sha seal open) mh' -> mh = mh').
Proof. exact second_differs_all. Qed.
Print Assumptions second_hash_differs.

(* The second hash is deterministic in the same sense as encryption. *)
Theorem second_hash_deterministic :
  forall P Q mh, (forall x, p_sha P x = p_sha Q x) -> second_multihash P mh = second_multihash Q mh.
Proof. exact second_multihash_ext. Qed.
Print Assumptions second_hash_deterministic.

(* A reader-privacy find over the store an indexer builds from ANY well-formed plaintext
   index through SecondMultihash / EncryptValueKey / SHA256 / EncryptMetadata returns, for
   every multihash (indexed or not), exactly the indexed (provider, context ID, metadata)
   triples in order — with a pcache, those whose provider the provider source knows, with
   its addresses. *)
Theorem find_returns_indexed :
  forall sha seal open, law_sha_min sha -> law_seal_nonempty seal -> law_round_trip seal open -> law_collision_free sha ->
  forall idx, wf_index idx ->
  exists st, index_store (ideal sha seal open) idx = Ok st /\
    forall ps mh, C12_DHash.find (ideal sha seal open) st ps mh = Ok (flat_map (entry_result ps) (entries_for idx mh)).
Proof. exact find_returns_indexed_all. Qed.
Print Assumptions find_returns_indexed.

(* Whatever a store answers (junk, short or tampered values, errors), the repaired
   workflow returns results or an error, never a panic. *)
Theorem find_never_panics :
  forall sha seal open st ps mh, store_total st -> is_panic (C12_DHash.find (ideal sha seal open) st ps mh) = false.
Proof. exact find_no_panic. Qed.
Print Assumptions find_never_panics.

(* The byte constants of the model are those of dhash.go (coq/gen/Gen_Consts.v is
   regenerated from the source on every run): a finite check. *)
Theorem constants_match_source :
  second_prefix = str_bytes Gen.Gen_Consts.dhash_secondHashPrefix /\
  key_prefix = str_bytes Gen.Gen_Consts.dhash_deriveKeyPrefix /\
  nonce_prefix = str_bytes Gen.Gen_Consts.dhash_noncePrefix /\
  Z.of_nat nonce_len = Gen.Gen_Consts.dhash_nonceLen /\
  length second_prefix = 64%nat /\ length key_prefix = 64%nat /\ length nonce_prefix = 64%nat.
Proof. exact prefixes_match_source. Qed.
Print Assumptions constants_match_source.

(* ================================================================== *)
(* Composition with C17 (pcache.GetResults, model/C17_GetResults.v, imported unchanged):
   the abstract provider source of find_returns_indexed is instantiated with C17's record
   type, rsrc = option (bytes -> option G.record) (None: metadata-only client).  D =
   Model.C12_DHash, G = Model.C17_GetResults; pid_num names peer-ID bytes by the numbers
   C17's records use (any naming; injective in the case files, which is what makes C17's
   numeric comparison mean Go's peer.ID comparison). *)

(* FindAsync with provider records = FindAsync without a pcache, every result expanded by
   GetResults per the IPNI rules (G.spec_results): for ALL primitives, stores, sources. *)
Theorem find_factors_through_get_results :
  forall (pid_num : bytes -> N) (P : D.prims) (st : D.store) (src : rsrc) (mh : bytes),
    find_rec pid_num P st src mh = (l <- D.find P st None mh ;; Ok (flat_map (expand pid_num src) l)).
Proof. exact find_rec_factor. Qed.
Print Assumptions find_factors_through_get_results.

(* (1) For every well-formed index and every provider-record source, the reader-privacy find
   over the store built from the index returns, for each indexed (pid, ctx, md) in order,
   exactly G.spec_results of the record the source holds for pid -- the provider itself,
   the contextual extended providers of that context ID, then the chain-level ones unless
   overridden, own entries without new metadata skipped, missing metadata substituted --
   and nothing for providers the source does not know. *)
Theorem find_expands_per_ipni_rules :
  forall (pid_num : bytes -> N) sha seal open,
  D.law_sha_min sha -> D.law_seal_nonempty seal -> D.law_round_trip seal open -> D.law_collision_free sha ->
  forall idx, D.wf_index idx ->
  exists st, D.index_store (D.ideal sha seal open) idx = Ok st /\
    forall src mh, find_rec pid_num (D.ideal sha seal open) st src mh =
                   Ok (flat_map (entry_expansion pid_num src) (D.entries_for idx mh)).
Proof. exact find_expands_indexed. Qed.
Print Assumptions find_expands_per_ipni_rules.

(* (2) Whatever the store answers and whatever records the source holds -- provider and
   metadata lists of different lengths included (C17's get_results_no_panic) -- the
   workflow returns results or an error, never a panic. *)
Theorem find_never_panics_with_records :
  forall (pid_num : bytes -> N) sha seal open st src mh,
    D.store_total st -> is_panic (find_rec pid_num (D.ideal sha seal open) st src mh) = false.
Proof. exact find_rec_no_panic. Qed.
Print Assumptions find_never_panics_with_records.

(* The pcache-mode statement of find_returns_indexed is the special case of records without
   extended providers. *)
Theorem find_returns_indexed_is_the_plain_record_case :
  forall (pid_num : bytes -> N) (known : bytes -> option N) (e : D.entry),
    entry_expansion pid_num (Some (fun pid => option_map (fun t => G.REC (G.AI (pid_num pid) t) None) (known pid))) e =
    map (fun r : D.presult => let '(pid, ctx, md, t) := r in G.PR ctx (Some md) (G.AI (pid_num pid) t))
        (D.entry_result (Some known) e).
Proof. exact plain_records_agree. Qed.
Print Assumptions find_returns_indexed_is_the_plain_record_case.

(* ================================================================== *)
(* The HTTP dhstore client.  Every request of the reader-privacy find names the SECOND hash
   of the multihash looked up, or the SHA-256 of a value key obtained by decrypting the
   server's own answer; the request path is "/encrypted/multihash/" resp. "/metadata/"
   followed by the base58 of that hash and nothing else.  The multihash, the value keys
   (provider ID, context ID) and the metadata never appear in what the store is asked. *)
Theorem requests_reveal_only_hashes :
  forall sha seal open st mh qs,
  find_queries (ideal sha seal open) st mh = Ok qs ->
  Forall (hashed_query sha mh) qs /\
  Forall (fun p => p = mh_path_prefix ++ b58 (mh_encode DBL_SHA2_256 (sha (second_prefix ++ mh))) \/
                   exists vk, p = md_path_prefix ++ b58 (sha vk)) (map request_path qs).
Proof. exact requests_hashed. Qed.
Print Assumptions requests_reveal_only_hashes.

(* ---- ties to the Gallina regenerated from the Go source (proofs/GenTie_C12.v) ---- *)
From Coq Require Import ZArith NArith List Bool Lia String.
From Lib Require Import Bytes.
From Model Require Import C12_DHash.
From Proofs Require Import C12_DHash GenTie_Lib.
From Gen Require Import Gen_Consts Gen_Funcs_prelude Gen_Funcs_dhash.
Import ListNotations.
Local Open Scope Z_scope.
From Proofs Require Import GenTie_C12.

Theorem gen_tie_DecryptValueKey : forall (P : prims) aes (evk mh : bytes),
  agreesE (decrypt_aes P (firstn nonce_len evk) (skipn nonce_len evk) mh)
          (aes (firstn nonce_len evk) (skipn nonce_len evk) mh) ->
  agrees (decrypt_value_key P evk mh) (dhash_DecryptValueKey aes evk mh).
Proof. exact GenTie_C12.tie_DecryptValueKey. Qed.
Print Assumptions gen_tie_DecryptValueKey.

Theorem gen_tie_DecryptMetadata : forall (P : prims) aes (emd vk : bytes),
  agreesE (decrypt_aes P (firstn nonce_len emd) (skipn nonce_len emd) vk)
          (aes (firstn nonce_len emd) (skipn nonce_len emd) vk) ->
  agrees (decrypt_metadata P emd vk) (dhash_DecryptMetadata aes emd vk).
Proof. exact GenTie_C12.tie_DecryptMetadata. Qed.
Print Assumptions gen_tie_DecryptMetadata.

Theorem gen_DecryptValueKey_no_panic : forall aes evk mh, dhash_DecryptValueKey aes evk mh <> GoPanic.
Proof. exact GenTie_C12.DecryptValueKey_no_panic. Qed.
Print Assumptions gen_DecryptValueKey_no_panic.

Theorem gen_tie_EncryptValueKey : forall (P : prims) (vk mh : bytes),
  (forall c, encrypt_aes P vk mh <> Panic c) ->
  match encrypt_value_key P vk mh, dhash_EncryptValueKey (fun p k => to_go3 (encrypt_aes P p k)) vk mh with
  | Ok b, (b', None) => b = b'
  | Err _, (_, Some _) => True
  | _, _ => False
  end.
Proof. exact GenTie_C12.tie_EncryptValueKey. Qed.
Print Assumptions gen_tie_EncryptValueKey.

Theorem gen_tie_EncryptMetadata : forall (P : prims) (md vk : bytes),
  (forall c, encrypt_aes P md vk <> Panic c) ->
  match encrypt_metadata P md vk, dhash_EncryptMetadata (fun p k => to_go3 (encrypt_aes P p k)) md vk with
  | Ok b, (b', None) => b = b'
  | Err _, (_, Some _) => True
  | _, _ => False
  end.
Proof. exact GenTie_C12.tie_EncryptMetadata. Qed.
Print Assumptions gen_tie_EncryptMetadata.

Theorem gen_tie_deriveKey : forall (sha : bytes -> bytes) pass,
  dhash_deriveKey sha pass = ideal_key sha pass.
Proof. exact GenTie_C12.tie_deriveKey. Qed.
Print Assumptions gen_tie_deriveKey.

Theorem gen_tie_SecondMultihash : forall (sha : bytes -> bytes) seal open mh,
  second_multihash (ideal sha seal open) mh
  = Ok (dhash_SecondMultihash sha (fun d code => (mh_encode (Z.to_N code) d, None)) mh).
Proof. exact GenTie_C12.tie_SecondMultihash. Qed.
Print Assumptions gen_tie_SecondMultihash.

Theorem gen_tie_CreateValueKey : forall pid ctx, dhash_CreateValueKey pid ctx = create_value_key pid ctx.
Proof. exact GenTie_C12.tie_CreateValueKey. Qed.
Print Assumptions gen_tie_CreateValueKey.

Theorem gen_tie_DecryptAES : forall (sha : bytes -> bytes) seal open (nonce ct pass : bytes),
  agreesE (decrypt_aes (ideal sha seal open) nonce ct pass)
          (dhash_DecryptAES bytes bytes (fun k => (k, None)) (fun b => (b, None)) (dhash_deriveKey sha)
                            (go_open open) nonce ct pass).
Proof. exact GenTie_C12.tie_DecryptAES. Qed.
Print Assumptions gen_tie_DecryptAES.

Theorem gen_tie_EncryptAES : forall (sha : bytes -> bytes) seal open (payload pass : bytes),
  law_sha_min sha ->
  dhash_EncryptAES bytes bytes (fun k => (k, None))
     (fun _ n => le64 (Z.to_N n)) (fun b => (b, None)) (dhash_deriveKey sha)
     (fun a b c d => sha (a ++ b ++ c ++ d)%list) seal payload pass
  = match encrypt_aes (ideal sha seal open) payload pass with
    | Ok (n, c) => GoRet (n, c, None)
    | _ => GoPanic
    end.
Proof. exact GenTie_C12.tie_EncryptAES. Qed.
Print Assumptions gen_tie_EncryptAES.

(* ---- phase 2: further ties to the Gallina regenerated from the Go source (proofs/GenTie_C12.v) ---- *)
From Coq Require Import ZArith NArith List Bool Lia String.
From Lib Require Import Bytes.
From Model Require Import C12_DHash.
From Proofs Require Import C12_DHash GenTie_Lib.
From Gen Require Import Gen_Consts Gen_Funcs_prelude Gen_Funcs_dhash.
Import ListNotations.
Local Open Scope Z_scope.
From Gen Require Import Gen_Funcs_findclient.
From Proofs Require Import GenTie_C12.

Theorem gen_FindAsync_skip_ladder_table :
  forall (dvk : list N -> list N -> list N * option string) (split : list N -> list N * list N * option string)
         (mh evk md : list N) (mderr : option string),
  match findclient_FindAsync_skip_ladder dvk split mh evk mderr md with
  | FFall _ =>
      snd (dvk evk mh) = None /\ snd (split (fst (dvk evk mh))) = None /\ mderr = None /\ md <> []
  | FContinue _ _ =>
      snd (dvk evk mh) <> None \/ snd (split (fst (dvk evk mh))) <> None \/ mderr <> None \/ md = []
  | _ => False
  end.
Proof. exact GenTie_C12.FindAsync_skip_ladder_table. Qed.
Print Assumptions gen_FindAsync_skip_ladder_table.

(* ---- phase 3: ties to the Gallina regenerated from the Go source (proofs/GenTie_P3_C12.v) ---- *)
From Coq Require Import ZArith NArith List Bool Lia String.
From Lib Require Import Bytes.
From Model Require Import C12_DHash.
From Proofs Require Import GenTie_Lib.
From Gen Require Import Gen_Consts Gen_Funcs_prelude Gen_Funcs_findclient.
Import ListNotations.
Local Open Scope Z_scope.
From Proofs Require Import GenTie_P3_C12.

Theorem gen_tie_evk_body_pcache : forall (dec_vk dec_md : bytes -> bytes -> res bytes) (P : prims) (st : store) (mh evk : list N) (known : list N -> option N) (sel : Z), match find_one dec_vk dec_md P st (Some known) mh evk with | Ok rs => (exists tr : list string, body dec_vk dec_md P st mh evk (Some known) sel = FFall (rs, tr)) \/ rs = [] /\ (exists tr : list string, body dec_vk dec_md P st mh evk (Some known) sel = FContinue "" ([], tr)) | Err _ => False | Panic _ => True end.
Proof. exact GenTie_P3_C12.tie_evk_body_pcache. Qed.
Print Assumptions gen_tie_evk_body_pcache.

Theorem gen_tie_evk_body_metadata_only : forall (dec_vk dec_md : bytes -> bytes -> res bytes) (P : prims) (st : store) (mh evk : list N) (sel : Z), match find_one dec_vk dec_md P st None mh evk with | Ok [] => exists tr : list string, body dec_vk dec_md P st mh evk None sel = FContinue "" ([], tr) /\ ~ In "resChan <- pr" tr | Ok (r :: rest) => rest = [] /\ snd r = 0%N /\ (exists tr : list string, body dec_vk dec_md P st mh evk None sel = (if sel =? 0 then FContinue "" ([], (tr ++ ["resChan <- pr"])%list) else FReturn "return ctx.Err()" ([], (tr ++ ["<-ctx.Done()"])%list))) | Err _ => False | Panic _ => True end.
Proof. exact GenTie_P3_C12.tie_evk_body_metadata_only. Qed.
Print Assumptions gen_tie_evk_body_metadata_only.
