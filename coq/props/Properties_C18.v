(* C18 -- Signed ingest and register requests are accepted only from the provider named.
   Statements only; proofs are in lib/SymCrypto.v and proofs/C18_Requests.v.

   The theorems are stated inside one Section for an ARBITRARY signature scheme
   (key, signature and peer-ID types; pub, sign, verify, peer_id) and ARBITRARY record
   codecs.  The Section Hypotheses are the trusted idealisations; when the section
   closes every theorem is generalised over the scheme and carries as explicit premises
   exactly the hypotheses its proof uses (printed by the Check commands at the end of
   this file).  Nothing is an Axiom: `Print Assumptions` reports every theorem closed
   under the global context, and lib/SymCrypto.v proves all five scheme laws for the
   symbolic instance [Sym] (Sym.laws), so the premises are satisfiable. *)
From Lib Require Import Bytes SymCrypto.
From Model Require Import C18_Requests.
From Proofs Require Import C18_Requests.
Open Scope N_scope.

Section C18.
  Variables privkey pubkey sigt peerid : Type.
  Variable pub : privkey -> pubkey.
  Variable sign : privkey -> bytes -> sigt.
  Variable verify : pubkey -> bytes -> sigt -> bool.
  Variable peer_id : pubkey -> peerid.
  Variable peerid_eqb : peerid -> peerid -> bool.
  Variable enc_ingest : ingest_req peerid -> bytes.            (* IngestRequest.MarshalRecord (encoding/json) *)
  Variable dec_ingest : bytes -> option (ingest_req peerid).   (* IngestRequest.UnmarshalRecord *)
  Variable enc_peer : peer_rec peerid -> bytes.                (* PeerRecord.MarshalRecord (protobuf) *)
  Variable dec_peer : bytes -> option (peer_rec peerid).       (* PeerRecord.UnmarshalRecord *)
  Variable maddr_parse : bytes -> option bytes.                (* multiaddr.NewMultiaddr *)

  (* idealised signature scheme (lib/SymCrypto.v) *)
  Hypothesis VS : VerifySign pub sign verify.       (* an honest signature verifies *)
  Hypothesis VU : VerifyUnique pub sign verify.     (* only the key's own signature over m verifies for m *)
  Hypothesis SI : SignInjective sign.               (* a signature determines key and message *)
  Hypothesis PI : PubInjective pub.                 (* a public key determines the private key *)
  Hypothesis PID : PeerIdInjective peer_id.         (* a peer ID determines the public key *)
  Hypothesis EQB : forall a b, peerid_eqb a b = true <-> a = b.   (* Go `!=` on peer.ID *)
  (* codec layer, not modelled: what is marshalled unmarshals to the same record, and
     marshalled records are Go slices (shorter than 2^63 bytes) *)
  Hypothesis CI : forall r, dec_ingest (enc_ingest r) = Some r.
  Hypothesis CP : forall r, dec_peer (enc_peer r) = Some r.
  Hypothesis SI_ : forall r, short (enc_ingest r).
  Hypothesis SP_ : forall r, short (enc_peer r).

  Notation read_ingest := (read_ingest verify peer_id peerid_eqb dec_ingest dec_peer).
  Notation read_register := (read_register verify peer_id peerid_eqb dec_ingest dec_peer).
  Notation make_ingest := (make_ingest pub sign enc_ingest).
  Notation make_register := (make_register pub sign enc_peer maddr_parse).

  (* ReadIngestRequest (repaired) returns q  <=>  the bytes parse to an envelope whose
     signature is the signature, by the key the envelope carries, over exactly
     (ingest domain, ingest payload type, the payload), whose payload type is the ingest
     type, whose payload decodes to q, and whose key is the key of the provider q names. *)
  Theorem ingest_accept_iff :
    forall w q,
      read_ingest w = Ok q <->
      exists e k, w = Some e /\ e_key e = pub k /\ e_ty e = ingest_type /\
                  e_sig e = sign k (unsigned ingest_dom ingest_type (e_payload e)) /\
                  dec_ingest (e_payload e) = Some q /\ peer_id (pub k) = ir_provider q.
  Proof. apply ingest_accept_iff_proved; assumption. Qed.

  (* the same for ReadRegisterRequest *)
  Theorem register_accept_iff :
    forall w q,
      read_register w = Ok q <->
      exists e k, w = Some e /\ e_key e = pub k /\ e_ty e = peer_type /\
                  e_sig e = sign k (unsigned peer_dom peer_type (e_payload e)) /\
                  dec_peer (e_payload e) = Some q /\ peer_id (pub k) = pr_peer q.
  Proof. apply register_accept_iff_proved; assumption. Qed.

  (* Requests made by the library's constructors with the provider's own key are always
     accepted and come back with the fields they were built from.  (MakeRegisterRequest
     refuses an empty or unparsable address list: [constructor_register_fails_iff].) *)
  Theorem constructor_accepted_fields_preserved :
    (forall k mh ctx md addrs seq,
       exists w, make_ingest (peer_id (pub k)) k mh ctx md addrs seq = Ok w /\
                 read_ingest w = Ok (IngestReq mh (peer_id (pub k)) ctx md addrs seq)) /\
    (forall k addrs ms seq,
       addrs <> [] -> parse_addrs maddr_parse addrs = Ok ms ->
       exists w, make_register (peer_id (pub k)) k addrs seq = Ok w /\
                 read_register w = Ok (PeerRec (peer_id (pub k)) ms seq)).
  Proof.
    split; intros.
    - apply (make_ingest_accepted _ _ _ _ pub sign verify peer_id peerid_eqb enc_ingest dec_ingest dec_peer VS EQB CI).
    - apply (make_register_accepted _ _ _ _ pub sign verify peer_id peerid_eqb dec_ingest enc_peer dec_peer maddr_parse VS EQB CP); assumption.
  Qed.

  Theorem constructor_register_fails_iff :
    forall prov k addrs seq,
      is_ok (make_register prov k addrs seq) = true <->
      addrs <> [] /\ Forall (fun a => maddr_parse a <> None) addrs.
  Proof. apply make_register_ok_iff. Qed.

  (* Bytes that do not parse are rejected; a sealed request in which any ONE of public
     key, payload type, payload, signature is replaced by a different value is rejected,
     by either reader. *)
  Theorem altered_rejected :
    is_ok (read_ingest None) = false /\ is_ok (read_register None) = false /\
    (forall pl k e e', short pl -> seal pub sign ingest_dom ingest_type pl k = Ok e ->
       altered_one_field e e' -> env_short e' -> is_ok (read_ingest (Some e')) = false) /\
    (forall pl k e e', short pl -> seal pub sign peer_dom peer_type pl k = Ok e ->
       altered_one_field e e' -> env_short e' -> is_ok (read_register (Some e')) = false).
  Proof. apply altered_rejected_proved; assumption. Qed.

  (* Whatever was sealed (any type, payload, key) for a domain other than the reader's is
     rejected; in particular each constructor's output is rejected by the other reader. *)
  Theorem other_domain_rejected :
    (forall dom ty pl k e, short dom -> short ty -> short pl ->
       seal pub sign dom ty pl k = Ok e -> dom <> ingest_dom -> is_ok (read_ingest (Some e)) = false) /\
    (forall dom ty pl k e, short dom -> short ty -> short pl ->
       seal pub sign dom ty pl k = Ok e -> dom <> peer_dom -> is_ok (read_register (Some e)) = false) /\
    (forall prov k mh ctx md addrs seq w,
       make_ingest prov k mh ctx md addrs seq = Ok w -> is_ok (read_register w) = false) /\
    (forall prov k addrs seq w,
       make_register prov k addrs seq = Ok w -> is_ok (read_ingest w) = false).
  Proof.
    destruct (other_domain_rejected_proved _ _ _ _ pub sign verify peer_id peerid_eqb dec_ingest dec_peer VS VU SI EQB) as [A B].
    destruct (cross_replay_rejected_proved _ _ _ _ pub sign verify peer_id peerid_eqb enc_ingest dec_ingest enc_peer dec_peer maddr_parse VS VU SI EQB SI_ SP_) as [C D].
    auto.
  Qed.

  (* An accepted register request was signed by THE key of the peer the record names. *)
  Theorem register_signer_is_peer :
    forall w q,
      read_register w = Ok q ->
      exists e k, w = Some e /\ e_key e = pub k /\
                  e_sig e = sign k (unsigned peer_dom peer_type (e_payload e)) /\
                  peer_id (pub k) = pr_peer q /\
                  (forall k', peer_id (pub k') = pr_peer q -> k' = k).
  Proof. apply register_signer_is_peer_proved; assumption. Qed.

  (* An accepted ingest request was signed by THE key of the provider it names
     (repaired ReadIngestRequest). *)
  Theorem ingest_signer_is_provider :
    forall w q,
      read_ingest w = Ok q ->
      exists e k, w = Some e /\ e_key e = pub k /\
                  e_sig e = sign k (unsigned ingest_dom ingest_type (e_payload e)) /\
                  peer_id (pub k) = ir_provider q /\
                  (forall k', peer_id (pub k') = ir_provider q -> k' = k).
  Proof. apply ingest_signer_is_provider_proved; assumption. Qed.

  (* A request correctly sealed, for the right domain and type, by any identity other than
     the one it names is rejected. *)
  Theorem signed_by_other_identity_rejected :
    (forall k q e, seal pub sign ingest_dom ingest_type (enc_ingest q) k = Ok e ->
       ir_provider q <> peer_id (pub k) -> is_ok (read_ingest (Some e)) = false) /\
    (forall k q e, seal pub sign peer_dom peer_type (enc_peer q) k = Ok e ->
       pr_peer q <> peer_id (pub k) -> is_ok (read_register (Some e)) = false).
  Proof. apply other_identity_rejected_proved; assumption. Qed.

  (* the readers have no panicking path in the model (the harness checks the same of the
     real functions on every presentation) *)
  Theorem readers_never_panic :
    forall w, is_panic (read_ingest w) = false /\ is_panic (read_register w) = false.
  Proof. apply readers_never_panic_proved. Qed.
End C18.

(* The signed buffer determines (domain, payload type, payload): the length prefixes make
   the concatenation injective for byte strings shorter than 2^63. *)
Theorem envelope_unsigned_injective :
  forall dom ty pl dom' ty' pl',
    short dom -> short ty -> short pl -> short dom' -> short ty' -> short pl' ->
    unsigned dom ty pl = unsigned dom' ty' pl' -> dom = dom' /\ ty = ty' /\ pl = pl'.
Proof. exact unsigned_injective. Qed.

(* ReadIngestRequest BEFORE pending/C18-fix-ingest-signer.diff: [ingest_signer_is_provider]
   is false of it.  Witness on the symbolic scheme: key 1 correctly seals a request whose
   ProviderID is identity 0; the old reader returns it (and the repaired one rejects it).
   The harness replays exactly this on the real code ("ingest:foreign-signer"). *)
Theorem ingest_signer_is_provider_v0_refuted :
  exists (w : option (envelope Sym.pubkey Sym.sigt)) (di : bytes -> option sreq) (q : sreq)
         (e : envelope Sym.pubkey Sym.sigt),
    w = Some e /\
    read_ingest_v0 Sym.verify di (fun _ => None) w = Ok q /\
    Sym.peer_id (e_key e) <> ir_provider q /\
    is_ok (read_ingest Sym.verify Sym.peer_id Sym.peerid_eqb di (fun _ => None) w) = false.
Proof. exact ingest_signer_is_provider_v0_refuted_proved. Qed.

(* the scheme hypotheses are satisfiable: all of them hold of the symbolic instance *)
Theorem scheme_laws_consistent :
  VerifySign Sym.pub Sym.sign Sym.verify /\ VerifyUnique Sym.pub Sym.sign Sym.verify /\
  SignInjective Sym.sign /\ PubInjective Sym.pub /\ PeerIdInjective Sym.peer_id /\
  (forall a b, Sym.peerid_eqb a b = true <-> a = b).
Proof.
  destruct Sym.laws as (A & B & C & D & E).
  split; [exact A|]. split; [exact B|]. split; [exact C|]. split; [exact D|]. split; [exact E|exact Sym.peerid_eqb_eq].
Qed.

Print Assumptions ingest_accept_iff.
Print Assumptions register_accept_iff.
Print Assumptions constructor_accepted_fields_preserved.
Print Assumptions constructor_register_fails_iff.
Print Assumptions altered_rejected.
Print Assumptions other_domain_rejected.
Print Assumptions register_signer_is_peer.
Print Assumptions ingest_signer_is_provider.
Print Assumptions signed_by_other_identity_rejected.
Print Assumptions readers_never_panic.
Print Assumptions envelope_unsigned_injective.
Print Assumptions ingest_signer_is_provider_v0_refuted.
Print Assumptions scheme_laws_consistent.

(* the generalised statements, with the hypotheses each theorem actually uses *)
Check ingest_accept_iff.
Check constructor_accepted_fields_preserved.
Check altered_rejected.
Check other_domain_rejected.
Check register_signer_is_peer.
Check ingest_signer_is_provider.
Check signed_by_other_identity_rejected.

(* ---- ties to the Gallina regenerated from the Go source (proofs/GenTie_C18.v) ---- *)
From Coq Require Import ZArith NArith List Bool Lia String.
From Lib Require Import Bytes.
From Model Require Import C18_Requests.
From Proofs Require Import GenTie_Lib.
From Gen Require Import Gen_Consts Gen_Funcs_prelude Gen_Funcs_model.
Import ListNotations.
Local Open Scope Z_scope.
From Proofs Require Import GenTie_C18.

Theorem gen_tie_signer_check : forall signer provider : bytes,
  match model_ReadIngestRequest_signer_check provider signer with
  | FReturn s _ => Bytes.bytes_eqb signer provider = false /\ s = "return nil, errors.New(""request not signed by provider"")"%string
  | FFall _ => Bytes.bytes_eqb signer provider = true
  | _ => False
  end.
Proof. exact GenTie_C18.tie_signer_check. Qed.
Print Assumptions gen_tie_signer_check.

Theorem gen_read_ingest_decision :
  forall (pubkey sigt peerid : Type) verify (peer_id : pubkey -> peerid) peerid_eqb dec_ingest dec_peer w,
  @read_ingest pubkey sigt peerid verify peer_id peerid_eqb dec_ingest dec_peer w =
  match consume_envelope verify dec_ingest dec_peer w ingest_dom with
  | Ok (e, RIngest q) => if peerid_eqb (peer_id (SymCrypto.e_key e)) (ir_provider q) then Ok q else Err ENotSigner
  | Ok (_, _) => Err EWrongType
  | Err c => Err c
  | Panic c => Panic c
  end.
Proof. exact GenTie_C18.read_ingest_decision. Qed.
Print Assumptions gen_read_ingest_decision.

Theorem gen_UnmarshalRecord_guard_table : forall isnil : bool,
  model_IngestRequest_UnmarshalRecord_guard isnil =
  if isnil then FReturn "return fmt.Errorf(""cannot unmarshal IngestRequest to nil receiver"")"%string [] else FFall [].
Proof. exact GenTie_C18.UnmarshalRecord_guard_table. Qed.
Print Assumptions gen_UnmarshalRecord_guard_table.

Theorem gen_ingest_domain_codec :
  model_IngestRequest_Domain = bytes_of_string model_IngestRequestEnvelopeDomain /\
  model_IngestRequest_Codec = bytes_of_string model_IngestRequestEnvelopePayloadType.
Proof. exact GenTie_C18.ingest_domain_codec. Qed.
Print Assumptions gen_ingest_domain_codec.
