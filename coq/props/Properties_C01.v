(* C01 -- Chain sync fetches and reports exactly the requested chain segment.
   Statements only; definitions in model/C01_ChainSync.v, proofs in proofs/C01_ChainSync.v.

   Reading aid.  A [world] gives every block's links and which blocks the publisher serves;
   [chain_world k extra ch pub] is the world of the chain ch (newest / first block first)
   whose blocks are linked by a PreviousID (k = EPrev) or Next (k = ENext) field and carry
   [extra] other links that the chain selectors ignore (an advertisement's Entries link).
   [walk] is ipld-prime's traversal as Syncer.Sync drives it (order, requests, store
   afterwards); [handle] is handler.handle with its segment loop; [sync_ad_chain],
   [sync_entries], [sync_one], [sync_all] are the Subscriber's entry points.  The hook is
   the one the API prescribes for segmented syncs (HNominate).
   The specification is independent of all of them:
     segment ch head stop lim = cut lim (take_until stop (from head ch)).
   [missing store seg] = the blocks of seg the store lacks, in order;
   [avail pub store l] = every block of l is stored locally or served by the publisher. *)
From Lib Require Import Bytes.
From Model Require Import C01_ChainSync.
From Proofs Require Import C01_ChainSync.
Open Scope N_scope.

(* ---- the traversal ---- *)

(* For every chain (any length, no block twice), every head on it, every stop (none, on the
   chain, not on the chain; head = stop is the caller's early return), every depth limit
   (none, below, equal to, above the remaining length; a limit d admits max d 1 blocks),
   every local store: one traversal loads exactly the specified segment in chain order,
   requests exactly its blocks the store lacks, and stores them.  The fuel the model gives
   the traversal suffices (the result is not WFuel). *)
Theorem walk_chain_spec :
  forall k extra ch pub head stop lim store,
    chain_wf k extra ch = true -> In head ch -> is_stop stop head = false ->
    let w := chain_world k extra ch pub in
    let seg := segment ch head stop lim in
    avail pub store seg = true ->
    walk (walk_fuel w) w (kind_view k) stop lim head store =
    WO seg (missing store seg) (rev (missing store seg) ++ store) WOk.
Proof. exact walk_chain_spec_proved. Qed.
Print Assumptions walk_chain_spec.

(* For every segment size segdl (any integer: > 0 with a larger or absent depth limit runs
   the segment loop; <= 0, or a depth limit <= segdl, switches segmentation off) handle
   reports the same blocks in the same order, the same count, the same requests and ends
   with the same store as the unsegmented branch -- which is the specified segment.  The
   loop's fuel suffices. *)
Theorem segmented_eq_unsegmented :
  forall k extra ch pub head stop lim store segdl,
    chain_wf k extra ch = true -> In head ch -> is_stop stop head = false ->
    let w := chain_world k extra ch pub in
    let seg := segment ch head stop lim in
    avail pub store seg = true ->
    handle w (kind_view k) stop lim segdl HNominate head store =
      handle_plain w (kind_view k) stop lim HNominate head store /\
    handle w (kind_view k) stop lim segdl HNominate head store =
      HO seg (missing store seg) (rev (missing store seg) ++ store) (length seg) None.
Proof. exact segmented_eq_unsegmented_proved. Qed.
Print Assumptions segmented_eq_unsegmented.

(* ---- SyncAdChain ---- *)

(* which stop point and which depth limit apply: the Go statements of SyncAdChain, in
   their order, compute exactly the documented decision tables; the latest sync that acts
   as default stop point is GetLatestSync's: the recorded value, else what the
   WithLastKnownSync function knows ([eff_latest]) *)
Theorem option_resolution :
  (forall cfg st a, go_stop cfg st a = stop_table (eff_latest cfg st) (a_stop a) (a_resync a)) /\
  (forall cfg a stop,
     go_depth cfg a stop = depth_table (c_ads_depth cfg) (c_first_depth cfg) (a_depth a) stop).
Proof. split; [exact go_stop_table|exact go_depth_table]. Qed.
Print Assumptions option_resolution.

(* The whole call, for every advertisement chain, every subscriber configuration (any depth
   and segment options, strict selector, prescribed hook general or scoped), every call
   (explicit or queried head, stop CID, resync, scoped depth / segment size), every latest
   sync and every local store from which the segment can be had: it returns the head, hands
   the hook exactly the specified segment, requests exactly its missing blocks, stores them,
   and moves the latest sync / emits SyncFinished(head, count) iff the head was queried and
   is not the stop point.  Nothing on the right-hand side depends on the segment size. *)
Theorem sync_ad_chain_meets_spec :
  forall extra ch pub cfg a st head queried,
    chain_wf EPrev extra ch = true -> c_strict cfg = true ->
    resolve_hook cfg (a_hook a) = HNominate ->
    the_head a = Some (head, queried) -> In head ch ->
    let stop := stop_table (eff_latest cfg st) (a_stop a) (a_resync a) in
    let lim := depth_table (c_ads_depth cfg) (c_first_depth cfg) (a_depth a) stop in
    let seg := segment ch head stop lim in
    avail pub (s_store st) seg = true ->
    sync_ad_chain (chain_world EPrev extra ch pub) cfg a st =
    let moved := queried && negb (is_stop stop head) in
    CO (ROk head) seg (missing (s_store st) seg)
       (if moved then Some (head, length seg) else None)
       (ST (if moved then Some head else s_latest st) (rev (missing (s_store st) seg) ++ s_store st)).
Proof. exact sync_ad_chain_spec. Qed.
Print Assumptions sync_ad_chain_meets_spec.

(* each reported block exactly once, newest first: the hook log has no repetition, is an
   initial part of the chain from the head on, and holds no stop block *)
Theorem reported_once_newest_first :
  forall extra ch pub cfg a head queried st,
    chain_wf EPrev extra ch = true -> c_strict cfg = true ->
    resolve_hook cfg (a_hook a) = HNominate ->
    the_head a = Some (head, queried) -> In head ch ->
    let stop := stop_table (eff_latest cfg st) (a_stop a) (a_resync a) in
    let lim := depth_table (c_ads_depth cfg) (c_first_depth cfg) (a_depth a) stop in
    avail pub (s_store st) (segment ch head stop lim) = true ->
    let o := sync_ad_chain (chain_world EPrev extra ch pub) cfg a st in
    r_ret o = ROk head /\ r_hooks o = segment ch head stop lim /\ NoDup (r_hooks o) /\
    (exists post, from head ch = r_hooks o ++ post) /\
    (forall x, In x (r_hooks o) -> is_stop stop x = false).
Proof. intros extra ch pub cfg a head queried st H1 H2 H3 H4 H5. exact (cor_reported extra ch pub cfg a head queried H1 H2 H3 H4 H5 st). Qed.
Print Assumptions reported_once_newest_first.

(* every reported block is in the local store afterwards *)
Theorem all_readable_after :
  forall extra ch pub cfg a head queried st,
    chain_wf EPrev extra ch = true -> c_strict cfg = true ->
    resolve_hook cfg (a_hook a) = HNominate ->
    the_head a = Some (head, queried) -> In head ch ->
    let stop := stop_table (eff_latest cfg st) (a_stop a) (a_resync a) in
    let lim := depth_table (c_ads_depth cfg) (c_first_depth cfg) (a_depth a) stop in
    avail pub (s_store st) (segment ch head stop lim) = true ->
    forall x, In x (r_hooks (sync_ad_chain (chain_world EPrev extra ch pub) cfg a st)) ->
      memb x (s_store (r_state (sync_ad_chain (chain_world EPrev extra ch pub) cfg a st))) = true.
Proof. intros extra ch pub cfg a head queried st H1 H2 H3 H4 H5. exact (cor_readable extra ch pub cfg a head queried H1 H2 H3 H4 H5 st). Qed.
Print Assumptions all_readable_after.

(* requested = reported minus already stored; hence no pre-stored block, no stop block and
   nothing at or behind the stop point of the chain is ever requested *)
Theorem requests_are_exactly_missing :
  forall extra ch pub cfg a head queried st,
    chain_wf EPrev extra ch = true -> c_strict cfg = true ->
    resolve_hook cfg (a_hook a) = HNominate ->
    the_head a = Some (head, queried) -> In head ch ->
    let stop := stop_table (eff_latest cfg st) (a_stop a) (a_resync a) in
    let lim := depth_table (c_ads_depth cfg) (c_first_depth cfg) (a_depth a) stop in
    avail pub (s_store st) (segment ch head stop lim) = true ->
    let o := sync_ad_chain (chain_world EPrev extra ch pub) cfg a st in
    r_reqs o = missing (s_store st) (r_hooks o) /\
    (forall x, In x (r_reqs o) ->
       memb x (s_store st) = false /\ is_stop stop x = false /\ In x (r_hooks o)) /\
    (forall pre s post, from head ch = pre ++ s :: post -> is_stop stop s = true ->
       forall x, In x (s :: post) -> ~ In x (r_reqs o)).
Proof. intros extra ch pub cfg a head queried st H1 H2 H3 H4 H5. exact (cor_requests extra ch pub cfg a head queried H1 H2 H3 H4 H5 st). Qed.
Print Assumptions requests_are_exactly_missing.

(* blocks reported, count / event, head returned and latest sync do not depend on which
   blocks were already stored (nor, by sync_ad_chain_meets_spec, on the segment size) *)
Theorem outcome_independent_of_store :
  forall extra ch pub cfg a head queried st1 st2,
    chain_wf EPrev extra ch = true -> c_strict cfg = true ->
    resolve_hook cfg (a_hook a) = HNominate ->
    the_head a = Some (head, queried) -> In head ch ->
    s_latest st1 = s_latest st2 ->
    let stop st := stop_table (eff_latest cfg st) (a_stop a) (a_resync a) in
    let lim st := depth_table (c_ads_depth cfg) (c_first_depth cfg) (a_depth a) (stop st) in
    avail pub (s_store st1) (segment ch head (stop st1) (lim st1)) = true ->
    avail pub (s_store st2) (segment ch head (stop st2) (lim st2)) = true ->
    let o1 := sync_ad_chain (chain_world EPrev extra ch pub) cfg a st1 in
    let o2 := sync_ad_chain (chain_world EPrev extra ch pub) cfg a st2 in
    r_ret o1 = r_ret o2 /\ r_hooks o1 = r_hooks o2 /\ r_event o1 = r_event o2 /\
    s_latest (r_state o1) = s_latest (r_state o2).
Proof. intros extra ch pub cfg a head queried st1 st2 H1 H2 H3 H4 H5. exact (cor_independent extra ch pub cfg a head queried H1 H2 H3 H4 H5 st1 st2). Qed.
Print Assumptions outcome_independent_of_store.

(* the latest sync moves to the head, and SyncFinished(head, count) is emitted, iff the head
   was queried from the publisher and is not the stop point *)
Theorem latest_recorded_iff_queried_head :
  forall extra ch pub cfg a head queried st,
    chain_wf EPrev extra ch = true -> c_strict cfg = true ->
    resolve_hook cfg (a_hook a) = HNominate ->
    the_head a = Some (head, queried) -> In head ch ->
    let stop := stop_table (eff_latest cfg st) (a_stop a) (a_resync a) in
    let lim := depth_table (c_ads_depth cfg) (c_first_depth cfg) (a_depth a) stop in
    avail pub (s_store st) (segment ch head stop lim) = true ->
    let o := sync_ad_chain (chain_world EPrev extra ch pub) cfg a st in
    let moved := queried && negb (is_stop stop head) in
    s_latest (r_state o) = (if moved then Some head else s_latest st) /\
    r_event o = (if moved then Some (head, length (r_hooks o)) else None).
Proof. intros extra ch pub cfg a head queried st H1 H2 H3 H4 H5. exact (cor_latest extra ch pub cfg a head queried H1 H2 H3 H4 H5 st). Qed.
Print Assumptions latest_recorded_iff_queried_head.

(* ---- entries ---- *)

(* SyncEntries over every entries chain, from every position, with every depth (scoped or
   subscriber-wide) and the subscriber's segment size *)
Theorem sync_entries_meets_spec :
  forall extra ch pub cfg ent depth scoped st,
    chain_wf ENext extra ch = true ->
    resolve_hook cfg scoped = HNominate -> In ent ch ->
    let lim := entries_depth_table (c_entries_depth cfg) depth in
    let seg := segment ch ent None lim in
    avail pub (s_store st) seg = true ->
    sync_entries (chain_world ENext extra ch pub) cfg (Some ent) depth scoped st =
    CO RNil seg (missing (s_store st) seg) None
       (ST (s_latest st) (rev (missing (s_store st) seg) ++ s_store st)).
Proof. exact sync_entries_spec. Qed.
Print Assumptions sync_entries_meets_spec.

(* SyncOneEntry, in any world: exactly that block *)
Theorem sync_one_meets_spec :
  forall w cfg ent st es req,
    load w ent (s_store st) = Some (es, req) ->
    sync_one w cfg (Some ent) st =
    CO RNil (calls_of (c_hook cfg) [ent]) (if req then [ent] else []) None
       (ST (s_latest st) (if req then ent :: s_store st else s_store st)).
Proof. exact sync_one_spec. Qed.
Print Assumptions sync_one_meets_spec.

(* SyncHAMTEntries (all links, no limit) over every finite tree of distinct blocks the world
   holds: each block once, in pre-order; requests = the missing ones.  The model's traversal
   fuel (number of blocks of the world + 1) is PROVED sufficient: a tree of distinct blocks
   is at most as deep as it has blocks, and all of them are blocks of the world.
   For a DAG with shared blocks see walk_dag_unfolding below. *)
Theorem walk_tree_preorder :
  forall d pub cfg scoped st t,
    dag_has d t = true -> NoDup (preorder t) ->
    avail pub (s_store st) (preorder t) = true ->
    sync_all (WORLD d pub) cfg (Some (root t)) scoped st =
    CO RNil (calls_of (resolve_hook cfg scoped) (preorder t)) (missing (s_store st) (preorder t)) None
       (ST (s_latest st) (rev (missing (s_store st) (preorder t)) ++ s_store st)).
Proof. exact sync_all_tree. Qed.
Print Assumptions walk_tree_preorder.

(* DAGs with shared blocks: for ANY finite unfolding t of the DAG below the requested block
   (a block linked from several places occurs in t once per path) the hook is handed the
   pre-order of t -- a shared block once per path -- while every block is REQUESTED at most
   once: [fetches store l] = the blocks of l neither stored nor met earlier in l.  For a tree
   of distinct blocks fetches = missing and this is walk_tree_preorder.  (Here the depth of
   the unfolding is bounded by hypothesis: number of blocks of the world + 1.) *)
Theorem walk_dag_unfolding :
  forall d pub cfg scoped st t,
    dag_has d t = true -> (depth t <= S (length d))%nat ->
    avail pub (s_store st) (preorder t) = true ->
    sync_all (WORLD d pub) cfg (Some (root t)) scoped st =
    CO RNil (calls_of (resolve_hook cfg scoped) (preorder t)) (fetches (s_store st) (preorder t)) None
       (ST (s_latest st) (rev (fetches (s_store st) (preorder t)) ++ s_store st)).
Proof. exact sync_all_dag. Qed.
Print Assumptions walk_dag_unfolding.

Theorem fetches_of_distinct_blocks :
  forall l s, NoDup l -> fetches s l = missing s l.
Proof. exact fetches_nodup. Qed.
Print Assumptions fetches_of_distinct_blocks.

(* The exported selector builders (DagsyncSelector, ExploreRecursiveWithStop,
   ExploreRecursiveWithStopNode) handed to Syncer.Sync directly: over every chain, with every
   stop link and recursion limit (none / depth), the same specified segment *)
Theorem sync_with_built_selector_meets_spec :
  forall k extra ch pub head stop lim st,
    chain_wf k extra ch = true -> In head ch -> is_stop stop head = false ->
    let seg := segment ch head stop lim in
    avail pub (s_store st) seg = true ->
    sync_sel (chain_world k extra ch pub) (kind_view k) stop lim head st =
    CO RNil seg (missing (s_store st) seg) None
       (ST (s_latest st) (rev (missing (s_store st) seg) ++ s_store st)).
Proof. exact sync_sel_spec. Qed.
Print Assumptions sync_with_built_selector_meets_spec.

(* ---- handler removal ---- *)

(* The latest sync is state of the Subscriber, not of the per-publisher handler: for every
   call sequence, RemoveHandler / idle-cleaner steps inserted anywhere change no outcome of
   the other calls (return, hook log, requests, event, state after) nor the final state, and
   themselves report, request and emit nothing.  In particular the stop point of the next
   sync is still the publisher's last synced advertisement. *)
Theorem latest_sync_survives_handler_removal :
  forall cfg l w st,
    filter (fun p => negb (is_removal (fst p))) (fst (run_seq w cfg l st)) =
      fst (run_seq w cfg (filter (fun c => negb (is_removal c)) l) st) /\
    snd (run_seq w cfg l st) = snd (run_seq w cfg (filter (fun c => negb (is_removal c)) l) st) /\
    (forall c o, In (c, o) (fst (run_seq w cfg l st)) -> is_removal c = true ->
       r_hooks o = [] /\ r_reqs o = [] /\ r_event o = None).
Proof. exact removal_steps_are_invisible. Qed.
Print Assumptions latest_sync_survives_handler_removal.

(* ---- ties to the Gallina regenerated from the Go source (proofs/GenTie_C01.v) ---- *)
From Coq Require Import ZArith NArith List Bool Lia String.
From Lib Require Import Bytes.
From Model Require Import C01_ChainSync.
From Gen Require Import Gen_Funcs_prelude Gen_Funcs_dagsync.
Import ListNotations.
Local Open Scope Z_scope.
From Proofs Require Import GenTie_C01.

Theorem gen_tie_recursionLimit : forall depth,
  rl depth = dagsync_recursionLimit RL rl_depth rl_none depth.
Proof. exact GenTie_C01.tie_recursionLimit. Qed.
Print Assumptions gen_tie_recursionLimit.

Theorem gen_tie_SyncAdChain_limits : forall (cfg : subcfg) (st : substate) (a : adcall),
  dagsync_SyncAdChain_limits ocid ocid RL ocid_eqb rl_depth rl_none ocid_isnil (fun c => c) None
     (eff_latest cfg st)               (* s.GetLatestSync(peerInfo.ID) *)
     None                              (* cid.Undef *)
     (a_depth a) (a_resync a) (a_seg a) (a_stop a)
     (rl (c_ads_depth cfg))            (* s.adsDepthLimit = recursionLimit(opts.adsDepthLimit), NewSubscriber L239 *)
     (c_first_depth cfg) (c_seg_depth cfg)
  = FFall (go_depth cfg a (go_stop cfg st a), go_stop cfg st a, resolve_seg cfg (a_seg a)).
Proof. exact GenTie_C01.tie_SyncAdChain_limits. Qed.
Print Assumptions gen_tie_SyncAdChain_limits.

Theorem gen_tie_handle_segment_decision : forall (segdl : Z) (h : hook_kind) (lim : RL),
  dagsync_handle_segment_decision hook_kind RL (fun h => negb (has_hook h)) None rl_depth_of rl_mode
     h segdl (lim, true)
  = FFall (seg_enabled segdl h lim).
Proof. exact GenTie_C01.tie_handle_segment_decision. Qed.
Print Assumptions gen_tie_handle_segment_decision.

Theorem gen_seg_loop_uses_seg_step : forall f w v stop orig segdl h nd dsf next acc,
  seg_loop (S f) w v stop orig segdl h nd dsf next acc =
  let o := walk (walk_fuel w) w v stop (Some nd) next (h_store acc) in
  match o_res o with
  | WOk =>
    let acc' := HO (h_hooks acc ++ o_order o) (h_reqs acc ++ o_reqs o) (o_store o)
                   (h_count acc + length (o_order o)) None in
    match seg_step orig segdl nd dsf stop (nominated w h (o_order o)) with
    | SegStop => acc'
    | SegNext nd' dsf' n => seg_loop f w v stop orig segdl h nd' dsf' n acc'
    end
  | e => HO (h_hooks acc) (h_reqs acc ++ o_reqs o) (o_store o) 0 (Some e)
  end.
Proof. exact GenTie_C01.seg_loop_uses_seg_step. Qed.
Print Assumptions gen_seg_loop_uses_seg_step.

Theorem gen_tie_handle_segment_step : forall (orig : option nat) (segdl nd dsf : nat) (stop nom : option cid),
  read_step nom
    (dagsync_handle_segment_step ocid ocid_eqb ocid_isnil
       (Z.of_nat segdl) stop
       (rl_depth_of orig) (rl_mode orig)
       false             (* segSync.nextSyncCid.Equals(cid.Undef): None below stands for nil and for cid.Undef *)
       (Z.of_nat dsf)
       None              (* cid.Undef *)
       (Z.of_nat nd)
       None              (* segSync.err: no hook failure *)
       nom)              (* *segSync.nextSyncCid *)
  = Some (seg_step orig segdl nd dsf stop nom).
Proof. exact GenTie_C01.tie_handle_segment_step. Qed.
Print Assumptions gen_tie_handle_segment_step.

Theorem gen_tie_SyncEntries_scoped : forall (T : Type) (sel h : T) (depth : Z),
  match dagsync_SyncEntries_scoped T h depth sel with
  | FFall tr => (depth =? 0) = match tr with [] => true | _ => false end
  | _ => False
  end.
Proof. exact GenTie_C01.tie_SyncEntries_scoped. Qed.
Print Assumptions gen_tie_SyncEntries_scoped.
