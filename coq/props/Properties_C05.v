(* C05 -- Advertisement signatures verify exactly what was signed, and by whom.

   Every statement quantifies over ALL signature schemes (key / signature / peer-ID types
   and pub, sign, verify, peer_id), all hashes Hf and all peer-ID decoders; what is assumed of
   them is a named premise (SymCrypto.VerifySign / VerifyUnique / SignInjective /
   PubInjective, H_len32, H_injective, the specification of peerid_eqb), never an axiom;
   Proofs.C05_AdSignature.laws_inhabited exhibits an instance meeting all of them at once.
   [verify_gen .. true] is VerifySignature with pending/C05-fix-ep-signer.diff,
   [verify_gen .. false] the function as it was; statements with a free [st] hold of both. *)
From Lib Require Import Bytes Varint SymCrypto.
From Model Require Import C05_AdSignature.
From Proofs Require Import C05_AdSignature.
From Model Require Import Compose_C05_C13.
From Proofs Require Import Compose_C05_C13.
From Coq Require Import List.
Import ListNotations.
Open Scope N_scope.

(* An advertisement signed with the library verifies and verification returns the peer ID
   of the signing key: Sign for plain advertisements, SignWithExtendedProviders when the
   key fetcher hands out, for every entry other than the main provider's, the key of the
   identity the entry names. *)
Theorem sign_verify :
  forall (privkey pubkey sigt peerid : Type) (pub : privkey -> pubkey) (sign : privkey -> bytes -> sigt)
         (verify : pubkey -> bytes -> sigt -> bool) (peer_id : pubkey -> peerid)
         (peerid_eqb : peerid -> peerid -> bool) (Hf : bytes -> bytes) (decode_pid : bytes -> option peerid),
  (forall a b, peerid_eqb a b = true <-> a = b) -> VerifySign pub sign verify -> H_len32 Hf ->
  (forall st a k a', sign_plain pub sign (ideal_H Hf) a k = Ok a' ->
     verify_gen verify peer_id peerid_eqb (ideal_H Hf) decode_pid st a' = Ok (peer_id (pub k))) /\
  (forall a k fetch a',
     sign_with_eps pub sign (ideal_H Hf) a k fetch = Ok a' ->
     (forall x p, a_ext a = Some x -> In p (x_providers x) -> is_main a p = false ->
                  forall key, fetch (p_id p) = Ok key -> decode_pid (p_id p) = Some (peer_id (pub key))) ->
     verify_gen verify peer_id peerid_eqb (ideal_H Hf) decode_pid true a' = Ok (peer_id (pub k))).
Proof. exact sign_verify_all. Qed.
Print Assumptions sign_verify.

(* ... also after any encode/decode round trip (that dag-json and dag-cbor round-trip is
   C13's theorem and this check's direct oracle on the real codecs). *)
Theorem sign_verify_after_round_trip :
  forall (privkey pubkey sigt peerid : Type) (pub : privkey -> pubkey) (sign : privkey -> bytes -> sigt)
         (verify : pubkey -> bytes -> sigt -> bool) (peer_id : pubkey -> peerid)
         (peerid_eqb : peerid -> peerid -> bool) (Hf : bytes -> bytes) (decode_pid : bytes -> option peerid),
  (forall a b, peerid_eqb a b = true <-> a = b) -> VerifySign pub sign verify -> H_len32 Hf ->
  forall (encode : ad pubkey sigt -> bytes) (decode : bytes -> option (ad pubkey sigt)),
  (forall a, decode (encode a) = Some a) ->
  (forall st a k a', sign_plain pub sign (ideal_H Hf) a k = Ok a' ->
     option_map (verify_gen verify peer_id peerid_eqb (ideal_H Hf) decode_pid st) (decode (encode a'))
     = Some (Ok (peer_id (pub k)))) /\
  (forall a k fetch a',
     sign_with_eps pub sign (ideal_H Hf) a k fetch = Ok a' ->
     (forall x p, a_ext a = Some x -> In p (x_providers x) -> is_main a p = false ->
                  forall key, fetch (p_id p) = Ok key -> decode_pid (p_id p) = Some (peer_id (pub key))) ->
     option_map (verify_gen verify peer_id peerid_eqb (ideal_H Hf) decode_pid true) (decode (encode a'))
     = Some (Ok (peer_id (pub k)))).
Proof. exact sign_verify_round_trip. Qed.
Print Assumptions sign_verify_after_round_trip.

(* Verification succeeds EXACTLY when: the signature field is an envelope valid for domain
   "indexer"; its payload is the sha2-256 multihash of the advertisement's payload (34 bytes)
   or, any other length, the deprecated raw-payload form; the result is the peer ID of the
   envelope key; and every extended-provider entry carries a valid envelope whose payload is
   the multihash of that entry's payload and (with the fix) whose key has the peer ID the
   entry names -- the advertisement signer's for the main provider's entry --, the
   advertisement is not a removal when there are entries, and the main provider is listed. *)
Theorem acceptance_characterised :
  forall (pubkey sigt peerid : Type) (verify : pubkey -> bytes -> sigt -> bool) (peer_id : pubkey -> peerid)
         (peerid_eqb : peerid -> peerid -> bool) (Hf : bytes -> bytes) (decode_pid : bytes -> option peerid),
  (forall a b, peerid_eqb a b = true <-> a = b) ->
  forall (strict : bool) (a : ad pubkey sigt) (s : peerid),
    verify_gen verify peer_id peerid_eqb (ideal_H Hf) decode_pid strict a = Ok s <->
    exists e ent, a_sig a = Some e /\ validate verify sig_dom e = true /\ a_entries a = Some ent /\
                  payload_matches pubkey sigt Hf a ent (e_payload e) /\ s = peer_id (e_key e) /\
                  ext_accepts pubkey sigt peerid verify peer_id Hf decode_pid strict a s.
Proof. exact verify_ok_iff. Qed.
Print Assumptions acceptance_characterised.

(* Changing any single one of the six values the advertisement signature covers, all other
   values and the signature kept, makes verification fail: previous link, entries link,
   provider, one address, metadata, removal flag.  (For ANY accepted advertisement, in
   either payload format; H injective = no SHA-256 collision.) *)
Theorem single_value_change_rejected :
  forall (pubkey sigt peerid : Type) (verify : pubkey -> bytes -> sigt -> bool) (peer_id : pubkey -> peerid)
         (peerid_eqb : peerid -> peerid -> bool) (Hf : bytes -> bytes) (decode_pid : bytes -> option peerid),
  (forall a b, peerid_eqb a b = true <-> a = b) -> H_injective Hf ->
  forall (st st' : bool) (a : ad pubkey sigt) (s : peerid),
  verify_gen verify peer_id peerid_eqb (ideal_H Hf) decode_pid st a = Ok s ->
  (forall v, link_bytes v <> link_bytes (a_prev a) ->
     is_ok (verify_gen verify peer_id peerid_eqb (ideal_H Hf) decode_pid st' (upd_prev pubkey sigt a v)) = false) /\
  (forall v, v <> a_entries a ->
     is_ok (verify_gen verify peer_id peerid_eqb (ideal_H Hf) decode_pid st' (upd_entries pubkey sigt a v)) = false) /\
  (forall v, v <> a_provider a ->
     is_ok (verify_gen verify peer_id peerid_eqb (ideal_H Hf) decode_pid st' (upd_provider pubkey sigt a v)) = false) /\
  (forall l1 x l2 x', a_addrs a = l1 ++ x :: l2 -> x' <> x ->
     is_ok (verify_gen verify peer_id peerid_eqb (ideal_H Hf) decode_pid st' (upd_addrs pubkey sigt a (l1 ++ x' :: l2))) = false) /\
  (forall v, v <> a_md a ->
     is_ok (verify_gen verify peer_id peerid_eqb (ideal_H Hf) decode_pid st' (upd_md pubkey sigt a v)) = false) /\
  (forall v, v <> a_rm a ->
     is_ok (verify_gen verify peer_id peerid_eqb (ideal_H Hf) decode_pid st' (upd_rm pubkey sigt a v)) = false).
Proof. exact ad_value_change_rejected. Qed.
Print Assumptions single_value_change_rejected.

(* ... and of the five further values the extended-provider signatures cover: context ID
   and override flag (as soon as one entry is listed), one entry's identity, one of its
   addresses, its metadata. *)
Theorem single_value_change_rejected_extended :
  forall (pubkey sigt peerid : Type) (verify : pubkey -> bytes -> sigt -> bool) (peer_id : pubkey -> peerid)
         (peerid_eqb : peerid -> peerid -> bool) (Hf : bytes -> bytes) (decode_pid : bytes -> option peerid),
  (forall a b, peerid_eqb a b = true <-> a = b) -> H_injective Hf ->
  forall (st st' : bool) (a : ad pubkey sigt) (s : peerid) (x : ext pubkey sigt),
  verify_gen verify peer_id peerid_eqb (ideal_H Hf) decode_pid st a = Ok s -> a_ext a = Some x ->
  (forall v, x_providers x <> [] -> v <> a_ctx a ->
     is_ok (verify_gen verify peer_id peerid_eqb (ideal_H Hf) decode_pid st' (upd_ctx pubkey sigt a v)) = false) /\
  (forall v, x_providers x <> [] -> v <> x_override x ->
     is_ok (verify_gen verify peer_id peerid_eqb (ideal_H Hf) decode_pid st' (upd_override pubkey sigt a x v)) = false) /\
  (forall l1 p l2 v, x_providers x = l1 ++ p :: l2 -> v <> p_id p ->
     is_ok (verify_gen verify peer_id peerid_eqb (ideal_H Hf) decode_pid st'
              (upd_providers pubkey sigt a x (l1 ++ upd_pid pubkey sigt p v :: l2))) = false) /\
  (forall l1 p l2 m1 y m2 y', x_providers x = l1 ++ p :: l2 -> p_addrs p = m1 ++ y :: m2 -> y' <> y ->
     is_ok (verify_gen verify peer_id peerid_eqb (ideal_H Hf) decode_pid st'
              (upd_providers pubkey sigt a x (l1 ++ upd_paddrs pubkey sigt p (m1 ++ y' :: m2) :: l2))) = false) /\
  (forall l1 p l2 v, x_providers x = l1 ++ p :: l2 -> v <> p_md p ->
     is_ok (verify_gen verify peer_id peerid_eqb (ideal_H Hf) decode_pid st'
              (upd_providers pubkey sigt a x (l1 ++ upd_pmd pubkey sigt p v :: l2))) = false).
Proof. exact ep_value_change_rejected. Qed.
Print Assumptions single_value_change_rejected_extended.

(* The boundary the property excludes, documented: the payload concatenates values without
   delimiters, so moving a byte from the end of the provider string to the front of the
   first address changes two neighbouring values and no signed byte; both advertisements
   verify under the one signature. *)
Theorem adjacent_shift_accepted :
  (a <- sign_plain Sym.pub Sym.sign (ideal_H Witness.toyH) Witness.plain0 0 ;;
   verify_gen Sym.verify Sym.peer_id Sym.peerid_eqb (ideal_H Witness.toyH) (ids_decode Witness.ids0) true a) = Ok 0 /\
  (a <- sign_plain Sym.pub Sym.sign (ideal_H Witness.toyH) Witness.plain0 0 ;;
   verify_gen Sym.verify Sym.peer_id Sym.peerid_eqb (ideal_H Witness.toyH) (ids_decode Witness.ids0) true (Witness.shifted a)) = Ok 0 /\
  a_provider (Witness.shifted Witness.plain0) <> a_provider Witness.plain0.
Proof. exact Witness.adjacent_shift. Qed.
Print Assumptions adjacent_shift_accepted.

(* Altering the key, the payload type, the payload or the signature inside the envelope of
   the advertisement or of any extended-provider entry (or making it unparsable) makes
   verification fail.  [altered e]: e is a sealed envelope with exactly one field changed. *)
Theorem envelope_field_change_rejected :
  forall (privkey pubkey sigt peerid : Type) (pub : privkey -> pubkey) (sign : privkey -> bytes -> sigt)
         (verify : pubkey -> bytes -> sigt -> bool) (peer_id : pubkey -> peerid)
         (peerid_eqb : peerid -> peerid -> bool) (Hf : bytes -> bytes) (decode_pid : bytes -> option peerid),
  (forall a b, peerid_eqb a b = true <-> a = b) ->
  VerifySign pub sign verify -> VerifyUnique pub sign verify -> SignInjective sign -> PubInjective pub ->
  forall (st : bool) (a : ad pubkey sigt),
  (forall e, a_sig a = Some e -> altered privkey pubkey sigt pub sign e ->
     verify_gen verify peer_id peerid_eqb (ideal_H Hf) decode_pid st a = Err EEnvSignature) /\
  (a_sig a = None -> verify_gen verify peer_id peerid_eqb (ideal_H Hf) decode_pid st a = Err EEnvParse) /\
  (forall x p, a_ext a = Some x -> In p (x_providers x) ->
     (p_sig p = None \/ exists e, p_sig p = Some e /\ altered privkey pubkey sigt pub sign e) ->
     is_ok (verify_gen verify peer_id peerid_eqb (ideal_H Hf) decode_pid st a) = false).
Proof. exact envelope_change_rejected. Qed.
Print Assumptions envelope_field_change_rejected.

(* Verification succeeds only if the main provider is listed among the extended providers
   when there are any; SignWithExtendedProviders produces nothing else (and no removal). *)
Theorem main_provider_required :
  forall (privkey pubkey sigt peerid : Type) (pub : privkey -> pubkey) (sign : privkey -> bytes -> sigt)
         (verify : pubkey -> bytes -> sigt -> bool) (peer_id : pubkey -> peerid)
         (peerid_eqb : peerid -> peerid -> bool) (Hf : bytes -> bytes) (decode_pid : bytes -> option peerid),
  (forall a b, peerid_eqb a b = true <-> a = b) ->
  (forall st a s x, verify_gen verify peer_id peerid_eqb (ideal_H Hf) decode_pid st a = Ok s ->
     a_ext a = Some x -> x_providers x <> [] -> existsb (is_main a) (x_providers x) = true) /\
  (forall a k fetch a' x, sign_with_eps pub sign (ideal_H Hf) a k fetch = Ok a' -> a_ext a' = Some x ->
     x_providers x <> [] -> existsb (is_main a') (x_providers x) = true /\ a_rm a' = false).
Proof. exact main_provider_required_all. Qed.
Print Assumptions main_provider_required.

(* With the fix, verification succeeds only if every extended-provider entry carries a
   signature made by a key whose peer ID is the identity the entry names -- by the
   advertisement's own signer for the main provider's entry. *)
Theorem ep_signed_by_named_identity :
  forall (privkey pubkey sigt peerid : Type) (pub : privkey -> pubkey) (sign : privkey -> bytes -> sigt)
         (verify : pubkey -> bytes -> sigt -> bool) (peer_id : pubkey -> peerid)
         (peerid_eqb : peerid -> peerid -> bool) (Hf : bytes -> bytes) (decode_pid : bytes -> option peerid),
  (forall a b, peerid_eqb a b = true <-> a = b) -> VerifySign pub sign verify -> VerifyUnique pub sign verify ->
  forall (a : ad pubkey sigt) (s : peerid) (x : ext pubkey sigt) (p : provider pubkey sigt),
  verify_gen verify peer_id peerid_eqb (ideal_H Hf) decode_pid true a = Ok s ->
  a_ext a = Some x -> In p (x_providers x) ->
  exists e k, p_sig p = Some e /\ e_key e = pub k /\
              e_sig e = sign k (unsigned sig_dom (e_ty e) (e_payload e)) /\
              (if is_main a p then peer_id (pub k) = s else decode_pid (p_id p) = Some (peer_id (pub k))).
Proof. exact ep_sealed_by_named. Qed.
Print Assumptions ep_signed_by_named_identity.

(* ... and the returned peer ID is that of the key that sealed the advertisement's envelope. *)
Theorem returned_signer_signed :
  forall (privkey pubkey sigt peerid : Type) (pub : privkey -> pubkey) (sign : privkey -> bytes -> sigt)
         (verify : pubkey -> bytes -> sigt -> bool) (peer_id : pubkey -> peerid)
         (peerid_eqb : peerid -> peerid -> bool) (Hf : bytes -> bytes) (decode_pid : bytes -> option peerid),
  (forall a b, peerid_eqb a b = true <-> a = b) -> VerifySign pub sign verify -> VerifyUnique pub sign verify ->
  forall (st : bool) (a : ad pubkey sigt) (s : peerid),
  verify_gen verify peer_id peerid_eqb (ideal_H Hf) decode_pid st a = Ok s ->
  exists e k, a_sig a = Some e /\ e_key e = pub k /\ s = peer_id (pub k) /\
              e_sig e = sign k (unsigned sig_dom (e_ty e) (e_payload e)).
Proof. exact signer_is_sealer. Qed.
Print Assumptions returned_signer_signed.

(* The code as it was: an entry naming identity "A" (key 1) sealed by key 2 verifies; the
   repaired verification rejects it, and accepts the same advertisement when A's own key
   sealed the entry (replayed on /repo by the harness). *)
Theorem ep_signed_by_named_identity_v0_refuted :
  (a <- sign_with_eps Sym.pub Sym.sign (ideal_H Witness.toyH) Witness.ad0 0 Witness.fetch_wrong ;;
   verify_gen Sym.verify Sym.peer_id Sym.peerid_eqb (ideal_H Witness.toyH) (ids_decode Witness.ids0) false a) = Ok 0 /\
  (a <- sign_with_eps Sym.pub Sym.sign (ideal_H Witness.toyH) Witness.ad0 0 Witness.fetch_wrong ;;
   verify_gen Sym.verify Sym.peer_id Sym.peerid_eqb (ideal_H Witness.toyH) (ids_decode Witness.ids0) true a) = Err ENotNamed /\
  (a <- sign_with_eps Sym.pub Sym.sign (ideal_H Witness.toyH) Witness.ad0 0 Witness.fetch_right ;;
   verify_gen Sym.verify Sym.peer_id Sym.peerid_eqb (ideal_H Witness.toyH) (ids_decode Witness.ids0) true a) = Ok 0.
Proof. exact Witness.named_by_A_sealed_by_other. Qed.
Print Assumptions ep_signed_by_named_identity_v0_refuted.

(* Verification never panics on an advertisement that has its entries link (every decoded
   advertisement has); the one panic is a nil Entries interface behind a valid envelope. *)
Theorem verification_panics_only_without_entries :
  forall (pubkey sigt peerid : Type) (verify : pubkey -> bytes -> sigt -> bool) (peer_id : pubkey -> peerid)
         (peerid_eqb : peerid -> peerid -> bool) (Hf : bytes -> bytes) (decode_pid : bytes -> option peerid),
  (forall st (a : ad pubkey sigt), a_entries a <> None ->
     is_panic (verify_gen verify peer_id peerid_eqb (ideal_H Hf) decode_pid st a) = false) /\
  (forall st (a : ad pubkey sigt) e, a_entries a = None -> a_sig a = Some e -> validate verify sig_dom e = true ->
     verify_gen verify peer_id peerid_eqb (ideal_H Hf) decode_pid st a = Panic PNilEntries).
Proof. exact panic_characterised. Qed.
Print Assumptions verification_panics_only_without_entries.

(* Observations outside the property's claim, recorded as theorems about the model (and
   confirmed on the real code by the harness): the payload type of an envelope is never
   compared, so an extended provider's authorisation verifies as the signature of a crafted
   advertisement by that provider's key; and the extended-provider list is not covered by
   the advertisement's own signature, so dropping it still verifies. *)
Theorem observation_ep_signature_reusable_as_ad_signature :
  (a <- sign_with_eps Sym.pub Sym.sign (ideal_H Witness.toyH) Witness.ad0 0 Witness.fetch_right ;;
   b <- Witness.reuse a ;;
   verify_gen Sym.verify Sym.peer_id Sym.peerid_eqb (ideal_H Witness.toyH) (ids_decode Witness.ids0) true b) = Ok 1.
Proof. exact Witness.ep_signature_reused_as_ad_signature. Qed.
Print Assumptions observation_ep_signature_reusable_as_ad_signature.

Theorem observation_extended_providers_removable :
  (a <- sign_with_eps Sym.pub Sym.sign (ideal_H Witness.toyH) Witness.ad0 0 Witness.fetch_right ;;
   verify_gen Sym.verify Sym.peer_id Sym.peerid_eqb (ideal_H Witness.toyH) (ids_decode Witness.ids0) true (set_ext a None)) = Ok 0.
Proof. exact Witness.extended_providers_removable. Qed.
Print Assumptions observation_extended_providers_removable.

(* ================================================================== *)
(* Composition with C13 (IPLD schema layer + DAG-CBOR, model/C13_*.v): the abstract
   round-trip hypothesis of sign_verify_after_round_trip is replaced by C13's PROVED
   round trip.  A = Model.C05_AdSignature, S = Model.C13_IpldSchema.  The protobuf layer
   of a signature envelope, which neither model covers, is the pair env_encode
   (Envelope.Marshal) / env_decode (UnmarshalEnvelope) with the named laws env_round_trip
   and env_empty; of_c13 is the abstraction from C13's advertisement (signature BYTES) to
   C05's (parsed envelope), to_c13 its section.  Proofs.Compose_C05_C13.WitnessC.laws shows
   the premises of sign_then_wire_then_verify can be met together. *)

(* (1) The two records agree on every field they share, in both directions; parsing the
   signature bytes of the C13 image gives the C05 advertisement back, and the image
   determines it. *)
Theorem wire_mapping_commutes :
  forall (pubkey sigt : Type) (env_encode : envelope pubkey sigt -> bytes)
         (env_decode : bytes -> option (envelope pubkey sigt)),
  (forall a : A.ad pubkey sigt,
     S.a_prev (to_c13 env_encode a) = A.a_prev a /\ S.a_provider (to_c13 env_encode a) = A.a_provider a /\
     S.a_addrs (to_c13 env_encode a) = A.a_addrs a /\ S.a_ctx (to_c13 env_encode a) = A.a_ctx a /\
     S.a_meta (to_c13 env_encode a) = A.a_md a /\ S.a_isrm (to_c13 env_encode a) = A.a_rm a /\
     (forall ent, A.a_entries a = Some ent -> S.a_entries (to_c13 env_encode a) = ent) /\
     S.a_sig (to_c13 env_encode a) = wire_bytes env_encode (A.a_sig a) /\
     S.a_ext (to_c13 env_encode a) = option_map (ext_to_c13 env_encode) (A.a_ext a)) /\
  (forall x : A.ext pubkey sigt,
     S.x_provs (ext_to_c13 env_encode x) = map (prov_to_c13 env_encode) (A.x_providers x) /\
     S.x_override (ext_to_c13 env_encode x) = A.x_override x) /\
  (forall p : A.provider pubkey sigt,
     S.p_id (prov_to_c13 env_encode p) = A.p_id p /\ S.p_addrs (prov_to_c13 env_encode p) = A.p_addrs p /\
     S.p_meta (prov_to_c13 env_encode p) = A.p_md p /\ S.p_sig (prov_to_c13 env_encode p) = wire_bytes env_encode (A.p_sig p)) /\
  (forall c : S.ad,
     A.a_prev (of_c13 env_decode c) = S.a_prev c /\ A.a_provider (of_c13 env_decode c) = S.a_provider c /\
     A.a_addrs (of_c13 env_decode c) = S.a_addrs c /\ A.a_ctx (of_c13 env_decode c) = S.a_ctx c /\
     A.a_md (of_c13 env_decode c) = S.a_meta c /\ A.a_rm (of_c13 env_decode c) = S.a_isrm c /\
     A.a_entries (of_c13 env_decode c) = Some (S.a_entries c) /\
     A.a_sig (of_c13 env_decode c) = env_decode (S.a_sig c) /\
     A.a_ext (of_c13 env_decode c) = option_map (ext_of_c13 env_decode) (S.a_ext c)) /\
  (forall x : S.extprov,
     A.x_providers (ext_of_c13 env_decode x) = map (prov_of_c13 env_decode) (S.x_provs x) /\
     A.x_override (ext_of_c13 env_decode x) = S.x_override x) /\
  (forall p : S.provider,
     A.p_id (prov_of_c13 env_decode p) = S.p_id p /\ A.p_addrs (prov_of_c13 env_decode p) = S.p_addrs p /\
     A.p_md (prov_of_c13 env_decode p) = S.p_meta p /\ A.p_sig (prov_of_c13 env_decode p) = env_decode (S.p_sig p)) /\
  (env_round_trip env_encode env_decode -> env_empty env_decode ->
   (forall a : A.ad pubkey sigt, A.a_entries a <> None -> of_c13 env_decode (to_c13 env_encode a) = a) /\
   (forall a b : A.ad pubkey sigt, A.a_entries a <> None -> A.a_entries b <> None ->
      to_c13 env_encode a = to_c13 env_encode b -> a = b)).
Proof. exact mapping_commutes. Qed.
Print Assumptions wire_mapping_commutes.

(* (2) Every advertisement signed with Sign / SignWithExtendedProviders, written with C13's
   DAG-CBOR encoder (ad_encode = encode of ad_to_node), read back with C13's typed load and
   verified, gives Ok (peer_id (pub k)).  Well-formedness C13's round trip needs: S.wf_ad of
   the UNSIGNED advertisement (strings / byte strings are bytes of at most 32 MiB, links are
   CIDs cid.Cast accepts, list lengths < 2^63); that signed advertisements then satisfy it is
   proved, from: the marshalled form of an envelope the library seals is a byte string
   within the limit (sealed_env_bytes_ok), and the digest is 32 bytes. *)
Theorem sign_then_wire_then_verify :
  forall (privkey pubkey sigt peerid : Type) (pub : privkey -> pubkey) (sign : privkey -> bytes -> sigt)
         (verify : pubkey -> bytes -> sigt -> bool) (peer_id : pubkey -> peerid)
         (peerid_eqb : peerid -> peerid -> bool) (Hf : bytes -> bytes) (decode_pid : bytes -> option peerid)
         (env_encode : envelope pubkey sigt -> bytes) (env_decode : bytes -> option (envelope pubkey sigt)),
  env_round_trip env_encode env_decode -> env_empty env_decode ->
  sealed_env_bytes_ok privkey pubkey sigt pub sign env_encode ->
  A.H_len32 Hf -> H_bytes Hf ->
  (forall a b : peerid, peerid_eqb a b = true <-> a = b) -> VerifySign pub sign verify ->
  (forall (st : bool) (a a' : A.ad pubkey sigt) (k : privkey),
     S.wf_ad (to_c13 env_encode a) = true ->
     A.sign_plain pub sign (A.ideal_H Hf) a k = Ok a' ->
     wire_verify env_decode verify peer_id peerid_eqb (A.ideal_H Hf) decode_pid st (wire_encode env_encode a')
     = Ok (peer_id (pub k))) /\
  (forall (a a' : A.ad pubkey sigt) (k : privkey) (fetch : bytes -> res privkey),
     S.wf_ad (to_c13 env_encode a) = true ->
     A.sign_with_eps pub sign (A.ideal_H Hf) a k fetch = Ok a' ->
     (forall x p, A.a_ext a = Some x -> In p (A.x_providers x) -> A.is_main a p = false ->
                  forall key, fetch (A.p_id p) = Ok key -> decode_pid (A.p_id p) = Some (peer_id (pub key))) ->
     wire_verify env_decode verify peer_id peerid_eqb (A.ideal_H Hf) decode_pid true (wire_encode env_encode a')
     = Ok (peer_id (pub k))).
Proof. exact sign_wire_verify. Qed.
Print Assumptions sign_then_wire_then_verify.

(* (3) Tampering shows on the wire and is rejected behind it: an advertisement that differs
   from an accepted one in a single signed value (one_value_changed: the 6 + 5 values, all
   signatures kept) has a different DAG-CBOR encoding (C13's encoding is injective on
   well-formed values) and, decoded from its own encoding, does not verify. *)
Theorem wire_tamper_detected :
  forall (pubkey sigt peerid : Type) (verify : pubkey -> bytes -> sigt -> bool) (peer_id : pubkey -> peerid)
         (peerid_eqb : peerid -> peerid -> bool) (Hf : bytes -> bytes) (decode_pid : bytes -> option peerid)
         (env_encode : envelope pubkey sigt -> bytes) (env_decode : bytes -> option (envelope pubkey sigt)),
  env_round_trip env_encode env_decode -> env_empty env_decode ->
  (forall a b : peerid, peerid_eqb a b = true <-> a = b) -> A.H_injective Hf ->
  forall (st st' : bool) (a b : A.ad pubkey sigt) (s : peerid),
  A.verify_gen verify peer_id peerid_eqb (A.ideal_H Hf) decode_pid st a = Ok s ->
  one_value_changed pubkey sigt a b -> A.a_entries b <> None ->
  S.wf_ad (to_c13 env_encode a) = true -> S.wf_ad (to_c13 env_encode b) = true ->
  wire_encode env_encode b <> wire_encode env_encode a /\
  is_ok (wire_verify env_decode verify peer_id peerid_eqb (A.ideal_H Hf) decode_pid st' (wire_encode env_encode b)) = false.
Proof. exact wire_tamper. Qed.
Print Assumptions wire_tamper_detected.

(* ... and for ANY bytes on the wire (not only encodings of well-formed values): if what
   the typed decoder reads differs from an accepted advertisement in a single signed value,
   verification fails. *)
Theorem wire_tamper_detected_any_bytes :
  forall (pubkey sigt peerid : Type) (verify : pubkey -> bytes -> sigt -> bool) (peer_id : pubkey -> peerid)
         (peerid_eqb : peerid -> peerid -> bool) (Hf : bytes -> bytes) (decode_pid : bytes -> option peerid)
         (env_decode : bytes -> option (envelope pubkey sigt)),
  (forall a b : peerid, peerid_eqb a b = true <-> a = b) -> A.H_injective Hf ->
  forall (st st' : bool) (a : A.ad pubkey sigt) (s : peerid) (w : bytes) (c : S.ad),
  A.verify_gen verify peer_id peerid_eqb (A.ideal_H Hf) decode_pid st a = Ok s ->
  S.typed_load_ad w = Ok c -> one_value_changed pubkey sigt a (of_c13 env_decode c) ->
  is_ok (wire_verify env_decode verify peer_id peerid_eqb (A.ideal_H Hf) decode_pid st' w) = false.
Proof. exact wire_decoded_tamper. Qed.
Print Assumptions wire_tamper_detected_any_bytes.

(* ================================================================== *)
(* Signing histories.  Sign / SignWithExtendedProviders assign the advertisement's and every
   entry's Signature unconditionally: what signing produces depends on the signed values and
   the keys only, never on signatures the value already carries (a value signed before,
   decoded from a block, or used as the template of the next advertisement).  Together with
   sign_verify: re-signing after any change of a signed value verifies.  For ALL primitives,
   no premise. *)
Theorem resign_overwrites_stale_signatures :
  forall (privkey pubkey sigt : Type) (pub : privkey -> pubkey) (sign : privkey -> bytes -> sigt)
         (H : bytes -> res bytes) (a b : ad pubkey sigt) (k : privkey) (fetch : bytes -> res privkey),
  erase_sigs a = erase_sigs b ->
  sign_plain pub sign H a k = sign_plain pub sign H b k /\
  sign_with_eps pub sign H a k fetch = sign_with_eps pub sign H b k fetch.
Proof. exact resign_same_values. Qed.
Print Assumptions resign_overwrites_stale_signatures.

(* ================================================================== *)
(* Peer-ID spellings.  The signed payloads contain the provider and extended-provider
   identity STRINGS as written; a different spelling of the same peer ID (base58, CIDv1 in
   base32 / base36: peer.Decode gives the same peer) is a changed signed value: an accepted
   advertisement whose Provider, or one entry's ID, is respelled is rejected.  Hence any
   layer between signing and verification (encode / decode) must carry the strings byte for
   byte -- which C13's round trip does and the check's rt / wire families observe. *)
Theorem respelled_identity_rejected :
  forall (pubkey sigt peerid : Type) (verify : pubkey -> bytes -> sigt -> bool) (peer_id : pubkey -> peerid)
         (peerid_eqb : peerid -> peerid -> bool) (Hf : bytes -> bytes) (decode_pid : bytes -> option peerid),
  (forall a b, peerid_eqb a b = true <-> a = b) -> H_injective Hf ->
  forall (st st' : bool) (a : ad pubkey sigt) (s : peerid),
  verify_gen verify peer_id peerid_eqb (ideal_H Hf) decode_pid st a = Ok s ->
  (forall v, v <> a_provider a -> decode_pid v = decode_pid (a_provider a) ->
     is_ok (verify_gen verify peer_id peerid_eqb (ideal_H Hf) decode_pid st' (upd_provider pubkey sigt a v)) = false) /\
  (forall x l1 p l2 v, a_ext a = Some x -> x_providers x = l1 ++ p :: l2 ->
     v <> p_id p -> decode_pid v = decode_pid (p_id p) ->
     is_ok (verify_gen verify peer_id peerid_eqb (ideal_H Hf) decode_pid st'
              (upd_providers pubkey sigt a x (l1 ++ upd_pid pubkey sigt p v :: l2))) = false).
Proof. exact respelled_rejected. Qed.
Print Assumptions respelled_identity_rejected.

(* ---- ties to the Gallina regenerated from the Go source (proofs/GenTie_C05.v) ---- *)
From Coq Require Import ZArith NArith List Bool Lia String.
From Lib Require Import Bytes.
From Model Require Import C05_AdSignature.
From Proofs Require Import GenTie_Lib.
From Gen Require Import Gen_Consts Gen_Funcs_prelude Gen_Funcs_schema.
Import ListNotations.
Local Open Scope Z_scope.
From Proofs Require Import GenTie_C05.

Theorem gen_tie_signaturePayload_buf : forall (pubkey sigt : Type) (a : ad pubkey sigt) (ent : bytes),
  schema_signaturePayload_buf (a_addrs a) (a_rm a) (a_md a) (a_provider a) (link_bytes (a_prev a)) ent
  = FFall (ad_raw a ent).
Proof. exact GenTie_C05.tie_signaturePayload_buf. Qed.
Print Assumptions gen_tie_signaturePayload_buf.

Theorem gen_tie_extendedProviderSignaturePayload_buf :
  forall (pubkey sigt : Type) (a : ad pubkey sigt) (x : ext pubkey sigt) (p : provider pubkey sigt) (ent : bytes),
  schema_extendedProviderSignaturePayload_buf (a_ctx a) (x_override x) (a_provider a) (link_bytes (a_prev a)) ent
     (p_addrs p) (p_id p) (p_md p)
  = FFall (ep_raw a x p ent).
Proof. exact GenTie_C05.tie_extendedProviderSignaturePayload_buf. Qed.
Print Assumptions gen_tie_extendedProviderSignaturePayload_buf.

Theorem gen_tie_ep_rm_guard : forall (pubkey sigt : Type) H (a : ad pubkey sigt) x p,
  match schema_extendedProviderSignaturePayload_rm_guard (a_rm a) with
  | FReturn _ _ => ep_payload H a x p = Err ERmExt
  | FFall _ => a_rm a = false
  | _ => False
  end.
Proof. exact GenTie_C05.tie_ep_rm_guard. Qed.
Print Assumptions gen_tie_ep_rm_guard.

Theorem gen_tie_oldFormat : forall advID : bytes,
  schema_VerifySignature_oldFormat advID = FFall (negb (Nat.eqb (List.length advID) sig_size)).
Proof. exact GenTie_C05.tie_oldFormat. Qed.
Print Assumptions gen_tie_oldFormat.

Theorem gen_tie_Sign_guard : forall (privkey pubkey sigt : Type) pub sign H (a : ad pubkey sigt) (k : privkey),
  match schema_Sign_guard (match a_ext a with None => true | Some _ => false end) with
  | FReturn _ _ => sign_plain pub sign H a k = Err EHasExt
  | FFall _ => a_ext a = None
  | _ => False
  end.
Proof. exact GenTie_C05.tie_Sign_guard. Qed.
Print Assumptions gen_tie_Sign_guard.

Theorem gen_Validate_caps : forall ctx md : list N,
  schema_Advertisement_Validate ctx md =
  if (schema_MaxContextIDLen <? len ctx) then Some "context id too long"%string
  else if (schema_MaxMetadataLen <? len md) then Some "metadata too long"%string
  else None.
Proof. exact GenTie_C05.Validate_caps. Qed.
Print Assumptions gen_Validate_caps.

(* ================================================================== *)
(* The extended-provider list is checked entry by entry WHATEVER the other fields are.
   Quantified over every advertisement (all links, provider, addresses, context ID, metadata,
   REMOVAL FLAG, signature) and every list: acceptance implies that every entry passed its
   own check (valid envelope over that entry's payload, sealed by the identity it names), that
   a non-empty list names the main provider and that the advertisement is then not a removal
   -- so nothing can be attached to a signed removal advertisement, and replacing the list of
   an accepted advertisement is accepted only if the new list checks out entry by entry. *)
Theorem extended_providers_checked_for_every_value_of_the_other_fields :
  forall (pubkey sigt peerid : Type) (verify : pubkey -> bytes -> sigt -> bool) (peer_id : pubkey -> peerid)
         (peerid_eqb : peerid -> peerid -> bool) (Hf : bytes -> bytes) (decode_pid : bytes -> option peerid),
  (forall a b, peerid_eqb a b = true <-> a = b) ->
  forall (strict : bool) (a : ad pubkey sigt) (x : ext pubkey sigt) (s : peerid),
  verify_gen verify peer_id peerid_eqb (ideal_H Hf) decode_pid strict a = Ok s -> a_ext a = Some x ->
  Forall (ep_accepts pubkey sigt peerid verify peer_id Hf decode_pid strict a x s) (x_providers x) /\
  (x_providers x <> [] -> a_rm a = false /\ existsb (is_main a) (x_providers x) = true).
Proof. exact entries_always_checked. Qed.
Print Assumptions extended_providers_checked_for_every_value_of_the_other_fields.

Theorem removal_advertisement_with_entries_rejected :
  forall (pubkey sigt peerid : Type) (verify : pubkey -> bytes -> sigt -> bool) (peer_id : pubkey -> peerid)
         (peerid_eqb : peerid -> peerid -> bool) (Hf : bytes -> bytes) (decode_pid : bytes -> option peerid),
  (forall a b, peerid_eqb a b = true <-> a = b) ->
  forall (strict : bool) (a : ad pubkey sigt) (x : ext pubkey sigt),
  a_ext a = Some x -> x_providers x <> [] -> a_rm a = true ->
  is_ok (verify_gen verify peer_id peerid_eqb (ideal_H Hf) decode_pid strict a) = false.
Proof. exact removal_with_entries_rejected. Qed.
Print Assumptions removal_advertisement_with_entries_rejected.

Theorem replaced_extended_provider_list_checked :
  forall (pubkey sigt peerid : Type) (verify : pubkey -> bytes -> sigt -> bool) (peer_id : pubkey -> peerid)
         (peerid_eqb : peerid -> peerid -> bool) (Hf : bytes -> bytes) (decode_pid : bytes -> option peerid),
  (forall a b, peerid_eqb a b = true <-> a = b) ->
  forall (strict strict' : bool) (a : ad pubkey sigt) (s : peerid) (x' : ext pubkey sigt) (s' : peerid),
  verify_gen verify peer_id peerid_eqb (ideal_H Hf) decode_pid strict a = Ok s ->
  verify_gen verify peer_id peerid_eqb (ideal_H Hf) decode_pid strict' (set_ext a (Some x')) = Ok s' ->
  s' = s /\
  Forall (ep_accepts pubkey sigt peerid verify peer_id Hf decode_pid strict' (set_ext a (Some x')) x' s) (x_providers x') /\
  (x_providers x' <> [] -> a_rm a = false /\ existsb (is_main a) (x_providers x') = true).
Proof. exact replaced_list_checked. Qed.
Print Assumptions replaced_extended_provider_list_checked.

(* ================================================================== *)
(* An entry's addresses and metadata.  For ANY entry (the main provider's included) of an
   accepted advertisement: replacing its address list and metadata by any other values --
   empty, the advertisement's own, anything -- is rejected unless the signed bytes
   concat addresses ++ metadata are the same.  In particular a value cleared, or replaced
   by the advertisement's own value, is rejected (there is no "the main entry may omit it"
   equivalence in what is signed).  The delimiter-free boundary remains: bytes moved
   between neighbouring values of one entry leave the payload unchanged
   (Proofs.C05_AdSignature.Witness.entry_adjacent_shift), as for the advertisement. *)
Theorem entry_addresses_and_metadata_signed :
  forall (pubkey sigt peerid : Type) (verify : pubkey -> bytes -> sigt -> bool) (peer_id : pubkey -> peerid)
         (peerid_eqb : peerid -> peerid -> bool) (Hf : bytes -> bytes) (decode_pid : bytes -> option peerid),
  (forall a b, peerid_eqb a b = true <-> a = b) -> H_injective Hf ->
  forall (st st' : bool) (a : ad pubkey sigt) (s : peerid) (x : ext pubkey sigt)
         (l1 : list (provider pubkey sigt)) (p : provider pubkey sigt) (l2 : list (provider pubkey sigt))
         (addrs' : list bytes) (md' : bytes),
  verify_gen verify peer_id peerid_eqb (ideal_H Hf) decode_pid st a = Ok s -> a_ext a = Some x ->
  x_providers x = (l1 ++ p :: l2)%list ->
  (concat addrs' ++ md')%list <> (concat (p_addrs p) ++ p_md p)%list ->
  is_ok (verify_gen verify peer_id peerid_eqb (ideal_H Hf) decode_pid st'
           (upd_providers pubkey sigt a x (l1 ++ upd_pvalues pubkey sigt p addrs' md' :: l2)%list)) = false.
Proof. exact entry_values_change_rejected. Qed.
Print Assumptions entry_addresses_and_metadata_signed.

Theorem entry_value_cleared_or_copied_from_ad_rejected :
  forall (pubkey sigt peerid : Type) (verify : pubkey -> bytes -> sigt -> bool) (peer_id : pubkey -> peerid)
         (peerid_eqb : peerid -> peerid -> bool) (Hf : bytes -> bytes) (decode_pid : bytes -> option peerid),
  (forall a b, peerid_eqb a b = true <-> a = b) -> H_injective Hf ->
  forall (st st' : bool) (a : ad pubkey sigt) (s : peerid) (x : ext pubkey sigt)
         (l1 : list (provider pubkey sigt)) (p : provider pubkey sigt) (l2 : list (provider pubkey sigt)),
  verify_gen verify peer_id peerid_eqb (ideal_H Hf) decode_pid st a = Ok s -> a_ext a = Some x ->
  x_providers x = (l1 ++ p :: l2)%list ->
  (p_md p <> [] ->
     is_ok (verify_gen verify peer_id peerid_eqb (ideal_H Hf) decode_pid st'
              (upd_providers pubkey sigt a x (l1 ++ upd_pvalues pubkey sigt p (p_addrs p) [] :: l2)%list)) = false) /\
  (concat (p_addrs p) <> [] ->
     is_ok (verify_gen verify peer_id peerid_eqb (ideal_H Hf) decode_pid st'
              (upd_providers pubkey sigt a x (l1 ++ upd_pvalues pubkey sigt p [] (p_md p) :: l2)%list)) = false) /\
  (a_md a <> p_md p ->
     is_ok (verify_gen verify peer_id peerid_eqb (ideal_H Hf) decode_pid st'
              (upd_providers pubkey sigt a x (l1 ++ upd_pvalues pubkey sigt p (p_addrs p) (a_md a) :: l2)%list)) = false) /\
  (concat (a_addrs a) <> concat (p_addrs p) ->
     is_ok (verify_gen verify peer_id peerid_eqb (ideal_H Hf) decode_pid st'
              (upd_providers pubkey sigt a x (l1 ++ upd_pvalues pubkey sigt p (a_addrs a) (p_md p) :: l2)%list)) = false).
Proof. exact entry_values_cleared_or_copied_rejected. Qed.
Print Assumptions entry_value_cleared_or_copied_from_ad_rejected.

(* Repeated IDs.  An entry whose ID already occurs earlier in the list is checked like any
   other: acceptance implies BOTH copies passed their own check (valid envelope over their
   own payload, sealed by the identity named).  Instance of
   extended_providers_checked_for_every_value_of_the_other_fields, stated so that an
   "already seen" shortcut cannot be overlooked. *)
Theorem every_entry_checked_regardless_of_repeats :
  forall (pubkey sigt peerid : Type) (verify : pubkey -> bytes -> sigt -> bool) (peer_id : pubkey -> peerid)
         (peerid_eqb : peerid -> peerid -> bool) (Hf : bytes -> bytes) (decode_pid : bytes -> option peerid),
  (forall a b, peerid_eqb a b = true <-> a = b) ->
  forall (strict : bool) (a : ad pubkey sigt) (x : ext pubkey sigt) (s : peerid)
         (l1 : list (provider pubkey sigt)) (p : provider pubkey sigt) (l2 : list (provider pubkey sigt))
         (q : provider pubkey sigt) (l3 : list (provider pubkey sigt)),
  verify_gen verify peer_id peerid_eqb (ideal_H Hf) decode_pid strict a = Ok s -> a_ext a = Some x ->
  x_providers x = (l1 ++ p :: l2 ++ q :: l3)%list -> p_id q = p_id p ->
  ep_accepts pubkey sigt peerid verify peer_id Hf decode_pid strict a x s p /\
  ep_accepts pubkey sigt peerid verify peer_id Hf decode_pid strict a x s q.
Proof. exact repeated_id_entries_checked. Qed.
Print Assumptions every_entry_checked_regardless_of_repeats.
