(* C20 -- Publisher addresses convert between URL and multiaddr without changing
   target; the mautil address helpers behave as set operations.
   Statements only; proofs are in lib/Escape.v, proofs/C20_Maurl.v, proofs/C20_Mautil.v. *)
From Lib Require Import Bytes Escape.
From Model Require Import C20_Maurl C20_Mautil.
From Proofs Require Import C20_Maurl C20_Mautil.
From Coq Require Import Permutation.
Open Scope N_scope.

(* ---- net/url escaping (all byte strings, any length) ---- *)

Theorem escape_path_roundtrip :
  forall s, wf_bytes s = true -> path_unescape (path_escape s) = Ok s.
Proof. exact path_unescape_path_escape. Qed.
Print Assumptions escape_path_roundtrip.

Theorem escape_query_roundtrip :
  forall s, wf_bytes s = true -> query_unescape (query_escape s) = Ok s.
Proof. exact query_unescape_query_escape. Qed.
Print Assumptions escape_query_roundtrip.

(* QueryUnescape after PathEscape turns every '+' into a space and changes nothing else *)
Theorem escape_mixed_query_of_path :
  forall s, wf_bytes s = true ->
    query_unescape (path_escape s) = Ok (map (fun c => if c =? 43 then 32 else c) s) /\
    (query_unescape (path_escape s) = Ok s <-> memb 43 s = false).
Proof. exact query_unescape_path_escape_exact. Qed.
Print Assumptions escape_mixed_query_of_path.

(* PathUnescape after QueryEscape turns every space into a '+' and changes nothing else *)
Theorem escape_mixed_path_of_query :
  forall s, wf_bytes s = true ->
    path_unescape (query_escape s) = Ok (map (fun c => if c =? 32 then 43 else c) s) /\
    (path_unescape (query_escape s) = Ok s <-> memb 32 s = false).
Proof. exact path_unescape_query_escape_exact. Qed.
Print Assumptions escape_mixed_path_of_query.

(* ---- URL -> multiaddr -> URL ---- *)

(* Repaired code.  For every URL with scheme http/https/ws/wss, IPv4 / IPv6 / DNS host,
   port absent or 0..65535 and ANY path bytes: FromURL succeeds and ToURL of the result
   has the same scheme, the same Host string (host and port) and the same path. *)
Theorem url_roundtrip :
  forall u : url, wf_url u = true ->
    (m <- from_url u ;; to_url m) =
    Ok {| o_scheme := u_scheme u; o_host := host_string u; o_path := u_path u |}.
Proof. exact url_roundtrip_proved. Qed.
Print Assumptions url_roundtrip.

(* ... and the multiaddr itself carries exactly the path bytes (what any other reader of
   the http-path component sees) *)
Theorem from_url_multiaddr_carries_path :
  forall u m, wf_url u = true -> from_url u = Ok m ->
    first_httppath m = (if is_nil (u_path u) then None else Some (u_path u)).
Proof. exact from_url_stores_path. Qed.
Print Assumptions from_url_multiaddr_carries_path.

(* FromURL fails only for URLs that have no multiaddr form (empty DNS name, slash in
   the name, port > 65535) *)
Theorem from_url_rejects_only_unrepresentable :
  forall u, wf_bytes (u_path u) = true -> (is_ok (from_url u) = true <-> wf_url u = true).
Proof. exact from_url_total. Qed.
Print Assumptions from_url_rejects_only_unrepresentable.

(* Code before pending/C20-fix-http-path-escaping.diff: the statement above is false;
   witness http://example.com/a%20b (replayed on the real code by the harness). *)
Theorem url_roundtrip_v0_refuted :
  exists u : url, wf_url u = true /\
    (m <- from_url_v0 u ;; to_url_v0 m) <>
    Ok {| o_scheme := u_scheme u; o_host := host_string u; o_path := u_path u |}.
Proof. exact url_roundtrip_v0_refuted_proved. Qed.
Print Assumptions url_roundtrip_v0_refuted.

(* exactly which URLs the old code got wrong: those whose path contains a space (it
   comes back as '+'); and its multiaddr held a space for every '+' of the path *)
Theorem url_roundtrip_v0_fails_iff_space :
  forall u : url, wf_url u = true ->
    ((m <- from_url_v0 u ;; to_url_v0 m) =
       Ok {| o_scheme := u_scheme u; o_host := host_string u; o_path := u_path u |}
     <-> memb 32 (u_path u) = false) /\
    (forall m, from_url_v0 u = Ok m ->
       first_httppath m = (if is_nil (u_path u) then None
                           else Some (map (fun c => if c =? 43 then 32 else c) (u_path u)))).
Proof. exact url_roundtrip_v0_fails_iff_space_proved. Qed.
Print Assumptions url_roundtrip_v0_fails_iff_space.

(* ---- /tls/http and /https ---- *)

(* any multiaddr ToURL accepts (any component order, any extra components) *)
Theorem tls_http_is_https :
  forall m o, to_url m = Ok o ->
    (In CHttps m \/ (In CHttp m /\ In CTls m) -> o_scheme o = SHttps) /\
    (In CHttp m -> ~ In CHttps m -> ~ In CTls m -> o_scheme o = SHttp).
Proof. exact tls_http_is_https_proved. Qed.
Print Assumptions tls_http_is_https.

(* the two spellings of one publisher endpoint convert to one and the same https URL *)
Theorem tls_http_and_https_same_url :
  forall u : url, wf_bytes (u_path u) = true ->
    let target := {| o_scheme := SHttps; o_host := host_string u; o_path := u_path u |} in
    to_url (canon_with [CTls; CHttp] u (u_path u)) = Ok target /\
    to_url (canon_with [CHttps] u (u_path u)) = Ok target.
Proof. exact tls_http_same_as_https. Qed.
Print Assumptions tls_http_and_https_same_url.

(* ---- list helpers ---- *)

(* FindHTTPAddrs keeps exactly the non-nil addresses containing http or https, in order *)
Theorem find_http_is_filter :
  forall l,
    find_http l = filter has_http l /\
    (forall a, In a (find_http l) <->
       In a l /\ a_nil a = false /\ (In P_HTTP (a_protos a) \/ In P_HTTPS (a_protos a))).
Proof. exact find_http_is_filter_proved. Qed.
Print Assumptions find_http_is_filter.

(* FilterPublic: for address lists whose manet answers are consistent with their class
   (class_okb, checked on every harness case): an order-preserving selection that never
   returns a loopback, private, unspecified or localhost address and keeps every public
   IP address and ordinary DNS name *)
Theorem filter_public_spec :
  forall l, forallb class_okb l = true ->
    filter_public l = filter (fun a => class_kept (a_class a)) l /\
    (forall a, In a (filter_public l) -> In a l /\ must_drop (a_class a) = false) /\
    (forall a, In a l -> is_public_class (a_class a) = true -> In a (filter_public l)).
Proof. exact filter_public_spec_proved. Qed.
Print Assumptions filter_public_spec.

(* CleanPeerAddrInfo terminates within its fuel, and the result is a permutation of the
   non-nil entries (the swap-remove does not keep the order) and contains no nil *)
Theorem clean_drops_exactly_nils :
  forall l, exists r,
    clean l = Ok r /\
    Permutation r (filter (fun a => negb (a_nil a)) l) /\
    (forall a, In a r -> a_nil a = false).
Proof. exact clean_drops_exactly_nils_proved. Qed.
Print Assumptions clean_drops_exactly_nils.

(* MultiaddrsEqual (with its length, empty and single-element shortcuts) answers true
   exactly when the two lists are equal as multisets, and the in-place sort it performs
   on its arguments only permutes them *)
Theorem addrs_equal_iff_permutation :
  forall l1 l2,
    let '(b, l1', l2') := addrs_equal l1 l2 in
    (b = true <-> Permutation l1 l2) /\ Permutation l1' l1 /\ Permutation l2' l2.
Proof. exact addrs_equal_iff_permutation_proved. Qed.
Print Assumptions addrs_equal_iff_permutation.

(* ---- the request a sync client sends to a publisher advertised by URL ---- *)

(* ipnisync.NewSyncer / Syncer.fetch: ToURL(FromURL u), then url.URL.JoinPath (path.Clean).
   For EVERY advertised URL the server sees Host = the advertised host:port and the CLEANED
   concatenation of the advertised path, /ipni/v1/ad and the resource. *)
Theorem sync_client_request_is_cleaned :
  forall (u : url) (rsrc : bytes), wf_url u = true ->
    sync_request u rsrc = Ok (host_string u, clean_path (u_path u ++ ipni_path ++ cSLASH :: rsrc)).
Proof. exact sync_request_is_cleaned. Qed.
Print Assumptions sync_client_request_is_cleaned.

(* Premises: the advertised path consists of normal segments (empty path allowed; no
   repeated or trailing slash, no "." / ".." segment) and the resource is one normal segment
   ("head", a CID).  Then the client contacts exactly the advertised endpoint: same host and
   port, advertised path followed by /ipni/v1/ad/<resource>, whatever bytes the segments hold
   (spaces, '+', '%', non-ASCII, ...). *)
Theorem sync_client_requests_advertised_endpoint :
  forall (u : url) (rsrc : bytes) (segs : list bytes),
    wf_url u = true -> u_path u = join_slash segs -> forallb normal_seg segs = true -> normal_seg rsrc = true ->
    sync_request u rsrc = Ok (host_string u, u_path u ++ ipni_path ++ cSLASH :: rsrc).
Proof. exact sync_client_requests_advertised_endpoint_proved. Qed.
Print Assumptions sync_client_requests_advertised_endpoint.

(* the premise on the path is needed (finding sync:request-path:repeated-slashes-collapsed):
   for http://127.0.0.1:8080//a the client requests /a/ipni/v1/ad/head *)
Theorem sync_client_repeated_slashes_refuted :
  wf_url witness_slashes = true /\
  (exists h p, sync_request witness_slashes [104;101;97;100] = Ok (h, p) /\
               p = [47;97] ++ ipni_path ++ [47;104;101;97;100] /\
               p <> u_path witness_slashes ++ ipni_path ++ [47;104;101;97;100]).
Proof. exact sync_client_repeated_slashes_refuted_proved. Qed.
Print Assumptions sync_client_repeated_slashes_refuted.

(* ---- the string-level helpers (mautil.go L52-L84) ---- *)

(* MultiaddrStringToNetAddr: whenever it yields an address, maurl.ToURL of the same multiaddr
   names the same endpoint: the same host[:port] string, bracketed when it is a bare IPv6 *)
Theorem netaddr_agrees_with_to_url :
  forall (m : maddr) (h : bytes), netaddr_of m = Ok h ->
    exists o, to_url m = Ok o /\ (o_host o = h \/ o_host o = cLBR :: h ++ [cRBR]).
Proof. exact netaddr_agrees_with_to_url_proved. Qed.
Print Assumptions netaddr_agrees_with_to_url.

(* StringsToMultiaddrs: the strings of a list of multiaddrs give the list back without error;
   in general an error is reported iff some string does not parse, and the result holds
   exactly the addresses of the strings that do *)
Theorem strings_to_maddrs_spec :
  (forall ms : list N, strings_to_maddrs (map Some ms) = (ms, false)) /\
  (forall l, snd (strings_to_maddrs l) = true <-> In None l) /\
  (forall l i, In i (fst (strings_to_maddrs l)) <-> In (Some i) l).
Proof. exact strings_to_maddrs_spec_proved. Qed.
Print Assumptions strings_to_maddrs_spec.

(* ParsePeers fails exactly when some string is not a multiaddr or has no /p2p component *)
Theorem parse_peers_err_iff :
  forall l, (exists c, parse_peers l = Err c) <-> existsb bad_peer_item l = true.
Proof. exact parse_peers_err_iff_proved. Qed.
Print Assumptions parse_peers_err_iff.

(* ---- ties to the Gallina regenerated from the Go source (proofs/GenTie_C20.v) ---- *)
From Coq Require Import ZArith NArith List Bool Lia String.
From Lib Require Import Bytes Escape.
From Model Require Import C20_Maurl C20_Mautil.
From Proofs Require Import GenTie_Lib.
From Gen Require Import Gen_Consts Gen_Funcs_prelude Gen_Funcs_maurl Gen_Funcs_mautil.
Import ListNotations.
Local Open Scope Z_scope.
From Proofs Require Import GenTie_C20.

Theorem gen_tie_ToURL_scheme : forall m : maddr,
  maurl_ToURL_scheme (existsb is_http m) (existsb is_https m) (existsb is_tls m) (existsb is_ws m) (existsb is_wss m)
  = FFall (scheme_bytes (scheme_of m)).
Proof. exact GenTie_C20.tie_ToURL_scheme. Qed.
Print Assumptions gen_tie_ToURL_scheme.

Theorem gen_tie_ToURL_path : forall (unesc_new : bytes -> res bytes) (m : maddr),
  maurl_ToURL_path (fun b => to_go (path_unescape b)) (fun b => to_go (unesc_new b))
     (match first_httppath m with Some b => httppath_bts b | None => [] end)
     (match first_httpath m with Some b => b | None => [] end)
     None                                       (* err is nil at this point of ToURL *)
     (has (first_httppath m)) (has (first_httpath m))
  = FFall (path_of_with unesc_new m).
Proof. exact GenTie_C20.tie_ToURL_path. Qed.
Print Assumptions gen_tie_ToURL_path.

Theorem gen_ToURL_host_brackets_table :
  forall (IP : Type) (parse : list N -> IP) (isnil : IP -> bool) (to4 : IP -> IP) (equal : IP -> IP -> bool)
         (sprintf : list N -> list N -> list N) (host : list N),
  maurl_ToURL_host_brackets IP sprintf parse isnil equal to4 host
  = FFall (if negb (isnil (parse host)) && negb (equal (to4 (parse host)) (parse host))
           then sprintf (bytes_of_string "[%s]") host else host).
Proof. exact GenTie_C20.ToURL_host_brackets_table. Qed.
Print Assumptions gen_ToURL_host_brackets_table.

Theorem gen_pathVal_table : forall (index : list N -> Z -> Z) (b : list N),
  maurl_pathVal index b = if 0 <=? index b 47 then Some "encoded path '%s' contains a slash"%string else None.
Proof. exact GenTie_C20.pathVal_table. Qed.
Print Assumptions gen_pathVal_table.

Theorem gen_tie_FilterPublic_keep : forall a : addr,
  mautil_FilterPublic_keep (option (N * bool)) addr N (fun a => (comp_of a, a)) Z.of_N
     (fun c => match c with None => true | Some _ => false end) a_nil
     comp_code comp_value a (a_unspec a) (a_public a)
  = keep_public a.
Proof. exact GenTie_C20.tie_FilterPublic_keep. Qed.
Print Assumptions gen_tie_FilterPublic_keep.

Theorem gen_tie_FindHTTPAddrs_keep : forall a : addr,
  mautil_FindHTTPAddrs_keep addr N Z.of_N a_nil a_protos a = has_http a.
Proof. exact GenTie_C20.tie_FindHTTPAddrs_keep. Qed.
Print Assumptions gen_tie_FindHTTPAddrs_keep.

Theorem gen_FilterPublic_nil_result_table : forall (T : Type) (l : list T),
  mautil_FilterPublic_nil_result T l = if is_nil l then FReturn "return nil"%string [] else FFall [].
Proof. exact GenTie_C20.FilterPublic_nil_result_table. Qed.
Print Assumptions gen_FilterPublic_nil_result_table.

Theorem gen_MultiaddrsEqual_head_table : forall (T : Type) (a b : list T),
  mautil_MultiaddrsEqual_head T a b =
  if negb (len a =? len b) then FReturn "return false"%string []
  else if len a =? 0 then FReturn "return true"%string []
  else if len a =? 1 then FReturn "return ma1[0].Equal(ma2[0])"%string []
  else FFall [].
Proof. exact GenTie_C20.MultiaddrsEqual_head_table. Qed.
Print Assumptions gen_MultiaddrsEqual_head_table.

(* ---- phase 2: further ties to the Gallina regenerated from the Go source (proofs/GenTie_C20.v) ---- *)
From Coq Require Import ZArith NArith List Bool Lia String.
From Lib Require Import Bytes Escape.
From Model Require Import C20_Maurl C20_Mautil.
From Proofs Require Import GenTie_Lib.
From Gen Require Import Gen_Consts Gen_Funcs_prelude Gen_Funcs_maurl Gen_Funcs_mautil.
Import ListNotations.
Local Open Scope Z_scope.
From Proofs Require Import GenTie_C20.

Theorem gen_tie_CleanPeerAddrInfo : forall (nilv dflt : addr) (oof : frag (list addr)) (fuel : nat) (l : list addr),
  (List.length l < fuel)%nat ->
  mautil_CleanPeerAddrInfo_loop addr a_nil nilv dflt fuel oof l
  = match clean_f fuel l with Ok t => FFall t | _ => oof end.
Proof. exact GenTie_C20.tie_CleanPeerAddrInfo. Qed.
Print Assumptions gen_tie_CleanPeerAddrInfo.

Theorem gen_FromURL_tail_table : forall (C M U : Type) (join : M -> C -> M) (newc : list N -> list N -> C * option string) (qesc : list N -> list N) (pathOf schemeOf : U -> list N) (u : U) (nHTTPPATH nTCP : list N), (forall n v : list N, snd (newc n v) = None) -> forall (port : list N) (host : M), match maurl_FromURL_tail C M U join newc qesc pathOf schemeOf u nHTTPPATH nTCP port host with | FReturn ret (_, tr) => ret = "return joint, nil" /\ existsb (String.eqb "wport := multiaddr.Join(*addr, port)") tr = negb (is_nil port) /\ existsb (String.eqb "joint = multiaddr.Join(joint, httppath)") tr = negb (is_nil (pathOf u)) | _ => False end.
Proof. exact GenTie_C20.FromURL_tail_table. Qed.
Print Assumptions gen_FromURL_tail_table.

Theorem gen_model_from_url_parts : forall esc (u : url),
  port_comps u = match u_port u with None => Ok [] | Some p => q <- port_stb p ;; Ok [CTcp q] end /\
  (C20_Maurl.is_nil (u_path u) = true -> forall h p, host_comp u = Ok h -> port_comps u = Ok p ->
     from_url_with esc u = Ok (h :: p ++ [scheme_comp (u_scheme u)])%list).
Proof. exact GenTie_C20.model_from_url_parts. Qed.
Print Assumptions gen_model_from_url_parts.
