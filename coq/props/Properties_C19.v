(* C19 -- Find responses written by the server helper (rwriter) are read back identically
   by the find client.  Statements only; definitions in model/C19_FindWire.v, proofs in
   proofs/C19_FindWire.v.

   Reading aid.  [request] = what arrives at rwriter.New: preferJson option, the two
   resource-type options, the Accept header values split at ',' with every element
   classified by mime.ParseMediaType ([mt]), r.URL.Path as bytes, and the verdicts of
   base58.Decode / hex.DecodeString / cid.Decode on the key text ([keyv]).  [handler q rs]
   = the indexer's handler: New, write every result of rs, Close, errors answered with
   http.Error.  JSON text is abstracted to trees ([jv]) with omitempty applied -- the text
   layer (base64, escaping, UTF-8) is exercised by the harness, not modelled: partial.
   [canon r] = r with empty context ID / metadata turned into nil (what Go's JSON round
   trip does); [presult_eqv] = the property's "same result" (bytes.Equal, nil = empty).
   The unsuffixed functions model the code WITH pending/C19-fix-*.diff; [*_v0] the code
   before. *)
From Lib Require Import Bytes.
From Model Require Import C19_FindWire.
From Proofs Require Import C19_FindWire.
Open Scope N_scope.

(* ---- 1. the client reads what the writer wrote ---- *)

(* For EVERY accepted request and EVERY non-empty list of results the decoder can read
   (no zero peer ID, no nil multiaddr): the answer is 200; in JSON mode client.Find's
   decoding of the body is exactly one MultihashResult, for the multihash the writer
   parsed, with the same results in the same order; in streaming mode the line reader
   obtains the same results in the same order.  "Same" = canon, which is presult_eqv. *)
Theorem client_reads_what_writer_wrote :
  forall q w rs,
    new_writer q = Ok w -> rs <> [] -> forallb wf_result rs = true ->
    exists resp,
      handler q rs = Responded resp /\ s_status resp = 200 /\
      match w_mode w with
      | JS => s_ctype resp = CtJson /\ client_read resp = Ok [(w_mh w, map canon rs)]
      | ND => s_ctype resp = CtNd /\ nd_read resp = Ok (map canon rs)
      end /\
      list_eqb presult_eqv rs (map canon rs) = true.
Proof. exact client_reads_what_writer_wrote_proved. Qed.
Print Assumptions client_reads_what_writer_wrote.

(* "... for that multihash": which multihash an accepted request is answered for.  Under
   the multihash resource type a base58 key text that is a multihash is read as that
   multihash WHATEVER the hex decoder says; a hex key is read as its multihash unless its
   text is also base58 for some multihash (see ex_key_ambiguous in proofs/: the open
   finding); under the cid resource type the key is the decoded CID's multihash. *)
Theorem writer_answers_for_requested_key :
  forall q w, new_writer q = Ok w ->
    (w_ptype w = PMh ->
       (forall m, k_b58 (q_key q) = Some m -> mh_valid m = true -> w_mh w = m) /\
       (forall m, k_hex (q_key q) = Some m ->
          match k_b58 (q_key q) with None => true | Some b => negb (mh_valid b) end = true ->
          w_mh w = m)) /\
    (w_ptype w = PCid -> k_cid (q_key q) = Some (w_mh w)) /\
    mh_decode (w_mh w) = Ok (w_code w).
Proof. exact writer_answers_for_requested_key_proved. Qed.
Print Assumptions writer_answers_for_requested_key.

(* End to end for the real client's own request (GET /multihash/<base58 m>, Accept:
   application/json -- the repaired client), against a server with EITHER preferJson
   setting, for every multihash m, every key text kt that is one plain path element
   decoding to m, whatever the other decoders say about kt, and every readable result
   list: Find returns the empty response when nothing was written, else exactly
   [(m, results)]. *)
Theorem find_client_end_to_end :
  forall prefer kt m hexv cidv rs,
    plain_key kt = true -> mh_valid m = true -> forallb wf_result rs = true ->
    outcome_read (handler (client_request prefer kt m hexv cidv) rs) =
    Ok (if is_nil rs then [] else [(m, map canon rs)]).
Proof. exact find_client_end_to_end_proved. Qed.
Print Assumptions find_client_end_to_end.

(* The client before pending/C19-fix-find-accept-header.diff sent no Accept header: against
   a server that does not prefer JSON (rwriter's default) EVERY Find fails, whatever was
   written (old and repaired server alike) ... *)
Theorem find_client_v0_refuted :
  forall kt m hexv cidv rs,
    outcome_read (handler_v0 (client_request_v0 false kt m hexv cidv) rs) = Err EStatus /\
    outcome_read (handler (client_request_v0 false kt m hexv cidv) rs) = Err EStatus.
Proof. exact find_client_v0_fails_proved. Qed.
Print Assumptions find_client_v0_refuted.

(* ... and it worked only with WithPreferJson(true). *)
Theorem find_client_v0_needs_prefer_json :
  forall kt m hexv cidv rs,
    plain_key kt = true -> mh_valid m = true -> forallb wf_result rs = true ->
    outcome_read (handler_v0 (client_request_v0 true kt m hexv cidv) rs) =
    Ok (if is_nil rs then [] else [(m, map canon rs)]).
Proof. exact find_client_v0_prefer_json_proved. Qed.
Print Assumptions find_client_v0_needs_prefer_json.

(* History independence: in ANY sequence of Find / FindBatch calls of one process -- some of
   whose requests were answered with a body cut in mid-transfer, a 5xx or not-found -- a
   healthy Find of the repaired client still returns exactly what the server wrote for that
   multihash.  (The client model keeps no state between calls; the hist cases check that the
   real client behaves so, in particular that nothing read during a failed call leaks into a
   later one.) *)
Theorem healthy_find_in_any_history :
  forall (before after : list (list served)) prefer kt m hexv cidv rs,
    plain_key kt = true -> mh_valid m = true -> forallb wf_result rs = true ->
    nth_error (hist_results (before ++ [(client_request prefer kt m hexv cidv, rs, HNoFault)] :: after))
              (List.length before) =
    Some (Ok (if is_nil rs then [] else [(m, map canon rs)])).
Proof. exact healthy_find_in_any_history_proved. Qed.
Print Assumptions healthy_find_in_any_history.

(* FindBatch over any list of multihashes: the entries that have results, in request
   order, each with its multihash and its results in order; not-found ones are skipped. *)
Theorem find_batch_reads_what_was_written :
  forall prefer items, forallb item_ok items = true ->
    batch_model (map (item_request prefer) items) = Ok (flat_map item_expected items).
Proof. exact find_batch_proved. Qed.
Print Assumptions find_batch_reads_what_was_written.

(* ---- 2. streaming: one complete result per line ---- *)

(* For every list of writes in streaming mode: the wire holds exactly one line per result,
   in order; line i is the encoding of result i and decodes ON ITS OWN to that result
   (each line needs only its own result to be readable); and lines once written never
   change: after rs1 ++ rs2 the wire is the wire after rs1 followed by rs2's lines. *)
Theorem ndjson_one_result_per_line :
  forall w rs, w_mode w = ND ->
    let s := fold_left pw_write rs (PW w 0 [] []) in
    pw_wire s = map enc_result rs /\
    length (pw_wire s) = length rs /\
    (forall i r, nth_error rs i = Some r ->
       nth_error (pw_wire s) i = Some (enc_result r) /\
       (wf_result r = true -> dec_result (enc_result r) = Ok (canon r))) /\
    (forall rs1 rs2, rs = rs1 ++ rs2 ->
       pw_wire s = pw_wire (fold_left pw_write rs1 (PW w 0 [] [])) ++ map enc_result rs2).
Proof. exact ndjson_one_result_per_line_proved. Qed.
Print Assumptions ndjson_one_result_per_line.

(* ---- 3. empty result set ---- *)

(* For every accepted request (either mode): nothing written => 404 on the wire, which
   client.Find turns into the empty response without error; and 404 is answered ONLY when
   nothing was written. *)
Theorem empty_is_404_and_empty_resp :
  forall q w, new_writer q = Ok w ->
    handler q [] = Responded (RESP 404 CtText (BErr ENotFound)) /\
    outcome_read (handler q []) = Ok [] /\
    (forall rs resp, handler q rs = Responded resp -> s_status resp = 404 -> rs = []).
Proof. exact empty_is_404_and_empty_resp_proved. Qed.
Print Assumptions empty_is_404_and_empty_resp.

(* ---- 4. bad requests ---- *)

(* For EVERY request (any Accept lists, any path bytes, any decoder verdicts) and any
   results: the handler answers (never panics) with 200, 404 or 400; it answers 400
   EXACTLY when the request is not good, where good_request is written from the property
   text: no malformed Accept element anywhere, a supported media type present (or no Accept
   header and JSON preferred), the element before the last names a resource type, and
   some reading of the key under that type is a multihash.  A 400 is a text/plain API
   error, and never the dead "missing resource type". *)
Theorem bad_negotiation_is_4xx_never_panic :
  forall q rs, exists resp,
    handler q rs = Responded resp /\
    (s_status resp = 200 \/ s_status resp = 404 \/ s_status resp = 400) /\
    (s_status resp = 400 <-> good_request q = false) /\
    (s_status resp = 400 -> s_ctype resp = CtText /\ exists c, s_body resp = BErr c /\ c <> EMissingType).
Proof. exact bad_negotiation_is_4xx_never_panic_proved. Qed.
Print Assumptions bad_negotiation_is_4xx_never_panic.

(* the complete negotiation table of the repaired rwriter.New, for every Accept header *)
Theorem negotiation_table :
  forall prefer a,
    (has_malformed a = true -> negotiate prefer a = Err EInvalidAccept) /\
    (has_malformed a = false -> a = [] ->
       negotiate prefer a = if prefer then Ok JS else Err EAcceptMissing) /\
    (has_malformed a = false -> a <> [] -> has_supported a = false ->
       negotiate prefer a = Err EUnsupportedMedia) /\
    (has_malformed a = false -> a <> [] -> has_supported a = true ->
       exists m, negotiate prefer a = Ok m).
Proof. exact negotiate_table. Qed.
Print Assumptions negotiation_table.

(* ... and whatever it answers is a media type the header admits *)
Theorem negotiated_mode_is_acceptable :
  forall prefer a m, negotiate prefer a = Ok m ->
    match m with
    | ND => existsb (existsb admits_nd) a = true
    | JS => a = [] \/ existsb (existsb admits_json) a = true
    end.
Proof. exact negotiate_mode_acceptable. Qed.
Print Assumptions negotiated_mode_is_acceptable.

(* The negotiation before pending/C19-fix-accept-elements.diff let a malformed element
   pass once both media types had been seen ("*/*,;bad" => 200); the fix changes nothing
   for headers without malformed elements. *)
Theorem negotiation_v0_refuted :
  negotiate_v0 false [[MTAny; MTErr]] = Ok ND /\ has_malformed [[MTAny; MTErr]] = true.
Proof. exact negotiate_v0_accepts_malformed. Qed.
Print Assumptions negotiation_v0_refuted.

Theorem negotiation_fix_is_conservative :
  forall prefer a, has_malformed a = false -> negotiate prefer a = negotiate_v0 prefer a.
Proof. exact negotiate_fix_conservative. Qed.
Print Assumptions negotiation_fix_is_conservative.

(* The key parsing before pending/C19-fix-hex-key.diff rejected a valid hex key whose text
   is also base58 (no digit 0); the fix accepts it and reads every key the old code
   accepted as before. *)
Theorem key_parsing_v0_refuted :
  let k := KV (Some [0; 0; 1; 2]) (Some ex_mh) None in
  mh_valid ex_mh = true /\
  is_ok (parse_key_v0 mh_type cid_type (client_path ex_kt) k) = false /\
  parse_key mh_type cid_type (client_path ex_kt) k = Ok (PMh, ex_mh, 18).
Proof. exact ex_key_v0_rejects_hex. Qed.
Print Assumptions key_parsing_v0_refuted.

Theorem key_fix_is_conservative :
  forall a b p k x, parse_key_v0 a b p k = Ok x -> parse_key a b p k = Ok x.
Proof. exact key_fix_conservative. Qed.
Print Assumptions key_fix_is_conservative.

(* rwriter.New's "missing resource type" answer cannot occur: path.Base is never empty *)
Theorem missing_resource_type_is_dead :
  forall a b p, classify_type a b p <> Err EMissingType.
Proof. exact classify_never_missing. Qed.
Print Assumptions missing_resource_type_is_dead.

(* ---- 5. API errors ---- *)

(* For every error EncodeError accepts (nil, plain, API error with any status, any
   message): DecodeError of the encoding is nil iff the error was nil, and otherwise has
   the same message and the same status (an API error with status 0 comes back as a plain
   error: status 0 = "no status"). *)
Theorem apierror_roundtrip :
  forall e : option aerr,
    exists e', decode_error (encode_error e) = Ok e' /\
      match e, e' with
      | None, None => True
      | Some x, Some y => ae_msg y = ae_msg x /\ status_of y = status_of x /\
                          (ae_status y = None <-> status_of x = 0%Z)
      | _, _ => False
      end.
Proof. exact apierror_roundtrip_proved. Qed.
Print Assumptions apierror_roundtrip.

(* the form rwriter's own errors travel in: http.Error then apierror.FromResponse keeps the
   status and any message that is non-empty and has no white space at its ends *)
Theorem http_error_roundtrip :
  forall msg status, plain_msg msg = true -> status <> 0%Z ->
    from_response status (http_error_body msg) = Some (Some msg, status).
Proof. exact http_error_roundtrip_proved. Qed.
Print Assumptions http_error_roundtrip.

(* ---- the other ways the same wire format is written and the helper is used ---- *)

(* model.MarshalFindResponse of ANY FindResponse (any number of multihash results, nil or
   non-nil result lists) read back by UnmarshalFindResponse: the same multihashes, in order,
   each with the same results in order (nil = empty) *)
Theorem marshal_find_response_roundtrip :
  forall l, forallb wf_mhresult l = true ->
    dec_findresp (enc_findresp l) = Ok (map canon_mhresult l).
Proof. exact marshal_find_response_roundtrip_proved. Qed.
Print Assumptions marshal_find_response_roundtrip.

(* ResponseWriter used as an http.ResponseWriter: StatusCode() is the status on the wire
   whenever the handler writes at most one status, or only one value besides 200 *)
Theorem status_code_is_wire_status :
  rw_status_after [] = wire_status_after [] /\
  (forall c, rw_status_after [c] = wire_status_after [c]) /\
  (forall c calls, forallb (fun x => (x =? 200) || (x =? c)) calls = true ->
     rw_status_after calls = wire_status_after calls).
Proof. exact status_code_is_wire_status_proved. Qed.
Print Assumptions status_code_is_wire_status.

(* MatchQueryParam: present iff the key occurs; matched iff one of its values is the value *)
Theorem match_query_table :
  forall labels value,
    match_query labels value =
    match labels with
    | None => (false, false)
    | Some ls => (true, if existsb (bytes_eqb value) ls then true else false)
    end /\
    (forall ls, labels = Some ls -> (snd (match_query labels value) = true <-> In value ls)).
Proof. exact match_query_table_proved. Qed.
Print Assumptions match_query_table.

(* ---- ties to the Gallina regenerated from the Go source (proofs/GenTie_C19.v) ---- *)
From Coq Require Import ZArith NArith List Bool Lia String.
From Lib Require Import Bytes.
From Model Require Import C19_FindWire.
From Proofs Require Import GenTie_Lib.
From Gen Require Import Gen_Consts Gen_Funcs_prelude Gen_Funcs_rwriter Gen_Funcs_apierror.
Import ListNotations.
Local Open Scope Z_scope.
From Proofs Require Import GenTie_C19.

Theorem gen_tie_media_switch : forall (prefer nd ok sat : bool) (e : mt),
  rwriter_New_media_switch (mt_bytes e) nd ok prefer sat
  = FFall (let '(nd', ok') := upd prefer nd ok e in (nd', ok', nd' && ok')).
Proof. exact GenTie_C19.tie_media_switch. Qed.
Print Assumptions gen_tie_media_switch.

Theorem gen_media_switch_other : forall (prefer nd ok sat : bool) (b : list N),
  b <> mt_bytes MTNd -> b <> mt_bytes MTJson -> b <> mt_bytes MTAny ->
  rwriter_New_media_switch b nd ok prefer sat = FFall (nd, ok, nd && ok).
Proof. exact GenTie_C19.media_switch_other. Qed.
Print Assumptions gen_media_switch_other.

Theorem gen_negotiate_uses_tail : forall scan prefer accepts,
  negotiate_with scan prefer accepts =
  match scan_values scan false false accepts with
  | None => Err EInvalidAccept
  | Some (nd, ok) => negotiate_tail prefer (List.length accepts) nd ok
  end.
Proof. exact GenTie_C19.negotiate_uses_tail. Qed.
Print Assumptions gen_negotiate_uses_tail.

Theorem gen_tie_accept_verdict : forall (prefer nd ok : bool) (accepts : list (list N)),
  verdict_class (rwriter_New_accept_verdict accepts nd ok prefer)
  = match negotiate_tail prefer (List.length accepts) nd ok with Err c => Some c | _ => None end.
Proof. exact GenTie_C19.tie_accept_verdict. Qed.
Print Assumptions gen_tie_accept_verdict.

Theorem gen_content_type_table : forall nd : bool,
  rwriter_New_content_type nd = FFall
    (if nd then ["w.Header().Set(""Content-Type"", mediaTypeNDJson)"; "w.Header().Set(""Connection"", ""Keep-Alive"")";
                 "w.Header().Set(""X-Content-Type-Options"", ""nosniff"")"]
     else ["w.Header().Set(""Content-Type"", mediaTypeJson)"])%string.
Proof. exact GenTie_C19.content_type_table. Qed.
Print Assumptions gen_content_type_table.

Theorem gen_WriteHeader_table : forall code st : Z,
  match rwriter_WriteHeader code st with
  | FFall (st', tr) => st' = (if code =? 200 then st else code) /\ (tr = [] <-> code = 200)
  | _ => False
  end.
Proof. exact GenTie_C19.WriteHeader_table. Qed.
Print Assumptions gen_WriteHeader_table.

Theorem gen_tie_Close : forall s : pwstate,
  close_class (rwriter_ProviderResponseWriter_Close (Z.of_nat (pw_count s))
                 (match w_mode (pw_w s) with ND => true | JS => false end))
  = Some (match pw_close s with
          | Err c => c
          | Ok (BLines _) => 0%N
          | Ok (BDoc _) => 1%N
          | _ => 99%N
          end).
Proof. exact GenTie_C19.tie_Close. Qed.
Print Assumptions gen_tie_Close.

Theorem gen_tie_WriteProviderResult : forall (s : pwstate) (r : presult),
  match rwriter_ProviderResponseWriter_WriteProviderResult None (Z.of_nat (pw_count s))
          (match w_mode (pw_w s) with ND => true | JS => false end) with
  | FReturn ret (cnt, tr) =>
      ret = "return nil"%string /\ cnt = Z.of_nat (pw_count (pw_write s r)) /\
      (* NDJSON: encoded and flushed at once; JSON: kept for Close *)
      (In "pw.Flush()"%string tr <-> w_mode (pw_w s) = ND) /\
      (In "pw.result.ProviderResults = append(pw.result.ProviderResults, pr)"%string tr <-> w_mode (pw_w s) = JS)
  | _ => False
  end.
Proof. exact GenTie_C19.tie_WriteProviderResult. Qed.
Print Assumptions gen_tie_WriteProviderResult.

Theorem gen_MatchQueryParam_table : forall (value : list N) (present : bool) (labels : list (list N)),
  rwriter_MatchQueryParam value labels present =
  if present then (true, existsb (fun l => Gen_Funcs_prelude.bytes_eqb l value) labels) else (false, false).
Proof. exact GenTie_C19.MatchQueryParam_table. Qed.
Print Assumptions gen_MatchQueryParam_table.

Theorem gen_tie_FromResponse : forall (new : option string -> Z -> option string) (status : Z) (body : bytes),
  let t := trim_space body in
  let msg := if is_nil t then None else Some (string_of_bytes t) in
  apierror_FromResponse new trim_space status body = (if status =? 0 then msg else new msg status)
  /\ from_response status body =
     (if status =? 0 then (if is_nil t then None else Some (Some t, 0))
      else Some (if is_nil t then None else Some t, status)).
Proof. exact GenTie_C19.tie_FromResponse. Qed.
Print Assumptions gen_tie_FromResponse.

Theorem gen_tie_DecodeError_tail : forall (e0 : option string) (msg : list N) (st : Z),
  match apierror_DecodeError_tail msg st e0 with
  | FReturn s _ => s = (if (st =? 0)%Z then "return err" else "return New(err, e.Status)")%string
  | _ => False
  end.
Proof. exact GenTie_C19.tie_DecodeError_tail. Qed.
Print Assumptions gen_tie_DecodeError_tail.

Theorem gen_Error_Error_table : forall (err : option string) (st : Z) (text : list N),
  match apierror_Error_Error text err st with
  | FReturn s _ =>
      s = (match err with
           | Some _ => "return e.err.Error()"
           | None => if (st =? 0)%Z then "return """""
                     else if is_nil text then "return fmt.Sprintf(""%d"", e.status)"
                     else "return fmt.Sprintf(""%d %s"", e.status, text)"
           end)%string
  | _ => False
  end.
Proof. exact GenTie_C19.Error_Error_table. Qed.
Print Assumptions gen_Error_Error_table.

(* ---- phase 2: further ties to the Gallina regenerated from the Go source (proofs/GenTie_C19.v) ---- *)
From Coq Require Import ZArith NArith List Bool Lia String.
From Lib Require Import Bytes.
From Model Require Import C19_FindWire.
From Proofs Require Import GenTie_Lib.
From Gen Require Import Gen_Consts Gen_Funcs_prelude Gen_Funcs_rwriter Gen_Funcs_apierror.
Import ListNotations.
Local Open Scope Z_scope.
From Proofs Require Import GenTie_C19.

Theorem gen_tie_accept_scan : forall (M : Type) (m0 : M) (split : list N -> list N -> list (list N)) (parse : list N -> list N * M * option string) (elems : list N -> list mt) (enc : mt -> list N), (forall v : list N, split v (bytes_of_string ",") = map enc (elems v)) -> (forall e : mt, parse (enc e) = match e with | MTErr => ([], m0, Some "mime: invalid media parameter") | _ => (mt_bytes e, m0, None) end) -> forall (prefer : bool) (accepts : list (list N)), match scan_values (fun a b : bool => scan_elems prefer a b false) false false (map elems accepts) with | Some (nd, ok) => rwriter_New_accept_scan M parse split accepts false false prefer = FFall (nd, ok) | None => exists p : bool * bool, rwriter_New_accept_scan M parse split accepts false false prefer = FReturn bad_accept p end.
Proof. exact GenTie_C19.tie_accept_scan. Qed.
Print Assumptions gen_tie_accept_scan.

Theorem gen_Error_Text_table : forall (msg : list N) (sprintf : list N -> Z -> list N) (stext : Z -> list N)
    (join : list (list N) -> list N -> list N) (err : option string) (st : Z),
  apierror_Error_Text msg sprintf stext join err st =
  join ((if st =? 0 then []
         else sprintf (bytes_of_string "%d") st :: (if is_nil (stext st) then [] else [bytes_of_string " "; stext st]))
        ++ (match err with
            | None => []
            | Some _ => (if st =? 0 then [] else [bytes_of_string ": "]) ++ [msg]
            end))%list [].
Proof. exact GenTie_C19.Error_Text_table. Qed.
Print Assumptions gen_Error_Text_table.

(* ---- phase 3: ties to the Gallina regenerated from the Go source (proofs/GenTie_P3_C19.v) ---- *)
From Coq Require Import ZArith NArith List Bool Lia String.
From Lib Require Import Bytes.
From Model Require Import C19_FindWire.
From Proofs Require Import GenTie_Lib GenTie_C19.
From Gen Require Import Gen_Consts Gen_Funcs_prelude Gen_Funcs_rwriter Gen_Funcs_apierror.
Import ListNotations.
Local Open Scope Z_scope.
From Proofs Require Import GenTie_P3_C19.

Theorem gen_tie_New_path : forall (d58 dhex dcid : list N -> option (list N)) (mhtype cidtype p b0 mh0 cid0 : list N), let k := {| k_b58 := d58 (key_text p); k_hex := dhex (key_text p); k_cid := dcid (key_text p) |} in let run := rwriter_New_path (list N) N (dec_pair d58) (dec_pair dcid) (fun (_ : Z) (mh : list N) => mh) (dec_pair dhex) mhdec path_base path_dir trim_space (fun c : list N => c) p b0 cid0 mh0 cidtype mhtype in match parse_key mhtype cidtype p k with | Ok (_, b, _) => exists tr : list string, run = FFall (b, b, b, tr) | Err c => exists o : list N * list N * list N * list string, run = FReturn (path_err_stmt c) o | Panic _ => False end.
Proof. exact GenTie_P3_C19.tie_New_path. Qed.
Print Assumptions gen_tie_New_path.

Theorem gen_parse_key_no_panic : forall (mhtype cidtype p : bytes) (k : keyv) (c : N), parse_key mhtype cidtype p k <> Panic c.
Proof. exact GenTie_P3_C19.parse_key_no_panic. Qed.
Print Assumptions gen_parse_key_no_panic.

Theorem gen_tie_DecodeError_head : forall (data : list N) (uerr : option string), apierror_DecodeError_head data uerr = (if is_nil data then FReturn "return nil" [] else match uerr with | Some _ => FReturn "return fmt.Errorf(""cannot decode error message: %s"", err)" ["err := json.Unmarshal(data, &e)"] | None => FFall ["err := json.Unmarshal(data, &e)"] end).
Proof. exact GenTie_P3_C19.tie_DecodeError_head. Qed.
Print Assumptions gen_tie_DecodeError_head.

Theorem gen_tie_DecodeError_whole : forall (data : list N) (d : option jv) (uerr e0 : option string), d = None <-> data = [] -> isSome uerr = negb (is_ok (decode_error d)) -> match decode_error d with | Ok (Some ae) => (exists tr : list string, apierror_DecodeError_head data uerr = FFall tr) /\ match apierror_DecodeError_tail (ae_msg ae) (status_of ae) e0 with | FReturn s _ => s = match ae_status ae with | Some _ => "return New(err, e.Status)" | None => "return err" end | _ => False end | Ok None => exists tr : list string, apierror_DecodeError_head data uerr = FReturn "return nil" tr | Err _ => exists tr : list string, apierror_DecodeError_head data uerr = FReturn "return fmt.Errorf(""cannot decode error message: %s"", err)" tr | Panic _ => True end.
Proof. exact GenTie_P3_C19.tie_DecodeError_whole. Qed.
Print Assumptions gen_tie_DecodeError_whole.
