(* C19 -- Find responses written by the server helper (rwriter) are read back identically
   by the find client.  Statements only; definitions in model/C19_FindWire.v, proofs in
   proofs/C19_FindWire.v.

   Reading aid.  [request] = what arrives at rwriter.New: preferJson option, the two
   resource-type options, the Accept header values split at ',' with every element
   classified by mime.ParseMediaType ([mt]), r.URL.Path as bytes, and the verdicts of
   base58.Decode / hex.DecodeString / cid.Decode on the key text ([keyv]).  [handler q rs]
   = the indexer's handler: New, write every result of rs, Close, errors answered with
   http.Error.  JSON text is abstracted to trees ([jv]) with omitempty applied -- the text
   layer (base64, escaping, UTF-8) is exercised by the harness, not modelled: partial.
   [canon r] = r with empty context ID / metadata turned into nil (what Go's JSON round
   trip does); [presult_eqv] = the property's "same result" (bytes.Equal, nil = empty).
   The unsuffixed functions model the code WITH pending/C19-fix-*.diff; [*_v0] the code
   before. *)
From Lib Require Import Bytes.
From Model Require Import C19_FindWire.
From Proofs Require Import C19_FindWire.
Open Scope N_scope.

(* ---- 1. the client reads what the writer wrote ---- *)

(* For EVERY accepted request and EVERY non-empty list of results the decoder can read
   (no zero peer ID, no nil multiaddr): the answer is 200; in JSON mode client.Find's
   decoding of the body is exactly one MultihashResult, for the multihash the writer
   parsed, with the same results in the same order; in streaming mode the line reader
   obtains the same results in the same order.  "Same" = canon, which is presult_eqv. *)
Theorem client_reads_what_writer_wrote :
  forall q w rs,
    new_writer q = Ok w -> rs <> [] -> forallb wf_result rs = true ->
    exists resp,
      handler q rs = Responded resp /\ s_status resp = 200 /\
      match w_mode w with
      | JS => s_ctype resp = CtJson /\ client_read resp = Ok [(w_mh w, map canon rs)]
      | ND => s_ctype resp = CtNd /\ nd_read resp = Ok (map canon rs)
      end /\
      list_eqb presult_eqv rs (map canon rs) = true.
Proof. exact client_reads_what_writer_wrote_proved. Qed.
Print Assumptions client_reads_what_writer_wrote.

(* "... for that multihash": which multihash an accepted request is answered for.  Under
   the multihash resource type a base58 key text that is a multihash is read as that
   multihash WHATEVER the hex decoder says; a hex key is read as its multihash unless its
   text is also base58 for some multihash (see ex_key_ambiguous in proofs/: the open
   finding); under the cid resource type the key is the decoded CID's multihash. *)
Theorem writer_answers_for_requested_key :
  forall q w, new_writer q = Ok w ->
    (w_ptype w = PMh ->
       (forall m, k_b58 (q_key q) = Some m -> mh_valid m = true -> w_mh w = m) /\
       (forall m, k_hex (q_key q) = Some m ->
          match k_b58 (q_key q) with None => true | Some b => negb (mh_valid b) end = true ->
          w_mh w = m)) /\
    (w_ptype w = PCid -> k_cid (q_key q) = Some (w_mh w)) /\
    mh_decode (w_mh w) = Ok (w_code w).
Proof. exact writer_answers_for_requested_key_proved. Qed.
Print Assumptions writer_answers_for_requested_key.

(* End to end for the real client's own request (GET /multihash/<base58 m>, Accept:
   application/json -- the repaired client), against a server with EITHER preferJson
   setting, for every multihash m, every key text kt that is one plain path element
   decoding to m, whatever the other decoders say about kt, and every readable result
   list: Find returns the empty response when nothing was written, else exactly
   [(m, results)]. *)
Theorem find_client_end_to_end :
  forall prefer kt m hexv cidv rs,
    plain_key kt = true -> mh_valid m = true -> forallb wf_result rs = true ->
    outcome_read (handler (client_request prefer kt m hexv cidv) rs) =
    Ok (if is_nil rs then [] else [(m, map canon rs)]).
Proof. exact find_client_end_to_end_proved. Qed.
Print Assumptions find_client_end_to_end.

(* The client before pending/C19-fix-find-accept-header.diff sent no Accept header: against
   a server that does not prefer JSON (rwriter's default) EVERY Find fails, whatever was
   written (old and repaired server alike) ... *)
Theorem find_client_v0_refuted :
  forall kt m hexv cidv rs,
    outcome_read (handler_v0 (client_request_v0 false kt m hexv cidv) rs) = Err EStatus /\
    outcome_read (handler (client_request_v0 false kt m hexv cidv) rs) = Err EStatus.
Proof. exact find_client_v0_fails_proved. Qed.
Print Assumptions find_client_v0_refuted.

(* ... and it worked only with WithPreferJson(true). *)
Theorem find_client_v0_needs_prefer_json :
  forall kt m hexv cidv rs,
    plain_key kt = true -> mh_valid m = true -> forallb wf_result rs = true ->
    outcome_read (handler_v0 (client_request_v0 true kt m hexv cidv) rs) =
    Ok (if is_nil rs then [] else [(m, map canon rs)]).
Proof. exact find_client_v0_prefer_json_proved. Qed.
Print Assumptions find_client_v0_needs_prefer_json.

(* FindBatch over any list of multihashes: the entries that have results, in request
   order, each with its multihash and its results in order; not-found ones are skipped. *)
Theorem find_batch_reads_what_was_written :
  forall prefer items, forallb item_ok items = true ->
    batch_model (map (item_request prefer) items) = Ok (flat_map item_expected items).
Proof. exact find_batch_proved. Qed.
Print Assumptions find_batch_reads_what_was_written.

(* ---- 2. streaming: one complete result per line ---- *)

(* For every list of writes in streaming mode: the wire holds exactly one line per result,
   in order; line i is the encoding of result i and decodes ON ITS OWN to that result
   (each line needs only its own result to be readable); and lines once written never
   change: after rs1 ++ rs2 the wire is the wire after rs1 followed by rs2's lines. *)
Theorem ndjson_one_result_per_line :
  forall w rs, w_mode w = ND ->
    let s := fold_left pw_write rs (PW w 0 [] []) in
    pw_wire s = map enc_result rs /\
    length (pw_wire s) = length rs /\
    (forall i r, nth_error rs i = Some r ->
       nth_error (pw_wire s) i = Some (enc_result r) /\
       (wf_result r = true -> dec_result (enc_result r) = Ok (canon r))) /\
    (forall rs1 rs2, rs = rs1 ++ rs2 ->
       pw_wire s = pw_wire (fold_left pw_write rs1 (PW w 0 [] [])) ++ map enc_result rs2).
Proof. exact ndjson_one_result_per_line_proved. Qed.
Print Assumptions ndjson_one_result_per_line.

(* ---- 3. empty result set ---- *)

(* For every accepted request (either mode): nothing written => 404 on the wire, which
   client.Find turns into the empty response without error; and 404 is answered ONLY when
   nothing was written. *)
Theorem empty_is_404_and_empty_resp :
  forall q w, new_writer q = Ok w ->
    handler q [] = Responded (RESP 404 CtText (BErr ENotFound)) /\
    outcome_read (handler q []) = Ok [] /\
    (forall rs resp, handler q rs = Responded resp -> s_status resp = 404 -> rs = []).
Proof. exact empty_is_404_and_empty_resp_proved. Qed.
Print Assumptions empty_is_404_and_empty_resp.

(* ---- 4. bad requests ---- *)

(* For EVERY request (any Accept lists, any path bytes, any decoder verdicts) and any
   results: the handler answers (never panics) with 200, 404 or 400; it answers 400
   EXACTLY when the request is not good, where good_request is written from the property
   text: no malformed Accept element anywhere, a supported media type present (or no Accept
   header and JSON preferred), the element before the last names a resource type, and
   some reading of the key under that type is a multihash.  A 400 is a text/plain API
   error, and never the dead "missing resource type". *)
Theorem bad_negotiation_is_4xx_never_panic :
  forall q rs, exists resp,
    handler q rs = Responded resp /\
    (s_status resp = 200 \/ s_status resp = 404 \/ s_status resp = 400) /\
    (s_status resp = 400 <-> good_request q = false) /\
    (s_status resp = 400 -> s_ctype resp = CtText /\ exists c, s_body resp = BErr c /\ c <> EMissingType).
Proof. exact bad_negotiation_is_4xx_never_panic_proved. Qed.
Print Assumptions bad_negotiation_is_4xx_never_panic.

(* the complete negotiation table of the repaired rwriter.New, for every Accept header *)
Theorem negotiation_table :
  forall prefer a,
    (has_malformed a = true -> negotiate prefer a = Err EInvalidAccept) /\
    (has_malformed a = false -> a = [] ->
       negotiate prefer a = if prefer then Ok JS else Err EAcceptMissing) /\
    (has_malformed a = false -> a <> [] -> has_supported a = false ->
       negotiate prefer a = Err EUnsupportedMedia) /\
    (has_malformed a = false -> a <> [] -> has_supported a = true ->
       exists m, negotiate prefer a = Ok m).
Proof. exact negotiate_table. Qed.
Print Assumptions negotiation_table.

(* ... and whatever it answers is a media type the header admits *)
Theorem negotiated_mode_is_acceptable :
  forall prefer a m, negotiate prefer a = Ok m ->
    match m with
    | ND => existsb (existsb admits_nd) a = true
    | JS => a = [] \/ existsb (existsb admits_json) a = true
    end.
Proof. exact negotiate_mode_acceptable. Qed.
Print Assumptions negotiated_mode_is_acceptable.

(* The negotiation before pending/C19-fix-accept-elements.diff let a malformed element
   pass once both media types had been seen ("*/*,;bad" => 200); the fix changes nothing
   for headers without malformed elements. *)
Theorem negotiation_v0_refuted :
  negotiate_v0 false [[MTAny; MTErr]] = Ok ND /\ has_malformed [[MTAny; MTErr]] = true.
Proof. exact negotiate_v0_accepts_malformed. Qed.
Print Assumptions negotiation_v0_refuted.

Theorem negotiation_fix_is_conservative :
  forall prefer a, has_malformed a = false -> negotiate prefer a = negotiate_v0 prefer a.
Proof. exact negotiate_fix_conservative. Qed.
Print Assumptions negotiation_fix_is_conservative.

(* The key parsing before pending/C19-fix-hex-key.diff rejected a valid hex key whose text
   is also base58 (no digit 0); the fix accepts it and reads every key the old code
   accepted as before. *)
Theorem key_parsing_v0_refuted :
  let k := KV (Some [0; 0; 1; 2]) (Some ex_mh) None in
  mh_valid ex_mh = true /\
  is_ok (parse_key_v0 mh_type cid_type (client_path ex_kt) k) = false /\
  parse_key mh_type cid_type (client_path ex_kt) k = Ok (PMh, ex_mh, 18).
Proof. exact ex_key_v0_rejects_hex. Qed.
Print Assumptions key_parsing_v0_refuted.

Theorem key_fix_is_conservative :
  forall a b p k x, parse_key_v0 a b p k = Ok x -> parse_key a b p k = Ok x.
Proof. exact key_fix_conservative. Qed.
Print Assumptions key_fix_is_conservative.

(* rwriter.New's "missing resource type" answer cannot occur: path.Base is never empty *)
Theorem missing_resource_type_is_dead :
  forall a b p, classify_type a b p <> Err EMissingType.
Proof. exact classify_never_missing. Qed.
Print Assumptions missing_resource_type_is_dead.

(* ---- 5. API errors ---- *)

(* For every error EncodeError accepts (nil, plain, API error with any status, any
   message): DecodeError of the encoding is nil iff the error was nil, and otherwise has
   the same message and the same status (an API error with status 0 comes back as a plain
   error: status 0 = "no status"). *)
Theorem apierror_roundtrip :
  forall e : option aerr,
    exists e', decode_error (encode_error e) = Ok e' /\
      match e, e' with
      | None, None => True
      | Some x, Some y => ae_msg y = ae_msg x /\ status_of y = status_of x /\
                          (ae_status y = None <-> status_of x = 0%Z)
      | _, _ => False
      end.
Proof. exact apierror_roundtrip_proved. Qed.
Print Assumptions apierror_roundtrip.

(* the form rwriter's own errors travel in: http.Error then apierror.FromResponse keeps the
   status and any message that is non-empty and has no white space at its ends *)
Theorem http_error_roundtrip :
  forall msg status, plain_msg msg = true -> status <> 0%Z ->
    from_response status (http_error_body msg) = Some (Some msg, status).
Proof. exact http_error_roundtrip_proved. Qed.
Print Assumptions http_error_roundtrip.
