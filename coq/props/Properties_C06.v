(* C06 — Provider cache converges to the freshest record across sources.
   Only statements; proofs are in proofs/C06_PCache.v.  Every theorem is about the model of
   the repaired code (publication of unpublished changes), for ANY merge policy
   [need_merge] and ANY time-to-live [ttl], over all histories. *)
From stdpp Require Import gmap.
From Model Require Import C06_PCache.
From Proofs Require Import C06_PCache.
From Coq Require Import ZArith NArith.

(* The invariant tying the reader snapshot to the writer's map holds after every history:
   an entry without unpublished changes is in the snapshot with exactly its record
   (negative entries as nil markers), a provider absent from the write map is not visible,
   the time kept is the time of the record kept, stamps never exceed the pass counter. *)
Theorem inv_reachable : forall need_merge ttl ops,
  Forall wf_op ops -> Inv (run true need_merge ttl ops init).
Proof. exact inv_reachable_l. Qed.
Print Assumptions inv_reachable.

(* After a refresh that completes without error, from any state satisfying the invariant:
   it asked every source once and returned nil; every provider reported by a responding
   source is in the snapshot with a record whose time is >= every time reported now and
   equals the maximum of those and the time held before. *)
Theorem refresh_ok_freshest : forall need_merge ttl s now outs pid,
  Inv s -> Forall wf_src outs -> completes outs = true -> wreps pid outs <> [] ->
  let s' := (refresh true need_merge ttl now outs s).1 in
  (refresh true need_merge ttl now outs s).2 = RRefresh false (length outs) /\
  exists r', view s' pid = Some (Some r') /\
    eff_time r' = Z.max (ctime (st_write s !! pid)) (lmax (wreps pid outs)) /\
    (forall r, In r (wreps pid outs) -> (eff_time r <= eff_time r')%Z).
Proof. exact refresh_ok_freshest_l. Qed.
Print Assumptions refresh_ok_freshest.

(* "reported by a responding source" in terms of the source outcomes *)
Theorem reported_is_in_wreps : forall pid outs l r,
  completes outs = true -> In (Reports l) outs -> In (pid, r) l -> In r (wreps pid outs).
Proof. exact wreps_in. Qed.
Print Assumptions reported_is_in_wreps.

(* what is in the snapshot is what lookups return (without asking a source) and what
   listings show *)
Theorem snapshot_is_returned : forall need_merge ttl s pid r now outs,
  view s pid = Some (Some r) ->
  get need_merge ttl now pid outs s = (s, RGet (Some r) 0) /\ listing s !! pid = Some r.
Proof. exact view_hit_get. Qed.
Print Assumptions snapshot_is_returned.

(* the order of the sources is irrelevant to the times readers see *)
Theorem refresh_source_order_irrelevant : forall need_merge ttl s now outs outs' pid,
  Inv s -> Forall wf_src outs -> outs ≡ₚ outs' -> completes outs = true ->
  eff_time <$> visible (refresh true need_merge ttl now outs s).1 pid =
  eff_time <$> visible (refresh true need_merge ttl now outs' s).1 pid.
Proof. exact refresh_source_order_irrelevant_l. Qed.
Print Assumptions refresh_source_order_irrelevant.

(* the same conclusion whatever failed or cancelled refreshes, waiting requests or lookup
   misses preceded *)
Theorem failed_or_cancelled_then_ok : forall need_merge ttl ops now outs pid,
  Forall wf_op ops -> Forall wf_src outs -> completes outs = true -> wreps pid outs <> [] ->
  let s := run true need_merge ttl ops init in
  let s' := (refresh true need_merge ttl now outs s).1 in
  (refresh true need_merge ttl now outs s).2 = RRefresh false (length outs) /\
  exists r', view s' pid = Some (Some r') /\
    eff_time r' = Z.max (ctime (st_write s !! pid)) (lmax (wreps pid outs)) /\
    (forall r, In r (wreps pid outs) -> (eff_time r <= eff_time r')%Z).
Proof. exact failed_or_cancelled_then_ok_l. Qed.
Print Assumptions failed_or_cancelled_then_ok.

(* false of the code before pending/C06-fix-cancelled-refresh-publication.diff *)
Theorem failed_or_cancelled_then_ok_v0_refuted :
  Forall wf_op h_cancel /\ Forall wf_src outs_after /\ completes outs_after = true /\
  wreps pP outs_after = [rc 2 11] /\ wreps pQ outs_after = [rc 1 12] /\
  visible (two_refreshes false) pP = Some (rc 1 10) /\
  visible (two_refreshes false) pQ = None.
Proof. exact failed_or_cancelled_then_ok_v0_refuted. Qed.
Print Assumptions failed_or_cancelled_then_ok_v0_refuted.

(* the time held for a provider never goes back while passes see it (so the maximum above
   accumulates over the history for as long as the provider stays cached) *)
Theorem time_held_monotone : forall need_merge ttl s now outs pid e,
  Inv s -> Forall wf_src outs -> st_write s !! pid = Some e -> wreps pid outs <> [] ->
  exists e', st_write (refresh true need_merge ttl now outs s).1 !! pid = Some e' /\
             (ctime (Some e) <= ctime (Some e'))%Z.
Proof. exact refresh_time_monotone. Qed.
Print Assumptions time_held_monotone.

(* Time-to-live.  From a state in which the provider is visible and was seen by the last
   pass (phase PFresh), over any ops that bring no news of it: it stays visible, with the
   same record, until the first completed refresh later than (first completed refresh that
   missed it) + ttl, and is invisible from then on ([phase_step] is the countdown as the
   property text gives it). *)
Theorem ttl : forall need_merge ttl pid r ops s ph,
  Inv s -> Forall wf_op ops -> Forall (silent pid) ops -> J ttl pid r ph s ->
  J ttl pid r (fold_left (phase_step ttl) ops ph) (run true need_merge ttl ops s).
Proof. exact ttl_l. Qed.
Print Assumptions ttl.

(* a completed refresh in which a source reports the provider puts it in phase PFresh *)
Theorem ttl_starts_fresh : forall need_merge ttl s now outs pid,
  Inv s -> Forall wf_src outs -> completes outs = true -> wreps pid outs <> [] ->
  exists r, J ttl pid r PFresh (refresh true need_merge ttl now outs s).1.
Proof. exact fresh_after_refresh. Qed.
Print Assumptions ttl_starts_fresh.

(* A provider found at no source is remembered as absent: the first lookup asks every
   source once, every later lookup asks none. *)
Theorem negative_cached : forall need_merge ttl s now pid outs,
  Inv s -> view s pid = None -> no_found outs ->
  let s1 := (get need_merge ttl now pid outs s).1 in
  (get need_merge ttl now pid outs s).2 = RGet None (length outs) /\
  view s1 pid = Some None /\
  forall now' outs', get need_merge ttl now' pid outs' s1 = (s1, RGet None 0).
Proof. exact negative_cached_l. Qed.
Print Assumptions negative_cached.

(* ... also across any ops that bring no news of it, up to a completed refresh later than
   lookup time + ttl *)
Theorem negative_stays : forall need_merge ttl pid x ops s,
  Inv s -> Forall wf_op ops -> Forall (quiet_until pid x) ops -> JN pid x s ->
  JN pid x (run true need_merge ttl ops s) /\
  forall now outs, get need_merge ttl now pid outs (run true need_merge ttl ops s)
                   = (run true need_merge ttl ops s, RGet None 0).
Proof. exact negative_stays_l. Qed.
Print Assumptions negative_stays.

Theorem negative_entry_expiry : forall need_merge ttl s now pid outs,
  Inv s -> view s pid = None -> no_found outs ->
  JN pid (now + ttl) (get need_merge ttl now pid outs s).1.
Proof. exact negative_entry_after_miss. Qed.
Print Assumptions negative_entry_expiry.

(* ... and becomes visible, with the newest reported time, at the first completed refresh
   in which a source reports it *)
Theorem negative_replaced_at_first_refresh : forall need_merge ttl s now outs pid,
  Inv s -> Forall wf_src outs -> completes outs = true -> wreps pid outs <> [] ->
  (st_write s !! pid = None \/ exists e, st_write s !! pid = Some e /\ e_prov e = None) ->
  exists r', view (refresh true need_merge ttl now outs s).1 pid = Some (Some r') /\
             eff_time r' = lmax (wreps pid outs).
Proof. exact negative_replaced_at_first_refresh_l. Qed.
Print Assumptions negative_replaced_at_first_refresh.

(* Content level.  Every record readers can see for a provider after any history is one of
   the records a source reported FOR THAT PROVIDER in that history (in a Refresh answer met
   before a cancellation, or found by a lookup of that provider): the cache hands out
   records exactly as reported, it never fabricates or combines them.  With
   refresh_ok_freshest: after a completed refresh it is a reported record of the newest
   time. *)
Theorem returned_record_is_a_reported_record : forall need_merge ttl ops pid r,
  Forall wf_op ops -> visible (run true need_merge ttl ops init) pid = Some r -> reported_in ops pid r.
Proof. exact visible_record_was_reported. Qed.
Print Assumptions returned_record_is_a_reported_record.

(* The merge policy the case checkers run the model with ([real_need_merge], also used by
   C07's example) is pcache.needMerge as astgen translates it from the Go source on every
   run: a change of the threshold in the source breaks this obligation. *)
Theorem need_merge_is_source : forall u m,
  real_need_merge u m = Gen.Gen_Funcs.pcache_needMerge (Z.of_nat u) (Z.of_nat m).
Proof. exact need_merge_is_source_l. Qed.
Print Assumptions need_merge_is_source.

(* ---- ties to the Gallina regenerated from the Go source (proofs/GenTie_C06.v) ---- *)
From Coq Require Import ZArith NArith List Bool Lia.
From Model Require Import C06_PCache.
From Gen Require Import Gen_Funcs_prelude Gen_Funcs_pcache.
Local Open Scope Z_scope.
From Proofs Require Import GenTie_C06.

Theorem gen_tie_needMerge : forall u m : nat,
  real_need_merge u m = pcache_needMerge (Z.of_nat u) (Z.of_nat m).
Proof. exact GenTie_C06.tie_needMerge. Qed.
Print Assumptions gen_tie_needMerge.

Theorem gen_needMerge_monotone : forall u u' m m' : Z,
  0 <= u <= u' -> 0 <= m' <= m -> pcache_needMerge u m = true -> pcache_needMerge u' m' = true.
Proof. exact GenTie_C06.needMerge_monotone. Qed.
Print Assumptions gen_needMerge_monotone.

(* ---- phase 2: further ties to the Gallina regenerated from the Go source (proofs/GenTie_C06.v) ---- *)
From Coq Require Import ZArith NArith List Bool Lia.
From Model Require Import C06_PCache.
From Gen Require Import Gen_Funcs_prelude Gen_Funcs_pcache.
Local Open Scope Z_scope.
From stdpp Require Import gmap.
From Coq Require Import String.
From Proofs Require Import GenTie_Lib.
Import ListNotations.
From Proofs Require Import GenTie_C06.

Theorem gen_tie_Refresh_accept_newer : forall (seq' : N) (e : entry) (r : rec) (txt : list N) (exp0 : tm),
  match pcache_Refresh_accept_newer (option rec) tm (Some 0%Z) (fun _ => (r_time r, None)) None tm_after tm_zero
          txt exp0 (Some (e_last e)) (e_prov e) (Z.of_N (e_seq e)) (e_dirty e) (Some r) (Z.of_N seq') with
  | FFall (sq, ex, last, prov, dirty, _) | FContinue _ (sq, ex, last, prov, dirty, _) =>
      let e' := apply_entry seq' (Some e) r in
      sq = Z.of_N (e_seq e') /\ ex = e_expires e' /\ last = Some (e_last e') /\ prov = e_prov e' /\ dirty = e_dirty e'
  | _ => False
  end.
Proof. exact GenTie_C06.tie_Refresh_accept_newer. Qed.
Print Assumptions gen_tie_Refresh_accept_newer.

Theorem gen_tie_Refresh_publish_step : forall (now ttl : Z) (seq' : N) (e : entry) (ou : option (option rec)),
  match pcache_Refresh_publish_step tm tm_add tm_after tm_zero (Some now) (e_expires e)
          (Z.of_N (e_seq e)) (e_dirty e) ttl (Z.of_N seq') with
  | FFall (ex, dirty, tr) =>
      settle true ttl now seq' e =
        (if has_stmt "delete(pc.write, pid)" tr then None
         else Some (Entry (e_prov e) ex (e_last e) (e_seq e) (e_upd e) dirty)) /\
      upd_of true now seq' (Some e) ou =
        (if has_stmt "updates[pid] = nil" tr then Some None
         else if has_stmt "updates[pid] = apiToCacheInfo(cinfo.provider)" tr then Some (e_prov e)
         else ou)
  | _ => False
  end.
Proof. exact GenTie_C06.tie_Refresh_publish_step. Qed.
Print Assumptions gen_tie_Refresh_publish_step.

Theorem gen_tie_Refresh_merge_decision : forall (u m : nat),
  match pcache_Refresh_merge_decision (Z.of_nat m) (Z.of_nat u) with
  | FReturn _ tr => real_need_merge u m = false /\ has_stmt "pc.read.Store(&readOnly{m: read.m, u: updates})" tr = true
  | FFall _ => real_need_merge u m = true
  | _ => False
  end.
Proof. exact GenTie_C06.tie_Refresh_merge_decision. Qed.
Print Assumptions gen_tie_Refresh_merge_decision.

Theorem gen_tie_getReadOnly_lookup : forall (ru rm : gmap N (option rec)) (pid : N) (miss : option rec * option string),
  match pcache_getReadOnly_lookup (option rec) miss
          (default None (rm !! pid)) (default None (ru !! pid))
          (bool_decide (is_Some (rm !! pid))) (bool_decide (is_Some (ru !! pid))) with
  | FFall (rpi, _) =>
      match view_of ru rm pid with
      | Some v => rpi = v
      | None => rpi = fst miss /\ snd miss = None           (* fetchMissing's answer *)
      end
  | FReturn _ _ => view_of ru rm pid = None /\ snd miss <> None
  | _ => False
  end.
Proof. exact GenTie_C06.tie_getReadOnly_lookup. Qed.
Print Assumptions gen_tie_getReadOnly_lookup.
