From Model Require Import Announce_Receiver.
Theorem placeholder_C16 : True. Proof. exact I. Qed.
Print Assumptions placeholder_C16.
