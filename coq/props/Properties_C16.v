(* C16 -- Announce receiver shutdown never hangs.
   Statements only.  The transition system (model/C16_ReceiverClose.v) covers any number
   of goroutines calling Close, Direct, Next, UncacheCid in any interleaving, with or
   without the pubsub watcher (`reach w s`: s is reachable by SOME schedule from the
   initial state with (w = true) or without a watcher).  Partial: the tie of the
   transition system to the Go code is the regenerated skeleton (first two theorems),
   the sequential histories and the concurrent/pubsub scenarios run by harness/cmd/c16;
   real goroutine scheduling is sampled, not enumerated. *)
From Coq Require Import List NArith Bool Arith.
From Lib Require Import SyncSkel LTS.
From Model Require Import Announce_Receiver C16_ReceiverClose.
From Proofs Require Import C16_ReceiverClose.
From Gen Require Import Gen_Sync_announce.

(* ---- tie to the source, re-checked against what announce/receiver.go says now ---- *)

(* The synchronisation skeletons of Close, UncacheCid, Next, Direct, handleAnnounce,
   announceCheck and watch, regenerated from the Go source by astgen on this run, have
   the shape the transition system was written against (conditions aside). Finite. *)
Theorem skeleton_matches : tie_ok announce_funcs = true.
Proof. exact (eq_refl true). Qed.
Print Assumptions skeleton_matches.

(* "No return path of any of these calls leaves the receiver unusable": on EVERY path
   of EVERY function of receiver.go / string_lru.go (finite set of paths of the
   regenerated skeletons; loops taken zero times or once and required lock-neutral) every
   mutex acquired is released before returning, no mutex is locked twice or unlocked
   when not held, and no blocking operation (channel send/receive, select without default,
   blocking callee) is executed while announceMutex is held. *)
Theorem paths_balanced_and_nonblocking : balance_ok announce_funcs = true.
Proof. exact (eq_refl true). Qed.
Print Assumptions paths_balanced_and_nonblocking.

(* ---- all schedules of the transition system ---- *)

(* the mutex is held exactly by the thread inside a critical section ... *)
Theorem mutex_held_iff : forall w s t th,
  reach w s -> threads s t = Some th -> (in_cs (t_pc th) = true <-> mu s = Some t).
Proof. exact mutex_held_iff. Qed.
Print Assumptions mutex_held_iff.

(* ... so it is free whenever no call is inside one: no call, however it returned,
   leaves the receiver locked for the calls that follow *)
Theorem mutex_free_when_idle : forall w s,
  reach w s -> (forall t th, threads s t = Some th -> in_cs (t_pc th) = false) -> mu s = None.
Proof. exact mutex_free_when_idle. Qed.
Print Assumptions mutex_free_when_idle.

(* whoever holds the mutex can take its next step whatever the others do *)
Theorem holder_never_blocks : forall w s t, reach w s -> mu s = Some t -> enabled s t.
Proof. exact holder_enabled. Qed.
Print Assumptions holder_never_blocks.

(* no deadlock, in any state reachable by any schedule: an unfinished call either can
   step; or waits for the mutex, whose holder can step; or is Close waiting for the
   watcher after having cancelled it, and the watcher can step or waits for the mutex
   whose holder can step; or is one of the API's own waits (Next with nothing to deliver,
   Direct with a full out channel -- receiver not closed, context live; the watcher
   waiting for a pubsub message -- not cancelled) *)
Theorem no_deadlock : forall w s t th,
  reach w s -> threads s t = Some th -> is_fin (t_pc th) = false ->
  enabled s t \/
  (waits_for_mutex (t_pc th) = true /\ exists t', mu s = Some t' /\ enabled s t') \/
  (t_pc th = ClWaitWatch /\ watch_cancelled s = true /\
     exists wth, threads s 0 = Some wth /\ t_watcher wth = true /\ is_fin (t_pc wth) = false /\
       (enabled s 0 \/ (waits_for_mutex (t_pc wth) = true /\ exists t', mu s = Some t' /\ enabled s t'))) \/
  (t_pc th = NxSelect /\ done s = false /\ ctx_done s th = false /\ out s = None) \/
  (t_pc th = DiSelect /\ done s = false /\ ctx_done s th = false /\ out s <> None) \/
  (t_pc th = WaNext /\ watch_cancelled s = false /\ sub_cancelled s = false).
Proof. exact progress. Qed.
Print Assumptions no_deadlock.

(* once Close has closed `done`, no Next or Direct waits any longer *)
Theorem waiters_released_by_close : forall s t th,
  threads s t = Some th -> done s = true -> (t_pc th = NxSelect \/ t_pc th = DiSelect) -> enabled s t.
Proof. exact after_done_selects_enabled. Qed.
Print Assumptions waiters_released_by_close.

(* every own step brings a call strictly closer to returning (bounded own work:
   "promptly" in the model), and does not touch the other calls *)
Theorem own_steps_bounded : forall s t c s' th,
  stepf s (Step t c) = Some s' -> threads s t = Some th ->
  exists th', threads s' t = Some th' /\ (rank (t_pc th') < rank (t_pc th))%nat.
Proof. exact rank_decreases. Qed.
Print Assumptions own_steps_bounded.

Theorem steps_do_not_interfere : forall s t c s' x,
  stepf s (Step t c) = Some s' -> x <> t -> threads s' x = threads s x.
Proof. exact step_frame. Qed.
Print Assumptions steps_do_not_interfere.

(* Close is idempotent and race-free: `done` and `watchDone` are closed at most once
   (closing a closed channel would panic) under every schedule with any number of Close
   callers *)
Theorem close_never_panics : forall w s, reach w s -> panicked s = false.
Proof. exact no_panic. Qed.
Print Assumptions close_never_panics.

(* a Close that returned normally has closed the receiver, released the waiters and
   (with a topic) seen the watcher goroutine exit; a Close that found the receiver
   already closed returns at once *)
Theorem close_returned : forall w s t th,
  reach w s -> threads s t = Some th -> t_watcher th = false -> t_call th = CClose ->
  (t_pc th = Fin RetNil -> closed s = true /\ done s = true /\ (has_watcher s = true -> watch_done s = true)) /\
  (t_pc th = Fin RetEarly -> closed s = true).
Proof. exact close_returned. Qed.
Print Assumptions close_returned.

(* a Direct (from an allowed peer) that started after Close set `closed` returns the
   closed error, whatever else happens; and closed / done never revert *)
Theorem late_direct_gets_closed_error : forall w s t th c r,
  reach w s -> threads s t = Some th -> t_watcher th = false -> t_born_closed th = true ->
  t_call th = CDirect true c -> t_pc th = Fin r -> r = RetClosed.
Proof. exact late_direct_gets_closed_error. Qed.
Print Assumptions late_direct_gets_closed_error.

Theorem closed_is_final : forall w s t th,
  reach w s -> threads s t = Some th ->
  (t_born_closed th = true -> closed s = true) /\ (t_born_done th = true -> done s = true).
Proof. exact born_closed_stays_closed. Qed.
Print Assumptions closed_is_final.

(* ---- phase 2: further ties to the Gallina regenerated from the Go source (proofs/GenTie_C16.v) ---- *)
From Coq Require Import ZArith NArith List Bool Lia String.
From Lib Require Import Bytes.
From Model Require Import Announce_Receiver C16_ReceiverClose.
From Proofs Require Import GenTie_Lib.
From Gen Require Import Gen_Consts Gen_Funcs_prelude Gen_Funcs_announce.
Import ListNotations.
Local Open Scope Z_scope.
From Proofs Require Import GenTie_C16.

Theorem gen_tie_Receiver_Close : forall (CF SD SUB TOP : Type) (nilCF : CF -> bool) (nilSD : SD -> bool) (nilSUB : SUB -> bool) (closeSD : SD -> option string) (closeTOP : TOP -> option string) (cancelPubsub cancelWatch : CF) (sender : SD) (topic : TOP) (sub : SUB) (closed : bool), match go_close CF SD SUB TOP nilCF nilSD nilSUB closeSD closeTOP cancelPubsub cancelWatch sender topic sub closed with | FReturn ret (closed', tr) => pcs closed tr = close_path closed (negb (nilCF cancelWatch)) /\ closed' = true /\ (closed = true -> ret = "return nil" /\ tr = ["r.announceMutex.Lock()"; "r.announceMutex.Unlock()"]) | _ => False end.
Proof. exact GenTie_C16.tie_Receiver_Close. Qed.
Print Assumptions gen_tie_Receiver_Close.

Theorem gen_Close_cancels_sub_under_lock : forall (CF SD SUB TOP : Type) (nilCF : CF -> bool) (nilSD : SD -> bool) (nilSUB : SUB -> bool) (closeSD : SD -> option string) (closeTOP : TOP -> option string) (cancelPubsub cancelWatch : CF) (sender : SD) (topic : TOP) (sub : SUB), match go_close CF SD SUB TOP nilCF nilSD nilSUB closeSD closeTOP cancelPubsub cancelWatch sender topic sub false with | FReturn _ (_, tr) => nilSUB sub = false -> exists rest : list string, tr = "r.announceMutex.Lock()" :: "r.closed = true" :: "r.topicSub.Cancel()" :: "r.announceMutex.Unlock()" :: "close(r.done)" :: rest | _ => False end.
Proof. exact GenTie_C16.Close_cancels_sub_under_lock. Qed.
Print Assumptions gen_Close_cancels_sub_under_lock.

Theorem gen_model_close_order : forall (s : st) (t : nat) (th : thread) (c : nat),
  (t_pc th = ClCheck -> step_thread s t th c = goto s t th (if closed s then ClEarlyUnlock else ClSet)) /\
  (t_pc th = ClEarlyUnlock -> step_thread s t th c = ret (with_mu s None) t th RetEarly) /\
  (t_pc th = ClSet -> step_thread s t th c = goto (do_set_closed s) t th ClUnlock) /\
  (t_pc th = ClUnlock -> step_thread s t th c = goto (with_mu s None) t th ClCloseDone) /\
  (t_pc th = ClCloseDone -> step_thread s t th c = goto (do_close_done s) t th ClCancelWatch) /\
  (t_pc th = ClCancelWatch -> step_thread s t th c =
     if has_watcher s then goto (do_cancel_watch s) t th ClWaitWatch else ret s t th RetNil).
Proof. exact GenTie_C16.model_close_order. Qed.
Print Assumptions gen_model_close_order.

Theorem gen_tie_UncacheCid :
  announce_Receiver_UncacheCid
  = FFall ["r.announceMutex.Lock()"; "r.announceCache.remove(adCid.String())"; "r.announceMutex.Unlock()"]%string.
Proof. exact GenTie_C16.tie_UncacheCid. Qed.
Print Assumptions gen_tie_UncacheCid.

Theorem gen_tie_announceCheck_closed : forall (T : Type) (isnil : T -> bool) (allow : T) (called closed hit : bool),
  read_check (announce_announceCheck T isnil called hit allow closed)
  = Some (check_result (isnil allow || called) closed hit) /\
  (* the closed flag is read under the mutex, after the allow callback *)
  match announce_announceCheck T isnil called hit allow closed with
  | FReturn _ tr => (isnil allow || called) = true ->
                    tr = ["r.announceMutex.Lock()"; "defer r.announceMutex.Unlock()"]%string
  | _ => False
  end.
Proof. exact GenTie_C16.tie_announceCheck_closed. Qed.
Print Assumptions gen_tie_announceCheck_closed.

Theorem gen_model_direct_closed : forall (s : st) (t : nat) (th : thread) (c : nat),
  (t_pc th = DiAllow -> step_thread s t th c =
     if call_allowed (t_call th) then goto s t th DiLock else ret s t th RetIgnored) /\
  (t_pc th = DiCheck -> step_thread s t th c =
     if closed s then goto s t th DiUnlockClosed else goto s t th DiUpdate) /\
  (t_pc th = DiUnlockClosed -> step_thread s t th c = ret (with_mu s None) t th RetClosed).
Proof. exact GenTie_C16.model_direct_closed. Qed.
Print Assumptions gen_model_direct_closed.
