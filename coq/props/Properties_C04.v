(* C04 — A failed sync changes nothing durable and does not impair later syncs.
   Only statements; proofs are in proofs/C04_SyncFailure.v.

   [step fx w seg o st] is one sync (explicit SyncAdChain, or announce-triggered) of the
   subscriber state [st] against the world [w] under the fault script of [o];
   [fx_fixed] is the code with the three pending C04 fixes.  Theorems 1-6 hold for the code
   with or without the fixes (any [fx]) unless they say [fx_fixed] / [fx_announce fx = true].
   Timeouts are fault outcomes (FStallHdr, FStallBody), not time: partial in that respect. *)
From Coq Require Import List Arith.
From Model Require Import C04_SyncFailure.
From Proofs Require Import C04_SyncFailure.
Import ListNotations.

(* Syncer.fetch terminates: the fuel the model gives its goto loop is never exhausted,
   whatever the faults *)
Theorem fetch_terminates : forall fx w r sy n,
  fst (fst (fetch fx w r sy n)) <> FetchOutOfFuel.
Proof. exact fetch_no_out_of_fuel. Qed.
Print Assumptions fetch_terminates.

(* 1. a sync that fails - explicit (error returned) or announce-triggered (error event, or
      the silent failure of the unrepaired code) - leaves the latest-synced value alone:
      for every fault script, mode, segment size, state *)
Theorem failed_sync_preserves_latest : forall fx w seg o st,
  failed (o_res (snd (step fx w seg o st))) = true ->
  s_latest (fst (step fx w seg o st)) = s_latest st.
Proof. exact failed_sync_preserves_latest_l. Qed.
Print Assumptions failed_sync_preserves_latest.

(* 2. ... and emits no success notification *)
Theorem failed_sync_no_success_event : forall fx w seg o st h c,
  failed (o_res (snd (step fx w seg o st))) = true ->
  ~ In (EvOk h c) (o_events (snd (step fx w seg o st))).
Proof. exact failed_sync_no_success_event_l. Qed.
Print Assumptions failed_sync_no_success_event.

(* a success notification is for the head that was synced, comes with latest-synced set to
   it, and only from a sync that did not fail *)
Theorem success_event_sets_latest : forall fx w seg o st h c,
  In (EvOk h c) (o_events (snd (step fx w seg o st))) ->
  h = op_head o /\ s_latest (fst (step fx w seg o st)) = h /\
  failed (o_res (snd (step fx w seg o st))) = false.
Proof. exact success_event_sets_latest_l. Qed.
Print Assumptions success_event_sets_latest.

(* a sync that reports success is complete, whatever happened on the way - faults that were
   retried around, context cancellation inside a request (FCtxCancel), between the answer to one
   request and the next (FOkCancel), from the block hook between two segments (HCancel), before
   the sync was called (op_precancel): every block from the head down to (not including) the
   latest-synced one is in the store.  (A cancellation can only make the sync fail, or come too
   late to matter.) *)
Theorem success_is_complete : forall fx w seg o st h c,
  In (EvOk h c) (o_events (snd (step fx w seg o st))) ->
  forall p, In p (todo h (s_latest st)) -> In p (s_store (fst (step fx w seg o st))).
Proof. exact success_is_complete_l. Qed.
Print Assumptions success_is_complete.

(* 3. an announce-triggered sync never fails silently; when it fails - at any point,
      including before the first request (the syncer cannot be made) - it emits exactly one
      error notification, with count 0, and its CID is no longer in the duplicate filter
      (it may be announced again); when it neither fails nor succeeds (duplicate, or head
      already synced) it emits nothing and changes nothing *)
Theorem async_failure_one_error_event_and_uncached : forall fx w seg o st,
  fx_announce fx = true -> op_mode o = Announce ->
  let st' := fst (step fx w seg o st) in
  let ob := snd (step fx w seg o st) in
  o_res ob <> RAnnSilent /\
  (failed (o_res ob) = true ->
     o_res ob = RAnnErr /\ o_events ob = [EvErr (op_head o) 0] /\ ~ In (op_head o) (s_cache st')) /\
  (failed (o_res ob) = false -> o_res ob <> RAnnOk -> o_events ob = [] /\ s_latest st' = s_latest st).
Proof. exact async_failure_l. Qed.
Print Assumptions async_failure_one_error_event_and_uncached.

(* 4. blocks already verified remain usable - the store only grows, in every sync, failed or
      not - and it stays sound: a block enters it only when the publisher's own answer to the
      request for that very block arrived without a fault *)
Theorem verified_blocks_survive : forall fx w seg o st,
  let st' := fst (step fx w seg o st) in
  let ob := snd (step fx w seg o st) in
  (forall p, In p (s_store st) -> In p (s_store st')) /\
  (forall p, In p (s_store st') -> In p (s_store st) \/
     exists a np, In (a, np, Blk p, Some FOk) (o_log ob)).
Proof. exact verified_blocks_survive_l. Qed.
Print Assumptions verified_blocks_survive.

(* 5. a failing segment (failed request, or FailSync from the hook) aborts the whole
      segmented sync with count 0 *)
Theorem segment_failure_count_zero : forall fx w seg h stop hf sy n store,
  h_ok (handle fx w seg h stop hf sy n store) = false ->
  h_count (handle fx w seg h stop hf sy n store) = 0.
Proof. exact segment_failure_count_zero_l. Qed.
Print Assumptions segment_failure_count_zero.

(* the invariant the next theorem rests on: after ANY history of syncs of a head (any
   faults), the syncer kept for the publisher still addresses it: it has an address, it asks
   without the IPNI path only a publisher that serves none, and a pinned libp2phttp client is
   pinned to an address that answers *)
Theorem reused_syncer_addresses_publisher : forall w seg S0 L0 h ops sy,
  wf_world w -> Forall (wf_op w h) ops ->
  s_syncer (run fx_fixed w seg ops (init S0 L0)) = Some sy -> SyOk w sy.
Proof. exact reused_syncer_addresses_publisher_l. Qed.
Print Assumptions reused_syncer_addresses_publisher.

(* 6. after ANY finite history of syncs of head h - every fault kind at any request of any of
      them, any number of failed syncs, explicit or announce-triggered, segmented or not,
      hook failures, discovery failures, address lists that change - a fault-free sync of h
      ([retry_ok]: no faults, some announced address answers) does not fail, leaves
      latest-synced = h, and leaves exactly the blocks that the same sync leaves on a fresh
      subscriber in which no fault ever occurred.
      [wf_op]: every sync of the history is of head h; a publisher reached through
      libp2p-HTTP discovery or libp2p streams is announced with addresses that answer. *)
Theorem retry_converges : forall w seg S0 L0 h ops r,
  wf_world w -> Forall (wf_op w h) ops -> retry_ok w h r ->
  let st1 := fst (step fx_fixed w seg r (run fx_fixed w seg ops (init S0 L0))) in
  let st0 := fst (step fx_fixed w seg r (init S0 L0)) in
  failed (o_res (snd (step fx_fixed w seg r (run fx_fixed w seg ops (init S0 L0))))) = false /\
  s_latest st1 = h /\ s_latest st0 = h /\ (forall p, In p (s_store st1) <-> In p (s_store st0)).
Proof. exact retry_converges_l. Qed.
Print Assumptions retry_converges.

(* false of the code before pending/C04-fix-1: one 404 on a plain-HTTP publisher and the
   retry asks "/head" (no IPNI path), is refused, latest-synced stays unset *)
Theorem retry_converges_v0_nopath_refuted :
  let w := w_plain [true] in
  let ops := [op_e [0] 1 [FOk; FNotFound]] in
  let r := op_e [0] 1 [] in
  wf_world w /\ Forall (wf_op w 1) ops /\ retry_ok w 1 r /\
  o_res (snd (step fx_without_nopath w 0 r (run fx_without_nopath w 0 ops (init [] 0)))) = RExpErr /\
  o_log (snd (step fx_without_nopath w 0 r (run fx_without_nopath w 0 ops (init [] 0)))) = [(0, true, Head, Some FOk)] /\
  s_latest (fst (step fx_without_nopath w 0 r (run fx_without_nopath w 0 ops (init [] 0)))) = 0 /\
  s_latest (fst (step fx_without_nopath w 0 r (init [] 0))) = 1 /\
  s_latest (fst (step fx_v0 w 0 r (run fx_v0 w 0 ops (init [] 0)))) = 0.
Proof. exact retry_converges_v0_nopath_refuted. Qed.
Print Assumptions retry_converges_v0_nopath_refuted.

(* false of the code before pending/C04-fix-2: addresses [alive; dead], one transport error:
   the syncer has dropped the first address for good *)
Theorem retry_converges_v0_urls_refuted :
  let w := w_plain [true; false] in
  let ops := [op_e [0; 1] 1 [FTransport]] in
  let r := op_e [0; 1] 1 [] in
  wf_world w /\ Forall (wf_op w 1) ops /\ retry_ok w 1 r /\
  o_res (snd (step fx_without_rotate w 0 r (run fx_without_rotate w 0 ops (init [] 0)))) = RExpErr /\
  o_log (snd (step fx_without_rotate w 0 r (run fx_without_rotate w 0 ops (init [] 0)))) = [(1, false, Head, None)] /\
  s_latest (fst (step fx_without_rotate w 0 r (run fx_without_rotate w 0 ops (init [] 0)))) = 0 /\
  s_latest (fst (step fx_without_rotate w 0 r (init [] 0))) = 1 /\
  s_latest (fst (step fx_v0 w 0 r (run fx_v0 w 0 ops (init [] 0)))) = 0.
Proof. exact retry_converges_v0_urls_refuted. Qed.
Print Assumptions retry_converges_v0_urls_refuted.

(* ... and a libp2phttp publisher with two healthy HTTP addresses: after one stalled
   response not a single request leaves the client *)
Theorem retry_converges_v0_urls_p2phttp_refuted :
  let w := w_p2p [true; true] in
  let ops := [op_e [0; 1] 2 [FOk; FStallHdr]] in
  let r := op_e [0; 1] 2 [] in
  wf_world w /\ Forall (wf_op w 2) ops /\ retry_ok w 2 r /\
  o_res (snd (step fx_without_rotate w 0 r (run fx_without_rotate w 0 ops (init [] 0)))) = RExpErr /\
  o_log (snd (step fx_without_rotate w 0 r (run fx_without_rotate w 0 ops (init [] 0)))) = [] /\
  s_latest (fst (step fx_without_rotate w 0 r (init [] 0))) = 2.
Proof. exact retry_converges_v0_urls_p2phttp_refuted. Qed.
Print Assumptions retry_converges_v0_urls_p2phttp_refuted.

(* false of the code before pending/C04-fix-3: the syncer cannot be made when the
   announcement arrives: no notification at all, the CID stays in the duplicate filter and the
   same announcement, repeated when the publisher is reachable, is dropped *)
Theorem async_failure_v0_makesyncer_refuted :
  let w := w_stream [true] in
  let o := op_a [0] 1 [] true in
  let r := op_a [0] 1 [] false in
  wf_world w /\ wf_op w 1 o /\ retry_ok w 1 r /\
  o_res (snd (step fx_without_announce w 0 o (init [] 0))) = RAnnSilent /\
  o_events (snd (step fx_without_announce w 0 o (init [] 0))) = [] /\
  In 1 (s_cache (fst (step fx_without_announce w 0 o (init [] 0)))) /\
  o_res (snd (step fx_without_announce w 0 r (run fx_without_announce w 0 [o] (init [] 0)))) = RAnnDropped /\
  s_latest (fst (step fx_without_announce w 0 r (run fx_without_announce w 0 [o] (init [] 0)))) = 0 /\
  s_latest (fst (step fx_without_announce w 0 r (init [] 0))) = 1.
Proof. exact async_failure_v0_makesyncer_refuted. Qed.
Print Assumptions async_failure_v0_makesyncer_refuted.

(* ==================================================================================== *)
(* Composition with the models that own the chain walk (C01) and the block fetch (C02).
   C04's model walks POSITIONS h, h-1, .. (1 = oldest); the bridge (model/Compose_C04_C01.v)
   is, for a chain [ch] of C01 (newest first, no block twice: chain_wf) of length n,
       position p in 1..n  <->  CID  cid_of ch p = nth (n - p) ch,
       stop / latest-sync position 0  <->  no stop (None),   cids = map (cid_of ch),
   [answered w log] = the block requests of a C04 log that the publisher answered with the
   block (C01's h_reqs counts exactly these), C1 / C2 / C4 = the three models, P4 = C04's
   proofs.  Premises of the bridge: chain_wf; head position in range; stop position <= n and
   (for a walk) <> head; the local store holds chain blocks only (positions in range); C01's
   [avail] (every block of the segment is stored or served); NO depth limit (C04 models
   none: C01's lim = None); strict advertisement selector and the prescribed hook. *)
From Coq Require Import ZArith.
From Model Require Import Compose_C04_C01.
From Proofs Require Compose_C04_C01.
Module PC := Proofs.Compose_C04_C01.
Module P4 := Proofs.C04_SyncFailure.

(* the positions C04 walks are C01's specified segment (also stop = head: nothing; stop = 0:
   no latest sync; stop beyond the head: the whole chain from the head) *)
Theorem walked_positions_are_c01_segment : forall ch h L0,
  NoDup ch -> in_range ch h -> L0 <= length ch ->
  cids ch (P4.need h L0) = C1.segment ch (cid_of ch h) (stop_of ch L0) None.
Proof. exact PC.bridge_need. Qed.
Print Assumptions walked_positions_are_c01_segment.

(* (1) fault-free request script, any reachable syncer (SyOk, some address answers): the
   hook order, the answered block requests, the store and the count that C04's abstract
   [handle] produces for (head h, stop s, segment size seg) are exactly those of C01's
   [handle] (ipld traversal + segment loop) -- hence the specified [segment] -- for EVERY
   segment size *)
Theorem abstract_walk_is_c01_walk : forall extra ch pub w seg h s sy n store,
  C1.chain_wf C1.EPrev extra ch = true -> in_range ch h -> s <= length ch -> s <> h ->
  Forall (in_range ch) store ->
  C1.avail pub (cids ch store) (C1.segment ch (cid_of ch h) (stop_of ch s) None) = true ->
  P4.wf_world w -> P4.SyOk w sy -> P4.HasGood w sy -> P4.clean n ->
  let r := C4.handle C4.fx_fixed w seg h s None sy n store in
  let o := C1.handle (C1.chain_world C1.EPrev extra ch pub) C1.VPrev (stop_of ch s) None
                     (Z.of_nat seg) C1.HNominate (cid_of ch h) (cids ch store) in
  C4.h_ok r = true /\ C1.h_err o = None /\
  cids ch (C4.h_hooks r) = C1.h_hooks o /\
  (exists reqs, answered w (rev (C4.n_log (C4.h_net r))) = answered w (rev (C4.n_log n)) ++ reqs /\
                cids ch reqs = C1.h_reqs o) /\
  cids ch (C4.h_store r) = C1.h_store o /\
  C4.h_count r = C1.h_count o /\
  C1.h_hooks o = C1.segment ch (cid_of ch h) (stop_of ch s) None.
Proof. exact PC.abstract_walk_is_c01_walk_l. Qed.
Print Assumptions abstract_walk_is_c01_walk.

(* (2) ANY fault script (any faults at any requests, any syncer state, the code with or
   without the fixes, any hook failure): C04's walk stores exactly a PREFIX (k blocks) of
   C01's request order on top of the old store and nothing else; the block requests the
   publisher answered are that prefix; the walk succeeds only if the prefix is the whole
   order.  So verified_blocks_survive speaks about blocks of C01's segment. *)
Theorem faulty_walk_is_prefix : forall fx extra ch pub w seg h s hf sy n store,
  C1.chain_wf C1.EPrev extra ch = true -> in_range ch h -> s <= length ch -> s <> h ->
  Forall (in_range ch) store ->
  C1.avail pub (cids ch store) (C1.segment ch (cid_of ch h) (stop_of ch s) None) = true ->
  let r := C4.handle fx w seg h s hf sy n store in
  let o := C1.handle (C1.chain_world C1.EPrev extra ch pub) C1.VPrev (stop_of ch s) None
                     (Z.of_nat seg) C1.HNominate (cid_of ch h) (cids ch store) in
  exists k, k <= length (C1.h_reqs o) /\
    cids ch (C4.h_store r) = rev (firstn k (C1.h_reqs o)) ++ cids ch store /\
    (exists reqs, answered w (rev (C4.n_log (C4.h_net r))) = answered w (rev (C4.n_log n)) ++ reqs /\
                  cids ch reqs = firstn k (C1.h_reqs o)) /\
    (C4.h_ok r = true -> k = length (C1.h_reqs o)).
Proof. exact PC.faulty_walk_is_prefix_l. Qed.
Print Assumptions faulty_walk_is_prefix.

(* ... and the prefix length IS the fault index when requests and exchanges coincide (one
   address that answers, a publisher serving the IPNI path, no hook failure): the first i
   requests answered, then a fault that fails a request outright ([hard]: status other than
   404/403, failed request, rejected body, stall, cancellation) ==> the sync fails with
   count 0 and has stored exactly the first i blocks of C01's request order *)
Theorem fault_at_request_i_stores_first_i : forall extra ch pub w seg h s sy n store i f rest,
  C1.chain_wf C1.EPrev extra ch = true -> in_range ch h -> s <= length ch -> s <> h ->
  Forall (in_range ch) store ->
  C1.avail pub (cids ch store) (C1.segment ch (cid_of ch h) (stop_of ch s) None) = true ->
  PC.single_good w sy -> C4.n_cancelled n = false ->
  C4.n_script n = repeat C4.FOk i ++ f :: rest -> hard f = true ->
  let r := C4.handle C4.fx_fixed w seg h s None sy n store in
  let o := C1.handle (C1.chain_world C1.EPrev extra ch pub) C1.VPrev (stop_of ch s) None
                     (Z.of_nat seg) C1.HNominate (cid_of ch h) (cids ch store) in
  i < length (C1.h_reqs o) ->
  C4.h_ok r = false /\ C4.h_count r = 0 /\
  cids ch (C4.h_store r) = rev (firstn i (C1.h_reqs o)) ++ cids ch store.
Proof. exact PC.fault_at_request_i_l. Qed.
Print Assumptions fault_at_request_i_stores_first_i.

(* (2, C02 side) the one step where C04 abstracts C02: a block request whose C04 outcome is x
   is, for C02's fetchBlock (symbolic instance), the answer [c02_answer x c b]: the genuine
   content, a body b that does not hash to the CID, or no 200 answer.  fetchBlock commits
   exactly (c, content) when x = 200-with-the-genuine-body and otherwise leaves the store
   EXACTLY as it was (C02's bad_fetch_commits_nothing): C04's "a fetched block is stored at
   once, a rejected answer stores nothing" *)
Theorem fetch_step_refines_c02 : forall d resp reqs c bs x b,
  C2.local_ok N C2.sym_hashes_to (C2.sym_links_of d) bs c = None ->
  b <> c -> resp (length reqs) = c02_answer x c b ->
  C2.fetch_block N C2.sym_hashes_to (C2.sym_links_of d) resp reqs c bs =
    (reqs ++ [c], if is_good x then (c, c) :: bs else bs, if is_good x then Some c else None).
Proof. exact PC.fetch_step_refines_c02_l. Qed.
Print Assumptions fetch_step_refines_c02.

(* (3) retry_converges against the independent specification: after ANY history of syncs of
   head h, the fault-free retry leaves the latest sync and the stored blocks that C01's
   sync_ad_chain_meets_spec gives for SyncAdChain of that head on the INITIAL state (first
   conjunct: that right-hand side, instantiated): the initial store plus
   segment ch head latest0 -- "the same stored blocks as a run in which no fault occurred",
   stated against [segment] *)
Theorem retry_converges_to_c01_spec : forall extra ch pub cfg w seg S0 L0 h ops r,
  P4.wf_world w -> Forall (P4.wf_op w h) ops -> P4.retry_ok w h r ->
  C1.chain_wf C1.EPrev extra ch = true -> in_range ch h -> L0 <= length ch ->
  Forall (in_range ch) S0 ->
  C1.c_strict cfg = true -> C1.c_hook cfg = C1.HNominate ->
  C1.c_ads_depth cfg = 0%Z -> C1.c_first_depth cfg = 0%Z -> C1.c_lastknown cfg = None ->
  let sg := C1.segment ch (cid_of ch h) (stop_of ch L0) None in
  C1.avail pub (cids ch S0) sg = true ->
  let st1 := fst (C4.step C4.fx_fixed w seg r (C4.run C4.fx_fixed w seg ops (C4.init S0 L0))) in
  let o := C1.sync_ad_chain (C1.chain_world C1.EPrev extra ch pub) cfg (c01_call (cid_of ch h)) (c01_state ch S0 L0) in
  let moved := negb (L0 =? h) in
  o = C1.CO (C1.ROk (cid_of ch h)) sg (C1.missing (cids ch S0) sg)
            (if moved then Some (cid_of ch h, length sg) else None)
            (C1.ST (if moved then Some (cid_of ch h) else stop_of ch L0)
                   (rev (C1.missing (cids ch S0) sg) ++ cids ch S0)) /\
  stop_of ch (C4.s_latest st1) = C1.s_latest (C1.r_state o) /\
  (forall c, In c (cids ch (C4.s_store st1)) <-> In c (C1.s_store (C1.r_state o))) /\
  (forall c, In c (cids ch (C4.s_store st1)) <-> In c (cids ch S0) \/ In c sg).
Proof. exact PC.retry_converges_to_c01_spec_l. Qed.
Print Assumptions retry_converges_to_c01_spec.

(* ---- the async-sync semaphore (MaxAsyncConcurrency): [s_max] slots, [s_slots] in use ---- *)

(* a sync gives its slot back whatever happens - failure at any request, hook failure, the
   syncer cannot be made, success, duplicate, nothing to do: for EVERY state, op, fault script
   the slots in use (and the limit) are afterwards what they were *)
Theorem failed_sync_returns_its_slot : forall fx w seg o st,
  fx_slot fx = true ->
  s_slots (fst (step fx w seg o st)) = s_slots st /\ s_max (fst (step fx w seg o st)) = s_max st.
Proof. exact P4.slot_returned_l. Qed.
Print Assumptions failed_sync_returns_its_slot.

(* hence no slot is in use after any history, for any limit *)
Theorem no_slot_in_use_after_any_history : forall w seg m S0 L0 ops,
  s_slots (run fx_fixed w seg ops (init_max m S0 L0)) = 0.
Proof. exact P4.no_slot_in_use_l. Qed.
Print Assumptions no_slot_in_use_after_any_history.

(* retry_converges for a subscriber with ANY MaxAsyncConcurrency m (0 = none): however many
   announce-triggered syncs failed before, the fault-free sync is not kept waiting for a slot *)
Theorem retry_converges_any_concurrency_limit : forall w seg m S0 L0 h ops r,
  wf_world w -> Forall (wf_op w h) ops -> retry_ok w h r ->
  let st1 := fst (step fx_fixed w seg r (run fx_fixed w seg ops (init_max m S0 L0))) in
  let st0 := fst (step fx_fixed w seg r (init_max m S0 L0)) in
  failed (o_res (snd (step fx_fixed w seg r (run fx_fixed w seg ops (init_max m S0 L0))))) = false /\
  s_latest st1 = h /\ s_latest st0 = h /\ (forall p, In p (s_store st1) <-> In p (s_store st0)) /\
  s_slots st1 = 0.
Proof. exact P4.retry_converges_max_l. Qed.
Print Assumptions retry_converges_any_concurrency_limit.

(* false of a variant that gives the slot back only after a successful sync: limit 1, one
   failed announce-triggered sync (one error event, CID un-cached: it looks right), and the
   healthy re-announcement never starts: no event, latest-sync unset *)
Theorem slot_kept_on_failure_refuted :
  let w := w_plain [true] in
  let o := op_a [0] 1 [FStatus 500] false in
  let r := op_a [0] 1 [] false in
  wf_world w /\ wf_op w 1 o /\ retry_ok w 1 r /\
  o_events (snd (step fx_slot_kept_on_failure w 0 o (init_max 1 [] 0))) = [EvErr 1 0] /\
  s_cache (fst (step fx_slot_kept_on_failure w 0 o (init_max 1 [] 0))) = [] /\
  s_slots (fst (step fx_slot_kept_on_failure w 0 o (init_max 1 [] 0))) = 1 /\
  o_res (snd (step fx_slot_kept_on_failure w 0 r (run fx_slot_kept_on_failure w 0 [o] (init_max 1 [] 0)))) = RAnnBlocked /\
  o_events (snd (step fx_slot_kept_on_failure w 0 r (run fx_slot_kept_on_failure w 0 [o] (init_max 1 [] 0)))) = [] /\
  s_latest (fst (step fx_slot_kept_on_failure w 0 r (run fx_slot_kept_on_failure w 0 [o] (init_max 1 [] 0)))) = 0 /\
  s_latest (fst (step fx_fixed w 0 r (run fx_fixed w 0 [o] (init_max 1 [] 0)))) = 1.
Proof. exact P4.slot_kept_on_failure_refuted. Qed.
Print Assumptions slot_kept_on_failure_refuted.

(* ---- ties to the Gallina regenerated from the Go source (proofs/GenTie_C04.v) ---- *)
From Coq Require Import ZArith NArith List Bool Lia String.
From Lib Require Import Bytes.
From Model Require Import C04_SyncFailure.
From Proofs Require Import GenTie_Lib.
From Gen Require Import Gen_Consts Gen_Funcs_prelude Gen_Funcs_ipnisync.
Import ListNotations.
Local Open Scope Z_scope.
From Proofs Require Import GenTie_C04.

Theorem gen_tie_fetch_error_ladder : forall (sy : syncer) (tried : nat) (done_retry reset : bool) (root : nat),
  read_after_error
    (ipnisync_fetch_error_ladder nat 0%nat reset done_retry (Z.of_nat tried) (sy_nopath sy) root (sy_urls sy))
  = Some (model_after_error sy tried done_retry reset).
Proof. exact GenTie_C04.tie_fetch_error_ladder. Qed.
Print Assumptions gen_tie_fetch_error_ladder.

Theorem gen_tie_fetch_status_switch : forall (sy : syncer) (try_nopath : bool) (c : N) (U : Type) (root cur : U),
  read_after_status
    (ipnisync_fetch_status_switch U (Z.of_N c) root (sy_nopath sy) (sy_plain sy) cur try_nopath)
  = Some (model_after_status sy try_nopath c).
Proof. exact GenTie_C04.tie_fetch_status_switch. Qed.
Print Assumptions gen_tie_fetch_status_switch.
