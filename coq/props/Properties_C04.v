(* C04 — A failed sync changes nothing durable and does not impair later syncs.
   Only statements; proofs are in proofs/C04_SyncFailure.v.

   [step fx w seg o st] is one sync (explicit SyncAdChain, or announce-triggered) of the
   subscriber state [st] against the world [w] under the fault script of [o];
   [fx_fixed] is the code with the three pending C04 fixes.  Theorems 1-6 hold for the code
   with or without the fixes (any [fx]) unless they say [fx_fixed] / [fx_announce fx = true].
   Timeouts are fault outcomes (FStallHdr, FStallBody), not time: partial in that respect. *)
From Coq Require Import List Arith.
From Model Require Import C04_SyncFailure.
From Proofs Require Import C04_SyncFailure.
Import ListNotations.

(* Syncer.fetch terminates: the fuel the model gives its goto loop is never exhausted,
   whatever the faults *)
Theorem fetch_terminates : forall fx w r sy n,
  fst (fst (fetch fx w r sy n)) <> FetchOutOfFuel.
Proof. exact fetch_no_out_of_fuel. Qed.
Print Assumptions fetch_terminates.

(* 1. a sync that fails - explicit (error returned) or announce-triggered (error event, or
      the silent failure of the unrepaired code) - leaves the latest-synced value alone:
      for every fault script, mode, segment size, state *)
Theorem failed_sync_preserves_latest : forall fx w seg o st,
  failed (o_res (snd (step fx w seg o st))) = true ->
  s_latest (fst (step fx w seg o st)) = s_latest st.
Proof. exact failed_sync_preserves_latest_l. Qed.
Print Assumptions failed_sync_preserves_latest.

(* 2. ... and emits no success notification *)
Theorem failed_sync_no_success_event : forall fx w seg o st h c,
  failed (o_res (snd (step fx w seg o st))) = true ->
  ~ In (EvOk h c) (o_events (snd (step fx w seg o st))).
Proof. exact failed_sync_no_success_event_l. Qed.
Print Assumptions failed_sync_no_success_event.

(* a success notification is for the head that was synced, comes with latest-synced set to
   it, and only from a sync that did not fail *)
Theorem success_event_sets_latest : forall fx w seg o st h c,
  In (EvOk h c) (o_events (snd (step fx w seg o st))) ->
  h = op_head o /\ s_latest (fst (step fx w seg o st)) = h /\
  failed (o_res (snd (step fx w seg o st))) = false.
Proof. exact success_event_sets_latest_l. Qed.
Print Assumptions success_event_sets_latest.

(* 3. an announce-triggered sync never fails silently; when it fails - at any point,
      including before the first request (the syncer cannot be made) - it emits exactly one
      error notification, with count 0, and its CID is no longer in the duplicate filter
      (it may be announced again); when it neither fails nor succeeds (duplicate, or head
      already synced) it emits nothing and changes nothing *)
Theorem async_failure_one_error_event_and_uncached : forall fx w seg o st,
  fx_announce fx = true -> op_mode o = Announce ->
  let st' := fst (step fx w seg o st) in
  let ob := snd (step fx w seg o st) in
  o_res ob <> RAnnSilent /\
  (failed (o_res ob) = true ->
     o_res ob = RAnnErr /\ o_events ob = [EvErr (op_head o) 0] /\ ~ In (op_head o) (s_cache st')) /\
  (failed (o_res ob) = false -> o_res ob <> RAnnOk -> o_events ob = [] /\ s_latest st' = s_latest st).
Proof. exact async_failure_l. Qed.
Print Assumptions async_failure_one_error_event_and_uncached.

(* 4. blocks already verified remain usable - the store only grows, in every sync, failed or
      not - and it stays sound: a block enters it only when the publisher's own answer to the
      request for that very block arrived without a fault *)
Theorem verified_blocks_survive : forall fx w seg o st,
  let st' := fst (step fx w seg o st) in
  let ob := snd (step fx w seg o st) in
  (forall p, In p (s_store st) -> In p (s_store st')) /\
  (forall p, In p (s_store st') -> In p (s_store st) \/
     exists a np, In (a, np, Blk p, Some FOk) (o_log ob)).
Proof. exact verified_blocks_survive_l. Qed.
Print Assumptions verified_blocks_survive.

(* 5. a failing segment (failed request, or FailSync from the hook) aborts the whole
      segmented sync with count 0 *)
Theorem segment_failure_count_zero : forall fx w seg h stop hf sy n store,
  h_ok (handle fx w seg h stop hf sy n store) = false ->
  h_count (handle fx w seg h stop hf sy n store) = 0.
Proof. exact segment_failure_count_zero_l. Qed.
Print Assumptions segment_failure_count_zero.

(* the invariant the next theorem rests on: after ANY history of syncs of a head (any
   faults), the syncer kept for the publisher still addresses it: it has an address, it asks
   without the IPNI path only a publisher that serves none, and a pinned libp2phttp client is
   pinned to an address that answers *)
Theorem reused_syncer_addresses_publisher : forall w seg S0 L0 h ops sy,
  wf_world w -> Forall (wf_op w h) ops ->
  s_syncer (run fx_fixed w seg ops (init S0 L0)) = Some sy -> SyOk w sy.
Proof. exact reused_syncer_addresses_publisher_l. Qed.
Print Assumptions reused_syncer_addresses_publisher.

(* 6. after ANY finite history of syncs of head h - every fault kind at any request of any of
      them, any number of failed syncs, explicit or announce-triggered, segmented or not,
      hook failures, discovery failures, address lists that change - a fault-free sync of h
      ([retry_ok]: no faults, some announced address answers) does not fail, leaves
      latest-synced = h, and leaves exactly the blocks that the same sync leaves on a fresh
      subscriber in which no fault ever occurred.
      [wf_op]: every sync of the history is of head h; a publisher reached through
      libp2p-HTTP discovery or libp2p streams is announced with addresses that answer. *)
Theorem retry_converges : forall w seg S0 L0 h ops r,
  wf_world w -> Forall (wf_op w h) ops -> retry_ok w h r ->
  let st1 := fst (step fx_fixed w seg r (run fx_fixed w seg ops (init S0 L0))) in
  let st0 := fst (step fx_fixed w seg r (init S0 L0)) in
  failed (o_res (snd (step fx_fixed w seg r (run fx_fixed w seg ops (init S0 L0))))) = false /\
  s_latest st1 = h /\ s_latest st0 = h /\ (forall p, In p (s_store st1) <-> In p (s_store st0)).
Proof. exact retry_converges_l. Qed.
Print Assumptions retry_converges.

(* false of the code before pending/C04-fix-1: one 404 on a plain-HTTP publisher and the
   retry asks "/head" (no IPNI path), is refused, latest-synced stays unset *)
Theorem retry_converges_v0_nopath_refuted :
  let w := w_plain [true] in
  let ops := [op_e [0] 1 [FOk; FNotFound]] in
  let r := op_e [0] 1 [] in
  wf_world w /\ Forall (wf_op w 1) ops /\ retry_ok w 1 r /\
  o_res (snd (step fx_without_nopath w 0 r (run fx_without_nopath w 0 ops (init [] 0)))) = RExpErr /\
  o_log (snd (step fx_without_nopath w 0 r (run fx_without_nopath w 0 ops (init [] 0)))) = [(0, true, Head, Some FOk)] /\
  s_latest (fst (step fx_without_nopath w 0 r (run fx_without_nopath w 0 ops (init [] 0)))) = 0 /\
  s_latest (fst (step fx_without_nopath w 0 r (init [] 0))) = 1 /\
  s_latest (fst (step fx_v0 w 0 r (run fx_v0 w 0 ops (init [] 0)))) = 0.
Proof. exact retry_converges_v0_nopath_refuted. Qed.
Print Assumptions retry_converges_v0_nopath_refuted.

(* false of the code before pending/C04-fix-2: addresses [alive; dead], one transport error:
   the syncer has dropped the first address for good *)
Theorem retry_converges_v0_urls_refuted :
  let w := w_plain [true; false] in
  let ops := [op_e [0; 1] 1 [FTransport]] in
  let r := op_e [0; 1] 1 [] in
  wf_world w /\ Forall (wf_op w 1) ops /\ retry_ok w 1 r /\
  o_res (snd (step fx_without_rotate w 0 r (run fx_without_rotate w 0 ops (init [] 0)))) = RExpErr /\
  o_log (snd (step fx_without_rotate w 0 r (run fx_without_rotate w 0 ops (init [] 0)))) = [(1, false, Head, None)] /\
  s_latest (fst (step fx_without_rotate w 0 r (run fx_without_rotate w 0 ops (init [] 0)))) = 0 /\
  s_latest (fst (step fx_without_rotate w 0 r (init [] 0))) = 1 /\
  s_latest (fst (step fx_v0 w 0 r (run fx_v0 w 0 ops (init [] 0)))) = 0.
Proof. exact retry_converges_v0_urls_refuted. Qed.
Print Assumptions retry_converges_v0_urls_refuted.

(* ... and a libp2phttp publisher with two healthy HTTP addresses: after one stalled
   response not a single request leaves the client *)
Theorem retry_converges_v0_urls_p2phttp_refuted :
  let w := w_p2p [true; true] in
  let ops := [op_e [0; 1] 2 [FOk; FStallHdr]] in
  let r := op_e [0; 1] 2 [] in
  wf_world w /\ Forall (wf_op w 2) ops /\ retry_ok w 2 r /\
  o_res (snd (step fx_without_rotate w 0 r (run fx_without_rotate w 0 ops (init [] 0)))) = RExpErr /\
  o_log (snd (step fx_without_rotate w 0 r (run fx_without_rotate w 0 ops (init [] 0)))) = [] /\
  s_latest (fst (step fx_without_rotate w 0 r (init [] 0))) = 2.
Proof. exact retry_converges_v0_urls_p2phttp_refuted. Qed.
Print Assumptions retry_converges_v0_urls_p2phttp_refuted.

(* false of the code before pending/C04-fix-3: the syncer cannot be made when the
   announcement arrives: no notification at all, the CID stays in the duplicate filter and the
   same announcement, repeated when the publisher is reachable, is dropped *)
Theorem async_failure_v0_makesyncer_refuted :
  let w := w_stream [true] in
  let o := op_a [0] 1 [] true in
  let r := op_a [0] 1 [] false in
  wf_world w /\ wf_op w 1 o /\ retry_ok w 1 r /\
  o_res (snd (step fx_without_announce w 0 o (init [] 0))) = RAnnSilent /\
  o_events (snd (step fx_without_announce w 0 o (init [] 0))) = [] /\
  In 1 (s_cache (fst (step fx_without_announce w 0 o (init [] 0)))) /\
  o_res (snd (step fx_without_announce w 0 r (run fx_without_announce w 0 [o] (init [] 0)))) = RAnnDropped /\
  s_latest (fst (step fx_without_announce w 0 r (run fx_without_announce w 0 [o] (init [] 0)))) = 0 /\
  s_latest (fst (step fx_without_announce w 0 r (init [] 0))) = 1.
Proof. exact async_failure_v0_makesyncer_refuted. Qed.
Print Assumptions async_failure_v0_makesyncer_refuted.
