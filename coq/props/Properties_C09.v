(* C09 - The receiver delivers an announcement iff it is allowed and not recently seen.
   Statements only; proofs in Proofs.C09_Receiver.  The model is
   Model.Announce_Receiver (duplicate filter [lru_update]/[lru_remove], sequential
   receiver semantics [seq_step]) and Model.C09_Pubsub (the watcher's attribution
   rule, [cache_cap] = announceCacheSize regenerated from receiver.go). *)
From Model Require Import Announce_Receiver C09_Pubsub.
From Gen Require Import Gen_Consts.
From Proofs Require Import C09_Receiver.
From Coq Require Import List NArith ZArith Bool.
Import ListNotations.
Open Scope nat_scope.

(* After ANY history of filter updates (accepted announcements) and un-cache calls the
   filter holds no CID twice, at most cap CIDs, and exactly a prefix of [live h]: the
   distinct CIDs of the history read backwards, skipping every CID un-cached since its
   last announcement.  Without un-cache calls it is exactly the first cap of them. *)
Theorem lru_refines_spec : forall cap h,
  1 <= cap ->
  let l := snd (lru_run cap [] h) in
  NoDup l /\ length l <= cap
  /\ l = firstn (length l) (live h)
  /\ (no_removes h = true -> l = firstn cap (live h)).
Proof. exact lru_refines_spec_lemma. Qed.
Print Assumptions lru_refines_spec.

(* With un-cache calls "exactly the first cap" is false of any bounded filter: a CID
   evicted earlier is not resurrected when a later un-cache frees a slot ... *)
Theorem lru_exact_spec_refuted_with_uncache :
  exists cap h, 1 <= cap /\ snd (lru_run cap [] h) <> firstn cap (live h).
Proof. exact exact_spec_fails_with_uncache. Qed.
Print Assumptions lru_exact_spec_refuted_with_uncache.

(* ... the guarantee that does hold for every history: a CID announced and since then
   neither announced again nor un-cached is in the filter as long as fewer than cap
   distinct CIDs were announced after it. *)
Theorem recently_seen_is_cached : forall cap h1 c h2,
  1 <= cap -> untouched c h2 = true ->
  length (nodup N.eq_dec (upds h2)) < cap ->
  memN c (snd (lru_run cap [] (h1 ++ LUpdate c :: h2))) = true.
Proof. exact recent_is_cached. Qed.
Print Assumptions recently_seen_is_cached.

(* The receiver's filter after any run of calls, whatever outcomes the scheduler chose,
   is the filter of the history of accepted announcements and un-cache calls. *)
Theorem receiver_filter_is_history_filter : forall c s h s',
  run c s h s' -> lru s' = snd (lru_run (cap c) (lru s) h).
Proof. exact receiver_filter_is_history_filter. Qed.
Print Assumptions receiver_filter_is_history_filter.

(* One announcement handed to an open receiver with a free slot is delivered iff its
   source is allowed and its CID is not in the filter; the call returns nil either way. *)
Theorem deliver_iff : forall c s allowed a,
  closed s = false -> out s = None ->
  exists s', seq_step c s (ODirect allowed a false) = [(RNil, s')]
    /\ (out s' = Some (filter_addrs c a) <-> (allowed = true /\ memN (a_cid a) (lru s) = false))
    /\ (out s' = None <-> ~ (allowed = true /\ memN (a_cid a) (lru s) = false))
    /\ closed s' = false.
Proof. exact deliver_iff_lemma. Qed.
Print Assumptions deliver_iff.

(* ... over whole histories: the filter is the one determined by the history, and a CID
   outside the first cap live CIDs of the history is always delivered when allowed. *)
Theorem deliver_iff_over_histories : forall c h s allowed a,
  1 <= cap c -> run c rinit h s -> closed s = false -> out s = None ->
  exists s', seq_step c s (ODirect allowed a false) = [(RNil, s')]
    /\ (out s' = Some (filter_addrs c a) <->
        (allowed = true /\ memN (a_cid a) (snd (lru_run (cap c) [] h)) = false))
    /\ (~ In (a_cid a) (firstn (cap c) (live h)) -> allowed = true -> out s' = Some (filter_addrs c a)).
Proof. exact deliver_iff_history. Qed.
Print Assumptions deliver_iff_over_histories.

Theorem rejected_leaves_cache : forall c s a cn,
  seq_step c s (ODirect false a cn) = [(RNil, s)].
Proof. exact rejected_leaves_cache_lemma. Qed.
Print Assumptions rejected_leaves_cache.

Theorem duplicate_refreshes_recency : forall c s a cn,
  closed s = false -> memN (a_cid a) (lru s) = true ->
  seq_step c s (ODirect true a cn) = [(RNil, set_lru s (a_cid a :: removeN (a_cid a) (lru s)))].
Proof. exact duplicate_refreshes_recency_lemma. Qed.
Print Assumptions duplicate_refreshes_recency.

Theorem uncache_makes_deliverable : forall c s a,
  1 <= cap c -> reach c s -> closed s = false -> out s = None ->
  exists s1 s2,
    seq_step c s (OUncache (a_cid a)) = [(RNil, s1)]
    /\ seq_step c s1 (ODirect true a false) = [(RNil, s2)]
    /\ out s2 = Some (filter_addrs c a).
Proof. exact uncache_makes_deliverable_lemma. Qed.
Print Assumptions uncache_makes_deliverable.

Theorem delivered_fields_unchanged : forall c a,
  a_cid (filter_addrs c a) = a_cid a /\ a_peer (filter_addrs c a) = a_peer a
  /\ (filter_ips c = false -> filter_addrs c a = a)
  /\ (forall s x cn, closed s = false -> out s = Some x ->
        forall r s', In (r, s') (seq_step c s (ONext cn)) ->
        (r = RAnn x /\ s' = set_out s None) \/ (cn = true /\ r = RCtx /\ s' = s)).
Proof. exact delivered_fields_unchanged_lemma. Qed.
Print Assumptions delivered_fields_unchanged.

Theorem filtered_addrs_public_only : forall c a,
  filter_ips c = true ->
  a_addrs (filter_addrs c a) = filter (fun x => snd x) (a_addrs a)
  /\ (forall x, In x (a_addrs (filter_addrs c a)) <-> In x (a_addrs a) /\ snd x = true).
Proof. exact filtered_addrs_public_only_lemma. Qed.
Print Assumptions filtered_addrs_public_only.

Theorem republished_attributed_to_origin : forall relay me f a,
  relay <> me -> a_peer a <> 0%N ->
  watch_decode me (republish relay a) = Some a
  /\ pop_op me f (PMsg (republish relay a)) = Some (ODirect (allows f (a_peer a)) a false).
Proof. exact republished_attributed_full. Qed.
Print Assumptions republished_attributed_to_origin.

Theorem own_republication_ignored : forall me a,
  a_peer a <> 0%N -> watch_decode me (republish me a) = None.
Proof. exact own_republication_ignored_lemma. Qed.
Print Assumptions own_republication_ignored.

(* for every peer ID, the empty one included: processed after the delivery it stems from,
   the receiver's own republication delivers nothing and changes nothing *)
Theorem own_republication_has_no_effect : forall c me f s a s1,
  1 <= cap c -> good c s -> closed s = false -> out s = None ->
  seq_step c s (ODirect true a false) = [(RNil, s1)] -> out s1 = Some (filter_addrs c a) ->
  forall sn, sn = set_out s1 None ->
  match pop_op me f (PMsg (republish me (filter_addrs c a))) with
  | None => True
  | Some o => seq_step c sn o = [(RNil, sn)]
  end.
Proof. exact own_republication_no_effect. Qed.
Print Assumptions own_republication_has_no_effect.

Theorem cache_size_is_64 : cache_cap = 64 /\ announce_announceCacheSize = 64%Z.
Proof. exact cache_size_is_64_lemma. Qed.
Print Assumptions cache_size_is_64.

(* ------------------------------------------------------------------------------------ *)
(* Composition with C10: from the bytes a sender puts on the topic to the consumer of a
   receiver.  [watch_bytes] = Receiver.watch on a raw payload: C10's decoder, then the
   bridge [msg_to_pmsg] (Message.GetAddrs over the address byte strings, peer.Decode of the
   OrigPeer text), then C09's [watch_decode].  The abstractions of CIDs, peer IDs and
   addresses to C09's numbers are arbitrary functions; the premises are the two round
   trips the real libraries provide (peer ID text, multiaddr bytes).                     *)
From Lib Require Import Bytes Cid.
From Model Require Import C10_AnnounceMsg Compose_C10_C09.
From Proofs Require Import Compose_C10_C09.
Open Scope N_scope.

(* An announcement (cid, addrs) published through p2psender by host `pub`, within the
   encoder's caps: every receiver's watcher turns the wire bytes into exactly
   (cid, pub, addrs), and on an open, drained receiver that announcement is delivered - with
   the receiver's address filter applied - iff pub is allowed and the CID not recently seen. *)
Theorem published_announce_is_delivered :
  forall (cid_no : cid -> N) (peer_decode : bytes -> option N)
         (addr_bytes : N -> bytes) (addr_parse : bytes -> aparse) (is_pub : N -> bool),
  (forall i, addr_parse (addr_bytes i) = AOk i (is_pub i)) ->
  forall scfg0 c ids data me pub,
  cid_wf c = true -> p2p_wire scfg0 (direct_msg addr_bytes c ids) = Ok data ->
  watch_bytes cid_no peer_decode addr_parse me pub data = Ok (Some (mk_ann cid_no is_pub c pub ids))
  /\ forall cf f s, closed s = false -> out s = None ->
     exists o s', arrival_op cid_no peer_decode addr_parse me f pub data = Some o
       /\ seq_step cf s o = [(RNil, s')]
       /\ (out s' = Some (mk_ann cid_no is_pub c pub (relay_ids is_pub cf ids))
           <-> (allows f pub = true /\ memN (cid_no c) (lru s) = false)).
Proof. exact published_direct_is_delivered. Qed.
Print Assumptions published_announce_is_delivered.

(* The same announcement handed to a relay receiver with WithResend and republished
   (Direct -> republish, the relay's address filter applied): the wire bytes decode to
   exactly C09's [republish] of what the relay delivered; another receiver attributes it to
   the ORIGIN and delivers it iff the origin is allowed and the CID not recently seen. *)
Theorem republished_announce_is_delivered :
  forall (cid_no : cid -> N) (peer_text : N -> bytes) (peer_decode : bytes -> option N)
         (addr_bytes : N -> bytes) (addr_parse : bytes -> aparse) (is_pub : N -> bool),
  (forall p, p <> 0 -> peer_text p <> [] /\ peer_decode (peer_text p) = Some p) ->
  (forall i, addr_parse (addr_bytes i) = AOk i (is_pub i)) ->
  forall cR relay me origin c ids data,
  cid_wf c = true -> origin <> 0 -> relay <> me ->
  enc (republish_msg peer_text addr_bytes c origin (relay_ids is_pub cR ids)) = Ok data ->
  (exists m, dec data = Ok (m, []) /\
     msg_to_pmsg cid_no peer_decode addr_parse relay m
     = Some (republish relay (filter_addrs cR (mk_ann cid_no is_pub c origin ids))))
  /\ watch_bytes cid_no peer_decode addr_parse me relay data
     = Ok (Some (mk_ann cid_no is_pub c origin (relay_ids is_pub cR ids)))
  /\ forall cf f s, closed s = false -> out s = None ->
     exists o s', arrival_op cid_no peer_decode addr_parse me f relay data = Some o
       /\ seq_step cf s o = [(RNil, s')]
       /\ (out s' = Some (mk_ann cid_no is_pub c origin (relay_ids is_pub cf (relay_ids is_pub cR ids)))
           <-> (allows f origin = true /\ memN (cid_no c) (lru s) = false)).
Proof. exact republished_is_delivered. Qed.
Print Assumptions republished_announce_is_delivered.

(* ... and the relay drops its own copy of that republication. *)
Theorem own_republication_on_the_wire_is_dropped :
  forall (cid_no : cid -> N) (peer_text : N -> bytes) (peer_decode : bytes -> option N)
         (addr_bytes : N -> bytes) (addr_parse : bytes -> aparse) (is_pub : N -> bool),
  (forall p, p <> 0 -> peer_text p <> [] /\ peer_decode (peer_text p) = Some p) ->
  (forall i, addr_parse (addr_bytes i) = AOk i (is_pub i)) ->
  forall cR relay origin c ids data f,
  cid_wf c = true -> origin <> 0 ->
  enc (republish_msg peer_text addr_bytes c origin (relay_ids is_pub cR ids)) = Ok data ->
  arrival_op cid_no peer_decode addr_parse relay f relay data = None.
Proof. exact own_republication_on_the_wire_dropped. Qed.
Print Assumptions own_republication_on_the_wire_is_dropped.

(* Anything else on the topic: the watcher never panics; bytes that do not decode, a message
   with an address that does not parse, or with an OrigPeer that is not a peer ID amount to no
   operation at all (state unchanged, nothing delivered), and the receiver's behaviour on a
   sequence of payloads is the same with or without the dropped one (the watcher goes on). *)
Theorem garbage_on_topic_is_dropped :
  forall (cid_no : cid -> N) (peer_decode : bytes -> option N) (addr_parse : bytes -> aparse),
  (forall host from data, is_panic (watch_bytes cid_no peer_decode addr_parse host from data) = false)
  /\ (forall host f from data e, dec data = Err e ->
        arrival_op cid_no peer_decode addr_parse host f from data = None)
  /\ (forall host f from data m r, dec data = Ok (m, r) ->
        get_addrs_parsed addr_parse (sl (m_addrs m)) = None ->
        arrival_op cid_no peer_decode addr_parse host f from data = None)
  /\ (forall host f from data m r, dec data = Ok (m, r) ->
        m_orig m <> [] -> peer_decode (m_orig m) = None ->
        arrival_op cid_no peer_decode addr_parse host f from data = None)
  /\ (forall host f l1 g l2,
        arrival_op cid_no peer_decode addr_parse host f (fst g) (snd g) = None ->
        arrivals_ops cid_no peer_decode addr_parse host f (l1 ++ g :: l2)
        = arrivals_ops cid_no peer_decode addr_parse host f (l1 ++ l2)).
Proof. exact garbage_on_topic_is_dropped_lemma. Qed.
Print Assumptions garbage_on_topic_is_dropped.

(* The duplicate filter is keyed by the CID: with any injective numbering of CIDs (the code
   uses Cid.String()), an announcement whose CID is not among the CIDs seen is delivered,
   whatever it shares with them - CIDv0 and CIDv1 of one digest, or two codecs over one
   multihash, are different CIDs ([same_multihash_two_cids] in the proofs). *)
Theorem unseen_cid_is_delivered_whatever_its_multihash :
  forall (cid_no : cid -> N), (forall a b, cid_no a = cid_no b -> a = b) ->
  forall cf s (seen : list cid) (c : cid) a,
  closed s = false -> out s = None ->
  lru s = map cid_no seen -> ~ In c seen -> a_cid a = cid_no c ->
  exists s', seq_step cf s (ODirect true a false) = [(RNil, s')]
    /\ out s' = Some (filter_addrs cf a).
Proof. exact unseen_cid_is_delivered. Qed.
Print Assumptions unseen_cid_is_delivered_whatever_its_multihash.

(* ---- ties to the Gallina regenerated from the Go source (proofs/GenTie_C09.v) ---- *)
From Coq Require Import ZArith NArith List Bool Lia String.
From Lib Require Import Bytes.
From Model Require Import Announce_Receiver.
From Proofs Require Import GenTie_Lib.
From Gen Require Import Gen_Consts Gen_Funcs_prelude Gen_Funcs_announce.
Import ListNotations.
Local Open Scope Z_scope.
From Proofs Require Import GenTie_C09.

Theorem gen_tie_stringLRU_update : forall (E : Type) (elem : E) (cap : nat) (c : N) (l : list N),
  match announce_stringLRU_update E elem (len l) (memN c l) (Z.of_nat cap) with
  | FReturn ret tr =>
      ret = (if fst (lru_update cap c l) then "return true" else "return false")%string /\
      lru_run c tr l = snd (lru_update cap c l)
  | _ => False
  end.
Proof. exact GenTie_C09.tie_stringLRU_update. Qed.
Print Assumptions gen_tie_stringLRU_update.

Theorem gen_tie_stringLRU_remove : forall (E : Type) (elem : E) (c : N) (l : list N),
  match announce_stringLRU_remove E elem (memN c l) with
  | FReturn ret tr =>
      ret = (if memN c l then "return true" else "return false")%string /\
      (memN c l = true -> lru_run c tr l = lru_remove c l) /\ (memN c l = false -> tr = [])
  | _ => False
  end.
Proof. exact GenTie_C09.tie_stringLRU_remove. Qed.
Print Assumptions gen_tie_stringLRU_remove.

Theorem gen_seq_step_front : forall c s allowed a cancelled,
  match model_front allowed (closed s) (fst (lru_update (cap c) (a_cid a) (lru s))) with
  | Some o => exists s', seq_step c s (ODirect allowed a cancelled) = [(o, s')]
  | None => True
  end.
Proof. exact GenTie_C09.seq_step_front. Qed.
Print Assumptions gen_seq_step_front.

Theorem gen_tie_direct_front : forall (T A : Type) (isnil : T -> bool) (allow : T) (called closed hit : bool)
    (addrs filtered : list A) (filter resend : bool) (rep : option string),
  (* allowed = no allow-callback configured, or the callback said yes *)
  go_front T A isnil allow called closed hit addrs filtered filter resend rep
  = model_front (isnil allow || called) closed hit.
Proof. exact GenTie_C09.tie_direct_front. Qed.
Print Assumptions gen_tie_direct_front.

Theorem gen_handleAnnounce_filters : forall (A : Type) (addrs filtered : list A) (filter resend : bool) rep,
  match announce_handleAnnounce_front A resend None rep addrs filtered filter with
  | FFall tr => In "amsg.Addrs = mautil.FilterPublic(amsg.Addrs)"%string tr <-> filter = true
  | _ => False
  end.
Proof. exact GenTie_C09.handleAnnounce_filters. Qed.
Print Assumptions gen_handleAnnounce_filters.

(* ------------------------------------------------------------------------------------ *)
(* Composition with C16: the sequential filter model under concurrent callers.
   [stepf]/[init]/[run] are the C16 transition system (any number of goroutines in Direct,
   UncacheCid, Close, Next and the pubsub watcher, one step per synchronisation operation);
   [filt_step] is the part of the C09 model that lives in the critical sections, state =
   (closed flag, filter); [lin] reads the filter operations off a schedule in the order of
   their critical-section steps. *)
From Lib Require Import LTS.
From Model Require C16_ReceiverClose.
From Model Require Import Compose_C09_C16.
From Proofs Require Import Compose_C09_C16.

(* For EVERY schedule the closed flag and the filter are those of the sequential filter
   machine run on the calls in lock-acquisition order. *)
Theorem lts_filter_is_sequential : forall w ls s,
  run C16_ReceiverClose.stepf (C16_ReceiverClose.init w) ls = Some s ->
  fstate_of s = snd (filt_run C16_ReceiverClose.cache_cap (false, []) (lin (C16_ReceiverClose.init w) ls)).
Proof. exact lts_filter_is_sequential_lemma. Qed.
Print Assumptions lts_filter_is_sequential.

(* The filter machine is the C09 model projected to (closed, filter): every outcome of a
   C09 call changes that pair exactly as the machine does. *)
Theorem filter_machine_is_c09_projection : forall c s o r s',
  In (r, s') (Announce_Receiver.seq_step c s o) ->
  (Announce_Receiver.closed s', Announce_Receiver.lru s') =
  match op_fop o with
  | Some f => snd (filt_step (Announce_Receiver.cap c) (Announce_Receiver.closed s, Announce_Receiver.lru s) f)
  | None => (Announce_Receiver.closed s, Announce_Receiver.lru s)
  end.
Proof. exact seq_step_filter. Qed.
Print Assumptions filter_machine_is_c09_projection.

(* Hence lru_refines_spec holds for every interleaving: the filter of the concurrent system
   is the duplicate-filter history of the linearised calls (announcements allowed and before
   Close, un-cache calls): duplicate free, at most 64, a prefix of the recency list. *)
Theorem lts_filter_refines_spec : forall w ls s,
  run C16_ReceiverClose.stepf (C16_ReceiverClose.init w) ls = Some s ->
  let h := fops_lops false (lin (C16_ReceiverClose.init w) ls) in
  C16_ReceiverClose.lru s = snd (Announce_Receiver.lru_run C16_ReceiverClose.cache_cap [] h)
  /\ NoDup (C16_ReceiverClose.lru s) /\ (length (C16_ReceiverClose.lru s) <= C16_ReceiverClose.cache_cap)%nat
  /\ C16_ReceiverClose.lru s = firstn (length (C16_ReceiverClose.lru s)) (C09_Receiver.live h)
  /\ (C09_Receiver.no_removes h = true -> C16_ReceiverClose.lru s = firstn C16_ReceiverClose.cache_cap (C09_Receiver.live h)).
Proof. exact lts_filter_refines_spec_lemma. Qed.
Print Assumptions lts_filter_refines_spec.

(* deliver_iff under concurrency: at its critical section an allowed announcement goes on
   to delivery iff its CID is not in the filter determined by the calls linearised before
   it; otherwise it is dropped as a duplicate. *)
Theorem lts_direct_passes_iff : forall w ls s t th ch s',
  run C16_ReceiverClose.stepf (C16_ReceiverClose.init w) ls = Some s ->
  C16_ReceiverClose.threads s t = Some th -> C16_ReceiverClose.t_pc th = C16_ReceiverClose.DiUpdate ->
  C16_ReceiverClose.stepf s (C16_ReceiverClose.Step t ch) = Some s' ->
  exists th', C16_ReceiverClose.threads s' t = Some th' /\
    (C16_ReceiverClose.t_pc th' = C16_ReceiverClose.DiUnlockGo <->
     Announce_Receiver.memN (C16_ReceiverClose.call_cid (C16_ReceiverClose.t_call th))
          (snd (Announce_Receiver.lru_run C16_ReceiverClose.cache_cap [] (fops_lops false (lin (C16_ReceiverClose.init w) ls)))) = false)
    /\ (C16_ReceiverClose.t_pc th' = C16_ReceiverClose.DiUnlockGo \/ C16_ReceiverClose.t_pc th' = C16_ReceiverClose.DiUnlockDup).
Proof. exact lts_direct_passes_iff_lemma. Qed.
Print Assumptions lts_direct_passes_iff.

(* After Close: the flag is final and no announcement touches the filter any more (only an
   explicit un-cache does); a Direct that started after Close returns ErrClosed. *)
Theorem closed_filter_frozen : forall w s l s',
  C16_ReceiverClose.reach w s -> C16_ReceiverClose.closed s = true -> C16_ReceiverClose.stepf s l = Some s' ->
  C16_ReceiverClose.closed s' = true /\
  (C16_ReceiverClose.lru s' = C16_ReceiverClose.lru s \/
   exists k, lin_label s l = [FUncache k] /\ C16_ReceiverClose.lru s' = Announce_Receiver.lru_remove k (C16_ReceiverClose.lru s)).
Proof. exact closed_filter_frozen_lemma. Qed.
Print Assumptions closed_filter_frozen.

Theorem late_direct_closed_and_filter_untouched : forall w s t th c r,
  C16_ReceiverClose.reach w s -> C16_ReceiverClose.threads s t = Some th ->
  C16_ReceiverClose.t_watcher th = false -> C16_ReceiverClose.t_born_closed th = true ->
  C16_ReceiverClose.t_call th = C16_ReceiverClose.CDirect true c -> C16_ReceiverClose.t_pc th = C16_ReceiverClose.Fin r ->
  r = C16_ReceiverClose.RetClosed /\ C16_ReceiverClose.closed s = true
  /\ (forall l s', C16_ReceiverClose.stepf s l = Some s' ->
        C16_ReceiverClose.closed s' = true /\
        (C16_ReceiverClose.lru s' = C16_ReceiverClose.lru s \/
         exists k, lin_label s l = [FUncache k] /\ C16_ReceiverClose.lru s' = Announce_Receiver.lru_remove k (C16_ReceiverClose.lru s))).
Proof. exact late_direct_closed_and_filter_untouched_lemma. Qed.
Print Assumptions late_direct_closed_and_filter_untouched.

(* UncacheCid is harmless at any time, also after Close: its critical section is always
   executable, only removes the CID, and the system does not panic.  (A Close that dropped the
   filter - `announceCache = nil` - has no counterpart in the model, where the filter is a
   list; the harness calls UncacheCid after Close on the real receiver.) *)
Theorem uncache_harmless_also_after_close : forall w s t th,
  C16_ReceiverClose.reach w s -> C16_ReceiverClose.threads s t = Some th ->
  C16_ReceiverClose.t_pc th = C16_ReceiverClose.UnRemove ->
  exists s', C16_ReceiverClose.stepf s (C16_ReceiverClose.Step t 0%nat) = Some s'
    /\ C16_ReceiverClose.lru s' = Announce_Receiver.lru_remove (C16_ReceiverClose.call_cid (C16_ReceiverClose.t_call th)) (C16_ReceiverClose.lru s)
    /\ C16_ReceiverClose.closed s' = C16_ReceiverClose.closed s
    /\ C16_ReceiverClose.panicked s' = false
    /\ NoDup (C16_ReceiverClose.lru s').
Proof. exact uncache_harmless_lemma. Qed.
Print Assumptions uncache_harmless_also_after_close.

(* ------------------------------------------------------------------ *)
(* Algebraic laws of the duplicate filter (proofs in Proofs.C09_LRU_Laws).  They hold for
   EVERY filter content and capacity - no reachability, NoDup or capacity premise unless one
   is written - and pin the parts of stringLRU.update / remove that lru_refines_spec leaves
   to the recency list: what a hit, a miss and an un-cache do NOT change. *)
From Proofs Require Import C09_LRU_Laws.
From Coq Require Import Permutation.

(* an immediate duplicate is a hit and leaves the filter exactly as it was *)
Theorem lru_update_twice : forall cap c l,
  let l1 := snd (lru_update cap c l) in
  lru_update cap c l1 = (true, l1).
Proof. exact lru_update_twice_lemma. Qed.
Print Assumptions lru_update_twice.

(* a hit only reorders: same keys, same size, nothing evicted *)
Theorem lru_hit_permutes : forall cap c l,
  fst (lru_update cap c l) = true ->
  Permutation (snd (lru_update cap c l)) l /\ length (snd (lru_update cap c l)) = length l.
Proof. exact lru_hit_permutes_lemma. Qed.
Print Assumptions lru_hit_permutes.

(* a miss on a full filter evicts exactly the least recently used key and keeps the others in
   order; a miss with room evicts nothing *)
Theorem lru_miss_evicts_last : forall cap c l,
  fst (lru_update cap c l) = false ->
  (length l = cap -> snd (lru_update cap c l) = c :: removelast l) /\
  (length l <> cap -> snd (lru_update cap c l) = c :: l).
Proof. exact lru_miss_evicts_last_lemma. Qed.
Print Assumptions lru_miss_evicts_last.

(* an update never introduces a key other than the one announced *)
Theorem lru_update_adds_only : forall cap c l x,
  In x (snd (lru_update cap c l)) -> x = c \/ In x l.
Proof. exact lru_update_adds_only_lemma. Qed.
Print Assumptions lru_update_adds_only.

(* un-caching one CID never changes whether another CID is a duplicate *)
Theorem lru_remove_other : forall c d l, c <> d -> memN d (lru_remove c l) = memN d l.
Proof. exact lru_remove_other_lemma. Qed.
Print Assumptions lru_remove_other.

(* un-caching twice is un-caching once *)
Theorem lru_remove_idem : forall c l, NoDup l -> lru_remove c (lru_remove c l) = lru_remove c l.
Proof. exact lru_remove_idem_lemma. Qed.
Print Assumptions lru_remove_idem.

(* the premises are met by a concrete full filter: a hit, then a miss that evicts the oldest *)
Example lru_laws_nonvacuous :
  fst (lru_update 3 2%N [1;2;3]%N) = true /\ snd (lru_update 3 2%N [1;2;3]%N) = [2;1;3]%N /\
  fst (lru_update 3 9%N [2;1;3]%N) = false /\ snd (lru_update 3 9%N [2;1;3]%N) = [9;2;1]%N.
Proof. vm_compute. repeat split. Qed.
