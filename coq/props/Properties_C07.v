(* C07 — Provider cache reads never wait for writers and see consistent snapshots.
   Only statements; proofs are in proofs/C07_PCacheConc.v.

   [reachable] is LTS.reachable over arbitrary label sequences: every theorem holds for all
   interleavings of any number of goroutines running Get / GetResults / List / Len /
   Refresh, lookups that miss (fetchMissing) and the automatic refresh, for any merge policy
   [nm], any time-to-live, with or without a refresh interval [auto], and whatever the
   sources answer (advertisement times after 1970) and whenever they answer.

   PARTIAL: freedom from data races under the Go memory model is not a theorem here; the
   model gives every atomic access and every map write its own step and proves that no
   write ever targets a published object (published_maps_immutable) and that the source
   has that shape (all_writes_private, skeleton_matches); the race detector on sampled
   schedules (harness/cmd/c07) is the evidence for the real memory model.               *)
From stdpp Require Import gmap.
From Coq Require Import ZArith NArith.
From Lib Require LTS SyncSkel.
From Lib Require Bytes.
From Model Require C17_GetResults.
From Model Require Import C06_PCache C07_PCacheConc Compose_C07_C17.
From Proofs Require Import C06_PCache C07_PCacheConc Compose_C07_C17.
From Gen Require Import Gen_Sync_pcache Gen_Writes_pcache Gen_Fields_pcache.

Notation reachable nm ttl auto := (LTS.reachable (stepf nm ttl) (ginit auto)).

(* No step writes to a map object that any pointer value ever stored (or being stored by
   this very step) refers to; such an object holds, for ever, the main / update map of the
   sequential (C06) state recorded with that Store. *)
Theorem published_maps_immutable : forall nm ttl auto s l s',
  reachable nm ttl auto s -> stepf nm ttl s l = Some s' ->
  forall v st mid uid, hist s' !! v = Some (st, mid, uid) ->
    heap s' !! mid = heap s !! mid /\ heap s' !! uid = heap s !! uid /\
    heap s' !! mid = Some (st_rm st) /\ heap s' !! uid = Some (st_ru st).
Proof. exact published_maps_immutable_l. Qed.
Print Assumptions published_maps_immutable.

(* Every result of Get / GetResults (hit or miss), List, Len equals the sequential model's
   answer (C06 [view], [listing], [len]) on ONE snapshot of the history of Stores: the one
   current at the read's Load, or for a miss the one it published (or found published)
   itself; that snapshot was current at some moment between the call and the return. *)
Theorem reads_linearise_at_load : forall nm ttl auto s t th r,
  reachable nm ttl auto s -> threads s t = Some th -> t_pc th = Fin r ->
  match r with
  | ResGet v =>
    exists st mid uid, hist s !! l_ver th = Some (st, mid, uid) /\
      view st (call_pid (t_call th)) = Some v /\ l_born th <= l_ver th <= cur_ver s
  | ResList l =>
    exists st mid uid, hist s !! l_ver th = Some (st, mid, uid) /\
      l = listing st /\ l_born th <= l_ver th <= cur_ver s
  | ResLen n =>
    exists st mid uid, hist s !! l_ver th = Some (st, mid, uid) /\
      n = len st /\ l_born th <= l_ver th <= cur_ver s
  | _ => True
  end.
Proof. exact reads_linearise_at_load_l. Qed.
Print Assumptions reads_linearise_at_load.

(* The snapshots are those of the sequential model: the ghost state advanced at each Store
   by C06's refresh / fetch_missing satisfies C06's invariants (so every C06 theorem about
   [Inv] states applies to what readers see). *)
Theorem cur_is_sequential : forall nm ttl auto s,
  reachable nm ttl auto s -> Inv (cur s) /\ Inv2 (cur s).
Proof. exact cur_is_sequential_l. Qed.
Print Assumptions cur_is_sequential.

(* Hit path: a reader (Get / GetResults for a provider in the snapshot it loaded, List, Len)
   can take its next step in EVERY reachable state — whoever holds the write slot, whatever
   source call is pending — and each step brings it strictly closer to returning: at most
   hit_measure GLoad = 4 own steps. *)
Theorem hit_path_wait_free : forall nm ttl auto s t th,
  reachable nm ttl auto s -> threads s t = Some th -> reader_pc (t_pc th) = true ->
  (t_pc th = GLookupM -> forall st mid uid, hist s !! l_ver th = Some (st, mid, uid) ->
     is_Some (view st (call_pid (t_call th)))) ->
  exists s' th', stepf nm ttl s (Step t ENone) = Some s' /\ threads s' t = Some th' /\
    hit_measure (t_pc th') < hit_measure (t_pc th).
Proof. exact hit_path_wait_free_l. Qed.
Print Assumptions hit_path_wait_free.

(* ... and no step of any other thread (nor a spawn, nor the timer) changes its record. *)
Theorem others_do_not_touch : forall nm ttl auto s l s' t th,
  reachable nm ttl auto s -> threads s t = Some th -> stepf nm ttl s l = Some s' ->
  (forall e, l <> Step t e) -> threads s' t = Some th.
Proof. exact others_do_not_touch_l. Qed.
Print Assumptions others_do_not_touch.

(* A provider visible in every snapshot that was current while the lookup ran is never
   reported missing (in particular: present before and after an update that overlaps it). *)
Theorem present_before_and_after_never_missing : forall nm ttl auto s t th v,
  reachable nm ttl auto s -> threads s t = Some th -> t_pc th = Fin (ResGet v) ->
  (forall i st mid uid, l_born th <= i <= cur_ver s -> hist s !! i = Some (st, mid, uid) ->
     is_Some (visible st (call_pid (t_call th)))) ->
  exists rcd st mid uid, v = Some rcd /\ hist s !! l_ver th = Some (st, mid, uid) /\
    visible st (call_pid (t_call th)) = Some rcd.
Proof. exact present_before_and_after_never_missing_l. Qed.
Print Assumptions present_before_and_after_never_missing.

(* Successive reads by one caller (the second call starts after the first returned) come
   from snapshots in Store order, and for a provider that stays visible in between the
   second record is never older than the first. *)
Theorem per_reader_monotone : forall nm ttl auto s t1 t2 th1 th2 r1 r2,
  reachable nm ttl auto s ->
  threads s t2 = Some th2 -> t_prev th2 = Some t1 -> threads s t1 = Some th1 ->
  call_pid (t_call th1) = call_pid (t_call th2) ->
  t_pc th1 = Fin (ResGet (Some r1)) -> t_pc th2 = Fin (ResGet (Some r2)) ->
  (forall k st mid uid, l_ver th1 <= k <= l_ver th2 -> hist s !! k = Some (st, mid, uid) ->
     is_Some (visible st (call_pid (t_call th2)))) ->
  l_ver th1 <= l_ver th2 /\ (eff_time r1 <= eff_time r2)%Z.
Proof. exact per_reader_monotone_l. Qed.
Print Assumptions per_reader_monotone.

(* One writer at a time. *)
Theorem single_writer : forall nm ttl auto s t1 t2 th1 th2,
  reachable nm ttl auto s -> threads s t1 = Some th1 -> threads s t2 = Some th2 ->
  holding (t_pc th1) = true -> holding (t_pc th2) = true -> t1 = t2.
Proof. exact single_writer_l. Qed.
Print Assumptions single_writer.

(* Automatic refresh: every start consumed a timer fire of its own (compare-and-swap on
   needsRefresh), and the timer fires again only after the goroutine that ran the previous
   automatic refresh re-armed it. *)
Theorem auto_refresh_at_most_once_per_interval : forall nm ttl auto s,
  reachable nm ttl auto s -> n_spawns s <= n_fires s /\ n_fires s <= n_rearms s + 1.
Proof. exact auto_refresh_at_most_once_per_interval_l. Qed.
Print Assumptions auto_refresh_at_most_once_per_interval.

(* ---------------------------------------------------------------- *)
(* The tie to the source, over files regenerated from /repo on every run.
   These three are decided by computation over a FINITE regenerated domain (the list of
   write sites / the skeletons of eleven functions of pcache/provider_cache.go as it is
   now); they say nothing about other code.                                           *)

(* every map (and slice element) write of provider_cache.go targets pc.write inside Refresh
   or fetchMissing, or an object allocated in the same function and not yet handed to an
   atomic Store *)
Theorem all_writes_private :
  forallb (fun w => Skel.write_site_ok (w_func w) (w_root w) (w_fresh_local w) (w_after_publish w))
          pcache_writes = true.
Proof. vm_compute. reflexivity. Qed.
Print Assumptions all_writes_private.

(* Records.  In the transition system a provider record is a VALUE inside the map objects
   (published_maps_immutable therefore fixes the records a snapshot holds for ever); in Go
   the maps hold pointers to *model.ProviderInfo objects that the write map, the published
   maps and every caller share.  That no code writes into such an object is this theorem,
   over the regenerated list of field assignments of provider_cache.go (finite domain): the
   only assignments through a pointer not allocated in the same function set one field of
   the writer-private cacheInfo entry or of the cache struct — never a field of a
   *ProviderInfo (cinfo.provider.X has depth 2), never anything read out of the read maps. *)
Theorem published_records_never_assigned :
  forallb (fun w => Skel.field_write_ok (f_root w) (f_depth w) (f_root_fresh w)) pcache_field_writes = true.
Proof. vm_compute. reflexivity. Qed.
Print Assumptions published_records_never_assigned.

(* Get, GetResults, List, Len, getReadOnly, loadReadOnly contain no lock, channel, select,
   wait-group or once operation on the hit path: only atomic accesses, control flow, calls
   to each other, a `go` statement, and — under a branch — the call that leaves the hit
   path (fetchMissing) *)
Theorem hit_path_has_no_channel_or_lock : Skel.hit_paths_ok pcache_funcs = true.
Proof. vm_compute. reflexivity. Qed.
Print Assumptions hit_path_has_no_channel_or_lock.

(* both writers take the one-slot channel first and give it back on every return path *)
Theorem writers_take_slot_first :
  Skel.takes_slot_first pcache_ProviderCache_Refresh = true /\
  Skel.takes_slot_first pcache_ProviderCache_fetchMissing = true.
Proof. vm_compute. split; reflexivity. Qed.
Print Assumptions writers_take_slot_first.

(* the synchronisation skeletons the transition system was written against are (up to the
   text of conditions) the ones the source has now *)
Theorem skeleton_matches : Skel.matches pcache_funcs = true.
Proof. vm_compute. reflexivity. Qed.
Print Assumptions skeleton_matches.

(* ---------------------------------------------------------------- *)
(* C07 o C06 o C17: result expansion.

   [payload : rec -> C17_GetResults.record] gives, for a record of the cache model (time +
   version tag), the AddrInfo / ExtendedProviders of that same *ProviderInfo object; any
   such function will do (model/Compose_C07_C17.v says why the structure is a function of
   the record's identity).  [getresults_return payload th ctx md] is what the GetResults
   call of thread [th] hands back for the context ID and metadata it was given: C17's
   [get_results] on the record getReadOnly returned, nil results for nil, or the error.   *)

(* (1) A completed GetResults(pid, ctx, md) never panicked and returned either the context
   error of a cancelled miss, or exactly C17's get_results — equal to C17's specification
   spec_results — of the ONE record C06's view of ONE snapshot holds for pid, that snapshot
   having been current between the call and its return (nil results if that snapshot holds
   a negative entry).  Main provider and extended providers therefore come from the same
   update. *)
Theorem get_results_linearises_to_c17 : forall nm ttl auto payload s t th pid ctx md out,
  reachable nm ttl auto s -> threads s t = Some th -> t_call th = CGetResults pid ->
  getresults_return payload th ctx md = Some out ->
  Bytes.is_panic out = false /\
  (out = Bytes.Err 0%N /\ t_pc th = Fin ResErr \/
   exists st mid uid,
     hist s !! l_ver th = Some (st, mid, uid) /\ l_born th <= l_ver th <= cur_ver s /\
     match view st pid with
     | Some (Some r) =>
       out = C17_GetResults.get_results (payload r) pid ctx md /\
       out = Bytes.Ok (C17_GetResults.spec_results (payload r) pid ctx md)
     | Some None => out = Bytes.Ok []
     | None => False
     end).
Proof. exact get_results_linearises_to_c17_l. Qed.
Print Assumptions get_results_linearises_to_c17.

(* (2) The miss path.  A GetResults call whose provider was not in the snapshot it loaded
   is, once the sources have answered, at TRelease (it published the entry built from the
   sources' answers: [miss_record] = the freshest record found, None if none) or at
   MReleaseHit v (another writer stored the provider meanwhile).  Its next two own steps are
   enabled in that state and it returns that very record, which is what C06's view of its
   own Store / of the current snapshot holds for pid ... *)
Theorem get_results_miss_path : forall nm ttl auto s t th pid,
  reachable nm ttl auto s -> threads s t = Some th -> t_call th = CGetResults pid ->
  (t_pc th = TRelease ->
     (exists st mid uid, hist s !! l_ver th = Some (st, mid, uid) /\
        l_born th <= l_ver th <= cur_ver s /\ view st pid = Some (miss_record ttl s th)) /\
     returns_after_two_steps nm ttl s t (miss_record ttl s th)) /\
  (forall v, t_pc th = MReleaseHit v ->
     view (cur s) pid = Some v /\ returns_after_two_steps nm ttl s t v).
Proof. exact get_results_miss_path_l. Qed.
Print Assumptions get_results_miss_path.

(* ... and what it hands back is C17's expansion of it: spec_results of the cached record,
   empty results for a negative entry. *)
Theorem get_results_miss_path_expansion : forall payload th2 pid v ctx md,
  t_call th2 = CGetResults pid -> t_pc th2 = Fin (ResGet v) ->
  getresults_return payload th2 ctx md = Some (expand payload v pid ctx md) /\
  match v with
  | Some r => expand payload v pid ctx md = Bytes.Ok (C17_GetResults.spec_results (payload r) pid ctx md)
  | None => expand payload v pid ctx md = Bytes.Ok []
  end.
Proof. exact miss_path_expansion. Qed.
Print Assumptions get_results_miss_path_expansion.

(* (3) Successive GetResults of one caller for a provider that stays cached: each is C17's
   expansion of one record, and the later call never expands an older record. *)
Theorem get_results_monotone : forall nm ttl auto payload s t1 t2 th1 th2 pid ctx1 md1 ctx2 md2 out1 out2 r1 r2,
  reachable nm ttl auto s ->
  threads s t2 = Some th2 -> t_prev th2 = Some t1 -> threads s t1 = Some th1 ->
  t_call th1 = CGetResults pid -> t_call th2 = CGetResults pid ->
  t_pc th1 = Fin (ResGet (Some r1)) -> t_pc th2 = Fin (ResGet (Some r2)) ->
  getresults_return payload th1 ctx1 md1 = Some out1 -> getresults_return payload th2 ctx2 md2 = Some out2 ->
  (forall k st mid uid, l_ver th1 <= k <= l_ver th2 -> hist s !! k = Some (st, mid, uid) ->
     is_Some (visible st pid)) ->
  out1 = C17_GetResults.get_results (payload r1) pid ctx1 md1 /\
  out2 = C17_GetResults.get_results (payload r2) pid ctx2 md2 /\
  l_ver th1 <= l_ver th2 /\ (eff_time r1 <= eff_time r2)%Z.
Proof. exact get_results_monotone_l. Qed.
Print Assumptions get_results_monotone.

(* ---- phase 2: further ties to the Gallina regenerated from the Go source (proofs/GenTie_C07.v) ---- *)
From Coq Require Import ZArith NArith List Bool Lia String.
From stdpp Require Import gmap.
From Model Require Import C06_PCache C07_PCacheConc.
From Proofs Require Import GenTie_Lib GenTie_C06.
From Gen Require Import Gen_Funcs_prelude Gen_Funcs_pcache.
Import ListNotations.
From Proofs Require Import GenTie_C07.

Theorem gen_tie_publication_decision : forall (u m : nat),
  match pcache_Refresh_merge_decision (Z.of_nat m) (Z.of_nat u) with
  | FReturn ret tr =>
      decide_next u m = TStore false /\ ret = "return nil"%string /\
      tr = ["pc.read.Store(&readOnly{m: read.m, u: updates})"; "pc.refreshes.Add(1)"]%string
  | FFall _ => decide_next u m = TAllocM
  | _ => False
  end.
Proof. exact GenTie_C07.tie_publication_decision. Qed.
Print Assumptions gen_tie_publication_decision.

Theorem gen_tie_reader_lookup_order : forall (ru rm : gmap N (option rec)) (pid : N) (v : option rec) miss,
  ru !! pid = Some v ->
  pcache_getReadOnly_lookup (option rec) miss (default None (rm !! pid)) (default None (ru !! pid))
     (bool_decide (is_Some (rm !! pid))) (bool_decide (is_Some (ru !! pid)))
  = FFall (v, []).
Proof. exact GenTie_C07.tie_reader_lookup_order. Qed.
Print Assumptions gen_tie_reader_lookup_order.
