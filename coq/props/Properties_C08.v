(* C08 -- One sync at a time per publisher; the latest announcement is never lost.
   Model: model/C08_AnnounceQueue.v (thread-level transition system of
   dagsync/subscriber.go: watch and its goroutine, asyncSyncAdChain, handle,
   SyncAdChain, sendSyncFinishedEvent, the handler map).  `reach fixed cap s`: s is
   reachable by SOME schedule (list of labels) of the repaired code with
   MaxAsyncConcurrency cap (0 = unlimited); theorems quantify over all of them, any
   number of publishers, announcements, explicit syncs, handler removals, threads.
   `reach v0 ...`: the code as found (before pending/C08-fix-*.diff). *)
From Coq Require Import List Bool Arith Permutation.
From Lib Require Import SyncSkel LTS.
From Model Require Import C08_AnnounceQueue.
From Gen Require Import Gen_Sync_dagsync.
From Proofs Require Import C08_Locks C08_AnnounceQueue C08_Hooks C08_Tie.
From Model Require Compose_C08_C01.
From Proofs Require Compose_C08_C01.
Import ListNotations.

(* ---- the tie to the source, re-checked against the regenerated skeletons ---- *)

Theorem skeleton_matches : tie_ok dagsync_funcs = true.
Proof. exact tie_holds. Qed.
Print Assumptions skeleton_matches.

Theorem lock_balance : balance_ok dagsync_funcs = true.
Proof. exact balance_holds. Qed.
Print Assumptions lock_balance.

(* every caller of handler.handle in the package (SyncAdChain, asyncSyncAdChain, syncEntries --
   i.e. SyncEntries / SyncOneEntry / SyncHAMTEntries -- and any future one) takes the
   per-publisher syncMutex before the call *)
Theorem handle_called_under_sync_lock : handle_callers_ok dagsync_funcs = true.
Proof. exact handle_callers_hold. Qed.
Print Assumptions handle_called_under_sync_lock.

Theorem handlers_mutex_nonblocking : handlers_mutex_ok dagsync_funcs = true.
Proof. exact handlers_mutex_holds. Qed.
Print Assumptions handlers_mutex_nonblocking.

(* ---- one sync at a time per publisher ---- *)

Theorem one_sync_per_publisher : forall cap s t1 t2 th1 th2,
  reach fixed cap s ->
  threads s t1 = Some th1 -> threads s t2 = Some th2 ->
  in_session (t_pc th1) = true -> in_session (t_pc th2) = true ->
  t_pub th1 = t_pub th2 -> t1 = t2.
Proof. exact one_sync_per_publisher. Qed.
Print Assumptions one_sync_per_publisher.

Theorem one_critical_section_per_publisher : forall cap s t1 t2 th1 th2,
  reach fixed cap s ->
  threads s t1 = Some th1 -> threads s t2 = Some th2 ->
  in_smu (t_pc th1) = true -> in_smu (t_pc th2) = true ->
  t_pub th1 = t_pub th2 -> t1 = t2.
Proof. exact one_critical_section_per_publisher. Qed.
Print Assumptions one_critical_section_per_publisher.

Theorem handler_unique : forall cap s t1 t2 th1 th2,
  reach fixed cap s ->
  threads s t1 = Some th1 -> threads s t2 = Some th2 ->
  has_h (t_pc th1) = true -> has_h (t_pc th2) = true ->
  t_pub th1 = t_pub th2 -> t_h th1 = t_h th2.
Proof. exact handler_unique. Qed.
Print Assumptions handler_unique.

Theorem hooks_never_interleave : forall cap s p,
  reach fixed cap s -> NoDup (compress (sess_of p (hooks s))).
Proof. exact hooks_never_interleave. Qed.
Print Assumptions hooks_never_interleave.

Theorem hook_call_inside_own_session : forall cap s t ok s' a,
  reach fixed cap s -> stepo fixed cap s (Step t ok) = Some (s', Some (YHook a)) ->
  exists th, threads s t = Some th /\ in_session (t_pc th) = true /\
    forall t2 th2, threads s t2 = Some th2 -> in_session (t_pc th2) = true -> t_pub th2 = t_pub th -> t2 = t.
Proof. exact hook_call_inside_own_session. Qed.
Print Assumptions hook_call_inside_own_session.

Theorem one_sync_per_publisher_refuted :
  exists s t1 t2 th1 th2, reach v0 0 s /\
    threads s t1 = Some th1 /\ threads s t2 = Some th2 /\
    in_session (t_pc th1) = true /\ in_session (t_pc th2) = true /\
    t_pub th1 = t_pub th2 /\ t1 <> t2.
Proof. exact one_sync_per_publisher_refuted. Qed.
Print Assumptions one_sync_per_publisher_refuted.

(* ---- no more announce-triggered syncs at once than the configured maximum ---- *)

Theorem async_bounded_by_cap : forall cap s (l : list nat),
  reach fixed cap s -> cap <> 0 -> NoDup l ->
  (forall t, In t l -> exists th, threads s t = Some th /\ is_async (t_kind th) = true /\ has_permit (t_pc th) = true) ->
  List.length l <= cap.
Proof. exact async_bounded_by_cap. Qed.
Print Assumptions async_bounded_by_cap.

Theorem async_sessions_bounded_by_cap : forall cap s (l : list nat),
  reach fixed cap s -> cap <> 0 -> NoDup l ->
  (forall t, In t l -> exists th, threads s t = Some th /\ is_async (t_kind th) = true /\ in_session (t_pc th) = true) ->
  List.length l <= cap.
Proof. exact async_sessions_bounded_by_cap. Qed.
Print Assumptions async_sessions_bounded_by_cap.

(* counting form, for every reachable state -- also while Subscriber.Close is in progress
   (label CloseBegin: s.closing closed, Close waiting for the explicit syncs; the semaphore
   wait of a queued goroutine does not end on s.closing) *)
Theorem async_syncs_bounded : forall cap s,
  reach fixed cap s -> cap <> 0 -> List.length (permits_in_use s) <= cap.
Proof. exact async_syncs_bounded. Qed.
Print Assumptions async_syncs_bounded.

Theorem async_sessions_running_bounded : forall cap s,
  reach fixed cap s -> cap <> 0 ->
  List.length (filter (fun t => match threads s t with
                                | Some th => is_async (t_kind th) && in_session (t_pc th)
                                | None => false end) (seq 0 (next_tid s))) <= cap.
Proof. exact async_sessions_running_bounded. Qed.
Print Assumptions async_sessions_running_bounded.

(* ---- the pending slot ---- *)

Theorem pending_has_taker : forall cap s h,
  reach fixed cap s ->
  (pending s h <> None <-> exists t th, threads s t = Some th /\ pretake th = true /\ t_h th = h) /\
  (forall t1 t2 th1 th2, threads s t1 = Some th1 -> threads s t2 = Some th2 ->
     pretake th1 = true -> pretake th2 = true -> t_h th1 = h -> t_h th2 = h -> t1 = t2).
Proof. exact pending_has_taker. Qed.
Print Assumptions pending_has_taker.

Theorem take_never_nil : forall cap s, reach fixed cap s -> panicked s = false.
Proof. exact take_never_nil. Qed.
Print Assumptions take_never_nil.

Theorem take_finds_message : forall cap s t th,
  reach fixed cap s -> threads s t = Some th -> t_pc th = GTake -> pending s (t_h th) <> None.
Proof. exact take_finds_message. Qed.
Print Assumptions take_finds_message.

Theorem no_deadlock : forall cap s,
  reach fixed cap s -> ~ quiescent s -> exists t, enabled fixed cap s t.
Proof. exact no_deadlock. Qed.
Print Assumptions no_deadlock.

(* ---- the latest announcement is never lost ---- *)

Theorem last_announcement_acted_on : forall cap s,
  reach fixed cap s -> quiescent s ->
  (forall h, pending s h = None) /\ (forall p, lastTaken s p = lastRecv s p) /\ panicked s = false.
Proof. exact last_announcement_acted_on. Qed.
Print Assumptions last_announcement_acted_on.

(* "last announced head" (lastRecv) counts the announcements that passed the receiver's
   allow filter: a rejected one is a no-op of the system, in every state and variant *)
Theorem rejected_announcements_are_noops : forall v cap s p c,
  stepf v cap s (AnnRejected p c) = Some s.
Proof. exact rejected_announcements_are_noops. Qed.
Print Assumptions rejected_announcements_are_noops.

(* With explicit syncs mixed in, the latest sync may also have been moved on by an
   explicit sync that completed after the last announcement was handled: that is the
   fourth disjunct; it cannot hold in announce-only histories (next theorem). *)
Theorem quiescent_latest : forall cap s p,
  reach fixed cap s -> quiescent s ->
  lastRecv s p = 0 \/ latest s p = lastRecv s p \/ In (err_event p (lastRecv s p)) (events s) \/
  (lsrc s p = true /\ nexp s = true).
Proof. exact quiescent_latest. Qed.
Print Assumptions quiescent_latest.

Theorem quiescent_latest_announce_only : forall cap s p,
  reach fixed cap s -> quiescent s -> nexp s = false ->
  lastRecv s p = 0 \/ latest s p = lastRecv s p \/ In (err_event p (lastRecv s p)) (events s).
Proof. exact quiescent_latest_announce_only. Qed.
Print Assumptions quiescent_latest_announce_only.

Theorem quiescent_latest_refuted :
  exists s p, reach v0 0 s /\ quiescent s /\ nexp s = false /\ ordered s = true /\
    ~ (lastRecv s p = 0 \/ latest s p = lastRecv s p \/ In (err_event p (lastRecv s p)) (events s)).
Proof. exact quiescent_latest_refuted. Qed.
Print Assumptions quiescent_latest_refuted.

(* ---- every advertisement in between reported exactly once ---- *)

Theorem stop_is_current : forall cap s t th,
  reach fixed cap s -> threads s t = Some th -> is_entries (t_kind th) = false -> stop_ok (t_pc th) = true ->
  t_stop th = latest s (t_pub th).
Proof. exact stop_is_current. Qed.
Print Assumptions stop_is_current.

Theorem each_ad_reported_once_announce_only : forall cap s p,
  reach fixed cap s -> quiescent s -> nexp s = false -> ordered s = true ->
  Permutation (ads_of p (hooks s)) (seq 1 (latest s p)).
Proof. exact each_ad_reported_once_announce_only. Qed.
Print Assumptions each_ad_reported_once_announce_only.

(* mixed with explicit syncs: exactly once unless some sync was handed a stop CID that
   lies beyond its head (an announcement overtaken by an explicit sync) *)
Theorem each_ad_reported_once_unless_stale : forall cap s p,
  reach fixed cap s -> quiescent s -> regress s = false ->
  Permutation (ads_of p (hooks s)) (seq 1 (latest s p)).
Proof. exact each_ad_reported_once. Qed.
Print Assumptions each_ad_reported_once_unless_stale.

Theorem each_ad_reported_once_nodup : forall cap s p,
  reach fixed cap s -> quiescent s -> regress s = false ->
  NoDup (ads_of p (hooks s)) /\ (forall a, In a (ads_of p (hooks s)) <-> 1 <= a <= latest s p).
Proof. exact each_ad_reported_once_nodup. Qed.
Print Assumptions each_ad_reported_once_nodup.

Theorem announce_only_no_regress : forall cap s,
  reach fixed cap s -> nexp s = false -> ordered s = true ->
  regress s = false /\ forall p, latest s p <= lastTaken s p <= lastRecv s p.
Proof. exact announce_only_no_regress. Qed.
Print Assumptions announce_only_no_regress.

Theorem reports_in_progress : forall cap s p,
  reach fixed cap s -> regress s = false ->
  Permutation (ads_of p (hooks s) ++ gtodo s p) (seq 1 (goal s p)).
Proof. exact reports_in_progress. Qed.
Print Assumptions reports_in_progress.

(* the code as found: two explicit syncs given the same stop report the chain twice *)
Theorem each_ad_reported_once_refuted :
  exists s, reach v0 0 s /\ quiescent s /\ regress s = false /\ ordered s = true /\
    ~ Permutation (ads_of 0 (hooks s)) (seq 1 (latest s 0)).
Proof. exact each_ad_reported_once_refuted. Qed.
Print Assumptions each_ad_reported_once_refuted.

(* the repaired code, explicit syncs mixed in, all schedules: FALSE (listed finding
   C08-stale-announce-resync): an announcement overtaken by an explicit sync is synced
   with a stop that is not an ancestor of its head *)
Theorem each_ad_reported_once_mixed_refuted :
  exists s, reach fixed 0 s /\ quiescent s /\ ordered s = true /\ nexp s = true /\
    latest s 0 = lastRecv s 0 /\
    ~ Permutation (ads_of 0 (hooks s)) (seq 1 (latest s 0)).
Proof. exact each_ad_reported_once_mixed_refuted. Qed.
Print Assumptions each_ad_reported_once_mixed_refuted.

(* ---- composition with C01, the model that owns the walk ----
   C08 treats a session's walk abstractly: heads are chain positions (1 = oldest), a session
   with head h and stop s reports h, h-1, .., s+1.  For a chain ch of C01 (newest block
   first, no block twice; positions <-> CIDs by cid_of / cids / stop_of of Compose_C04_C01):
   covered configurations = no depth limit of any kind (c08_cfg: AdsDepthLimit 0,
   FirstSyncDepth 0, no scoped depth), strict selector, prescribed hook, no explicit stop, no
   resync, no WithLastKnownSync; EVERY segment size segdl; every local store from which the
   segment can be had. *)
Module X := Model.Compose_C08_C01.
Module Y := Model.Compose_C04_C01.
Module K1 := Model.C01_ChainSync.
Module XP := Proofs.Compose_C08_C01.

(* the hook log of one session, as blocks, is C01's specified segment for (head, stop, no
   depth limit); it is what handler.handle reports for every segment size and what C01's whole
   SyncAdChain hands the hook when the latest sync is the session's stop *)
Theorem session_reports_c01_segment :
  forall cap s t th extra ch pub store segdl explicit,
  reach fixed cap s -> threads s t = Some th -> is_entries (t_kind th) = false ->
  t_ok th = true -> t_todo th = [] ->
  K1.chain_wf K1.EPrev extra ch = true -> Y.in_range ch (t_msg th) -> t_stop th <= List.length ch ->
  let head := Y.cid_of ch (t_msg th) in
  let stop := Y.stop_of ch (t_stop th) in
  let sg := K1.segment ch head stop None in
  K1.avail pub (Y.cids ch store) sg = true ->
  Y.cids ch (X.session_log s t) = sg /\
  K1.handle (K1.chain_world K1.EPrev extra ch pub) K1.VPrev stop None segdl K1.HNominate head (Y.cids ch store) =
    K1.HO sg (K1.missing (Y.cids ch store) sg) (rev (K1.missing (Y.cids ch store) sg) ++ Y.cids ch store) (List.length sg) None /\
  K1.r_hooks (K1.sync_ad_chain (K1.chain_world K1.EPrev extra ch pub) (X.c08_cfg segdl)
                  (X.c08_call explicit head) (K1.ST stop (Y.cids ch store))) = Y.cids ch (X.session_log s t).
Proof. exact XP.session_reports_c01_segment_l. Qed.
Print Assumptions session_reports_c01_segment.

(* while the session is running: reported ++ still owed = the segment *)
Theorem session_progress_c01 :
  forall cap s t th extra ch,
  reach fixed cap s -> threads s t = Some th -> is_entries (t_kind th) = false -> t_ok th = true ->
  K1.chain_wf K1.EPrev extra ch = true -> Y.in_range ch (t_msg th) -> t_stop th <= List.length ch ->
  Y.cids ch (X.session_log s t ++ t_todo th) =
  K1.segment ch (Y.cid_of ch (t_msg th)) (Y.stop_of ch (t_stop th)) None.
Proof. exact XP.session_progress_c01_l. Qed.
Print Assumptions session_progress_c01.

(* the stop a session works with is what C01's go_stop / stop_table yields for the latest
   sync at that moment *)
Theorem session_stop_is_c01_stop :
  forall cap s t th ch segdl explicit head store,
  reach fixed cap s -> threads s t = Some th -> is_entries (t_kind th) = false -> stop_ok (t_pc th) = true ->
  let st := K1.ST (Y.stop_of ch (latest s (t_pub th))) store in
  Y.stop_of ch (t_stop th) = K1.go_stop (X.c08_cfg segdl) st (X.c08_call explicit head) /\
  Y.stop_of ch (t_stop th) =
    K1.stop_table (K1.eff_latest (X.c08_cfg segdl) st) (K1.a_stop (X.c08_call explicit head))
                    (K1.a_resync (X.c08_call explicit head)).
Proof. exact XP.session_stop_is_c01_stop_l. Qed.
Print Assumptions session_stop_is_c01_stop.

(* "every advertisement in between was reported exactly once", about the blocks C01 says
   are reported: at quiescence the publisher's hook log, as blocks, has no repetition and is
   (as a set: the sessions report oldest segments first, each newest-first) exactly the chain
   from the latest sync down -- `from latest ch`, not cut since the initial latest sync is
   none -- provided no sync was handed a stop beyond its head; announce-only histories in
   chain order never are (second theorem: C01's segment with no stop and no limit) *)
Theorem each_ad_reported_once_c01 :
  forall cap s p extra ch,
  reach fixed cap s -> quiescent s -> regress s = false ->
  K1.chain_wf K1.EPrev extra ch = true -> latest s p <= List.length ch ->
  (latest s p = 0 -> X.publisher_log s p = []) /\
  (latest s p <> 0 ->
     Permutation (Y.cids ch (X.publisher_log s p)) (K1.from (Y.cid_of ch (latest s p)) ch) /\
     K1.take_until None (K1.from (Y.cid_of ch (latest s p)) ch) = K1.from (Y.cid_of ch (latest s p)) ch /\
     NoDup (Y.cids ch (X.publisher_log s p))).
Proof. exact XP.each_ad_reported_once_c01_l. Qed.
Print Assumptions each_ad_reported_once_c01.

Theorem each_ad_reported_once_c01_announce_only :
  forall cap s p extra ch,
  reach fixed cap s -> quiescent s -> nexp s = false -> ordered s = true ->
  K1.chain_wf K1.EPrev extra ch = true -> latest s p <= List.length ch -> latest s p <> 0 ->
  Permutation (Y.cids ch (X.publisher_log s p))
              (K1.segment ch (Y.cid_of ch (latest s p)) None None) /\
  NoDup (Y.cids ch (X.publisher_log s p)).
Proof. exact XP.each_ad_reported_once_c01_announce_only_l. Qed.
Print Assumptions each_ad_reported_once_c01_announce_only.

(* every call in a publisher's log is a call of one of its sessions *)
Theorem publisher_log_is_made_of_sessions :
  forall cap s p x,
  reach fixed cap s -> In x (hooks s) -> snd (fst x) = p ->
  exists th, threads s (fst (fst x)) = Some th /\ t_pub th = p /\
             In (snd x) (X.session_log s (fst (fst x))).
Proof. exact XP.publisher_log_is_made_of_sessions_l. Qed.
Print Assumptions publisher_log_is_made_of_sessions.

(* ---- phase 2: further ties to the Gallina regenerated from the Go source (proofs/GenTie_C08.v) ---- *)
From Coq Require Import ZArith NArith List Bool Lia String.
From Lib Require Import Bytes.
From Model Require Import C08_AnnounceQueue.
From Model Require C01_ChainSync.
From Proofs Require Import GenTie_Lib.
From Proofs Require GenTie_C01.
From Gen Require Import Gen_Consts Gen_Funcs_prelude Gen_Funcs_dagsync.
Import ListNotations.
Local Open Scope Z_scope.
From Proofs Require Import GenTie_C08.

Theorem gen_tie_watch_pending_slot : forall old : option nat,
  read_swap (dagsync_watch_pending_slot (option nat) (fun o => match o with None => true | Some _ => false end) old)
  = Some (swap_next old).
Proof. exact GenTie_C08.tie_watch_pending_slot. Qed.
Print Assumptions gen_tie_watch_pending_slot.

Theorem gen_model_swap_step : forall v cap (s : st) (t : nat) (th : thread) (ok : bool),
  t_pc th = WSwap ->
  exists s' y, step_thread v cap s t th ok = Some (put s' t (set_pc th (swap_next (pending s (t_h th)))), y) /\
               pending s' (t_h th) = Some (t_msg th).
Proof. exact GenTie_C08.model_swap_step. Qed.
Print Assumptions gen_model_swap_step.

Theorem gen_tie_asyncSyncAdChain_take : forall ctxerr : option string,
  dagsync_asyncSyncAdChain_take ctxerr =
  match ctxerr with
  | Some _ => FReturn "return"%string []
  | None => FFall ["amsg := h.pendingMsg.Swap(nil)"; "h.syncMutex.Lock()"]%string
  end.
Proof. exact GenTie_C08.tie_asyncSyncAdChain_take. Qed.
Print Assumptions gen_tie_asyncSyncAdChain_take.

Theorem gen_model_take_step : forall v cap (s : st) (t : nat) (th : thread) (ok : bool) (m : nat),
  t_pc th = GTake -> pending s (t_h th) = Some m ->
  exists s' y, step_thread v cap s t th ok = Some (put s' t (set_pc (set_msg th m) (if lockfix v then PLockS else PRead)), y) /\
               pending s' (t_h th) = None.
Proof. exact GenTie_C08.model_take_step. Qed.
Print Assumptions gen_model_take_step.

Theorem gen_tie_asyncSyncAdChain_limits : forall (cfg : C01_ChainSync.subcfg) (latest : option C01_ChainSync.cid),
  dagsync_asyncSyncAdChain_limits GenTie_C01.ocid GenTie_C01.RL GenTie_C01.rl_depth GenTie_C01.rl_none GenTie_C01.ocid_isnil
     latest (C01_ChainSync.rl (C01_ChainSync.c_ads_depth cfg)) (C01_ChainSync.c_first_depth cfg)
  = FFall (C01_ChainSync.go_depth cfg
             (C01_ChainSync.ADCALL None None false 0 0 None None) latest, latest).
Proof. exact GenTie_C08.tie_asyncSyncAdChain_limits. Qed.
Print Assumptions gen_tie_asyncSyncAdChain_limits.

Theorem gen_asyncSyncAdChain_outcome_table : forall err : option string,
  dagsync_asyncSyncAdChain_outcome err =
  match err with
  | Some _ => FReturn "return"%string ["h.asyncSyncFailed(nextCid, err)"]%string
  | None => FFall ["updatePeerstore()"; "h.sendSyncFinishedEvent(nextCid, syncCount)"]%string
  end.
Proof. exact GenTie_C08.asyncSyncAdChain_outcome_table. Qed.
Print Assumptions gen_asyncSyncAdChain_outcome_table.

Theorem gen_asyncSyncFailed_table : forall (R : Type) (isnil : R -> bool) (recv : R),
  dagsync_asyncSyncFailed R isnil recv =
  FFall ((if isnil recv then [] else ["h.subscriber.receiver.UncacheCid(c)"%string])
         ++ ["h.subscriber.inEvents <- SyncFinished{Cid: c, PeerID: h.peerID, Err: err}"%string])%list.
Proof. exact GenTie_C08.asyncSyncFailed_table. Qed.
Print Assumptions gen_asyncSyncFailed_table.
