(* C11 -- Metadata encoding is canonical, round-trips for any protocol set, and is safe.
   Statements only; proofs are in proofs/C11_Metadata.v; the model (of the Go code with the
   pending repairs C11-fix-1..5) is model/C11_Metadata.v. *)
From Lib Require Import Bytes Varint.
From Model Require Import C11_Metadata.
From Proofs Require Import C11_Metadata.
From Coq Require Import Permutation Sorted.
Open Scope N_scope.

(* The binary encoding of ANY collection of protocol values is the concatenation of the
   protocol encodings in ascending protocol-ID order (a permutation of what was given;
   protocols of one ID keep their construction order). *)
Theorem marshal_sorted_concat : forall ps : list proto,
  marshal ps = concat (map enc_proto (new ps))
  /\ Permutation ps (new ps)
  /\ StronglySorted (fun a b => id_of a <= id_of b) (new ps)
  /\ (forall i, filter (fun q => id_of q =? i) (new ps) = filter (fun q => id_of q =? i) ps).
Proof. exact marshal_sorted_concat_thm. Qed.
Print Assumptions marshal_sorted_concat.

(* Decoding the encoding returns the original (as New arranged it), for any number of
   well-formed protocols, known or unknown, in any construction order. *)
Theorem unmarshal_marshal : forall ps : list proto,
  ps <> [] -> forallb wf_proto ps = true -> unmarshal (marshal ps) = Ok (new ps).
Proof. exact unmarshal_marshal_thm. Qed.
Print Assumptions unmarshal_marshal.

(* The same for whatever ID-sorted arrangement of the protocols a sorting routine produces
   (Go's sort.Sort is not stable beyond 12 elements). *)
Theorem unmarshal_marshal_any_order : forall ps l : list proto,
  ps <> [] -> forallb wf_proto ps = true -> Permutation ps l -> sorted_from 0 l = true ->
  unmarshal (marshal_raw l) = Ok l /\ marshal l = marshal_raw l.
Proof. exact unmarshal_marshal_any_order_thm. Qed.
Print Assumptions unmarshal_marshal_any_order.

(* With pairwise distinct IDs the result does not depend on the construction order. *)
Theorem new_order_independent : forall l1 l2 : list proto,
  Permutation l1 l2 -> NoDup (map id_of l1) -> new l1 = new l2.
Proof. exact sorted_perm_unique_ids. Qed.
Print Assumptions new_order_independent.

(* Every protocol can be retrieved by its ID: Get returns a protocol of that ID that was
   given -- the first one constructed with that ID; the protocol itself when IDs are
   pairwise distinct.  (Get returns one value, so of two protocols with one ID only the
   first can be retrieved: see design-notes, "duplicate IDs".) *)
Theorem get_by_id : forall (ps : list proto) (p : proto),
  In p ps ->
  exists q, get (new ps) (id_of p) = Some q /\ id_of q = id_of p /\ In q ps
            /\ get ps (id_of p) = Some q
            /\ (NoDup (map id_of ps) -> q = p).
Proof. exact get_by_id_thm. Qed.
Print Assumptions get_by_id.

Theorem get_absent : forall (ps : list proto) (i : N),
  ~ In i (map id_of ps) -> get (new ps) i = None.
Proof. exact get_absent_thm. Qed.
Print Assumptions get_absent.

(* ... also in the metadata decoded from the encoding. *)
Theorem get_after_roundtrip : forall (ps : list proto) (p : proto),
  forallb wf_proto ps = true -> In p ps ->
  exists m q, unmarshal (marshal ps) = Ok m /\ get m (id_of p) = Some q /\ id_of q = id_of p
              /\ In q ps /\ (NoDup (map id_of ps) -> q = p).
Proof. exact get_after_roundtrip_thm. Qed.
Print Assumptions get_after_roundtrip.

(* Decoding arbitrary bytes (not even assumed < 256) returns metadata or an error: never a
   panic, and the fuel of the model's loop never runs out. *)
Theorem unmarshal_total_no_panic : forall b : bytes,
  (exists m, unmarshal b = Ok m) \/ (exists c, unmarshal b = Err c /\ c <> EOutOfFuel).
Proof. exact unmarshal_total_no_panic_thm. Qed.
Print Assumptions unmarshal_total_no_panic.

(* Whatever decodes re-encodes to exactly the bytes consumed (UnmarshalBinary consumes the
   whole input or fails); the decoded protocols are well-formed values in New's order. *)
Theorem unmarshal_canonical : forall (b : bytes) (m : list proto),
  wf_bytes b = true -> unmarshal b = Ok m ->
  marshal m = b /\ m <> [] /\ forallb wf_proto m = true /\ new m = m.
Proof. exact unmarshal_canonical_thm. Qed.
Print Assumptions unmarshal_canonical.

(* The ghost allocation counter of the decode path is bounded linearly in the input.
   PARTIAL with respect to the property's "never allocates beyond a bound proportional to
   the input": the counter covers the buffers go-libipni sizes from the input; what the
   third-party DAG-CBOR decoder allocates while rejecting a graphsync-filecoin payload is
   measured by the harness, not modelled (it allocates a declared string length of up to
   32 MiB before reading: reported finding).  Full statement wanted:
     forall b, wf_bytes b = true -> real_alloc (UnmarshalBinary b) <= c * |b| + k. *)
Theorem alloc_linear_partial : forall b : bytes,
  wf_bytes b = true -> unmarshal_alloc b <= 20 * N.of_nat (length b) + (max_metadata_size + 20).
Proof. exact alloc_linear_thm. Qed.
Print Assumptions alloc_linear_partial.

(* the size limit the model uses is the constant in the source (regenerated every run) *)
Theorem max_metadata_size_is_source_constant : max_metadata_size = 1024.
Proof. exact max_metadata_size_value. Qed.
Print Assumptions max_metadata_size_is_source_constant.

(* The decode path as it was before the repairs violated the property (model of the old
   code: unmarshal_v0); each witness was replayed on the real code by the harness. *)
Theorem v0_three_protocols_refuted :
  exists ps, forallb wf_proto ps = true /\ ps <> [] /\ unmarshal_v0 (marshal ps) <> Ok (new ps).
Proof. exact unmarshal_marshal_v0_refuted_offset. Qed.
Print Assumptions v0_three_protocols_refuted.

Theorem v0_protocol_after_graphsync_refuted :
  exists ps, forallb wf_proto ps = true /\ (length ps = 2)%nat /\ exists c, unmarshal_v0 (marshal ps) = Err c.
Proof. exact unmarshal_marshal_v0_refuted_graphsync. Qed.
Print Assumptions v0_protocol_after_graphsync_refuted.

Theorem v0_hostile_size_panics_refuted :
  exists b, wf_bytes b = true /\ exists c, unmarshal_v0 b = Panic c.
Proof. exact unmarshal_v0_refuted_panic. Qed.
Print Assumptions v0_hostile_size_panics_refuted.

Theorem v0_alloc_refuted :
  exists b, wf_bytes b = true /\ 1000000 * N.of_nat (length b) < snd (unmarshal_v0_full b).
Proof. exact alloc_v0_refuted. Qed.
Print Assumptions v0_alloc_refuted.

Theorem v0_unsorted_accepted_refuted :
  exists b m, wf_bytes b = true /\ unmarshal_v0 b = Ok m /\ marshal m <> b.
Proof. exact unmarshal_canonical_v0_refuted. Qed.
Print Assumptions v0_unsorted_accepted_refuted.

Theorem v0_httpv1_constructor_refuted :
  wf_proto (PUnknown id_http []) = false
  /\ marshal [PUnknown id_http []] = []
  /\ (exists c, unmarshal (marshal [PUnknown id_http []]) = Err c)
  /\ unmarshal (marshal [PBitswap; PUnknown id_http []]) = Ok [PBitswap].
Proof. exact httpv1_v0_refuted. Qed.
Print Assumptions v0_httpv1_constructor_refuted.
