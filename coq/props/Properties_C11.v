(* C11 -- Metadata encoding is canonical, round-trips for any protocol set, and is safe.
   Statements only; proofs are in proofs/C11_Metadata.v; the model (of the Go code with the
   pending repairs C11-fix-1..5) is model/C11_Metadata.v. *)
From Lib Require Import Bytes Varint.
From Model Require Import C11_Metadata.
From Proofs Require Import C11_Metadata.
From Coq Require Import Permutation Sorted.
Open Scope N_scope.

(* The binary encoding of ANY collection of protocol values is the concatenation of the
   protocol encodings in ascending protocol-ID order (a permutation of what was given;
   protocols of one ID keep their construction order). *)
Theorem marshal_sorted_concat : forall ps : list proto,
  marshal ps = concat (map enc_proto (new ps))
  /\ Permutation ps (new ps)
  /\ StronglySorted (fun a b => id_of a <= id_of b) (new ps)
  /\ (forall i, filter (fun q => id_of q =? i) (new ps) = filter (fun q => id_of q =? i) ps).
Proof. exact marshal_sorted_concat_thm. Qed.
Print Assumptions marshal_sorted_concat.

(* Decoding the encoding returns the original (as New arranged it), for any number of
   well-formed protocols, known or unknown, in any construction order. *)
Theorem unmarshal_marshal : forall ps : list proto,
  ps <> [] -> forallb wf_proto ps = true -> unmarshal (marshal ps) = Ok (new ps).
Proof. exact unmarshal_marshal_thm. Qed.
Print Assumptions unmarshal_marshal.

(* The same for whatever ID-sorted arrangement of the protocols a sorting routine produces
   (Go's sort.Sort is not stable beyond 12 elements). *)
Theorem unmarshal_marshal_any_order : forall ps l : list proto,
  ps <> [] -> forallb wf_proto ps = true -> Permutation ps l -> sorted_from 0 l = true ->
  unmarshal (marshal_raw l) = Ok l /\ marshal l = marshal_raw l.
Proof. exact unmarshal_marshal_any_order_thm. Qed.
Print Assumptions unmarshal_marshal_any_order.

(* With pairwise distinct IDs the result does not depend on the construction order. *)
Theorem new_order_independent : forall l1 l2 : list proto,
  Permutation l1 l2 -> NoDup (map id_of l1) -> new l1 = new l2.
Proof. exact sorted_perm_unique_ids. Qed.
Print Assumptions new_order_independent.

(* Every protocol can be retrieved by its ID: Get returns a protocol of that ID that was
   given -- the first one constructed with that ID; the protocol itself when IDs are
   pairwise distinct.  (Get returns one value, so of two protocols with one ID only the
   first can be retrieved: see design-notes, "duplicate IDs".) *)
Theorem get_by_id : forall (ps : list proto) (p : proto),
  In p ps ->
  exists q, get (new ps) (id_of p) = Some q /\ id_of q = id_of p /\ In q ps
            /\ get ps (id_of p) = Some q
            /\ (NoDup (map id_of ps) -> q = p).
Proof. exact get_by_id_thm. Qed.
Print Assumptions get_by_id.

Theorem get_absent : forall (ps : list proto) (i : N),
  ~ In i (map id_of ps) -> get (new ps) i = None.
Proof. exact get_absent_thm. Qed.
Print Assumptions get_absent.

(* ... also in the metadata decoded from the encoding. *)
Theorem get_after_roundtrip : forall (ps : list proto) (p : proto),
  forallb wf_proto ps = true -> In p ps ->
  exists m q, unmarshal (marshal ps) = Ok m /\ get m (id_of p) = Some q /\ id_of q = id_of p
              /\ In q ps /\ (NoDup (map id_of ps) -> q = p).
Proof. exact get_after_roundtrip_thm. Qed.
Print Assumptions get_after_roundtrip.

(* Decoding arbitrary bytes (not even assumed < 256) returns metadata or an error: never a
   panic, and the fuel of the model's loop never runs out. *)
Theorem unmarshal_total_no_panic : forall b : bytes,
  (exists m, unmarshal b = Ok m) \/ (exists c, unmarshal b = Err c /\ c <> EOutOfFuel).
Proof. exact unmarshal_total_no_panic_thm. Qed.
Print Assumptions unmarshal_total_no_panic.

(* Whatever decodes re-encodes to exactly the bytes consumed (UnmarshalBinary consumes the
   whole input or fails); the decoded protocols are well-formed values in New's order. *)
Theorem unmarshal_canonical : forall (b : bytes) (m : list proto),
  wf_bytes b = true -> unmarshal b = Ok m ->
  marshal m = b /\ m <> [] /\ forallb wf_proto m = true /\ new m = m.
Proof. exact unmarshal_canonical_thm. Qed.
Print Assumptions unmarshal_canonical.

(* The ghost allocation counter of the decode path is bounded linearly in the input.
   PARTIAL with respect to the property's "never allocates beyond a bound proportional to
   the input": the counter covers the buffers go-libipni sizes from the input; what the
   third-party DAG-CBOR decoder allocates while rejecting a graphsync-filecoin payload is
   measured by the harness, not modelled (it allocates a declared string length of up to
   32 MiB before reading: reported finding).  Full statement wanted:
     forall b, wf_bytes b = true -> real_alloc (UnmarshalBinary b) <= c * |b| + k. *)
Theorem alloc_linear_partial : forall b : bytes,
  wf_bytes b = true -> unmarshal_alloc b <= 20 * N.of_nat (length b) + (max_metadata_size + 20).
Proof. exact alloc_linear_thm. Qed.
Print Assumptions alloc_linear_partial.

(* the size limit the model uses is the constant in the source (regenerated every run) *)
Theorem max_metadata_size_is_source_constant : max_metadata_size = 1024.
Proof. exact max_metadata_size_value. Qed.
Print Assumptions max_metadata_size_is_source_constant.

(* The decode path as it was before the repairs violated the property (model of the old
   code: unmarshal_v0); each witness was replayed on the real code by the harness. *)
Theorem v0_three_protocols_refuted :
  exists ps, forallb wf_proto ps = true /\ ps <> [] /\ unmarshal_v0 (marshal ps) <> Ok (new ps).
Proof. exact unmarshal_marshal_v0_refuted_offset. Qed.
Print Assumptions v0_three_protocols_refuted.

Theorem v0_protocol_after_graphsync_refuted :
  exists ps, forallb wf_proto ps = true /\ (length ps = 2)%nat /\ exists c, unmarshal_v0 (marshal ps) = Err c.
Proof. exact unmarshal_marshal_v0_refuted_graphsync. Qed.
Print Assumptions v0_protocol_after_graphsync_refuted.

Theorem v0_hostile_size_panics_refuted :
  exists b, wf_bytes b = true /\ exists c, unmarshal_v0 b = Panic c.
Proof. exact unmarshal_v0_refuted_panic. Qed.
Print Assumptions v0_hostile_size_panics_refuted.

Theorem v0_alloc_refuted :
  exists b, wf_bytes b = true /\ 1000000 * N.of_nat (length b) < snd (unmarshal_v0_full b).
Proof. exact alloc_v0_refuted. Qed.
Print Assumptions v0_alloc_refuted.

Theorem v0_unsorted_accepted_refuted :
  exists b m, wf_bytes b = true /\ unmarshal_v0 b = Ok m /\ marshal m <> b.
Proof. exact unmarshal_canonical_v0_refuted. Qed.
Print Assumptions v0_unsorted_accepted_refuted.

Theorem v0_httpv1_constructor_refuted :
  wf_proto (PUnknown id_http []) = false
  /\ marshal [PUnknown id_http []] = []
  /\ (exists c, unmarshal (marshal [PUnknown id_http []]) = Err c)
  /\ unmarshal (marshal [PBitswap; PUnknown id_http []]) = Ok [PBitswap].
Proof. exact httpv1_v0_refuted. Qed.
Print Assumptions v0_httpv1_constructor_refuted.

(* ------------------------------------------------------------------ *)
(* The per-protocol entry points (Bitswap / IpfsGatewayHttp / GraphsyncFilecoinV1 /
   Unknown .UnmarshalBinary and .ReadFrom called directly) obey the same clauses. *)

(* UnmarshalBinary(MarshalBinary(p)) = p for every well-formed protocol value *)
Theorem proto_unmarshal_marshal : forall p : proto,
  wf_proto p = true -> proto_unmarshal (kind_of p) (enc_proto p) = Ok p.
Proof. exact proto_unmarshal_marshal_thm. Qed.
Print Assumptions proto_unmarshal_marshal.

(* what a protocol's UnmarshalBinary accepts is a value of that protocol whose encoding is
   the input -- for Unknown: a prefix of the input (it ignores what follows the payload) *)
Theorem proto_unmarshal_canonical : forall (k : pkind) (b : bytes) (p : proto),
  wf_bytes b = true -> proto_unmarshal k b = Ok p ->
  kind_of p = k /\ exists rest, b = enc_proto p ++ rest /\ (k <> KUnknown -> rest = []).
Proof. exact proto_unmarshal_canonical_thm. Qed.
Print Assumptions proto_unmarshal_canonical.

(* what a protocol's ReadFrom accepts is the encoding of the value, and the count it
   reports is the length of that encoding, all of it present in the input *)
Theorem proto_read_canonical : forall (k : pkind) (b : bytes) (p : proto) (n : nat) (a : N),
  proto_read k b = (Ok (p, n), a) -> wf_bytes b = true ->
  firstn n b = enc_proto p /\ (1 <= n <= length b)%nat /\ kind_of p = k.
Proof. exact proto_read_sound. Qed.
Print Assumptions proto_read_canonical.

(* neither entry point of any protocol panics, on any input *)
Theorem proto_entry_points_total_no_panic : forall (k : pkind) (b : bytes),
  match proto_unmarshal k b with Ok _ => True | Err c => c < 100 | Panic _ => False end
  /\ match fst (proto_read k b) with Ok _ => True | Err c => c < 100 | Panic _ => False end.
Proof. exact proto_entry_points_total_thm. Qed.
Print Assumptions proto_entry_points_total_no_panic.

(* Metadata.Equal decides equality of well-formed metadata ... *)
Theorem equal_iff_same : forall m1 m2 : list proto,
  forallb wf_proto m1 = true -> forallb wf_proto m2 = true -> (equal m1 m2 = true <-> m1 = m2).
Proof. exact equal_iff_thm. Qed.
Print Assumptions equal_iff_same.

(* ... and the round trip returns metadata Equal (both ways) to the original *)
Theorem unmarshal_marshal_equal : forall ps : list proto,
  ps <> [] -> forallb wf_proto ps = true ->
  exists m, unmarshal (marshal ps) = Ok m /\ equal (new ps) m = true /\ equal m (new ps) = true.
Proof. exact unmarshal_marshal_equal_thm. Qed.
Print Assumptions unmarshal_marshal_equal.

(* ---- ties to the Gallina regenerated from the Go source (proofs/GenTie_C11.v) ---- *)
From Coq Require Import ZArith NArith List Bool Lia String.
From Lib Require Import Bytes Varint.
From Model Require Import C11_Metadata.
From Proofs Require Import GenTie_Lib.
From Gen Require Import Gen_Consts Gen_Funcs_prelude Gen_Funcs_metadata.
Import ListNotations.
Local Open Scope Z_scope.
From Proofs Require Import GenTie_C11.

Theorem gen_tie_ids :
  metadata_Bitswap_ID = Z.of_N id_bitswap /\
  metadata_GraphsyncFilecoinV1_ID = Z.of_N id_graphsync /\
  metadata_IpfsGatewayHttp_ID = Z.of_N id_gateway.
Proof. exact GenTie_C11.tie_ids. Qed.
Print Assumptions gen_tie_ids.

Theorem gen_tie_Validate : forall m : list proto,
  metadata_Metadata_Validate proto idZ m =
  match validate m with
  | Ok _ => None
  | Err c => Some (if (c =? EEmpty)%N then "at least one transport must be specified"
                   else "metadata transports must be sorted by ID")%string
  | Panic _ => None
  end.
Proof. exact GenTie_C11.tie_Validate. Qed.
Print Assumptions gen_tie_Validate.

Theorem gen_tie_Get : forall (m : list proto) (id : N) (dflt : proto),
  metadata_Metadata_Get proto dflt idZ (Z.of_N id) m = match get m id with Some p => p | None => dflt end.
Proof. exact GenTie_C11.tie_Get. Qed.
Print Assumptions gen_tie_Get.

Theorem gen_tie_Protocols : forall m : list proto,
  metadata_Metadata_Protocols proto idZ m = map Z.of_N (protocols m).
Proof. exact GenTie_C11.tie_Protocols. Qed.
Print Assumptions gen_tie_Protocols.

Theorem gen_tie_Unknown_ReadFrom_tail : forall (usz : Z -> Z) (pl : list N) (size v n : Z) (err : option string) (p1 p2 : list N),
  match metadata_Unknown_ReadFrom_tail usz err n p1 p2 size pl v with
  | FReturn s (cnt, _) =>
      if Z.of_N max_metadata_size <? size
      then s = "return cr.readCount, ErrTooLong"%string
      else cnt = usz v + usz size + n /\ (err <> None \/ size <> n)
  | FFall (cnt, _) => (size <=? Z.of_N max_metadata_size) = true /\ err = None /\ size = n /\ cnt = usz v + usz size + n
  | _ => False
  end.
Proof. exact GenTie_C11.tie_Unknown_ReadFrom_tail. Qed.
Print Assumptions gen_tie_Unknown_ReadFrom_tail.

Theorem gen_read_unknown_decisions : forall data v k1 size k2,
  Varint.dec data = Ok (v, k1) -> Varint.dec (skipn k1 data) = Ok (size, k2) ->
  let body := firstn (N.to_nat size) (skipn (k1 + k2) data) in
  fst (read_unknown data) =
    if (max_metadata_size <? size)%N then Err ETooLong
    else if (Nat.eqb (List.length body) 0 && (0 <? size)%N)%bool then Err EEOF       (* r.Read: io.EOF *)
    else if negb (N.of_nat (List.length body) =? size)%N then Err EShort               (* size != n *)
    else Ok (PUnknown v (enc v ++ enc size ++ body)%list, (List.length (enc v) + List.length (enc size) + List.length body)%nat).
Proof. exact GenTie_C11.read_unknown_decisions. Qed.
Print Assumptions gen_read_unknown_decisions.

Theorem gen_tie_Graphsync_id_check : forall v : N,
  match metadata_GraphsyncFilecoinV1_ReadFrom_id_check (Z.of_N v) with
  | FReturn _ _ => (v =? id_graphsync)%N = false
  | FFall _ => (v =? id_graphsync)%N = true
  | _ => False
  end.
Proof. exact GenTie_C11.tie_Graphsync_id_check. Qed.
Print Assumptions gen_tie_Graphsync_id_check.

Theorem gen_tie_Graphsync_trailing : forall (data : list N) (n : Z),
  match metadata_GraphsyncFilecoinV1_UnmarshalBinary_tail data None n with
  | FReturn s _ => s = (if (n =? len data)%Z then "return nil" else "return dagcbor.ErrTrailingBytes")%string
  | _ => False
  end.
Proof. exact GenTie_C11.tie_Graphsync_trailing. Qed.
Print Assumptions gen_tie_Graphsync_trailing.

Theorem gen_tie_Bitswap_ReadFrom_tail : forall (want buf : bytes),
  match metadata_Bitswap_ReadFrom_tail want buf None (len buf) (len want) with
  | FReturn s (cnt, _) =>
      cnt = len buf /\
      s = (if negb (Nat.eqb (List.length buf) (List.length want)) then "return bRead, fmt.Errorf(""expected %d readable bytes but read %d"", wantLen, read)"
           else if Bytes.bytes_eqb buf want then "return bRead, nil"
           else "return bRead, fmt.Errorf(""transport ID does not match %s"", multicodec.TransportBitswap)")%string
  | _ => False
  end.
Proof. exact GenTie_C11.tie_Bitswap_ReadFrom_tail. Qed.
Print Assumptions gen_tie_Bitswap_ReadFrom_tail.

(* ---- phase 2: further ties to the Gallina regenerated from the Go source (proofs/GenTie_C11.v) ---- *)
From Coq Require Import ZArith NArith List Bool Lia String.
From Lib Require Import Bytes Varint.
From Model Require Import C11_Metadata.
From Proofs Require Import GenTie_Lib.
From Gen Require Import Gen_Consts Gen_Funcs_prelude Gen_Funcs_metadata.
Import ListNotations.
Local Open Scope Z_scope.
From Proofs Require Import GenTie_C11.

Theorem gen_UnmarshalBinary_step : forall (P : Type) (newbuf : list N -> list N) (newt : Z -> P) (uv : list N -> Z * Z * option string) (readfrom : P -> list N -> Z * option string) (data : list N) (K : list P -> Z -> frag (Z * list P)) (oof : frag (Z * list P)) (fuel : nat) (ps : list P) (read : Z), 0 <= read -> metadata_UnmarshalBinary_loop_loop_1 P newbuf newt uv readfrom data K oof (S fuel) ps read = (if read <? len data then let rest := skipn (Z.to_nat read) data in let (p, o) := uv rest in let (v, _) := p in match o with | Some _ => FReturn "return err" (read, ps) | None => let (n, o0) := readfrom (newt v) (newbuf rest) in match o0 with | Some _ => FReturn "return err" (read, ps) | None => metadata_UnmarshalBinary_loop_loop_1 P newbuf newt uv readfrom data K oof fuel (ps ++ [newt v]) (read + n) end end else K ps read).
Proof. exact GenTie_C11.UnmarshalBinary_step. Qed.
Print Assumptions gen_UnmarshalBinary_step.

Theorem gen_UnmarshalBinary_done : forall (P : Type) (newbuf : list N -> list N) (newt : Z -> P) (uv : list N -> Z * Z * option string) (readfrom : P -> list N -> Z * option string) (data : list N) (K : list P -> Z -> frag (Z * list P)) (oof : frag (Z * list P)) (fuel : nat) (ps : list P) (read : Z), len data <= read -> metadata_UnmarshalBinary_loop_loop_1 P newbuf newt uv readfrom data K oof (S fuel) ps read = K ps read.
Proof. exact GenTie_C11.UnmarshalBinary_done. Qed.
Print Assumptions gen_UnmarshalBinary_done.

(* ------------------------------------------------------------------ *)
(* Composition C11 x C05 (x C13): metadata travels inside signed advertisements.
   A = Model.C05_AdSignature, S = Model.C13_IpldSchema, M = Model.C11_Metadata;
   to_c13 / of_c13 / wire_encode / wire_verify are the C05 x C13 glue (Properties_C05.v),
   with_metadata a md = a with Metadata := M.marshal md, and
   wire_read_metadata = typed_load_ad ; verify_gen ; M.unmarshal of the Metadata field.
   Proofs.Compose_C05_C13.WitnessC.laws and Proofs.Compose_C11_C05.WitnessM.ex_premises show
   the premises can be met together. *)
From Lib Require Import SymCrypto.
From Model Require Import Compose_C05_C13 Compose_C11_C05.
From Proofs Require Import Compose_C05_C13 Compose_C11_C05.

(* (a) put the C11 encoding of ANY well-formed protocol set into an advertisement, Sign it,
   write it with C13's DAG-CBOR encoder; the receiver that loads the block, verifies it and
   decodes the Metadata field gets the signer and the metadata as New arranged it (Equal to
   it, every protocol retrievable by ID); the signature verifies with the same signer. *)
Theorem compose_metadata_in_signed_ad :
  forall (privkey pubkey sigt peerid : Type) (pub : privkey -> pubkey) (sign : privkey -> bytes -> sigt)
         (verify : pubkey -> bytes -> sigt -> bool) (peer_id : pubkey -> peerid)
         (peerid_eqb : peerid -> peerid -> bool) (Hf : bytes -> bytes) (decode_pid : bytes -> option peerid)
         (env_encode : envelope pubkey sigt -> bytes) (env_decode : bytes -> option (envelope pubkey sigt)),
  env_round_trip env_encode env_decode -> env_empty env_decode ->
  sealed_env_bytes_ok privkey pubkey sigt pub sign env_encode ->
  A.H_len32 Hf -> H_bytes Hf ->
  (forall a b : peerid, peerid_eqb a b = true <-> a = b) -> VerifySign pub sign verify ->
  forall (st : bool) (a a' : A.ad pubkey sigt) (k : privkey) (md : list M.proto),
  md <> [] -> forallb M.wf_proto md = true ->
  S.wf_ad (to_c13 env_encode (with_metadata a md)) = true ->
  A.sign_plain pub sign (A.ideal_H Hf) (with_metadata a md) k = Ok a' ->
  wire_read_metadata env_decode verify peer_id peerid_eqb (A.ideal_H Hf) decode_pid st (wire_encode env_encode a')
    = Ok (peer_id (pub k), M.new md)
  /\ wire_verify env_decode verify peer_id peerid_eqb (A.ideal_H Hf) decode_pid st (wire_encode env_encode a')
    = Ok (peer_id (pub k))
  /\ M.equal (M.new md) (M.new md) = true
  /\ (forall p, In p md ->
        exists q, M.get (M.new md) (M.id_of p) = Some q /\ M.id_of q = M.id_of p /\ In q md
                  /\ (NoDup (map M.id_of md) -> q = p)).
Proof. exact metadata_in_signed_ad. Qed.
Print Assumptions compose_metadata_in_signed_ad.

(* (b) the signature covers the metadata BYTES: any other byte string in the Metadata field
   of an accepted advertisement -- other protocols, the same protocols spelled differently,
   or nothing C11 can read -- gives a different block, and neither verification nor the
   receiver's pipeline accepts it. *)
Theorem compose_metadata_bytes_tamper_rejected :
  forall (pubkey sigt peerid : Type) (verify : pubkey -> bytes -> sigt -> bool) (peer_id : pubkey -> peerid)
         (peerid_eqb : peerid -> peerid -> bool) (Hf : bytes -> bytes) (decode_pid : bytes -> option peerid)
         (env_encode : envelope pubkey sigt -> bytes) (env_decode : bytes -> option (envelope pubkey sigt)),
  env_round_trip env_encode env_decode -> env_empty env_decode ->
  (forall a b : peerid, peerid_eqb a b = true <-> a = b) -> A.H_injective Hf ->
  forall (st st' : bool) (a : A.ad pubkey sigt) (s : peerid) (m' : bytes),
  A.verify_gen verify peer_id peerid_eqb (A.ideal_H Hf) decode_pid st a = Ok s ->
  m' <> A.a_md a ->
  S.wf_ad (to_c13 env_encode a) = true -> S.wf_ad (to_c13 env_encode (set_md a m')) = true ->
  wire_encode env_encode (set_md a m') <> wire_encode env_encode a
  /\ is_ok (wire_verify env_decode verify peer_id peerid_eqb (A.ideal_H Hf) decode_pid st' (wire_encode env_encode (set_md a m'))) = false
  /\ is_ok (wire_read_metadata env_decode verify peer_id peerid_eqb (A.ideal_H Hf) decode_pid st' (wire_encode env_encode (set_md a m'))) = false.
Proof. exact metadata_bytes_tamper_rejected. Qed.
Print Assumptions compose_metadata_bytes_tamper_rejected.

(* ... and for ANY bytes on the wire that decode to the accepted advertisement with other
   metadata bytes *)
Theorem compose_metadata_bytes_tamper_rejected_any_wire :
  forall (pubkey sigt peerid : Type) (verify : pubkey -> bytes -> sigt -> bool) (peer_id : pubkey -> peerid)
         (peerid_eqb : peerid -> peerid -> bool) (Hf : bytes -> bytes) (decode_pid : bytes -> option peerid)
         (env_decode : bytes -> option (envelope pubkey sigt)),
  (forall a b : peerid, peerid_eqb a b = true <-> a = b) -> A.H_injective Hf ->
  forall (st st' : bool) (a : A.ad pubkey sigt) (s : peerid) (w : bytes) (c : S.ad),
  A.verify_gen verify peer_id peerid_eqb (A.ideal_H Hf) decode_pid st a = Ok s ->
  S.typed_load_ad w = Ok c ->
  of_c13 env_decode c = set_md a (S.a_meta c) -> S.a_meta c <> A.a_md a ->
  is_ok (wire_verify env_decode verify peer_id peerid_eqb (A.ideal_H Hf) decode_pid st' w) = false
  /\ is_ok (wire_read_metadata env_decode verify peer_id peerid_eqb (A.ideal_H Hf) decode_pid st' w) = false.
Proof. exact metadata_bytes_tamper_rejected_any_wire. Qed.
Print Assumptions compose_metadata_bytes_tamper_rejected_any_wire.

(* Covering the bytes loses nothing against covering the decoded protocols: the decoded
   value determines the bytes (so two byte strings C11 reads as the same metadata are the
   same byte string; a re-spelling is a different byte string, rejected by (b)). *)
Theorem compose_metadata_value_determines_bytes : forall (m1 m2 : bytes) (v : list M.proto),
  wf_bytes m1 = true -> wf_bytes m2 = true ->
  M.unmarshal m1 = Ok v -> M.unmarshal m2 = Ok v -> m1 = m2.
Proof. exact metadata_value_determines_bytes. Qed.
Print Assumptions compose_metadata_value_determines_bytes.

(* (c) an advertisement that passes Validate carries at most MaxMetadataLen bytes of
   metadata (generated constant), C11's decoder allocates at most proportionally to that,
   and returns Ok or Err; the limit is the same number as C11's MaxMetadataSize. *)
Theorem compose_validated_ad_metadata_bounded : forall c : S.ad,
  S.validate c = true -> wf_bytes (S.a_meta c) = true ->
  N.of_nat (length (S.a_meta c)) <= max_metadata_len
  /\ M.unmarshal_alloc (S.a_meta c) <= 20 * max_metadata_len + (M.max_metadata_size + 20)
  /\ ((exists m, M.unmarshal (S.a_meta c) = Ok m) \/ (exists e, M.unmarshal (S.a_meta c) = Err e /\ e <> M.EOutOfFuel)).
Proof. exact validated_ad_metadata_bounded. Qed.
Print Assumptions compose_validated_ad_metadata_bounded.

Theorem compose_metadata_limits_agree :
  max_metadata_len = M.max_metadata_size /\ max_metadata_len = 1024.
Proof. exact metadata_limits_agree. Qed.
Print Assumptions compose_metadata_limits_agree.

(* ---- phase 3: ties to the Gallina regenerated from the Go source (proofs/GenTie_P3_C11.v) ---- *)
From Coq Require Import ZArith NArith List Bool Lia String.
From Lib Require Import Bytes Varint.
From Model Require Import C11_Metadata.
From Proofs Require Import GenTie_Lib C11_Metadata GenTie_C11.
From Gen Require Import Gen_Consts Gen_Funcs_prelude Gen_Funcs_metadata.
Import ListNotations.
Local Open Scope Z_scope.
From Proofs Require Import GenTie_P3_C11.

Theorem gen_tie_UnmarshalBinary_whole : forall (data : list N) (oof : frag (Z * list Z)), let run := metadata_UnmarshalBinary_all Z bufid idfun uvM rdM data (S (Datatypes.length data)) [] oof in match unmarshal data with | Ok l => exists r : Z, len data <= r /\ run = FReturn "return m.Validate()" (r, map idZ l) /\ metadata_Metadata_Validate Z idfun (map idZ l) = None | Err _ => (exists (r : Z) (ps : list Z), run = FReturn "return err" (r, ps)) \/ (exists (r : Z) (l : list proto), run = FReturn "return m.Validate()" (r, map idZ l) /\ metadata_Metadata_Validate Z idfun (map idZ l) <> None) | Panic _ => False end.
Proof. exact GenTie_P3_C11.tie_UnmarshalBinary_whole. Qed.
Print Assumptions gen_tie_UnmarshalBinary_whole.
