(* C13 -- Advertisements and entry chunks round-trip through IPLD with stable CIDs.
   Statements only; proofs are in proofs/C13_DagCbor.v, proofs/C13_IpldSchema.v,
   proofs/C13_Total.v. *)
From Lib Require Import Bytes Cid.
From Model Require Import C13_DagCbor C13_IpldSchema.
From Proofs Require Import C13_DagCbor C13_IpldSchema C13_Total C13_Output C13_Validate.
Open Scope N_scope.

(* ---- value <-> IPLD node (bindnode against schema.ipldsch) ---- *)

(* every advertisement (any combination of optional parts, any lists, any byte strings)
   becomes a node that the typed builder turns back into the same advertisement: an
   absent PreviousID / ExtendedProvider stays absent, a present one stays present *)
Theorem ad_node_roundtrip : forall a : ad, node_to_ad (ad_to_node a) = Ok a.
Proof. exact ad_node_roundtrip_proved. Qed.
Print Assumptions ad_node_roundtrip.

Theorem chunk_node_roundtrip : forall c : chunk, node_to_chunk (chunk_to_node c) = Ok c.
Proof. exact chunk_node_roundtrip_proved. Qed.
Print Assumptions chunk_node_roundtrip.

(* ---- DAG-CBOR ---- *)

(* every well-formed node (maps in ANY order, keys distinct) decodes from its encoding to
   the node with every map in the encoder's key order; a canonical node decodes to itself *)
Theorem dagcbor_roundtrip :
  forall n : node, wf_node n = true ->
    decode (encode n) = Ok (norm n) /\
    (canonical n = true -> decode (encode n) = Ok n) /\
    wf_node (norm n) = true.
Proof. exact dagcbor_roundtrip_full. Qed.
Print Assumptions dagcbor_roundtrip.

(* the encoding determines the node up to the order of map entries *)
Theorem encode_injective :
  forall n1 n2, wf_node n1 = true -> wf_node n2 = true -> encode n1 = encode n2 -> norm n1 = norm n2.
Proof. exact encode_injective_proved. Qed.
Print Assumptions encode_injective.

(* value -> DAG-CBOR block -> value, loaded with the typed prototype and loaded with the
   generic prototype then unwrapped *)
Theorem ad_bytes_roundtrip_cbor :
  forall a : ad, wf_ad a = true ->
    typed_load_ad (ad_encode a) = Ok a /\
    (n <- generic_load (ad_encode a) ;; unwrap_ad n) = Ok a.
Proof. exact ad_bytes_roundtrip_cbor_proved. Qed.
Print Assumptions ad_bytes_roundtrip_cbor.

Theorem chunk_bytes_roundtrip_cbor :
  forall c : chunk, wf_chunk c = true ->
    typed_load_chunk (chunk_encode c) = Ok c /\
    (n <- generic_load (chunk_encode c) ;; unwrap_chunk n) = Ok c.
Proof. exact chunk_bytes_roundtrip_cbor_proved. Qed.
Print Assumptions chunk_bytes_roundtrip_cbor.

(* ---- stable CIDs ---- *)

(* for ANY hash function H: the same value gives the same block, hence the same CID; and
   if H is injective, equal CIDs mean equal values *)
Theorem encode_deterministic :
  forall (H : bytes -> bytes) (a1 a2 : ad) (c1 c2 : chunk) (codec : N),
    (a1 = a2 -> block_cid H codec (ad_encode a1) = block_cid H codec (ad_encode a2)) /\
    (c1 = c2 -> block_cid H codec (chunk_encode c1) = block_cid H codec (chunk_encode c2)) /\
    ((forall x y, H x = H y -> x = y) ->
       (wf_ad a1 = true -> wf_ad a2 = true ->
          block_cid H codec (ad_encode a1) = block_cid H codec (ad_encode a2) -> a1 = a2) /\
       (wf_chunk c1 = true -> wf_chunk c2 = true ->
          block_cid H codec (chunk_encode c1) = block_cid H codec (chunk_encode c2) -> c1 = c2)).
Proof. exact encode_deterministic_proved. Qed.
Print Assumptions encode_deterministic.

(* ---- generic prototype vs typed prototype ---- *)

(* for ANY block the generic prototype accepts, loading with the typed prototype gives
   exactly what unwrapping the generic node gives (the same value or an error); nothing is
   claimed for blocks the generic prototype rejects *)
Theorem generic_eq_typed :
  forall (b : bytes) (n : node), generic_load b = Ok n ->
    typed_load_ad b = unwrap_ad n /\ typed_load_chunk b = unwrap_chunk n.
Proof. exact generic_eq_typed_proved. Qed.
Print Assumptions generic_eq_typed.

(* documented observation, not a violation of the property (which, for arbitrary bytes,
   asks for an error or a re-encodable value): the typed prototype accepts strictly more
   than the generic one -- a block with a repeated field is rejected by the generic
   prototype and accepted by the typed one, which concatenates the repeated list *)
Theorem typed_accepts_what_generic_rejects :
  (exists c, generic_load dup_block = Err c) /\
  typed_load_chunk dup_block = Ok {| c_entries := [[1]; [2]; [3]]; c_next := None |}.
Proof. exact typed_accepts_repeated_field_proved. Qed.
Print Assumptions typed_accepts_what_generic_rejects.

(* ---- arbitrary bytes ---- *)

(* the model decoders return Ok or Err for every byte string: never Panic, never the
   out-of-fuel class.  (For the Go decoders panic-freedom is evidenced by the malformed
   stream under recover(); see design-notes/C13.md for the one input class that kills
   the process.) *)
Theorem decode_total :
  forall b : bytes,
    match decode b with Ok _ => True | Err c => c <> EOutOfFuel | Panic _ => False end /\
    match typed_load_ad b with Ok _ => True | Err c => c <> EOutOfFuel | Panic _ => False end /\
    match typed_load_chunk b with Ok _ => True | Err c => c <> EOutOfFuel | Panic _ => False end.
Proof. exact decode_total_proved. Qed.
Print Assumptions decode_total.

(* ---- what the decoders return, for ALL inputs ---- *)

(* Premises: the input is a byte string (values < 256) of at most 33554432 bytes (the real
   decoder's allocation budget refuses structure beyond about 10 MiB anyway).
   Whatever the generic decode returns then has: byte contents, links that cid.Cast accepts,
   ints in the int64/uint64 range (wfl); total weight -- every string, key, link and list
   element accounted for -- at most the input length (wt), so no string or list is longer
   than the input; distinct keys in every map.  If it holds no float (float VALUES are not
   modelled) it is a wf_node and re-encodes to a block that decodes to it up to map order.
   NOT guaranteed by the lenient decoder: canonical form (key order, minimal heads). *)
Theorem decode_output_wf :
  forall (b : bytes) (n : node),
    wf_bytes b = true -> blen b <= MaxStr -> decode b = Ok n ->
    wfl n = true /\ (wt n <= length b)%nat /\ has_dup_deep n = false /\
    (has_float n = false -> wf_node n = true /\ decode (encode n) = Ok (norm n)).
Proof. exact decode_output_wf_proved. Qed.
Print Assumptions decode_output_wf.

(* "Decoding arbitrary bytes returns an error or a value that can be re-encoded": for ALL
   inputs (same premises) a value the typed load returns -- including one assembled from
   repeated fields, non-minimal heads, indefinite lengths, dropped tags -- is well-formed,
   and its encoding gives it back through the typed load and through generic load + unwrap.
   No shape is excluded: the schema has no float or int field, so those never reach a value. *)
Theorem typed_load_output_reencodes :
  forall b : bytes, wf_bytes b = true -> blen b <= MaxStr ->
    (forall a, typed_load_ad b = Ok a ->
       wf_ad a = true /\ typed_load_ad (ad_encode a) = Ok a /\
       (n <- generic_load (ad_encode a) ;; unwrap_ad n) = Ok a) /\
    (forall c, typed_load_chunk b = Ok c ->
       wf_chunk c = true /\ typed_load_chunk (chunk_encode c) = Ok c /\
       (n <- generic_load (chunk_encode c) ;; unwrap_chunk n) = Ok c).
Proof. exact typed_load_output_reencodes_proved. Qed.
Print Assumptions typed_load_output_reencodes.

(* ---- Advertisement.Validate and the codec ---- *)

(* Validate (context ID <= MaxContextIDLen, metadata <= MaxMetadataLen; constants read from
   schema.go by astgen) is a function of the value: storing and reloading does not change it *)
Theorem validate_preserved_by_roundtrip :
  forall a : ad, wf_ad a = true ->
    exists a', typed_load_ad (ad_encode a) = Ok a' /\ validate a' = validate a.
Proof. exact validate_preserved_by_roundtrip_proved. Qed.
Print Assumptions validate_preserved_by_roundtrip.

(* its limits lie inside what the codec carries *)
Theorem validate_within_codec_limits :
  forall a : ad, validate a = true -> blen (a_ctx a) <= MaxStr /\ blen (a_meta a) <= MaxStr.
Proof. exact validate_within_codec_limits_proved. Qed.
Print Assumptions validate_within_codec_limits.

(* the relation that does NOT hold: a decoded block need not validate (nothing on the decode
   path calls Validate): witness = an advertisement whose context ID is one byte over the limit *)
Theorem decode_does_not_imply_validate :
  wf_bytes (ad_encode over_limit_ad) = true /\
  typed_load_ad (ad_encode over_limit_ad) = Ok over_limit_ad /\
  validate over_limit_ad = false.
Proof. exact decode_does_not_imply_validate_proved. Qed.
Print Assumptions decode_does_not_imply_validate.

(* ---- phase 2: further ties to the Gallina regenerated from the Go source (proofs/GenTie_C13.v) ---- *)
From Coq Require Import ZArith NArith List Bool Lia String.
From Lib Require Import Bytes Cid.
From Model Require Import C13_DagCbor C13_IpldSchema.
From Proofs Require Import GenTie_Lib.
From Gen Require Import Gen_Consts Gen_Funcs_prelude Gen_Funcs_schema.
Import ListNotations.
Local Open Scope Z_scope.
From Proofs Require Import GenTie_C13.

Theorem gen_tie_Validate : forall a : ad,
  validate a = isNone (schema_Advertisement_Validate (a_ctx a) (a_meta a)).
Proof. exact GenTie_C13.tie_Validate. Qed.
Print Assumptions gen_tie_Validate.

Theorem gen_Validate_error_order : forall ctx md : list N,
  schema_MaxContextIDLen < len ctx ->
  schema_Advertisement_Validate ctx md = Some "context id too long"%string.
Proof. exact GenTie_C13.Validate_error_order. Qed.
Print Assumptions gen_Validate_error_order.
