(* C03 -- A chain head is accepted only when signed by the expected publisher.
   Statements only; proofs are in lib/SymCrypto.v, lib/Cid.v and proofs/C03_SignedHead.v.

   The theorems are stated inside one Section for an ARBITRARY signature scheme; the
   Section Hypotheses are the trusted idealisations (lib/SymCrypto.v).  When the section
   closes every theorem is generalised over the scheme and carries as explicit premises
   exactly the hypotheses its proof uses (see the Check output at the end).  Nothing is an
   Axiom; the hypotheses hold of the symbolic instance (Sym.laws). *)
From Lib Require Import Bytes Cid SymCrypto.
From Model Require Import C03_SignedHead.
From Proofs Require Import C03_SignedHead.
Open Scope N_scope.

(* The signed payload is the binary CID followed, with no separator, by the topic bytes.
   For well-formed CIDs it determines both parts (a CID is self-delimiting: lib/Cid.v
   parse_fmt), so bytes cannot be moved between CID and topic. *)
Theorem payload_injective :
  forall c t c' t',
    cid_wf c = true -> cid_wf c' = true ->
    payload c t = payload c' t' -> c = c' /\ topic_bytes t = topic_bytes t'.
Proof. exact payload_injective_proved. Qed.

Section C03.
  Variables privkey pubkey sigt peerid : Type.
  Variable pub : privkey -> pubkey.
  Variable sign : privkey -> bytes -> sigt.
  Variable verify : pubkey -> bytes -> sigt -> bool.
  Variable peer_id : pubkey -> peerid.
  Variable peerid_eqb : peerid -> peerid -> bool.
  (* the chain sync that follows an accepted head (subject of C01/C02): block requests, success *)
  Variable chain_sync : cid -> option cid -> list cid * bool.

  Hypothesis VS : VerifySign pub sign verify.       (* an honest signature verifies *)
  Hypothesis VU : VerifyUnique pub sign verify.     (* only the key's own signature over m verifies for m *)
  Hypothesis SI : SignInjective sign.               (* a signature determines key and message *)
  Hypothesis PI : PubInjective pub.                 (* a public key determines the private key *)
  Hypothesis PID : PeerIdInjective peer_id.         (* a peer ID determines the public key *)
  Hypothesis EQB : forall a b, peerid_eqb a b = true <-> a = b.   (* Go `!=` on peer.ID *)

  Notation validate_head := (validate_head verify peer_id).
  Notation get_head := (get_head verify peer_id peerid_eqb).
  Notation new_signed_head := (new_signed_head pub sign).
  Notation serve_head := (serve_head pub sign).
  Notation sync_ad_chain := (sync_ad_chain verify peer_id peerid_eqb chain_sync).
  Notation head := (signed_head pubkey sigt).

  (* GetHead for publisher e yields CID c  <=>  the response is a head for c whose
     signature is the signature, by the key embedded in the response, over exactly
     payload(c, its topic), and the peer ID of that key is e. *)
  Theorem head_accept_iff :
    forall (e : peerid) (resp : option head) c,
      get_head (Some e) resp = Ok c <->
      exists sh k, resp = Some sh /\ sh_cid sh = c /\ sh_key sh = KKey (pub k) /\
                   sh_sig sh = SBytes (sign k (payload c (sh_topic sh))) /\ peer_id (pub k) = e.
  Proof. apply head_accept_iff_proved; assumption. Qed.

  (* A Syncer built WITHOUT a peer ID (the ipnisync API allows it for HTTP and logs a
     warning) takes any validly self-signed head.  Never the case on the subscriber path:
     [peer_id_never_empty_on_subscriber_path]. *)
  Theorem head_accept_without_expected_peer :
    forall (resp : option head) c,
      get_head None resp = Ok c <->
      exists sh k, resp = Some sh /\ sh_cid sh = c /\ sh_key sh = KKey (pub k) /\
                   sh_sig sh = SBytes (sign k (payload c (sh_topic sh))).
  Proof. apply head_accept_no_expected_proved; assumption. Qed.

  (* Starting from what publisher k serves for (c, topic): replacing the CID, the topic
     (incl. present <-> absent; an absent and an empty topic are the same topic), the key
     or the signature by a different value, re-signing by any other key, or planting the
     key and signature of any valid head of another identity, is rejected when k's peer
     ID is the one asked for.  No response at all is rejected too. *)
  Theorem any_field_alteration_rejected :
    forall c topic k, cid_wf c = true ->
      let sh0 := new_signed_head c topic k in
      let e := peer_id (pub k) in
      (forall c', cid_wf c' = true -> c' <> c ->
         is_ok (get_head (Some e) (Some (SignedHead c' (sh_topic sh0) (sh_key sh0) (sh_sig sh0)))) = false) /\
      (forall t', topic_bytes t' <> topic_bytes (sh_topic sh0) ->
         is_ok (get_head (Some e) (Some (SignedHead c t' (sh_key sh0) (sh_sig sh0)))) = false) /\
      (forall kf, kf <> sh_key sh0 ->
         is_ok (get_head (Some e) (Some (SignedHead c (sh_topic sh0) kf (sh_sig sh0)))) = false) /\
      (forall sf, sf <> sh_sig sh0 ->
         is_ok (get_head (Some e) (Some (SignedHead c (sh_topic sh0) (sh_key sh0) sf))) = false) /\
      (forall k', k' <> k ->
         is_ok (get_head (Some e) (Some (new_signed_head c topic k'))) = false) /\
      (forall c2 topic2 k2, k2 <> k ->
         let sh2 := new_signed_head c2 topic2 k2 in
         is_ok (get_head (Some e) (Some (SignedHead c (sh_topic sh0) (sh_key sh2) (sh_sig sh2)))) = false) /\
      is_ok (get_head (Some e) None) = false.
  Proof.
    intros c topic k W sh0 e.
    pose proof (any_field_alteration_rejected_proved _ _ _ _ pub sign verify peer_id peerid_eqb VS VU SI PI PID EQB c topic k W) as H.
    cbv zeta in H. destruct H as (A & B & C & D & E & F). repeat split; assumption.
  Qed.

  (* What a publisher serves as the head for the root it was given always verifies, names
     the publisher as signer and is accepted by a client asking for that publisher; without
     a root it serves no head. *)
  Theorem published_head_verifies :
    forall c topic k,
      validate_head (new_signed_head c topic k) = Ok (peer_id (pub k)) /\
      get_head (Some (peer_id (pub k))) (serve_head (Some c) topic k) = Ok c /\
      serve_head None topic k = None.
  Proof. apply published_head_verifies_proved; assumption. Qed.

  (* SyncAdChain (no explicit head) whose head query is rejected: the call fails, the
     request log grows by exactly the head request (no request follows a rejected head) and
     latest-sync is untouched. *)
  Theorem rejected_head_no_effect :
    forall (ai : addr_info peerid) (resp : option head) st id,
      remove_id ai = Ok id -> is_ok (get_head (Some id) resp) = false ->
      let '(r, st') := sync_ad_chain ai resp st in
      is_ok r = false /\ st_latest st' = st_latest st /\ st_reqs st' = (st_reqs st ++ [RqHead])%list.
  Proof. apply rejected_head_no_effect_proved. Qed.

  (* ... and over ANY history of such calls: latest-sync is its initial value or the CID of
     a head accepted in that history; if no head of the history is accepted, no block is
     ever requested and latest-sync does not move. *)
  Theorem rejected_heads_no_effect_over_histories :
    forall calls st,
      let run := run _ _ _ verify peer_id peerid_eqb chain_sync in
      let accepted := accepted_call _ _ _ verify peer_id peerid_eqb in
      (st_latest (run calls st) = st_latest st \/
       exists call c, In call calls /\ accepted call c /\ st_latest (run calls st) = Some c) /\
      ((forall call c, In call calls -> ~ accepted call c) ->
       st_latest (run calls st) = st_latest st /\
       blocks_of (st_reqs (run calls st)) = blocks_of (st_reqs st)).
  Proof. intros calls st. apply history_latest_only_from_accepted_heads_proved. Qed.

  (* an accepted head: latest-sync becomes the head iff the sync that follows succeeds *)
  Theorem accepted_head_effect :
    forall (ai : addr_info peerid) (resp : option head) st id c,
      remove_id ai = Ok id -> get_head (Some id) resp = Ok c ->
      let '(r, st') := sync_ad_chain ai resp st in
      (r = Ok c /\ st_latest st' = Some c) \/ (is_ok r = false /\ st_latest st' = st_latest st).
  Proof. apply accepted_head_effect_proved. Qed.

  (* On the subscriber path the head query always runs with an expected peer ID: the ID
     given, else the first one carried by an address; with no ID anywhere SyncAdChain fails
     without sending any request. *)
  Theorem peer_id_never_empty_on_subscriber_path :
    forall ai : addr_info peerid,
      (forall x, subscriber_expected ai = Ok x -> exists id, x = Some id) /\
      (forall id, remove_id ai = Ok id ->
         ai_id ai = Some id \/ (ai_id ai = None /\ first_some (ai_addrs ai) = Some id /\ In (Some id) (ai_addrs ai))) /\
      (is_ok (remove_id ai) = false <-> ai_id ai = None /\ forall a, ~ In (Some a) (ai_addrs ai)) /\
      (forall (resp : option head) st, is_ok (remove_id ai) = false ->
         exists err, sync_ad_chain ai resp st = (Err err, st)).
  Proof. apply peer_id_never_empty_on_subscriber_path_proved. Qed.
  (* The publisher under concurrency (SetRoot racing with head requests).  For EVERY schedule
     of SetRoot calls, requests passing their critical section (PRead) and responses
     (PServe): each response is the head signed for the root its request read -- it verifies,
     names the publisher and is accepted by a client asking for the publisher; a request
     that reads after a SetRoot returned (and before the next one) is answered for exactly
     that root, never for an earlier one; without a root no head is served. *)
  Theorem published_head_follows_set_root :
    forall topic k evs i out,
      In (i, out) (pub_run pub sign topic k evs (PubState None [])) ->
      exists pre post, evs = pre ++ PRead i :: post /\
        let r := root_after pre None in
        out = serve_head r topic k /\
        (forall c, r = Some c ->
           exists sh, out = Some sh /\ sh_cid sh = c /\
                      validate_head sh = Ok (peer_id (pub k)) /\
                      get_head (Some (peer_id (pub k))) out = Ok c) /\
        (r = None -> out = None) /\
        (forall pre' r' mid, pre = pre' ++ PSetRoot r' :: mid ->
           (forall r'', ~ In (PSetRoot r'') mid) -> r = r').
  Proof. apply published_head_follows_set_root_proved; assumption. Qed.
End C03.

Print Assumptions published_head_follows_set_root.
Print Assumptions payload_injective.
Print Assumptions head_accept_iff.
Print Assumptions head_accept_without_expected_peer.
Print Assumptions any_field_alteration_rejected.
Print Assumptions published_head_verifies.
Print Assumptions rejected_head_no_effect.
Print Assumptions rejected_heads_no_effect_over_histories.
Print Assumptions accepted_head_effect.
Print Assumptions peer_id_never_empty_on_subscriber_path.

(* the generalised statements, with the hypotheses each theorem actually uses *)
Check head_accept_iff.
Check any_field_alteration_rejected.
Check published_head_verifies.
Check rejected_head_no_effect.
Check peer_id_never_empty_on_subscriber_path.

(* ================================================================================== *)
(* Composition with C01 (model/Compose_C03_C01.v, proofs/Compose_C03_C01.v).

   C03's model leaves the chain sync after an accepted head abstract ([chain_sync]); C01's
   model owns it but takes the queried head as a value of its call.  [signed_sync] is
   SyncAdChain without explicit head with the head query decided by C03's [get_head] and the
   rest done by C01's [C1.sync_ad_chain] (state {s_latest; s_store}; outputs hook log, request
   log, event).  [num] numbers C03's structured CIDs into C01's opaque ones. *)
From Model Require Import Compose_C03_C01.
From Proofs Require Compose_C03_C01.
Module PC := Proofs.Compose_C03_C01.

Section ComposeC01.
  Variables privkey pubkey sigt peerid : Type.
  Variable pub : privkey -> pubkey.
  Variable sign : privkey -> bytes -> sigt.
  Variable verify : pubkey -> bytes -> sigt -> bool.
  Variable peer_id : pubkey -> peerid.
  Variable peerid_eqb : peerid -> peerid -> bool.
  Variable num : Cid.cid -> C1.cid.

  Hypothesis VS : VerifySign pub sign verify.
  Hypothesis VU : VerifyUnique pub sign verify.
  Hypothesis EQB : forall a b, peerid_eqb a b = true <-> a = b.

  Notation get_head := (C3.get_head verify peer_id peerid_eqb).
  Notation signed_sync := (signed_sync verify peer_id peerid_eqb num).
  Notation run_signed := (run_signed verify peer_id peerid_eqb num).
  Notation verified := (verified verify peer_id peerid_eqb).
  Notation head := (C3.signed_head pubkey sigt).

  (* SyncAdChain without explicit head, for every chain, every subscriber configuration and
     every per-call option C01's theorem covers (stop CID, resync, scoped depth / segment size
     / hook; strict selector, prescribed hook), every latest-sync and every store:
     - if the response is a head for r signed, by the key embedded in it, over exactly
       payload(r, topic), and that key is the key of the publisher asked for (<=> get_head
       accepts: third conjunct, = head_accept_iff), the call is C01's SyncAdChain with queried
       head r: hook log = the specified segment, requests = its missing blocks, latest-sync :=
       r and SyncFinished(r, count) unless r is the stop point;
     - otherwise: error, NO hook call, NO block request, no event, latest-sync and store as
       they were (rejected_head_no_effect against C01's state and request log). *)
  Theorem signed_head_sync_meets_c01_spec :
    forall extra ch pubs cfg opts (ai : C3.addr_info peerid) (resp : option head) st id,
      C1.chain_wf C1.EPrev extra ch = true -> C1.c_strict cfg = true ->
      C1.resolve_hook cfg (C1.a_hook opts) = C1.HNominate ->
      C3.remove_id ai = Ok id ->
      let w := C1.chain_world C1.EPrev extra ch pubs in
      (forall r sh k,
         resp = Some sh -> C3.sh_cid sh = r -> C3.sh_key sh = C3.KKey (pub k) ->
         C3.sh_sig sh = C3.SBytes (sign k (C3.payload r (C3.sh_topic sh))) -> peer_id (pub k) = id ->
         In (num r) ch ->
         let stop := C1.stop_table (C1.eff_latest cfg st) (C1.a_stop opts) (C1.a_resync opts) in
         let lim := C1.depth_table (C1.c_ads_depth cfg) (C1.c_first_depth cfg) (C1.a_depth opts) stop in
         let seg := C1.segment ch (num r) stop lim in
         C1.avail pubs (C1.s_store st) seg = true ->
         signed_sync w cfg opts ai resp st =
         let moved := negb (C1.is_stop stop (num r)) in
         C1.CO (C1.ROk (num r)) seg (C1.missing (C1.s_store st) seg)
               (if moved then Some (num r, length seg) else None)
               (C1.ST (if moved then Some (num r) else C1.s_latest st)
                      (rev (C1.missing (C1.s_store st) seg) ++ C1.s_store st))) /\
      (is_ok (get_head (Some id) resp) = false ->
       signed_sync w cfg opts ai resp st = C1.CO C1.RErr [] [] None st) /\
      (is_ok (get_head (Some id) resp) = true <->
       exists r sh k, resp = Some sh /\ C3.sh_cid sh = r /\ C3.sh_key sh = C3.KKey (pub k) /\
                      C3.sh_sig sh = C3.SBytes (sign k (C3.payload r (C3.sh_topic sh))) /\ peer_id (pub k) = id).
  Proof. apply PC.signed_head_sync_meets_c01_spec_proved; assumption. Qed.

  (* Over ANY history of such calls on one Subscriber, honest and forged responses mixed, any
     options:
     (a) latest-sync is its initial value or the CID of a head that VERIFIED -- signed, by the
         key embedded in the response, over exactly its CID and topic, that key being the key
         of the publisher the call asked for (third conjunct); no premise on worlds or
         configurations;
     (b) on a chain the publisher serves, with the prescribed hook, every call was either
         rejected (no hook call, no request, no event) or reports exactly a segment of the
         chain rooted at a verified head, each block once, newest first, and requests only
         blocks it reports (C01's reported_once_newest_first / requests_are_exactly_missing). *)
  Theorem forged_head_cannot_move_latest :
    (forall w cfg l st,
       C1.s_latest (snd (run_signed w cfg l st)) = C1.s_latest st \/
       exists c r, In c l /\ verified c r /\ C1.s_latest (snd (run_signed w cfg l st)) = Some (num r)) /\
    (forall extra ch pubs cfg,
       C1.chain_wf C1.EPrev extra ch = true -> C1.c_strict cfg = true ->
       (forall x, In x ch -> C1.memb x pubs = true) ->
       forall l st,
         (forall c, In c l -> C1.resolve_hook cfg (C1.a_hook (snd c)) = C1.HNominate) ->
         (forall c r, In c l -> verified c r -> In (num r) ch) ->
         forall c o, In (c, o) (fst (run_signed (C1.chain_world C1.EPrev extra ch pubs) cfg l st)) ->
           (o = rejected (C1.r_state o) /\ forall r, ~ verified c r) \/
           (exists r stop lim, verified c r /\ C1.r_ret o = C1.ROk (num r) /\
              C1.r_hooks o = C1.segment ch (num r) stop lim /\ NoDup (C1.r_hooks o) /\
              (exists post, C1.from (num r) ch = C1.r_hooks o ++ post) /\
              (forall x, In x (C1.r_reqs o) -> In x (C1.r_hooks o)))) /\
    (forall (ai : C3.addr_info peerid) (resp : option head) opts r,
       verified (ai, resp, opts) r <->
       exists id sh k, C3.remove_id ai = Ok id /\ resp = Some sh /\ C3.sh_cid sh = r /\
                       C3.sh_key sh = C3.KKey (pub k) /\
                       C3.sh_sig sh = C3.SBytes (sign k (C3.payload r (C3.sh_topic sh))) /\ peer_id (pub k) = id).
  Proof.
    split; [|split].
    - intros w cfg. apply PC.latest_only_verified_heads_proved.
    - intros extra ch pubs cfg H1 H2 H3. apply PC.hook_logs_only_verified_segments_proved; assumption.
    - intros. apply (PC.verified_iff_proved _ _ _ _ pub sign verify peer_id peerid_eqb VS VU EQB).
  Qed.

  (* The bridge between the two state types.  C03's {st_latest; st_reqs} and C01's
     {s_latest; s_store} + request log are related by
       latest_rel : option_map num (st_latest) = C1.eff_latest cfg (what GetLatestSync answers),
     the numbering is injective, and C03's abstract [chain_sync] is C01's sync seen through the
     numbering (block list numbers to C01's request log, success flag = C01's return).  Then for
     the plain call C03's model is a projection of the composed one: same verdict, related
     latest-sync afterwards, block requests that number to C01's request log, one head
     request iff a peer ID resolves. *)
  Theorem c03_model_is_projection_of_composed :
    (forall a b, num a = num b -> a = b) ->
    forall w cfg (ai : C3.addr_info peerid) (resp : option head) (st3 : C3.sub_state) (st1 : C1.substate)
           (chain_sync : Cid.cid -> option Cid.cid -> list Cid.cid * bool),
      latest_rel num cfg st3 st1 ->
      (forall id c, C3.remove_id ai = Ok id -> get_head (Some id) resp = Ok c ->
         C1.is_stop (C1.eff_latest cfg st1) (num c) = false ->
         let o1 := C1.sync_ad_chain w cfg (query_call plain_opts (Some (num c))) st1 in
         map num (fst (chain_sync c (C3.st_latest st3))) = C1.r_reqs o1 /\
         snd (chain_sync c (C3.st_latest st3)) = ret_is_ok (C1.r_ret o1)) ->
      let o := signed_sync w cfg plain_opts ai resp st1 in
      let r3 := fst (C3.sync_ad_chain verify peer_id peerid_eqb chain_sync ai resp st3) in
      let st3' := snd (C3.sync_ad_chain verify peer_id peerid_eqb chain_sync ai resp st3) in
      ret_rel num r3 (C1.r_ret o) /\
      latest_rel num cfg st3' (C1.r_state o) /\
      map num (C3.blocks_of (C3.st_reqs st3')) = map num (C3.blocks_of (C3.st_reqs st3)) ++ C1.r_reqs o /\
      C3.count_heads (C3.st_reqs st3') = (C3.count_heads (C3.st_reqs st3) + head_requests ai)%N.
  Proof. intro Hinj. apply PC.c03_model_is_projection_proved; assumption. Qed.
End ComposeC01.

Print Assumptions signed_head_sync_meets_c01_spec.
Print Assumptions forged_head_cannot_move_latest.
Print Assumptions c03_model_is_projection_of_composed.
Check signed_head_sync_meets_c01_spec.
Check forged_head_cannot_move_latest.

(* ---- ties to the Gallina regenerated from the Go source (proofs/GenTie_C03.v) ---- *)
From Coq Require Import ZArith NArith List Bool Lia String.
From Lib Require Import Bytes Cid.
From Model Require Import C03_SignedHead.
From Proofs Require Import GenTie_Lib.
From Gen Require Import Gen_Consts Gen_Funcs_prelude Gen_Funcs_head Gen_Funcs_ipnisync.
Import ListNotations.
Local Open Scope Z_scope.
From Proofs Require Import GenTie_C03.

Theorem gen_tie_Validate_payload : forall (c : cid) (t : option bytes),
  head_Validate_payload (Cid.fmt c) t = FFall (payload c t).
Proof. exact GenTie_C03.tie_Validate_payload. Qed.
Print Assumptions gen_tie_Validate_payload.

Theorem gen_tie_Sign_payload : forall (c : cid) (t : option bytes),
  head_Sign_payload (Cid.fmt c) t = FFall (payload c t).
Proof. exact GenTie_C03.tie_Sign_payload. Qed.
Print Assumptions gen_tie_Sign_payload.

Theorem gen_Validate_payload_no_panic : forall cb t, head_Validate_payload cb t <> FPanic.
Proof. exact GenTie_C03.Validate_payload_no_panic. Qed.
Print Assumptions gen_Validate_payload_no_panic.

Theorem gen_tie_Validate_guards : forall sg pk : list N,
  guard_class (head_Validate_guards pk sg) =
  if is_nil sg then Some ENoSig else if is_nil pk then Some ENoKey else None.
Proof. exact GenTie_C03.tie_Validate_guards. Qed.
Print Assumptions gen_tie_Validate_guards.

Theorem gen_tie_GetHead_signer_check : forall (signer : bytes) (expected : option bytes),
  (forall e, expected = Some e -> e <> []) ->          (* a peer ID is never the empty string *)
  signer_ok (ipnisync_GetHead_signer_check (match expected with Some e => e | None => [] end) signer)
  = Some (match expected with None => true | Some e => Bytes.bytes_eqb signer e end).
Proof. exact GenTie_C03.tie_GetHead_signer_check. Qed.
Print Assumptions gen_tie_GetHead_signer_check.

(* ---- phase 2: further ties to the Gallina regenerated from the Go source (proofs/GenTie_C03.v) ---- *)
From Coq Require Import ZArith NArith List Bool Lia String.
From Lib Require Import Bytes Cid.
From Model Require Import C03_SignedHead.
From Proofs Require Import GenTie_Lib.
From Gen Require Import Gen_Consts Gen_Funcs_prelude Gen_Funcs_head Gen_Funcs_ipnisync.
Import ListNotations.
Local Open Scope Z_scope.
From Proofs Require Import GenTie_C03.

Theorem gen_tie_Validate_verify : forall (ok : bool) (err : option string),
  match head_Validate_verify (ok, err) with
  | FFall _ => ok = true /\ err = None
  | FReturn s _ => (ok = false \/ err <> None) /\
                   (err = None -> s = "return """", ErrBadSignature"%string)
  | _ => False
  end.
Proof. exact GenTie_C03.tie_Validate_verify. Qed.
Print Assumptions gen_tie_Validate_verify.
