(* C10 - Announce messages survive encoding, and decoding is total.
   Statements only; proofs are in Proofs.C10_AnnounceMsg and Lib.{Cbor,Cid}.
   [enc] is Message.MarshalCBOR with pending/C10-fix-cid-cap.diff, [dec] is
   Message.UnmarshalCBOR, [dec_alloc] its ghost allocation counter, [http_wire] /
   [p2p_wire] what the two senders put on the wire.  The JSON encoding is not
   modelled (exercised on the real code by the harness only). *)
From Lib Require Import Bytes Varint Cid Cbor.
From Model Require Import C10_AnnounceMsg.
From Proofs Require Import C10_AnnounceMsg.
Open Scope N_scope.

(* Every message the encoder accepts decodes, from its encoding followed by any
   bytes, to the same message up to Go's nil/empty normalisation, leaving exactly
   those bytes unread. *)
Theorem dec_enc : forall m b r,
  wf_msg m = true -> enc m = Ok b -> dec (b ++ r) = Ok (norm m, r).
Proof. exact dec_enc_lemma. Qed.
Print Assumptions dec_enc.

(* "within the encoder's size caps" is exactly: CID defined and at most 511 bytes,
   at most 8192 addresses of at most 2 MiB each, extra data at most 2 MiB, origin at
   most 8192 bytes. *)
Theorem enc_ok_iff_within_caps : forall m, is_ok (enc m) = within_caps m.
Proof. exact enc_ok_iff_within_caps. Qed.
Print Assumptions enc_ok_iff_within_caps.

(* Decoding any byte string returns a message or an error; it never panics (in
   particular every make() is reached only with a length below its cap). *)
Theorem dec_total : forall b,
  is_panic (dec b) = false /\ ((exists m r, dec b = Ok (m, r)) \/ (exists c, dec b = Err c)).
Proof. exact dec_total_full. Qed.
Print Assumptions dec_total.

(* Whatever decodes re-encodes - to the very bytes consumed, or to their 3-field form
   when the input had four fields with an empty origin - and decodes from that
   encoding to itself; decoded messages are normalised and well formed. *)
Theorem dec_reenc : forall b m r,
  wf_bytes b = true -> dec b = Ok (m, r) ->
  exists b', enc m = Ok b'
    /\ dec b' = Ok (m, [])
    /\ norm m = m /\ wf_msg m = true
    /\ (b = b' ++ r \/
        (m_orig m = [] /\ exists body, b' = 131 :: body /\ b = 132 :: body ++ 96 :: r)).
Proof. exact dec_reenc_lemma. Qed.
Print Assumptions dec_reenc.

(* The decoder never requests more memory than the input length plus the fixed caps
   (24 bytes per slice header times MaxLength, plus one ByteArrayMaxLen). *)
Theorem dec_alloc_bounded : forall b,
  dec_alloc b <= blen b + SliceHeader * MaxLength + ByteArrayMaxLen.
Proof. exact dec_alloc_bounded_lemma. Qed.
Print Assumptions dec_alloc_bounded.

(* The origin is a fourth field exactly when it is non-empty; a 3-field input has no
   origin; a 4-field input is its 3-field reading followed by a (possibly empty) text. *)
Theorem three_vs_four_fields :
  (forall m b, enc m = Ok b ->
     match m_orig m with
     | [] => exists body, b = 131 :: body
     | o => exists body, enc (set_orig m []) = Ok (131 :: body) /\ b = 132 :: body ++ wr_text o
     end)
  /\ (forall body m r, dec (131 :: body) = Ok (m, r) -> m_orig m = [])
  /\ (forall body m r, dec (132 :: body) = Ok (m, r) ->
        exists r', dec (131 :: body) = Ok (set_orig m [], r') /\ rd_text MaxLength r' = Ok (m_orig m, r)).
Proof. exact three_vs_four_lemma. Qed.
Print Assumptions three_vs_four_fields.

(* What a receiver decodes from the body httpsender.Send posts: the same CID and
   origin, the configured extra data if any, and each known-protocol address in
   order with /p2p/<publisher> appended (the bare /p2p/<publisher> when the message
   had addresses but none with known protocols); and Send posts only when no address
   is invalid. *)
Theorem sender_wire : forall cfg m body,
  cmsg_wf m = true -> s_p2p cfg <> [] ->
  http_wire cfg m = Ok body ->
  no_invalid (c_addrs m) = true /\
  dec body = Ok (Msg (c_cid m)
                     (mk_sl (map Some (expected_addrs (s_p2p cfg) (c_addrs m))))
                     (norm_b (override_extra cfg (c_extra m)))
                     (c_orig m), []).
Proof. exact sender_wire_lemma. Qed.
Print Assumptions sender_wire.

(* Addresses with unknown protocol codes are invisible to GetAddrs and to the HTTP
   sender: they neither fail the message nor appear on the wire. *)
Theorem unknown_protocol_skipped :
  (forall l, get_addrs l = get_addrs (drop_unknown l))
  /\ (forall l, get_addrs l = if no_invalid l then Ok (known l) else Err EAddr)
  /\ (forall p2p l, no_invalid l = true -> known l <> [] ->
        add_id p2p l = Ok (map (fun a => a ++ p2p) (known l)))
  /\ (forall cfg m, no_invalid (c_addrs m) = true ->
        http_wire cfg m =
        enc (Msg (c_cid m) (Some (map Some (expected_addrs (s_p2p cfg) (c_addrs m))))
                 (override_extra cfg (c_extra m)) (c_orig m))).
Proof. exact unknown_protocol_skipped_lemma. Qed.
Print Assumptions unknown_protocol_skipped.

(* announce.Send over the HTTP sender: nothing is sent for an undefined CID; otherwise
   the receiver decodes the CID and every given address with /p2p/<publisher> appended. *)
Theorem announce_send_wire : forall cfg c addrs,
  announce_send cfg None addrs = None /\
  (forall body, cid_wf c = true -> s_p2p cfg <> [] ->
     announce_send cfg (Some c) addrs = Some (Ok body) ->
     dec body = Ok (Msg (Some c) (mk_sl (map (fun a => Some (a ++ s_p2p cfg)) addrs))
                        (norm_b (override_extra cfg None)) [], [])).
Proof. exact announce_send_wire_lemma. Qed.
Print Assumptions announce_send_wire.

(* What a pubsub receiver decodes from the data p2psender.Send publishes. *)
Theorem p2p_wire_decodes : forall cfg m data,
  cid_ok m = true -> p2p_wire cfg m = Ok data ->
  dec data = Ok (norm (Msg (m_cid m) (m_addrs m) (override_extra cfg (m_extra m)) (m_orig m)), []).
Proof. exact p2p_wire_lemma. Qed.
Print Assumptions p2p_wire_decodes.

(* The encoder as found (no cap on the CID) violates dec_enc: it encodes a message
   with a 512-byte CID that the decoder rejects. *)
Theorem dec_enc_v0_refuted :
  exists m b, wf_msg m = true /\ enc_v0 m = Ok b /\ dec b = Err ETooLarge.
Proof. exact dec_enc_v0_refuted. Qed.
Print Assumptions dec_enc_v0_refuted.

(* Shared library lib/Cbor.v: cbor-gen heads round-trip for every major type and
   uint64 value, and the reader accepts nothing but the writer's minimal form. *)
Theorem cbor_head_roundtrip : forall maj v r,
  maj < 8 -> v < 2 ^ 64 -> rd_head (wr_head maj v ++ r) = Ok (maj, v, r).
Proof. exact rd_head_wr_head. Qed.
Print Assumptions cbor_head_roundtrip.

Theorem cbor_head_canonical : forall b maj v r,
  wf_bytes b = true -> rd_head b = Ok (maj, v, r) ->
  b = wr_head maj v ++ r /\ maj < 8 /\ v < 2 ^ 64.
Proof. exact rd_head_canon. Qed.
Print Assumptions cbor_head_canonical.

(* Shared library lib/Cid.v: the binary CID layout is self-delimiting and canonical. *)
Theorem cid_parse_fmt : forall c r, cid_wf c = true -> Cid.parse (Cid.fmt c ++ r) = Ok (c, r).
Proof. exact Cid.parse_fmt. Qed.
Print Assumptions cid_parse_fmt.

Theorem cid_fmt_parse : forall b c r,
  wf_bytes b = true -> Cid.parse b = Ok (c, r) -> b = Cid.fmt c ++ r /\ cid_wf c = true.
Proof. exact Cid.fmt_parse. Qed.
Print Assumptions cid_fmt_parse.

(* The tag-42 CID item of cbor-gen round-trips for every CID below the reader's cap. *)
Theorem cbor_cid_roundtrip : forall c r,
  cid_wf c = true -> Cid.byte_len c + 1 <= CidMaxLen -> rd_cid (wr_cid c ++ r) = Ok (c, r).
Proof. exact rd_cid_wr_cid. Qed.
Print Assumptions cbor_cid_roundtrip.

(* ---- ties to the Gallina regenerated from the Go source (proofs/GenTie_C10.v) ---- *)
From Coq Require Import ZArith NArith List Bool Lia String.
From Lib Require Import Bytes Varint Cid Cbor.
From Model Require Import C10_AnnounceMsg.
From Proofs Require Import GenTie_Lib.
From Gen Require Import Gen_Consts Gen_Funcs_prelude Gen_Funcs_message.
Import ListNotations.
Local Open Scope Z_scope.
From Proofs Require Import GenTie_C10.

Theorem gen_tie_MarshalCBOR : forall m : msg, agrees (enc m) (go_marshal m).
Proof. exact GenTie_C10.tie_MarshalCBOR. Qed.
Print Assumptions gen_tie_MarshalCBOR.

Theorem gen_tie_addrs_header : forall maj n : N,
  read_guard (message_UnmarshalCBOR_addrs_header (Z.of_N n) (Z.of_N maj))
  = Some (match guard2 MaxLength MajArray maj n with Some _ => true | None => false end).
Proof. exact GenTie_C10.tie_addrs_header. Qed.
Print Assumptions gen_tie_addrs_header.

Theorem gen_tie_addr_header : forall maj n : N,
  read_guard (message_UnmarshalCBOR_addr_header (Z.of_N n) (Z.of_N maj))
  = Some (match guard2 ByteArrayMaxLen MajByteString maj n with Some _ => true | None => false end).
Proof. exact GenTie_C10.tie_addr_header. Qed.
Print Assumptions gen_tie_addr_header.

Theorem gen_tie_extra_header : forall maj n : N,
  read_guard (message_UnmarshalCBOR_extra_header (Z.of_N n) (Z.of_N maj))
  = Some (match guard2 ByteArrayMaxLen MajByteString maj n with Some _ => true | None => false end).
Proof. exact GenTie_C10.tie_extra_header. Qed.
Print Assumptions gen_tie_extra_header.

Theorem gen_dec_addrs_uses_guard2 : forall k b,
  dec_addrs (S k) b =
  ('(maj, extra, r) <~ glift (rd_head b) ;;
   match guard2 ByteArrayMaxLen MajByteString maj extra with
   | Some e => gerr e
   | None =>
     _ <~ gmake_pos 1 extra ;;
     '(x, r') <~ glift (read_full extra r) ;;
     '(xs, r'') <~ dec_addrs k r' ;;
     gret (mk_sl x :: xs, r'')
   end).
Proof. exact GenTie_C10.dec_addrs_uses_guard2. Qed.
Print Assumptions gen_dec_addrs_uses_guard2.

Theorem gen_tie_field_count : forall maj nf : N,
  match message_UnmarshalCBOR_field_count (Z.of_N nf) (Z.of_N maj) with
  | FReturn _ _ => field_guard maj nf = None
  | FFall (has, _) => field_guard maj nf = Some has
  | _ => False
  end.
Proof. exact GenTie_C10.tie_field_count. Qed.
Print Assumptions gen_tie_field_count.

Theorem gen_dec_g_uses_field_guard : forall b,
  dec_g b =
  ('(maj, nf, r1) <~ glift (rd_head b) ;;
   match field_guard maj nf with
   | None => gerr (if negb (maj =? MajArray)%N then EWrongMajor else EFieldCount)
   | Some hasOrigPeer =>
     '(c, r2) <~ rd_cid_g r1 ;;
     '(maj2, n, r3) <~ glift (rd_head r2) ;;
     match guard2 MaxLength MajArray maj2 n with
     | Some e => gerr e
     | None =>
       _ <~ gmake_pos SliceHeader n ;;
       '(addrs, r4) <~ dec_addrs (N.to_nat n) r3 ;;
       '(maj3, e, r5) <~ glift (rd_head r4) ;;
       match guard2 ByteArrayMaxLen MajByteString maj3 e with
       | Some e => gerr e
       | None =>
         _ <~ gmake_pos 1 e ;;
         '(x, r6) <~ glift (read_full e r5) ;;
         if negb hasOrigPeer then gret (Msg (Some c) (mk_sl addrs) (mk_sl x) [], r6) else
         '(s, r7) <~ rd_text_g MaxLength r6 ;;
         gret (Msg (Some c) (mk_sl addrs) (mk_sl x) s, r7)
       end
     end
   end).
Proof. exact GenTie_C10.dec_g_uses_field_guard. Qed.
Print Assumptions gen_dec_g_uses_field_guard.

(* ---- phase 2: further ties to the Gallina regenerated from the Go source (proofs/GenTie_C10.v) ---- *)
From Coq Require Import ZArith NArith List Bool Lia String.
From Lib Require Import Bytes Varint Cid Cbor.
From Model Require Import C10_AnnounceMsg.
From Proofs Require Import GenTie_Lib.
From Gen Require Import Gen_Consts Gen_Funcs_prelude Gen_Funcs_message.
Import ListNotations.
Local Open Scope Z_scope.
From Gen Require Import Gen_Funcs_httpsender.
From Proofs Require Import GenTie_C10.

Theorem gen_tie_GetAddrs : forall l : list (bytes * aclass),
  match get_addrs l, message_Message_GetAddrs (list N) go_new_maddr go_contains (map encp l) with
  | Ok r, (r', None) => r' = r
  | Err _, (_, Some _) => True
  | _, _ => False
  end.
Proof. exact GenTie_C10.tie_GetAddrs. Qed.
Print Assumptions gen_tie_GetAddrs.

Theorem gen_addIDToAddrs_table : forall (MSG MA AI : Type) (addrsOf : MSG -> list (list N)) (mkai : list N -> list MA -> AI)
    (getaddrs : MSG -> list MA * option string) (msg : MSG) (p2perr : option string) (p2p : list MA) (pid : list N),
  match httpsender_addIDToAddrs MSG MA AI addrsOf mkai getaddrs msg p2perr p2p pid with
  | FReturn ret tr =>
      existsb (String.eqb "msg.SetAddrs(p2pAddrs)") tr =
        (negb (is_nil (addrsOf msg)) && isNone (snd (getaddrs msg)) && isNone p2perr)%bool /\
      (is_nil (addrsOf msg) = true -> ret = "return nil"%string /\ tr = [])
  | _ => False
  end.
Proof. exact GenTie_C10.addIDToAddrs_table. Qed.
Print Assumptions gen_addIDToAddrs_table.
