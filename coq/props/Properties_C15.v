(* C15 - Subscriber shutdown is clean, idempotent and final.
   Model: model/C15_Shutdown.v (stepf false = the code as found, stepf true = with the
   repairs 91425bb, c96087d and pending/C15-fix-close-waits-for-cleaner).
   `reach fx recv cap s`: s is reachable by ANY label sequence from the initial state of a
   subscriber with/without an announcement receiver and a semaphore of capacity cap (0 = none):
   every point of a sync at which Close can start, any number of Close callers, every order
   relative to announcements, registrations, cancellations and further API calls. *)
From Coq Require Import List NArith Bool Arith.
From Lib Require Import SyncSkel LTS.
From Model Require Import C14_Events C15_Shutdown.
From Proofs Require Import C14_Events C15_Invariants C15_Waits C15_Shutdown.
From Gen Require Import Gen_Sync_dagsync.
Import ListNotations.
Local Close Scope string_scope.
Local Open Scope list_scope.
Local Open Scope nat_scope.

(* Close terminates: once Close has been entered, internal steps alone (no new call, no
   reader, no timer) lead to a state where the Once is done *)
Theorem close_terminates : forall fx rc cap s,
  reach fx rc cap s -> once s <> ONot ->
  exists ls s', Forall (fun l => int_label l = true) ls /\ run (stepf fx) s ls = Some s' /\ once s' = ODone.
Proof. exact Proofs.C15_Shutdown.close_terminates. Qed.
Print Assumptions close_terminates.

(* no deadlock: while doClose is running some internal step is enabled ... *)
Theorem close_never_stuck : forall fx r cap s r0,
  reach fx r cap s -> once s = ORunning r0 ->
  exists l, int_label l = true /\ exists s', stepf fx s l = Some s'.
Proof. exact Proofs.C15_Shutdown.close_never_stuck. Qed.
Print Assumptions close_never_stuck.

(* ... and every internal step shortens what is left (total remaining own steps of all
   goroutines, then the distributor's remaining work): Close returns under every schedule
   that keeps taking enabled internal steps *)
Theorem internal_step_decreases : forall fx rc cap s l s',
  reach fx rc cap s -> int_label l = true -> stepf fx s l = Some s' ->
  total s' < total s \/ (total s' = total s /\ close_rank (co s') < close_rank (co s)).
Proof. exact Proofs.C15_Shutdown.internal_step_decreases. Qed.
Print Assumptions internal_step_decreases.

(* The per-publisher layer (asyncMutex, semaphore, syncMutex) is not in the model.  With it
   as an arbitrary restriction `avail` of the schedules that (H1) only ever holds back a sync
   goroutine at one of its lock points and (H2) is itself deadlock-free (if a goroutine is held
   back at a lock point, some sync goroutine is past its lock points or can go on: what
   Properties_C08.no_deadlock and the lock order give), Close still never gets stuck and
   still terminates, using available steps only. *)
Theorem close_never_stuck_layer : forall (fx rc : bool) (cap : nat) (avail : st -> label -> bool),
  (forall s l, avail s l = false ->
     exists t c th, l = Step t c /\ threads s t = Some th /\ lock_point th = true) ->
  (forall s t th, lreach fx rc cap avail s -> threads s t = Some th -> lock_point th = true ->
     can_step fx avail s t = false ->
     exists t' th', threads s t' = Some th' /\
       (sync_running th' = true \/ (lock_point th' = true /\ can_step fx avail s t' = true))) ->
  forall s r0, lreach fx rc cap avail s -> once s = ORunning r0 -> lprogress fx avail s.
Proof. exact Proofs.C15_Shutdown.close_never_stuck_layer. Qed.
Print Assumptions close_never_stuck_layer.

Theorem close_terminates_layer : forall (fx rc : bool) (cap : nat) (avail : st -> label -> bool),
  (forall s l, avail s l = false ->
     exists t c th, l = Step t c /\ threads s t = Some th /\ lock_point th = true) ->
  (forall s t th, lreach fx rc cap avail s -> threads s t = Some th -> lock_point th = true ->
     can_step fx avail s t = false ->
     exists t' th', threads s t' = Some th' /\
       (sync_running th' = true \/ (lock_point th' = true /\ can_step fx avail s t' = true))) ->
  forall s, lreach fx rc cap avail s -> once s <> ONot ->
  exists ls s', Forall (fun l => int_label l = true) ls /\ run (lstep fx avail) s ls = Some s' /\ once s' = ODone.
Proof. exact Proofs.C15_Shutdown.close_terminates_layer. Qed.
Print Assumptions close_terminates_layer.

(* every safety theorem below holds for the restricted system too: its runs are runs *)
Theorem lreach_reach : forall fx rc cap avail s, lreach fx rc cap avail s -> reach fx rc cap s.
Proof. exact Proofs.C15_Shutdown.lreach_reach. Qed.
Print Assumptions lreach_reach.

(* Once: at most one goroutine ever runs doClose, nothing is closed twice (no panic), and
   after Close returned nobody is inside doClose *)
Theorem close_idempotent_concurrent : forall fx r cap s,
  reach fx r cap s ->
  p_env (co s) = false /\
  (forall t1 t2 th1 th2, threads s t1 = Some th1 -> threads s t2 = Some th2 ->
     closer_body (t_pc th1) = true -> closer_body (t_pc th2) = true -> t1 = t2) /\
  (close_returned s = true -> forall t th, threads s t = Some th -> closer_body (t_pc th) = false).
Proof. exact Proofs.C15_Shutdown.close_idempotent_concurrent. Qed.
Print Assumptions close_idempotent_concurrent.

(* doClose passes expSyncWG.Wait() (stage 6) only when no admitted explicit sync is unfinished
   (they are never interrupted: the model gives Close no way to), passes <-watchDone (stage 8)
   only with the announce-triggered syncs' context cancelled, and passes asyncWG.Wait()
   (stage 9) only when all of them have ended *)
Theorem explicit_syncs_finish_async_cancelled : forall fx r cap s,
  reach fx r cap s ->
  (6 <= stage s -> forall t th, threads s t = Some th -> exp_active th = false) /\
  (8 <= stage s -> has_recv s = true -> ctx_cancelled s = true /\ w_pc s = WEnd) /\
  (9 <= stage s -> forall t th, threads s t = Some th -> async_active th = false).
Proof. exact Proofs.C15_Shutdown.explicit_syncs_finish_async_cancelled. Qed.
Print Assumptions explicit_syncs_finish_async_cancelled.

(* once Close has returned no block-hook call / store write / notification is enabled again *)
Theorem after_close_silent : forall r cap s,
  reach true r cap s -> close_returned s = true -> forall l, activity s l = false.
Proof. exact Proofs.C15_Shutdown.after_close_silent. Qed.
Print Assumptions after_close_silent.

(* the code as found: Close returns while a notification is still in inEvents; the
   distributor hands it to the listeners afterwards *)
Theorem after_close_silent_refuted :
  exists s, reach false true 1 s /\ close_returned s = true /\
            activity s (Core LDist) = true /\ exists s', stepf false s (Core LDist) = Some s'.
Proof. exact Proofs.C15_Shutdown.after_close_silent_refuted. Qed.
Print Assumptions after_close_silent_refuted.

Theorem listeners_closed : forall r cap s,
  reach true r cap s -> close_returned s = true ->
  d_pc (co s) = DDone /\
  forall l x, lst (co s) l = Some x -> l_reg x = true -> l_in_closed x = true.
Proof. exact Proofs.C15_Shutdown.listeners_closed. Qed.
Print Assumptions listeners_closed.

(* no goroutine the subscriber started is left: syncs and announce goroutines are past their
   Done() (only the deferred semaphore release / unlocks remain), the watcher, the distributor
   and the idle-handler cleaner have ended *)
Theorem threads_end : forall r cap s,
  reach true r cap s -> close_returned s = true ->
  (forall t th, threads s t = Some th -> exp_active th = false /\ async_active th = false) /\
  (has_recv s = true -> w_pc s = WEnd) /\
  d_pc (co s) = DDone /\
  ic_pc s = ICEnd /\
  closing (co s) = true.
Proof. exact Proofs.C15_Shutdown.threads_end. Qed.
Print Assumptions threads_end.

Theorem cleaner_ends : forall fx r cap s,
  reach fx r cap s -> closing (co s) = true ->
  ic_pc s = ICEnd \/ (exists s', stepf fx s (Cleaner 1) = Some s' /\ (ic_pc s' = ICEnd \/ ic_pc s' = ICWait)).
Proof. exact Proofs.C15_Shutdown.cleaner_ends. Qed.
Print Assumptions cleaner_ends.

(* after Close returned every call still in progress or made later has an enabled step; the
   only wait is for expSyncMutex, held by a caller that is itself about to return "shutdown" *)
Theorem entry_points_return_after_close : forall fx r cap s t th,
  reach fx r cap s -> close_returned s = true -> threads s t = Some th ->
  (forall res, t_pc th <> Fin res) ->
  enabled fx s t \/
  (t_pc th = ELock /\ exists h thh, exp_mu s = Some h /\ threads s h = Some thh /\
                      (t_pc thh = ECheck \/ t_pc thh = ERefuse) /\ enabled fx s h).
Proof. exact Proofs.C15_Shutdown.entry_points_return_after_close. Qed.
Print Assumptions entry_points_return_after_close.

(* ... and a call made after Close returned ends with the refusal: SyncAdChain/SyncEntries
   "shutdown", Announce ErrClosed (nil without a receiver), Close nil *)
Theorem late_calls_refused : forall fx r cap s t th res,
  reach fx r cap s -> threads s t = Some th -> t_late th = true -> t_pc th = Fin res ->
  res = match t_kind th with
        | KExp _ _ => RShutdown
        | KAnn _ => if has_recv s then RErrClosed else RNil
        | _ => RNil
        end.
Proof. exact Proofs.C15_Shutdown.late_calls_refused. Qed.
Print Assumptions late_calls_refused.

(* OnSyncFinished while or after closing (repaired code): giving up is always possible *)
Theorem registration_returns_when_closing : forall r cap s l x,
  reach true r cap s -> 2 <= stage s -> lst (co s) l = Some x -> l_reg x = false -> l_in_closed x = false ->
  exists s', stepf true s (Core (LAddClosed l)) = Some s'.
Proof. exact Proofs.C15_Shutdown.registration_returns_when_closing. Qed.
Print Assumptions registration_returns_when_closing.

(* the code as found: after Close, OnSyncFinished can never complete its registration *)
Theorem entry_points_return_after_close_refuted :
  exists s, reach false false 0 s /\ close_returned s = true /\
    (exists x, lst (co s) 0 = Some x /\ l_reg x = false /\ l_in_closed x = false) /\
    forall s', reachable (stepf false) s s' ->
      stepf false s' (Core (LAdd 0)) = None /\ stepf false s' (Core (LAddClosed 0)) = None.
Proof. exact Proofs.C15_Shutdown.entry_points_return_after_close_refuted. Qed.
Print Assumptions entry_points_return_after_close_refuted.

(* the cancel func's select always has <-s.closing ready once doClose has started *)
Theorem cancel_returns_when_closing : forall fx r cap s,
  reach fx r cap s -> 2 <= stage s -> closing (co s) = true.
Proof. exact Proofs.C15_Shutdown.cancel_returns_when_closing. Qed.
Print Assumptions cancel_returns_when_closing.

(* the skeletons regenerated from /repo on this run are those the model (stepf true) follows *)
Theorem skeleton_matches : tie_ok15 dagsync_funcs = true.
Proof. vm_compute. reflexivity. Qed.
Print Assumptions skeleton_matches.

(* every return path of SyncAdChain / syncEntries / doClose releases expSyncMutex and nothing
   blocks while it is held *)
Theorem gate_paths_balanced_nonblocking : gate_ok dagsync_funcs = true.
Proof. vm_compute. reflexivity. Qed.
Print Assumptions gate_paths_balanced_nonblocking.

(* ---- phase 2: further ties to the Gallina regenerated from the Go source (proofs/GenTie_C15.v) ---- *)
From Coq Require Import ZArith NArith List Bool Lia String.
From Lib Require Import Bytes.
From Model Require Import C15_Shutdown.
From Proofs Require Import GenTie_Lib.
From Gen Require Import Gen_Consts Gen_Funcs_prelude Gen_Funcs_dagsync.
Import ListNotations.
Local Open Scope Z_scope.
From Proofs Require Import GenTie_C15.

Theorem gen_tie_doClose : forall (R : Type) (isnil : R -> bool) (closeR : R -> option string) (closed0 : bool) (recv : R),
  match dagsync_doClose R isnil closeR closed0 recv with
  | FReturn ret (closed', tr) =>
      pcs tr = close_path (negb (isnil recv)) /\ closed' = true /\ ret = "return err"%string
  | _ => False
  end.
Proof. exact GenTie_C15.tie_doClose. Qed.
Print Assumptions gen_tie_doClose.

Theorem gen_model_doClose_order : forall (s : st) (t : nat) (th : thread) (c : nat),
  (t_pc th = CSet -> step_thread true s t th c = go s t th CUnlock (with_exp_closed (w_stage 4))) /\
  (t_pc th = CUnlock -> step_thread true s t th c = go s t th CWaitExp (with_mu (w_stage 5) None)) /\
  (t_pc th = CWaitExp -> step_thread true s t th c =
     if none_active s exp_active
     then (if has_recv s then go s t th CRecvClose (w_stage 6) else go s t th CWaitAsync (w_stage 8))
     else None) /\
  (t_pc th = CRecvClose -> step_thread true s t th c = go s t th CWaitWatch (with_recv_closed (w_stage 7))) /\
  (t_pc th = CWaitWatch -> step_thread true s t th c = if watch_done s then go s t th CWaitAsync (w_stage 8) else None) /\
  (t_pc th = CWaitAsync -> step_thread true s t th c =
     if none_active s async_active then go s t th CCloseIn (w_stage 9) else None) /\
  (t_pc th = CWaitDist -> step_thread true s t th c =
     match C14_Events.d_pc (co s) with C14_Events.DDone => go s t th CWaitIC (w_stage 11) | _ => None end) /\
  (t_pc th = CWaitIC -> step_thread true s t th c =
     match ic_pc s with ICEnd => go s t th CPeerstore (w_stage 12) | _ => None end) /\
  (t_pc th = CPeerstore -> step_thread true s t th c = go s t th COnceDone (w_stage 12)).
Proof. exact GenTie_C15.model_doClose_order. Qed.
Print Assumptions gen_model_doClose_order.

Theorem gen_tie_shutdown_gate : forall closed : bool,
  match dagsync_SyncAdChain_shutdown_gate closed with
  | FReturn ret tr => closed = true /\ ret = "return cid.Undef, errors.New(""shutdown"")"%string
                      /\ gate_pcs tr = [ELock; EUnlock]            (* ERefuse: unlock and refuse *)
  | FFall tr => closed = false /\ gate_pcs tr = [ELock; EAdd; EUnlock]
                /\ In "defer s.expSyncWG.Done()"%string tr         (* registered before the lock is released ... *)
  | _ => False
  end.
Proof. exact GenTie_C15.tie_shutdown_gate. Qed.
Print Assumptions gen_tie_shutdown_gate.

Theorem gen_model_gate_order : forall (s : st) (t : nat) (th : thread) (c : nat),
  (t_pc th = ECheck -> step_thread true s t th c = if exp_closed s then go s t th ERefuse u0 else go s t th EAdd u0) /\
  (t_pc th = ERefuse -> step_thread true s t th c = go s t th (Fin RShutdown) (with_mu u0 None)) /\
  (t_pc th = EAdd -> step_thread true s t th c = go s t th EUnlock u0).
Proof. exact GenTie_C15.model_gate_order. Qed.
Print Assumptions gen_model_gate_order.
