(* C02 -- Only bytes that hash to the requested CID are ever stored or reported.
   Statements only; definitions in model/C02_FetchVerify.v (on top of model/C01_ChainSync.v),
   proofs in proofs/C02_FetchVerify.v.

   Reading aid.  Everything is parametric in [body], [hashes_to : body -> cid -> bool] (the
   digest of the body, computed with the requested CID's own hash function and digest
   length, equals the CID's digest) and [links_of] (decoding).  NOTHING is assumed about
   them: no collision freedom is needed.  A [responder] is the adversary: any function from
   the index of a block request to an answer (a body, or no 200 answer).  [fhandle] is
   handler.handle (unsegmented or segment loop) over fetchBlock's tee / compare / commit;
   [fsyncs] any sequence of syncs, each against its own adversary, on one store.
   [sound s] = every entry of the store hashes to the CID it is stored under.
   [verifiable c] = the hash function the CID c names is available to the subscriber (the
   link system's HasherChooser accepts its code); nothing is assumed about it either. *)
From Lib Require Import Bytes.
From Model Require Import C01_ChainSync C02_FetchVerify.
From Proofs Require Import C02_FetchVerify Compose_C02_C01.
Open Scope N_scope.

(* After ANY sequence of syncs (any selectors, stops, depth limits, segment sizes, hooks,
   heads) against ANY publisher behaviour, a store that was sound is sound. *)
Theorem store_sound :
  forall (body : Type) (hashes_to : body -> cid -> bool) (links_of : body -> option (list edge))
         (verifiable : cid -> bool)
         fuel (l : list (responder body * fsync)) s,
    sound body hashes_to s = true ->
    sound body hashes_to (fsyncs body hashes_to links_of verifiable fuel l s) = true.
Proof. exact store_sound_proved. Qed.
Print Assumptions store_sound.

(* Every CID handed to the block hook -- by a succeeding sync, or by the completed segments
   of a failing segmented sync -- is in the store afterwards with a body that hashes to it.
   (No premise on the store: a block found locally is hashed before it is used.) *)
Theorem hook_only_sound :
  forall (body : Type) (hashes_to : body -> cid -> bool) (links_of : body -> option (list edge))
         (verifiable : cid -> bool)
         fuel resp q s x,
    In x (fh_hooks body (fhandle body hashes_to links_of verifiable fuel resp q s)) ->
    exists b, bget body (fh_store body (fhandle body hashes_to links_of verifiable fuel resp q s)) x = Some b /\
              hashes_to b x = true.
Proof. exact hook_only_sound_proved. Qed.
Print Assumptions hook_only_sound.

(* a block that is soundly stored stays so, also across failing syncs *)
Theorem held_is_kept :
  forall (body : Type) (hashes_to : body -> cid -> bool) (links_of : body -> option (list edge))
         (verifiable : cid -> bool)
         fuel resp q s x,
    held body hashes_to s x = true ->
    held body hashes_to (fh_store body (fhandle body hashes_to links_of verifiable fuel resp q s)) x = true.
Proof. exact held_is_kept_proved. Qed.
Print Assumptions held_is_kept.

(* fetchBlock itself: when the block is not usable locally and the answer is bad (a body that
   does not hash to the requested CID, or no 200 answer) the fetch fails and the store is
   EXACTLY what it was: nothing is committed *)
Theorem bad_fetch_commits_nothing :
  forall (body : Type) (hashes_to : body -> cid -> bool) (links_of : body -> option (list edge))
         resp reqs c s,
    local_ok body hashes_to links_of s c = None ->
    bad_answer body hashes_to (resp (length reqs)) c = true ->
    fetch_block body hashes_to links_of resp reqs c s = (reqs ++ [c], s, None).
Proof. exact fetch_block_bad. Qed.
Print Assumptions bad_fetch_commits_nothing.

(* Unsegmented sync: if the answer to ANY block request i of the sync is bad for the CID x
   that was requested, the sync returns the error for x, request i is its last request, x is
   not usable from the store, the hook is not called at all and the count is 0. *)
Theorem bad_body_fails :
  forall (body : Type) (hashes_to : body -> cid -> bool) (links_of : body -> option (list edge))
         (verifiable : cid -> bool)
         fuel resp v stop lim h c s i x,
    let o := fhandle_plain body hashes_to links_of verifiable fuel resp v stop lim h c [] s in
    nth_error (fh_reqs body o) i = Some x -> bad_answer body hashes_to (resp i) x = true ->
    fh_err body o = Some (FBad x) /\ S i = length (fh_reqs body o) /\
    local_ok body hashes_to links_of (fh_store body o) x = None /\
    fh_hooks body o = [] /\ fh_count body o = 0%nat.
Proof. exact bad_body_fails_proved. Qed.
Print Assumptions bad_body_fails.

(* Any segment size: the same, except that the hook calls of the segments completed before
   the bad answer have been made (for soundly stored blocks only: hook_only_sound). *)
Theorem bad_body_fails_any_segment_size :
  forall (body : Type) (hashes_to : body -> cid -> bool) (links_of : body -> option (list edge))
         (verifiable : cid -> bool)
         fuel resp q s i x,
    let o := fhandle body hashes_to links_of verifiable fuel resp q s in
    nth_error (fh_reqs body o) i = Some x -> bad_answer body hashes_to (resp i) x = true ->
    fh_err body o = Some (FBad x) /\ S i = length (fh_reqs body o) /\
    local_ok body hashes_to links_of (fh_store body o) x = None /\ fh_count body o = 0%nat.
Proof. exact bad_body_fails_any_segment_size_proved. Qed.
Print Assumptions bad_body_fails_any_segment_size.

(* The comparison is made with the CID's own function and digest length: for CIDs that name
   a hash function (any family H) and a length, every stored body's digest, truncated to the
   CID's length, equals the CID's digest -- after any syncs against any publisher. *)
Theorem truncated_digest :
  forall (H : N -> bytes -> bytes) (cid_fn : cid -> N) (cid_len : cid -> nat) (cid_digest : cid -> bytes)
         (links_of : bytes -> option (list edge)) (verifiable : cid -> bool) fuel l s,
    sound bytes (trunc_hashes_to H cid_fn cid_len cid_digest) s = true ->
    forall c b, In (c, b) (fsyncs bytes (trunc_hashes_to H cid_fn cid_len cid_digest) links_of verifiable fuel l s) ->
      firstn (cid_len c) (H (cid_fn c) b) = cid_digest c.
Proof. exact truncated_digest_proved. Qed.
Print Assumptions truncated_digest.

(* History independence of the digest check: whether the body b answered to a request for c
   is accepted depends on b and c only -- it is [hashes_to b c], the digest under the
   REQUESTED CID's own function and length -- whatever this or earlier syncs requested,
   fetched or stored before (two arbitrary histories give the same verdict).  With
   truncated_digest: the function is cid_fn c of the requested c, never that of a block
   fetched earlier. *)
Theorem digest_check_history_independent :
  forall (body : Type) (hashes_to : body -> cid -> bool) (links_of : body -> option (list edge))
         resp1 resp2 reqs1 reqs2 s1 s2 c b,
    local_ok body hashes_to links_of s1 c = None -> local_ok body hashes_to links_of s2 c = None ->
    resp1 (length reqs1) = Some b -> resp2 (length reqs2) = Some b ->
    snd (fetch_block body hashes_to links_of resp1 reqs1 c s1) =
      snd (fetch_block body hashes_to links_of resp2 reqs2 c s2) /\
    (snd (fetch_block body hashes_to links_of resp1 reqs1 c s1) = Some b <-> hashes_to b c = true) /\
    (snd (fetch_block body hashes_to links_of resp1 reqs1 c s1) = None <-> hashes_to b c = false).
Proof. exact digest_check_history_independent_proved. Qed.
Print Assumptions digest_check_history_independent.

(* A digest that cannot be computed is not a digest that matched.  [verifiable c] = false: the
   hash function c names is not available.  (1) a walk that reaches such a CID stops there
   with the error for it, having requested, stored and reported nothing for it; (2) over any
   sequence of syncs against any publisher, every entry added to the store is for a CID whose
   hash function IS available and to which the body hashes under it; (3) the hook is never
   called for a CID whose hash function is unavailable. *)
Theorem unverifiable_is_rejected :
  forall (body : Type) (hashes_to : body -> cid -> bool) (links_of : body -> option (list edge))
         (verifiable : cid -> bool),
    (forall f resp v stop lim c reqs s,
       verifiable c = false ->
       fwalk body hashes_to links_of verifiable (S f) resp v stop lim c reqs s = FO body [] reqs s (FUnverifiable c)) /\
    (forall fuel (l : list (responder body * fsync)) s e,
       In e (fsyncs body hashes_to links_of verifiable fuel l s) ->
       In e s \/ (verifiable (fst e) = true /\ hashes_to (snd e) (fst e) = true)) /\
    (forall fuel resp q s x,
       In x (fh_hooks body (fhandle body hashes_to links_of verifiable fuel resp q s)) -> verifiable x = true).
Proof.
  intros. split; [intros; apply unverifiable_is_refused; assumption|apply unverifiable_is_rejected_proved].
Qed.
Print Assumptions unverifiable_is_rejected.

(* The publisher cannot fill the store with blocks of its choosing: whatever it answers,
   every entry a sync adds to the store is stored under a CID that THIS sync requested (and,
   by unverifiable_is_rejected and store_sound, hashes to it).  Nothing is kept for a body
   that failed the check -- under no key at all. *)
Theorem only_requested_is_stored :
  forall (body : Type) (hashes_to : body -> cid -> bool) (links_of : body -> option (list edge))
         (verifiable : cid -> bool) fuel resp q s e,
    let o := fhandle body hashes_to links_of verifiable fuel resp q s in
    In e (fh_store body o) -> In e s \/ In (fst e) (fh_reqs body o).
Proof. exact only_requested_is_stored_proved. Qed.
Print Assumptions only_requested_is_stored.

(* ---- an honest publisher: C02 computes exactly what C01 computes ---- *)

(* [content c] is the genuine body of block c: it hashes to c and decodes to c's links in
   the C01 world w.  [genuine] = what an honest publisher answers (the body if it serves the
   block, else no 200 answer); [honest_on resp L] = the answers to the requests listed in L
   are genuine; [attach s] = the C01 store s with the bodies attached; [store_wf] = stored
   blocks are blocks of the world.  Premise of honesty: only for the requests C01's walk
   makes (C01 determines which they are). *)
Theorem honest_fwalk_is_walk :
  forall (body : Type) (hashes_to : body -> cid -> bool) (links_of : body -> option (list edge))
         (w : world) (content : cid -> body),
    (forall c, hashes_to (content c) c = true) ->
    (forall c, links_of (content c) = dag_get (w_dag w) c) ->
    forall verifiable : cid -> bool, (forall c, verifiable c = true) ->
    forall resp v stop fuel lim c reqs s,
      store_wf w s = true ->
      let o := walk fuel w v stop lim c s in
      honest_on body w content resp (reqs ++ o_reqs o) ->
      fwalk body hashes_to links_of verifiable fuel resp v stop lim c reqs (attach body content s) =
        FO body (o_order o) (reqs ++ o_reqs o) (attach body content (o_store o)) (conv_res (o_res o)) /\
      store_wf w (o_store o) = true.
Proof. exact honest_fwalk_is_walk_proved. Qed.
Print Assumptions honest_fwalk_is_walk.

(* ... and handler.handle likewise, for every segment size (both branches): hook log,
   request log, count, error and store (with bodies) are C01's *)
Theorem honest_fhandle_is_handle :
  forall (body : Type) (hashes_to : body -> cid -> bool) (links_of : body -> option (list edge))
         (w : world) (content : cid -> body),
    (forall c, hashes_to (content c) c = true) ->
    (forall c, links_of (content c) = dag_get (w_dag w) c) ->
    forall verifiable : cid -> bool, (forall c, verifiable c = true) ->
    forall resp q s,
      store_wf w s = true ->
      let o := handle w (fs_view q) (fs_stop q) (fs_lim q) (fs_segdl q) (fs_hook q) (fs_head q) s in
      honest_on body w content resp (h_reqs o) ->
      fhandle body hashes_to links_of verifiable (walk_fuel w) resp q (attach body content s) = conv_hout body content o.
Proof. exact honest_fhandle_is_handle_proved. Qed.
Print Assumptions honest_fhandle_is_handle.

(* Hence C02's sync of a chain from an honest publisher meets C01's specification: for every
   chain, head, stop, depth limit, segment size and local store it reports exactly
   [segment], requests exactly its missing blocks, stores them (with their genuine bodies),
   counts them and returns no error -- the right-hand side of sync_ad_chain_meets_spec. *)
Theorem honest_sync_meets_c01_spec :
  forall (body : Type) (hashes_to : body -> cid -> bool) (links_of : body -> option (list edge))
         (content : cid -> body) (verifiable : cid -> bool) k extra ch pub head stop lim segdl s resp,
    let w := chain_world k extra ch pub in
    (forall c, hashes_to (content c) c = true) ->
    (forall c, links_of (content c) = dag_get (w_dag w) c) ->
    (forall c, verifiable c = true) ->
    chain_wf k extra ch = true -> In head ch -> is_stop stop head = false ->
    store_wf w s = true ->
    let seg := segment ch head stop lim in
    avail pub s seg = true ->
    honest_on body w content resp (missing s seg) ->
    fhandle body hashes_to links_of verifiable (walk_fuel w) resp (FSYNC (kind_view k) stop lim segdl HNominate head)
            (attach body content s) =
    FHO body seg (missing s seg) (attach body content (rev (missing s seg) ++ s)) (length seg) None.
Proof. exact honest_sync_meets_c01_spec_proved. Qed.
Print Assumptions honest_sync_meets_c01_spec.

(* ---- phase 2: further ties to the Gallina regenerated from the Go source (proofs/GenTie_C02.v) ---- *)
From Coq Require Import ZArith NArith List Bool Lia String.
From Lib Require Import Bytes.
From Model Require Import C01_ChainSync C02_FetchVerify.
From Proofs Require Import GenTie_Lib.
From Gen Require Import Gen_Consts Gen_Funcs_prelude Gen_Funcs_ipnisync.
Import ListNotations.
Local Open Scope Z_scope.
From Proofs Require Import GenTie_C02.

Theorem gen_tie_fetchBlock_verify_commit : forall (CID LNK CTX RD WR LC LS CM : Type) (commit : CM -> LNK -> option string) (mkl : CID -> LNK) (mklc : CTX -> LC) (opener : LS -> LC -> WR * CM * option string) (ctx : CTX) (c : CID) (tee : RD) (lsys : LS) (hash : list N) (sumerr : option string) (sum : list N), match go_verify CID LNK CTX RD WR LC LS CM commit mkl mklc opener ctx c tee lsys hash sumerr sum with | FReturn ret tr => has_stmt commit_stmt tr = isNone (snd (opener lsys (mklc ctx))) && isNone sumerr && Bytes.bytes_eqb hash sum /\ (ret = "return nil" <-> has_stmt commit_stmt tr = true /\ commit (snd (fst (opener lsys (mklc ctx)))) (mkl c) = None) | _ => False end.
Proof. exact GenTie_C02.tie_fetchBlock_verify_commit. Qed.
Print Assumptions gen_tie_fetchBlock_verify_commit.

Theorem gen_model_fetch_block_stores : forall (body : Type) (hashes_to : body -> cid -> bool) links_of
    (resp : responder body) (reqs : list cid) (c : cid) (s : bstore body) (b : body),
  local_ok body hashes_to links_of s c = None -> resp (List.length reqs) = Some b ->
  fetch_block body hashes_to links_of resp reqs c s =
    if hashes_to b c then ((reqs ++ [c])%list, (c, b) :: s, Some b) else ((reqs ++ [c])%list, s, None).
Proof. exact GenTie_C02.model_fetch_block_stores. Qed.
Print Assumptions gen_model_fetch_block_stores.

Theorem gen_tie_fetchBlock_present : forall (ND : Type) (isnil : ND -> bool) (n : ND) (err : option string),
  match ipnisync_fetchBlock_present ND isnil err n with
  | FReturn ret _ => ret = "return nil"%string /\ isnil n = false /\ err = None
  | FFall _ => isnil n = true \/ err <> None
  | _ => False
  end.
Proof. exact GenTie_C02.tie_fetchBlock_present. Qed.
Print Assumptions gen_tie_fetchBlock_present.

Theorem gen_model_fetch_block_present : forall (body : Type) (hashes_to : body -> cid -> bool) links_of
    (resp : responder body) (reqs : list cid) (c : cid) (s : bstore body) (b : body),
  local_ok body hashes_to links_of s c = Some b ->
  fetch_block body hashes_to links_of resp reqs c s = (reqs, s, Some b).
Proof. exact GenTie_C02.model_fetch_block_present. Qed.
Print Assumptions gen_model_fetch_block_present.

Theorem gen_tie_walkFetch_opener : forall (CID RD : Type) (c : CID) (ferr rerr : option string) (r : RD) (order : list CID),
  match ipnisync_walkFetch_opener CID RD c ferr rerr r order with
  | FReturn _ (order', _) =>
      order' = if (isNone ferr && isNone rerr)%bool then (order ++ [c])%list else order
  | _ => False
  end.
Proof. exact GenTie_C02.tie_walkFetch_opener. Qed.
Print Assumptions gen_tie_walkFetch_opener.
