(* C14 - Every sync notification reaches every registered listener once, in order.
   Model: model/C14_Events.v (delivery core + sync layer; stepf false = the code as found,
   stepf true = with the event sent inside the per-publisher sync lock).  Statements are over
   `reach fx` / `creach`: every state reachable by ANY label sequence = all schedules, any number
   of listeners, readers, cancellers, publishers and syncs. *)
From Coq Require Import List NArith Bool Arith.
From Lib Require Import SyncSkel LTS.
From Model Require Import C14_Events.
From Proofs Require Import C14_Events.
From Gen Require Import Gen_Sync_dagsync.
Import ListNotations.
Local Close Scope string_scope.
Local Open Scope list_scope.
Local Open Scope nat_scope.

(* what a listener has read ++ what is queued for it ++ what the distributor is about to
   give it  =  the global forward order between its add and the close of its input:
   no duplicate, no gap, same order *)
Theorem exactly_once_in_order : forall fx s l x,
  reach fx s -> lst (co s) l = Some x -> l_reg x = true ->
  l_got x ++ l_q x ++ pending (co s) l = seg x (fwd (co s)).
Proof. exact Proofs.C14_Events.exactly_once_in_order. Qed.
Print Assumptions exactly_once_in_order.

(* the global forward order is the order in which syncs sent their events (inEvents is FIFO) *)
Theorem forward_order_is_send_order : forall fx s,
  reach fx s -> sent_log s = fwd (co s) ++ opt_list (in_ev (co s)).
Proof. exact Proofs.C14_Events.forward_order_is_send_order. Qed.
Print Assumptions forward_order_is_send_order.

Theorem listener_no_duplicates : forall fx s l x,
  reach fx s -> lst (co s) l = Some x -> NoDup (map e_sid (l_got x ++ l_q x)).
Proof. exact Proofs.C14_Events.listener_no_duplicates. Qed.
Print Assumptions listener_no_duplicates.

(* a registered listener whose input is still open has been given every event forwarded
   since it was added *)
Theorem open_listener_complete : forall s l x,
  creach s -> lst s l = Some x -> l_reg x = true -> l_in_closed x = false ->
  l_got x ++ l_q x ++ pending s l = skipn (l_start x) (fwd s).
Proof. exact core_open_listener_complete. Qed.
Print Assumptions open_listener_complete.

Theorem latest_before_event : forall fx s e,
  reach fx s -> In e (sent_log s) -> e_err e = false ->
  In (e_pub e, e_cid e, e_sid e) (latest_log s).
Proof. exact Proofs.C14_Events.latest_before_event. Qed.
Print Assumptions latest_before_event.

(* the distributor's own steps, and only they, bring it back to its select: it never waits
   for a reader *)
Theorem forward_never_blocks : forall fx s,
  reach fx s ->
  exists s', run (stepf fx) s (repeat (Core LDist) (dist_rank (co s))) = Some s' /\
             dist_rank (co s') = 0 /\ threads s' = threads s.
Proof. exact Proofs.C14_Events.forward_never_blocks. Qed.
Print Assumptions forward_never_blocks.

(* a sync about to send its event is enabled after at most dist_rank+1 distributor steps,
   whatever the readers do: a stalled listener delays neither syncs nor other listeners *)
Theorem sync_send_not_delayed_by_readers : forall fx s t th,
  reach fx s -> threads s t = Some th -> (t_pc th = PSend \/ t_pc th = PSendErr) ->
  exists n s1 s2, n <= S (dist_rank (co s)) /\
    run (stepf fx) s (repeat (Core LDist) n) = Some s1 /\ stepf fx s1 (Step t 0) = Some s2.
Proof. exact Proofs.C14_Events.sync_send_not_delayed_by_readers. Qed.
Print Assumptions sync_send_not_delayed_by_readers.

(* cancelling closes the listener's input at once; what is queued stays, nothing is added *)
Theorem cancel_closes_after_queued : forall s l s' x,
  creach s -> cstep s (LRm l) = Some s' -> lst s l = Some x -> l_reg x = true -> l_in_closed x = false ->
  exists x', lst s' l = Some x' /\ l_in_closed x' = true /\ l_q x' = l_q x /\ l_got x' = l_got x /\
             l_end x' = Some (List.length (fwd s)) /\ ~ In l (d_list s').
Proof. exact cancel_closes. Qed.
Print Assumptions cancel_closes_after_queued.

(* the reader sees the close only after it has read everything queued, and what it has read
   is then exactly its slice of the forward order *)
Theorem closed_after_queued : forall fx s l x,
  reach fx s -> lst (co s) l = Some x -> l_out_closed x = true ->
  l_in_closed x = true /\ l_q x = [] /\ pending (co s) l = [] /\
  (l_reg x = true -> exists n, l_end x = Some n /\ l_got x = skipn (l_start x) (firstn n (fwd (co s)))).
Proof. exact Proofs.C14_Events.closed_after_queued. Qed.
Print Assumptions closed_after_queued.

(* Subscriber.Close: after close(inEvents) the distributor, by its own steps, forwards what
   was still in inEvents and closes every registered listener *)
Theorem close_closes_all_after_queued : forall fx s,
  reach fx s -> in_closed (co s) = true ->
  exists s', run (stepf fx) s (repeat (Core LDist) (close_rank (co s))) = Some s' /\
             d_pc (co s') = DDone /\ fwd (co s') = sent_log s /\
             forall l x, lst (co s') l = Some x -> l_reg x = true -> l_in_closed x = true.
Proof. exact Proofs.C14_Events.close_closes_all_after_queued. Qed.
Print Assumptions close_closes_all_after_queued.

(* an event in the order belongs to exactly the sync that owes it and carries that sync's
   publisher, CID, count / error flag *)
Theorem event_of_sync : forall fx s e,
  reach fx s -> In e (sent_log s) ->
  exists th, threads s (e_sid e) = Some th /\ t_ev th = Some e /\
             e = mk_event (e_sid e) (t_kind th) (if e_err e then 0%N else out_cnt th) (e_err e) /\
             e_err e = negb (out_ok th) /\ sends th = true.
Proof. exact Proofs.C14_Events.event_of_sync. Qed.
Print Assumptions event_of_sync.

Theorem one_event_per_updating_sync : forall fx s t th n,
  reach fx s -> threads s t = Some th -> t_pc th = PFin ->
  t_out th = Some (true, n) -> k_upd (t_kind th) = true ->
  count_occ Nat.eq_dec (map e_sid (sent_log s)) t = 1 /\
  In (mk_event t (t_kind th) n false) (sent_log s).
Proof. exact Proofs.C14_Events.one_event_per_updating_sync. Qed.
Print Assumptions one_event_per_updating_sync.

Theorem one_error_event_per_failed_async : forall fx s t th n,
  reach fx s -> threads s t = Some th -> t_pc th = PFin ->
  t_out th = Some (false, n) -> k_async (t_kind th) = true ->
  count_occ Nat.eq_dec (map e_sid (sent_log s)) t = 1 /\
  In (mk_event t (t_kind th) 0%N true) (sent_log s).
Proof. exact Proofs.C14_Events.one_error_event_per_failed_async. Qed.
Print Assumptions one_error_event_per_failed_async.

Theorem no_event_otherwise : forall fx s t th,
  reach fx s -> threads s t = Some th -> t_pc th = PFin -> sends th = false ->
  ~ In t (map e_sid (sent_log s)).
Proof. exact Proofs.C14_Events.no_event_otherwise. Qed.
Print Assumptions no_event_otherwise.

(* with the event sent inside the per-publisher sync lock: a publisher's events are sent in
   the order in which its (event-producing) syncs completed; at most one completed sync has
   its event still to send *)
Theorem per_publisher_order : forall s p,
  reach true s -> exists r, done_of p s = sent_of p s ++ r /\ List.length r <= 1.
Proof. exact Proofs.C14_Events.per_publisher_order. Qed.
Print Assumptions per_publisher_order.

(* the code as found (event sent after handle released the lock): two explicit syncs of one
   publisher, completion order 0,1, event order 1,0, latest-sync left at the older CID *)
Theorem per_publisher_order_refuted :
  exists s, reach false s /\ done_of 1%N s = [0; 1] /\ sent_of 1%N s = [1; 0] /\ latest s 1%N = Some 10%N.
Proof. exact Proofs.C14_Events.per_publisher_order_refuted. Qed.
Print Assumptions per_publisher_order_refuted.

(* no send on a closed inEvents, no double close, no send on / second close of a listener channel *)
Theorem no_panic : forall fx s, reach fx s -> p_env (co s) = false /\ p_dist (co s) = false.
Proof. exact Proofs.C14_Events.no_panic. Qed.
Print Assumptions no_panic.

(* the skeletons regenerated from /repo on this run are the ones the model (stepf true) was
   written against *)
Theorem skeleton_matches : tie_ok dagsync_funcs = true.
Proof. vm_compute. reflexivity. Qed.
Print Assumptions skeleton_matches.

(* every return path of SyncAdChain / syncEntries / doClose releases expSyncMutex and nothing
   blocks while it is held (finite path set of the regenerated skeletons) *)
Theorem gate_paths_balanced_nonblocking : gate_ok dagsync_funcs = true.
Proof. vm_compute. reflexivity. Qed.
Print Assumptions gate_paths_balanced_nonblocking.

Theorem sync_paths_release_their_locks : locks_balanced dagsync_funcs = true.
Proof. vm_compute. reflexivity. Qed.
Print Assumptions sync_paths_release_their_locks.

(* ---- phase 2: further ties to the Gallina regenerated from the Go source (proofs/GenTie_C14.v) ---- *)
From Coq Require Import ZArith NArith List Bool Lia String.
From Lib Require Import Bytes.
From Model Require Import C14_Events.
From Proofs Require Import GenTie_Lib.
From Gen Require Import Gen_Consts Gen_Funcs_prelude Gen_Funcs_dagsync.
Import ListNotations.
Local Open Scope Z_scope.
From Proofs Require Import GenTie_C14.

Theorem gen_tie_distributeEvents_remove : forall (ch : nat) (l : list nat),
  dagsync_distributeEvents_remove nat Nat.eqb 0%nat 0%nat ch l
  = FFall (swap_remove ch l, if memn ch l then rm_stmts else []).
Proof. exact GenTie_C14.tie_distributeEvents_remove. Qed.
Print Assumptions gen_tie_distributeEvents_remove.

Theorem gen_tie_distributeEvents_add : forall (ch : nat) (l : list nat),
  dagsync_distributeEvents_add nat ch l = FFall (l ++ [ch])%list.
Proof. exact GenTie_C14.tie_distributeEvents_add. Qed.
Print Assumptions gen_tie_distributeEvents_add.

Theorem gen_tie_distributeEvents_forward : forall (ok : bool) (l : list nat),
  dagsync_distributeEvents_forward nat ok l =
  if ok then FFall (l, map (fun _ => "ch <- event"%string) l)
  else FReturn "return"%string (l, map (fun _ => "close(ch)"%string) l).
Proof. exact GenTie_C14.tie_distributeEvents_forward. Qed.
Print Assumptions gen_tie_distributeEvents_forward.

Theorem gen_model_dist_steps : forall (s : core),
  (forall e, d_pc s = DFwd e [] -> cstep s LDist = Some (set_dpc s DSelect)) /\
  (d_pc s = DClosing [] -> cstep s LDist = Some (set_dpc s DDone)) /\
  (forall l x, d_pc s = DSelect -> memn l (d_list s) = true -> lst s l = Some x ->
     exists s', cstep s (LRm l) = Some s' /\ d_list s' = swap_remove l (d_list s)).
Proof. exact GenTie_C14.model_dist_steps. Qed.
Print Assumptions gen_model_dist_steps.

Theorem gen_tie_sendSyncFinishedEvent :
  dagsync_sendSyncFinishedEvent
  = FFall ["h.subscriber.latestSyncHandler.setLatestSync(h.peerID, c)";
           "h.subscriber.inEvents <- SyncFinished{Cid: c, PeerID: h.peerID, Count: count}"]%string.
Proof. exact GenTie_C14.tie_sendSyncFinishedEvent. Qed.
Print Assumptions gen_tie_sendSyncFinishedEvent.
