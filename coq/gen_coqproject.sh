#!/bin/sh
# regenerate _CoqProject from the files present
cd "$(dirname "$0")"
{
  echo "-Q lib Lib"
  echo "-Q model Model"
  echo "-Q proofs Proofs"
  echo "-Q props Props"
  echo "-Q gen Gen"
  echo "-arg -w -arg -notation-overridden,-deprecated-hint-without-locality,-deprecated-syntactic-definition,-ambiguous-paths"
  ls lib/*.v model/*.v proofs/*.v props/*.v gen/*.v 2>/dev/null | sort
} > _CoqProject.new
if ! cmp -s _CoqProject.new _CoqProject; then mv _CoqProject.new _CoqProject; coq_makefile -f _CoqProject -o Makefile >/dev/null; else rm _CoqProject.new; [ -f Makefile ] || coq_makefile -f _CoqProject -o Makefile >/dev/null; fi
