(* The model decoder is total: for every byte string it returns Ok or Err, never the
   out-of-fuel class and never Panic.  (Each recursive call consumes a byte, and the fuel
   is twice the input length plus four.) *)
From Lib Require Import Bytes Varint Cid Cbor.
From Model Require Import C13_DagCbor C13_IpldSchema.
From Proofs Require Import C13_DagCbor.
From Coq Require Import Lia ZifyN ZifyNat ZifyBool ZArith.
Open Scope N_scope.
Local Arguments N.mul : simpl never.
Local Arguments N.add : simpl never.
Local Arguments N.sub : simpl never.
Local Arguments N.div : simpl never.
Local Arguments N.modulo : simpl never.

Definition good {A} (lb : nat) (strict : bool) (r : res (A * bytes)) : Prop :=
  match r with
  | Ok (_, rest) => if strict then (length rest < lb)%nat else (length rest <= lb)%nat
  | Err c => c <> EOutOfFuel
  | Panic _ => False
  end.

Ltac necode := unfold EOutOfFuel, ETrunc, EHead, ELen, ETag, ELink, EKey, EDupKey, ETrailing, EChunk, ENegRange; lia.

Lemma good_bind {A B} lb st (e : res (A * bytes)) (k : A * bytes -> res (B * bytes)) lb' st' :
  good lb st e ->
  (forall a r', (length r' <= lb)%nat -> (st = true -> length r' < lb)%nat -> good lb' st' (k (a, r'))) ->
  good lb' st' (bind e k).
Proof.
  destruct e as [[a r']|c|c]; cbn [bind good]; auto; try tauto.
  intros H K. apply K; destruct st; try lia; discriminate.
Qed.

Lemma good_weaken {A} lb lb' st (r : res (A * bytes)) :
  good lb st r -> (lb <= lb')%nat -> good lb' false r.
Proof. destruct r as [[a r']|c|c]; cbn [good]; auto. destruct st; lia. Qed.

Lemma take_len n r x r' : take n r = Some (x, r') -> (length r' <= length r)%nat.
Proof. intro H. apply take_some in H as [-> _]. rewrite app_length. lia. Qed.

Lemma take_good {A} n r (f : bytes -> A) :
  good (length r) false (match take n r with None => Err ETrunc | Some (x, r') => Ok (f x, r') end).
Proof. destruct (take n r) as [[x r']|] eqn:E; [apply take_len in E; cbn [good]; lia|cbn [good]; necode]. Qed.

Lemma rd_uint_good hb r : good (length r) false (rd_uint hb r).
Proof.
  unfold rd_uint. destruct (hb mod 32 <? 24); [cbn [good]; lia|].
  destruct (hb mod 32 =? 24); [apply take_good|].
  destruct (hb mod 32 =? 25); [apply take_good|].
  destruct (hb mod 32 =? 26); [apply take_good|].
  destruct (hb mod 32 =? 27); [apply take_good|]. cbn [good]. necode.
Qed.

Lemma rd_len_good hb r : good (length r) false (rd_len hb r).
Proof.
  unfold rd_len. eapply good_bind; [apply rd_uint_good|]. intros v r' H H'. cbn beta iota.
  destruct (MaxInt <? v); cbn; [necode|exact H].
Qed.

Lemma rd_str_good hb r : good (length r) false (rd_str hb r).
Proof.
  unfold rd_str. eapply good_bind; [apply rd_len_good|]. intros n r1 H H'. cbn beta iota.
  destruct (MaxStr <? n); [cbn; necode|].
  destruct (take n r1) as [[x r2]|] eqn:E; [|cbn; necode]. apply take_len in E. cbn. lia.
Qed.

Lemma chunks_good f : forall maj b, (length b + 1 <= f)%nat -> good (length b) true (rd_chunks f maj b).
Proof.
  induction f as [|f IH]; intros maj b Hf; [lia|].
  destruct b as [|hb r]; cbn [rd_chunks]; [cbn; necode|].
  destruct (hb =? 255); [cbn; lia|]. destruct (negb (hb / 32 =? maj)); [cbn; necode|].
  cbn [length] in *. eapply good_bind; [apply rd_str_good|]. intros x r1 H1 H1'. cbn beta iota.
  eapply good_bind; [apply (IH maj r1); lia|]. intros rest r2 H2 H2'. cbn beta iota. cbn. lia.
Qed.

Lemma bytes_item_good tag x r lb :
  (length r < lb)%nat -> good lb true (n <- bytes_item tag x ;; Ok (n, r)).
Proof.
  intro H. unfold bytes_item. destruct tag as [t|]; [|cbn; exact H].
  destruct (t =? 42); [|cbn; necode]. destruct x as [|x0 x]; [cbn; necode|].
  destruct x0; [|cbn; necode]. destruct (cast x); cbn; necode.
Qed.

Lemma item_seq_good f :
  (forall tag b, (2 * length b + 2 <= f)%nat -> good (length b) true (item f tag b)) /\
  (forall lim ismap b, (2 * length b + 3 <= f)%nat -> good (length b) false (seq f lim ismap b)).
Proof.
  induction f as [|f [IHi IHs]]; [split; intros; lia|]. split.
  - intros tag b Hf. destruct b as [|hb r]; [cbn; necode|]. rewrite item_S. cbn [length] in *.
    repeat match goal with
           | |- good _ _ (if ?c then _ else _) => destruct c
           | |- good _ _ (let _ := _ in _) => cbv zeta
           end;
      try (cbn; lia); try (cbn; necode).
    + destruct (take 2 r) as [[x r']|] eqn:E; [apply take_len in E; cbn; lia|cbn; necode].
    + destruct (take 4 r) as [[x r']|] eqn:E; [apply take_len in E; cbn; lia|cbn; necode].
    + destruct (take 8 r) as [[x r']|] eqn:E; [apply take_len in E; cbn; lia|cbn; necode].
    + eapply good_bind; [apply (chunks_good f MajByteString r); lia|]. intros x r1 H1 H1'. cbn beta iota.
      apply bytes_item_good. lia.
    + eapply good_bind; [apply (chunks_good f MajTextString r); lia|]. intros x r1 H1 H1'. cbn. lia.
    + eapply good_bind; [apply (IHs None false r); lia|]. intros es r1 H1 H1'. cbn. lia.
    + eapply good_bind; [apply (IHs None true r); lia|]. intros es r1 H1 H1'. cbn. lia.
    + eapply good_bind; [apply rd_uint_good|]. intros v r1 H1 H1'. cbn. lia.
    + eapply good_bind; [apply rd_uint_good|]. intros v r1 H1 H1'. cbn beta iota zeta.
      destruct (9223372036854775808 <? (v + 1) mod Pow64); cbn; [necode|lia].
    + eapply good_bind; [apply rd_str_good|]. intros x r1 H1 H1'. cbn beta iota. apply bytes_item_good. lia.
    + eapply good_bind; [apply rd_str_good|]. intros x r1 H1 H1'. cbn. lia.
    + eapply good_bind; [apply rd_len_good|]. intros n r1 H1 H1'. cbn beta iota.
      eapply good_bind; [apply (IHs (Some n) false r1); lia|]. intros es r2 H2 H2'. cbn. lia.
    + eapply good_bind; [apply rd_len_good|]. intros n r1 H1 H1'. cbn beta iota.
      eapply good_bind; [apply (IHs (Some n) true r1); lia|]. intros es r2 H2 H2'. cbn. lia.
    + eapply good_bind; [apply rd_len_good|]. intros t r1 H1 H1'. cbn beta iota.
      pose proof (IHi (Some t) r1) as G. assert (2 * length r1 + 2 <= f)%nat as Hf1 by lia. specialize (G Hf1).
      destruct (item f (Some t) r1) as [[n r2]|c|c]; cbn in *; auto. lia.
  - intros lim ismap b Hf. rewrite seq_eq.
    destruct (seq_stop lim b) as [r|] eqn:Es.
    + cbn. unfold seq_stop in Es. destruct lim as [n|].
      * destruct (n =? 0); inversion Es; subst. lia.
      * destruct b as [|hb r0]; [discriminate|]. destruct (hb =? 255); inversion Es; subst. cbn [length]. lia.
    + destruct ismap.
      * eapply good_bind; [apply (IHi None b); lia|]. intros k r1 H1 H1'. cbn beta iota.
        destruct k; try (cbn; necode).
        eapply good_bind; [apply (IHi None r1); lia|]. intros v r2 H2 H2'. cbn beta iota.
        eapply good_bind; [apply (IHs (lim_pred lim) true r2); lia|]. intros rest r3 H3 H3'. cbn. lia.
      * eapply good_bind; [apply (IHi None b); lia|]. intros v r1 H1 H1'. cbn beta iota.
        eapply good_bind; [apply (IHs (lim_pred lim) false r1); lia|]. intros rest r2 H2 H2'. cbn. lia.
Qed.

Theorem decode_lax_total b :
  match decode_lax b with Ok _ => True | Err c => c <> EOutOfFuel | Panic _ => False end.
Proof.
  unfold decode_lax. destruct (item_seq_good (fuel_for b)) as [Hi _].
  specialize (Hi None b). unfold fuel_for in *. assert (2 * length b + 2 <= 2 * length b + 4)%nat as H by lia.
  specialize (Hi H). destruct (item (2 * length b + 4) None b) as [[n r]|c|c]; cbn [bind good] in *; auto.
  destruct r; [exact I|necode].
Qed.

(* the typed builders only add their own three error classes *)
Definition sch {A} (r : res A) : Prop :=
  match r with
  | Ok _ => True
  | Err c => c = ESchemaKind \/ c = ESchemaMissing \/ c = ESchemaUnknown
  | Panic _ => False
  end.
Lemma sch_bind {A B} (e : res A) (k : A -> res B) : sch e -> (forall a, sch (k a)) -> sch (bind e k).
Proof. destruct e; cbn [bind sch]; auto. Qed.
Lemma sch_map_res {A} (conv : node -> res A) l : (forall x, sch (conv x)) -> sch (map_res conv l).
Proof.
  intro H. induction l as [|x l IH]; [exact I|]. cbn [map_res].
  apply sch_bind; [apply H|]. intro y. apply sch_bind; [exact IH|]. intro t. exact I.
Qed.
Lemma sch_as_list {A} (conv : node -> res A) n : (forall x, sch (conv x)) -> sch (as_list conv n).
Proof. intro H. destruct n; cbn; auto. apply sch_map_res, H. Qed.
Lemma sch_opt {A} (conv : node -> res A) k m : (forall x, sch (conv x)) -> sch (opt conv k m).
Proof. intro H. unfold opt. apply sch_bind; [apply sch_map_res, H|]. intro vs. exact I. Qed.
Lemma sch_req {A} (conv : node -> res A) k m : (forall x, sch (conv x)) -> sch (req conv k m).
Proof. intro H. unfold req. apply sch_bind; [apply sch_opt, H|]. intros [x|]; cbn; auto. Qed.
Lemma sch_req_list {A} (conv : node -> res A) k m : (forall x, sch (conv x)) -> sch (req_list conv k m).
Proof.
  intro H. unfold req_list. apply sch_bind; [apply sch_map_res; intro x; apply sch_as_list, H|]. intros [|v vs]; cbn; auto.
Qed.
Lemma sch_check f m : sch (struct_check f m).
Proof. unfold struct_check. destruct (forallb _ m); cbn; auto. Qed.
Lemma sch_string n : sch (as_string n). Proof. destruct n; cbn; auto. Qed.
Lemma sch_bytes n : sch (as_bytes n). Proof. destruct n; cbn; auto. Qed.
Lemma sch_link n : sch (as_link n). Proof. destruct n; cbn; auto. Qed.
Lemma sch_bool n : sch (as_bool n). Proof. destruct n; cbn; auto. Qed.

Ltac sch_tac :=
  repeat first [ exact I
               | apply sch_check | apply sch_req | apply sch_opt | apply sch_req_list
               | apply sch_bind; [|intro]
               | apply sch_string | apply sch_bytes | apply sch_link | apply sch_bool
               | progress intros ].

Lemma sch_prov n : sch (node_to_prov n).
Proof. destruct n; cbn [node_to_prov]; try (cbn; auto; fail). sch_tac. Qed.
Lemma sch_ext n : sch (node_to_ext n).
Proof. destruct n; cbn [node_to_ext]; try (cbn; auto; fail). sch_tac. apply sch_prov. Qed.
Lemma sch_ad n : sch (node_to_ad n).
Proof. destruct n; cbn [node_to_ad]; try (cbn; auto; fail). sch_tac. apply sch_ext. Qed.
Lemma sch_chunk n : sch (node_to_chunk n).
Proof. destruct n; cbn [node_to_chunk]; try (cbn; auto; fail). sch_tac. Qed.

Lemma sch_total {A} (r : res A) : sch r -> match r with Ok _ => True | Err c => c <> EOutOfFuel | Panic _ => False end.
Proof.
  destruct r; cbn; auto. intros [-> | [-> | ->]]; unfold ESchemaKind, ESchemaMissing, ESchemaUnknown, EOutOfFuel; lia.
Qed.

Theorem decode_total_proved b :
  match decode b with Ok _ => True | Err c => c <> EOutOfFuel | Panic _ => False end /\
  match typed_load_ad b with Ok _ => True | Err c => c <> EOutOfFuel | Panic _ => False end /\
  match typed_load_chunk b with Ok _ => True | Err c => c <> EOutOfFuel | Panic _ => False end.
Proof.
  pose proof (decode_lax_total b) as H. unfold decode, typed_load_ad, typed_load_chunk.
  destruct (decode_lax b) as [n|c|c]; cbn [bind]; try tauto.
  split; [destruct (has_dup_deep n); [necode|exact I]|].
  split; apply sch_total; [apply sch_ad|apply sch_chunk].
Qed.
