(* GenTie_C14 -- dagsync/subscriber.go distributeEvents: how the list of OnSyncFinished channels
   is updated (add, swap-remove, forward to all in order, close all), and the order "record the
   latest sync, then send the event", as regenerated from the Go source
   (gen/Gen_Funcs_dagsync.v), against model/C14_Events.v ([swap_remove], LAdd, DFwd, DClosing). *)
From Coq Require Import ZArith NArith List Bool Lia String.
From Lib Require Import Bytes.
From Model Require Import C14_Events.
From Proofs Require Import GenTie_Lib.
From Gen Require Import Gen_Consts Gen_Funcs_prelude Gen_Funcs_dagsync.
Import ListNotations.
Open Scope Z_scope.

(* channels are the model's listener numbers; Go == on channels is Nat.eqb; 0 stands for nil *)
Definition rm_stmts : list string :=
  ["outEventsChans[i] = outEventsChans[len(outEventsChans)-1]"; "outEventsChans[len(outEventsChans)-1] = nil";
   "outEventsChans = outEventsChans[:len(outEventsChans)-1]"; "close(ch)"]%string.

Lemma last_app_cons {A} (pre : list A) (y : A) (r : list A) (d : A) : last (pre ++ y :: r) d = last (y :: r) d.
Proof.
  induction pre as [|x p IH]; [reflexivity|]. cbn [app]. rewrite <- IH.
  destruct (p ++ y :: r)%list eqn:E; [destruct p; discriminate|reflexivity].
Qed.

Lemma remove_loop : forall (ch : nat) (k : list nat -> list string -> frag (list nat * list string))
                           (suf pre : list nat) (tr : list string),
  dagsync_distributeEvents_remove_loop_1 nat Nat.eqb 0%nat 0%nat ch k suf (len pre) (pre ++ suf)%list tr
  = k (pre ++ swap_remove ch suf)%list (if memn ch suf then (tr ++ rm_stmts)%list else tr).
Proof.
  intros ch k. induction suf as [|y r IH]; intros pre tr;
    cbn [dagsync_distributeEvents_remove_loop_1 swap_remove memn]; [reflexivity|].
  rewrite (Nat.eqb_sym ch y). destruct (Nat.eqb y ch) eqn:E; cbn [orb].
  - set (L := (pre ++ y :: r)%list).
    assert (HL : len L = len pre + 1 + len r) by (unfold L, len; rewrite app_length; cbn; lia).
    pose proof (len_nonneg pre). pose proof (len_nonneg r).
    replace ((0 <=? len L - 1) && (len L - 1 <? len L) && ((0 <=? len pre) && (len pre <? len L)))%bool with true
      by (symmetry; rewrite !andb_true_iff, !Z.leb_le, !Z.ltb_lt; lia).
    cbn [negb].
    set (v := nth (Z.to_nat (len L - 1)) L 0%nat).
    assert (Hv : v = last (y :: r) 0%nat).
    { unfold v. replace (Z.to_nat (len L - 1)) with (List.length L - 1)%nat by (unfold len; lia).
      rewrite nth_last. unfold L. apply last_app_cons. }
    set (L1 := (pre ++ v :: r)%list).
    assert (E1 : list_set L (len pre) v = L1) by (unfold L, L1; apply list_set_app).
    assert (HL1 : len L1 = len L) by (unfold L1, L, len; rewrite !app_length; reflexivity).
    rewrite !E1, ?len_list_set. rewrite <- ?HL1. rewrite ?len_list_set.
    replace ((0 <=? len L1 - 1) && (len L1 - 1 <? len L1))%bool with true
      by (symmetry; rewrite andb_true_iff, Z.leb_le, Z.ltb_lt; lia).
    replace ((0 <=? 0) && (0 <=? len L1 - 1) && (len L1 - 1 <=? len L1))%bool with true
      by (symmetry; rewrite !andb_true_iff, !Z.leb_le; lia).
    cbn [negb].
    assert (H2 : slice (list_set L1 (len L1 - 1) 0%nat) 0 (len L1 - 1) = removelast L1).
    { pose proof (slice_removelast (list_set L1 (len L1 - 1) 0%nat)) as S. rewrite len_list_set in S.
      rewrite S. apply removelast_set_last. unfold L1. destruct pre; discriminate. }
    rewrite H2.
    unfold rm_stmts. rewrite <- !app_assoc. cbn [app].
    f_equal. unfold L1. rewrite removelast_app by discriminate. f_equal.
    destruct r as [|z r']; [reflexivity|]. rewrite Hv. reflexivity.
  - replace (len pre + 1) with (len (pre ++ [y])) by (rewrite len_app; reflexivity).
    replace (pre ++ y :: r)%list with ((pre ++ [y]) ++ r)%list by (rewrite <- app_assoc; reflexivity).
    rewrite IH. rewrite <- app_assoc. reflexivity.
Qed.

(* case ch := <-s.rmEventChan: the model's swap_remove; the channel is closed iff it was registered *)
Theorem tie_distributeEvents_remove : forall (ch : nat) (l : list nat),
  dagsync_distributeEvents_remove nat Nat.eqb 0%nat 0%nat ch l
  = FFall (swap_remove ch l, if memn ch l then rm_stmts else []).
Proof.
  intros. unfold dagsync_distributeEvents_remove.
  exact (remove_loop ch (fun o t => FFall (o, t)) l [] []).
Qed.

(* case ch := <-s.addEventChan: appended at the end (LAdd: d_list s ++ [l]) *)
Theorem tie_distributeEvents_add : forall (ch : nat) (l : list nat),
  dagsync_distributeEvents_add nat ch l = FFall (l ++ [ch])%list.
Proof. reflexivity. Qed.

(* case event, ok := <-s.inEvents: every registered channel gets the event, in list order (DFwd);
   when inEvents is closed every channel is closed, in list order, and the distributor returns (DClosing) *)
Lemma forward_loop : forall (k : list string -> frag (list nat * list string)) (l : list nat) (tr : list string),
  dagsync_distributeEvents_forward_loop_2 nat k l tr = k (tr ++ map (fun _ => "ch <- event"%string) l)%list.
Proof.
  induction l as [|x r IH]; intros tr; cbn [dagsync_distributeEvents_forward_loop_2 map].
  - rewrite app_nil_r; reflexivity.
  - rewrite IH, <- app_assoc. reflexivity.
Qed.
Lemma closing_loop : forall (k : list string -> frag (list nat * list string)) (l : list nat) (tr : list string),
  dagsync_distributeEvents_forward_loop_1 nat k l tr = k (tr ++ map (fun _ => "close(ch)"%string) l)%list.
Proof.
  induction l as [|x r IH]; intros tr; cbn [dagsync_distributeEvents_forward_loop_1 map].
  - rewrite app_nil_r; reflexivity.
  - rewrite IH, <- app_assoc. reflexivity.
Qed.

Theorem tie_distributeEvents_forward : forall (ok : bool) (l : list nat),
  dagsync_distributeEvents_forward nat ok l =
  if ok then FFall (l, map (fun _ => "ch <- event"%string) l)
  else FReturn "return"%string (l, map (fun _ => "close(ch)"%string) l).
Proof.
  intros. unfold dagsync_distributeEvents_forward. destruct ok; cbn [negb].
  - rewrite forward_loop. reflexivity.
  - rewrite closing_loop. reflexivity.
Qed.

(* the model takes the same steps: DFwd e (l :: rest) pushes to l and continues with rest;
   DClosing (l :: rest) closes l and continues with rest; the removal uses swap_remove *)
Theorem model_dist_steps : forall (s : core),
  (forall e, d_pc s = DFwd e [] -> cstep s LDist = Some (set_dpc s DSelect)) /\
  (d_pc s = DClosing [] -> cstep s LDist = Some (set_dpc s DDone)) /\
  (forall l x, d_pc s = DSelect -> memn l (d_list s) = true -> lst s l = Some x ->
     exists s', cstep s (LRm l) = Some s' /\ d_list s' = swap_remove l (d_list s)).
Proof.
  intros s. repeat split.
  - intros e E. unfold cstep. rewrite E. reflexivity.
  - intros E. unfold cstep. rewrite E. reflexivity.
  - intros l x E M Lx. unfold cstep. rewrite E, M, Lx. eexists. split; [reflexivity|].
    destruct (l_in_closed x); reflexivity.
Qed.

(* sendSyncFinishedEvent: the latest sync is recorded before the event is sent *)
Theorem tie_sendSyncFinishedEvent :
  dagsync_sendSyncFinishedEvent
  = FFall ["h.subscriber.latestSyncHandler.setLatestSync(h.peerID, c)";
           "h.subscriber.inEvents <- SyncFinished{Cid: c, PeerID: h.peerID, Count: count}"]%string.
Proof. reflexivity. Qed.
