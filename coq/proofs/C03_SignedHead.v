(* C03 -- proofs about model/C03_SignedHead.v.

   Proved inside [Section Proofs] for an ARBITRARY signature scheme; the idealisations a
   lemma needs are Section Hypotheses and become its explicit premises:
     VS : VerifySign   VU : VerifyUnique   SI : SignInjective   PI : PubInjective
     PID : PeerIdInjective   EQB : peerid_eqb decides equality (Go string comparison) *)
From Lib Require Import Bytes Varint Cid SymCrypto.
From Model Require Import C03_SignedHead.
From Coq Require Import Lia.
Open Scope N_scope.

(* ---- the payload: CID bytes then topic bytes, no separator ---- *)

Theorem payload_injective_proved c t c' t' :
  cid_wf c = true -> cid_wf c' = true ->
  payload c t = payload c' t' -> c = c' /\ topic_bytes t = topic_bytes t'.
Proof.
  intros W W' H. unfold payload in H.
  pose proof (Cid.parse_fmt c (topic_bytes t) W) as P.
  pose proof (Cid.parse_fmt c' (topic_bytes t') W') as P'.
  rewrite H in P. rewrite P in P'. inversion P'. auto.
Qed.

(* without self-delimiting CIDs a separator-free concatenation would be ambiguous *)
Example plain_bytes_would_collide :
  ([1; 2] ++ [3] = [1] ++ [2; 3])%list.
Proof. reflexivity. Qed.

Lemma cid_eqb_eq a b : cid_eqb a b = true <-> a = b.
Proof.
  destruct a as [d|co m d], b as [d'|co' m' d']; cbn; split; intro H; try discriminate.
  - apply bytes_eqb_eq in H. congruence.
  - inversion H; subst. apply bytes_eqb_eq. reflexivity.
  - apply andb_prop in H as [H H3]. apply andb_prop in H as [H1 H2].
    apply N.eqb_eq in H1, H2. apply bytes_eqb_eq in H3. congruence.
  - inversion H; subst. rewrite !N.eqb_refl. cbn. apply bytes_eqb_eq. reflexivity.
Qed.

Section Proofs.
  Variables privkey pubkey sigt peerid : Type.
  Variable pub : privkey -> pubkey.
  Variable sign : privkey -> bytes -> sigt.
  Variable verify : pubkey -> bytes -> sigt -> bool.
  Variable peer_id : pubkey -> peerid.
  Variable peerid_eqb : peerid -> peerid -> bool.
  Variable chain_sync : cid -> option cid -> list cid * bool.

  Hypothesis VS : VerifySign pub sign verify.
  Hypothesis VU : VerifyUnique pub sign verify.
  Hypothesis SI : SignInjective sign.
  Hypothesis PI : PubInjective pub.
  Hypothesis PID : PeerIdInjective peer_id.
  Hypothesis EQB : forall a b, peerid_eqb a b = true <-> a = b.

  Notation validate_head := (validate_head verify peer_id).
  Notation get_head := (get_head verify peer_id peerid_eqb).
  Notation new_signed_head := (new_signed_head pub sign).
  Notation serve_head := (serve_head pub sign).
  Notation sync_ad_chain := (sync_ad_chain verify peer_id peerid_eqb chain_sync).
  Notation head := (signed_head pubkey sigt).

  (* ---- Validate ---- *)

  Lemma validate_ok_iff (sh : head) p :
    validate_head sh = Ok p <->
    exists k, sh_key sh = KKey (pub k) /\
              sh_sig sh = SBytes (sign k (payload (sh_cid sh) (sh_topic sh))) /\ p = peer_id (pub k).
  Proof.
    unfold C03_SignedHead.validate_head. destruct (sh_sig sh) as [|s]; [split; [discriminate|intros (k & _ & H & _); discriminate]|].
    destruct (sh_key sh) as [| |pk]; try (split; [discriminate|intros (k & H & _); discriminate]).
    destruct (verify pk (payload (sh_cid sh) (sh_topic sh)) s) eqn:V; split.
    - intro H. inversion H; subst. apply VU in V as (k & -> & ->). exists k. auto.
    - intros (k & Hk & Hs & ->). inversion Hk; subst. reflexivity.
    - discriminate.
    - intros (k & Hk & Hs & ->). inversion Hk; inversion Hs; subst. rewrite VS in V. discriminate.
  Qed.

  (* ---- GetHead ---- *)

  Theorem head_accept_iff_proved (e : peerid) (resp : option head) c :
    get_head (Some e) resp = Ok c <->
    exists sh k, resp = Some sh /\ sh_cid sh = c /\ sh_key sh = KKey (pub k) /\
                 sh_sig sh = SBytes (sign k (payload c (sh_topic sh))) /\ peer_id (pub k) = e.
  Proof.
    unfold C03_SignedHead.get_head. destruct resp as [sh|]; [|split; [discriminate|intros (? & ? & H & _); discriminate]].
    destruct (validate_head sh) as [p| |] eqn:V; cbn [bind].
    - apply validate_ok_iff in V as (k & Hk & Hs & ->).
      destruct (peerid_eqb (peer_id (pub k)) e) eqn:P; split.
      + intro H. inversion H; subst. apply EQB in P. exists sh, k. auto 10.
      + intros (sh' & k' & E & Hc & _). inversion E; subst. reflexivity.
      + discriminate.
      + intros (sh' & k' & E & Hc & Hk' & _ & Hp). inversion E; subst sh'. rewrite Hk in Hk'. inversion Hk'.
        rewrite <- H0 in Hp. apply EQB in Hp. congruence.
    - split; [discriminate|]. intros (sh' & k & E & Hc & Hk & Hs & Hp). inversion E; subst sh'.
      assert (validate_head sh = Ok (peer_id (pub k))) as V'.
      { apply validate_ok_iff. exists k. rewrite Hc. auto. }
      congruence.
    - split; [discriminate|]. intros (sh' & k & E & Hc & Hk & Hs & Hp). inversion E; subst sh'.
      assert (validate_head sh = Ok (peer_id (pub k))) as V'.
      { apply validate_ok_iff. exists k. rewrite Hc. auto. }
      congruence.
  Qed.

  (* a Syncer created without a peer ID: any validly self-signed head is taken
     (documented behaviour of the ipnisync API; never the case on the subscriber path) *)
  Theorem head_accept_no_expected_proved (resp : option head) c :
    get_head None resp = Ok c <->
    exists sh k, resp = Some sh /\ sh_cid sh = c /\ sh_key sh = KKey (pub k) /\
                 sh_sig sh = SBytes (sign k (payload c (sh_topic sh))).
  Proof.
    unfold C03_SignedHead.get_head. destruct resp as [sh|]; [|split; [discriminate|intros (? & ? & H & _); discriminate]].
    destruct (validate_head sh) as [p| |] eqn:V; cbn [bind].
    - apply validate_ok_iff in V as (k & Hk & Hs & ->). split.
      + intro H. inversion H; subst. exists sh, k. auto.
      + intros (sh' & k' & E & Hc & _). inversion E; subst. reflexivity.
    - split; [discriminate|]. intros (sh' & k & E & Hc & Hk & Hs). inversion E; subst sh'.
      assert (validate_head sh = Ok (peer_id (pub k))) as V' by (apply validate_ok_iff; exists k; rewrite Hc; auto).
      congruence.
    - split; [discriminate|]. intros (sh' & k & E & Hc & Hk & Hs). inversion E; subst sh'.
      assert (validate_head sh = Ok (peer_id (pub k))) as V' by (apply validate_ok_iff; exists k; rewrite Hc; auto).
      congruence.
  Qed.

  Lemma not_ok {A} (r : res A) : (forall a, r <> Ok a) -> is_ok r = false.
  Proof. destruct r; cbn; intro H; [exfalso; eapply H; reflexivity|reflexivity|reflexivity]. Qed.

  (* ---- what a publisher serves ---- *)

  Theorem published_head_verifies_proved c topic k :
    validate_head (new_signed_head c topic k) = Ok (peer_id (pub k)) /\
    get_head (Some (peer_id (pub k))) (serve_head (Some c) topic k) = Ok c /\
    serve_head None topic k = None.
  Proof.
    assert (V : validate_head (new_signed_head c topic k) = Ok (peer_id (pub k))).
    { apply validate_ok_iff. exists k. cbn. auto. }
    split; [exact V|]. split; [|reflexivity].
    cbn [C03_SignedHead.serve_head C03_SignedHead.get_head]. rewrite V. cbn [bind].
    assert (P : peerid_eqb (peer_id (pub k)) (peer_id (pub k)) = true) by (apply EQB; reflexivity).
    rewrite P. reflexivity.
  Qed.

  (* ---- alterations ---- *)

  Section Altered.
    Variables (c : cid) (topic : bytes) (k : privkey).
    Let sh0 := new_signed_head c topic k.
    Let e := peer_id (pub k).
    Hypothesis Wc : cid_wf c = true.

    (* any head that GetHead takes for publisher e with the honest head's key and signature
       is the honest head up to the absent/empty topic *)
    Lemma accepted_with_honest_sig c' t' kf sf c'' :
      get_head (Some e) (Some (SignedHead c' t' kf sf)) = Ok c'' ->
      sf = sh_sig sh0 -> cid_wf c' = true ->
      c' = c /\ topic_bytes t' = topic_bytes (sh_topic sh0) /\ kf = sh_key sh0.
    Proof.
      intros H Hs W'. apply head_accept_iff_proved in H as (sh & k' & E & Hc & Hk & Hsig & Hp).
      inversion E; subst sh; clear E. cbn [sh_cid sh_key sh_sig sh_topic] in Hc, Hk, Hsig.
      rewrite Hs in Hsig. subst c''. unfold sh0, C03_SignedHead.new_signed_head in Hsig.
      cbn [sh_sig] in Hsig. inversion Hsig as [Hsig'].
      apply SI in Hsig' as [Ek Hpay]. subst k'.
      apply payload_injective_proved in Hpay as [Ec Ht]; [|assumption|assumption].
      subst c'. split; [reflexivity|]. split; [symmetry; exact Ht|]. rewrite Hk. reflexivity.
    Qed.

    Theorem any_field_alteration_rejected_proved :
      (* CID replaced *)
      (forall c', cid_wf c' = true -> c' <> c ->
         is_ok (get_head (Some e) (Some (SignedHead c' (sh_topic sh0) (sh_key sh0) (sh_sig sh0)))) = false) /\
      (* topic replaced (incl. present <-> absent); an absent and an empty topic are one topic *)
      (forall t', topic_bytes t' <> topic_bytes (sh_topic sh0) ->
         is_ok (get_head (Some e) (Some (SignedHead c t' (sh_key sh0) (sh_sig sh0)))) = false) /\
      (* key replaced (another key, no key, not a key) *)
      (forall kf, kf <> sh_key sh0 ->
         is_ok (get_head (Some e) (Some (SignedHead c (sh_topic sh0) kf (sh_sig sh0)))) = false) /\
      (* signature replaced (another signature, none) *)
      (forall sf, sf <> sh_sig sh0 ->
         is_ok (get_head (Some e) (Some (SignedHead c (sh_topic sh0) (sh_key sh0) sf))) = false) /\
      (* re-signed by any other key *)
      (forall k', k' <> k ->
         is_ok (get_head (Some e) (Some (new_signed_head c topic k'))) = false) /\
      (* key and signature taken from any valid head of another identity *)
      (forall c2 topic2 k2, k2 <> k ->
         let sh2 := new_signed_head c2 topic2 k2 in
         is_ok (get_head (Some e) (Some (SignedHead c (sh_topic sh0) (sh_key sh2) (sh_sig sh2)))) = false).
    Proof.
      repeat split.
      - intros c' W' N. apply not_ok. intros c'' H.
        apply accepted_with_honest_sig in H as (E & _); auto.
      - intros t' N. apply not_ok. intros c'' H.
        apply accepted_with_honest_sig in H as (_ & E & _); auto.
      - intros kf N. apply not_ok. intros c'' H.
        apply accepted_with_honest_sig in H as (_ & _ & E); auto.
      - intros sf N. apply not_ok. intros c'' H.
        apply head_accept_iff_proved in H as (sh & k' & E & Hc & Hk & Hsig & Hp).
        inversion E; subst sh. cbn in *. inversion Hk as [Hk']. apply PI in Hk' as <-. congruence.
      - intros k' N. apply not_ok. intros c'' H.
        apply head_accept_iff_proved in H as (sh & k'' & E & Hc & Hk & Hsig & Hp).
        inversion E; subst sh. cbn in *. inversion Hk as [Hk']. apply PI in Hk' as <-.
        unfold e in Hp. apply PID in Hp. apply PI in Hp. contradiction.
      - intros c2 topic2 k2 N sh2. apply not_ok. intros c'' H.
        apply head_accept_iff_proved in H as (sh & k'' & E & Hc & Hk & Hsig & Hp).
        inversion E; subst sh. cbn in *. inversion Hk as [Hk']. apply PI in Hk' as <-.
        unfold e in Hp. apply PID in Hp. apply PI in Hp. contradiction.
    Qed.
  End Altered.

  (* a response that is no head at all *)
  Lemma no_response_rejected e : is_ok (get_head e None) = false.
  Proof. reflexivity. Qed.

  (* ---- subscriber path ---- *)

  Lemma first_some_in {A} (l : list (option A)) a : first_some l = Some a -> In (Some a) l.
  Proof. induction l as [|[x|] l IH]; cbn; intro H; [discriminate|inversion H; auto|auto]. Qed.

  Lemma first_some_none {A} (l : list (option A)) : first_some l = None <-> forall a, ~ In (Some a) l.
  Proof.
    induction l as [|[x|] l IH]; cbn.
    - split; auto.
    - split; [discriminate|]. intro H. exfalso. apply (H x). auto.
    - rewrite IH. split; intros H a; [intros [E|I]; [discriminate|apply (H a I)]|intro I; apply (H a); auto].
  Qed.

  Theorem peer_id_never_empty_on_subscriber_path_proved (ai : addr_info peerid) :
    (* the head query of SyncAdChain always runs with an expected peer ID ... *)
    (forall x, subscriber_expected ai = Ok x -> exists id, x = Some id) /\
    (* ... which is the ID given, else the first one carried by an address ... *)
    (forall id, remove_id ai = Ok id ->
       ai_id ai = Some id \/ (ai_id ai = None /\ first_some (ai_addrs ai) = Some id /\ In (Some id) (ai_addrs ai))) /\
    (* ... and without any ID there is an error and no request at all *)
    (is_ok (remove_id ai) = false <-> ai_id ai = None /\ forall a, ~ In (Some a) (ai_addrs ai)) /\
    (forall (resp : option head) st, is_ok (remove_id ai) = false ->
       exists err, sync_ad_chain ai resp st = (Err err, st)).
  Proof.
    unfold subscriber_expected, remove_id. destruct (ai_id ai) as [i|] eqn:I.
    - split; [intros x H; inversion H; eauto|]. split; [intros id H; inversion H; auto|].
      split; [split; [discriminate|intros [H _]; discriminate]|]. intros resp st H. discriminate.
    - destruct (first_some (ai_addrs ai)) as [i|] eqn:F.
      + split; [intros x H; inversion H; eauto|]. split.
        * intros id H; inversion H; subst. right. auto using first_some_in.
        * split; [split; [discriminate|]|intros resp st H; discriminate].
          intros [_ H]. apply first_some_in in F. exfalso. eapply H; eauto.
      + split; [intros x H; discriminate|]. split; [intros id H; discriminate|].
        split; [split; [intros _; split; [reflexivity|apply first_some_none; exact F]|reflexivity]|].
        intros resp st _. unfold C03_SignedHead.sync_ad_chain, remove_id. rewrite I, F. eauto.
  Qed.

  (* one SyncAdChain call whose head is rejected: error, exactly the head request is added to
     the request log (nothing follows it), latest-sync untouched *)
  Theorem rejected_head_no_effect_proved (ai : addr_info peerid) (resp : option head) st id :
    remove_id ai = Ok id -> is_ok (get_head (Some id) resp) = false ->
    let '(r, st') := sync_ad_chain ai resp st in
    is_ok r = false /\ st_latest st' = st_latest st /\ st_reqs st' = (st_reqs st ++ [RqHead])%list.
  Proof.
    intros R H. unfold C03_SignedHead.sync_ad_chain. rewrite R.
    destruct (get_head (Some id) resp) as [c| |] eqn:G; [discriminate| |]; cbn; auto.
  Qed.

  (* an accepted head: the sync runs; latest-sync becomes the head iff it succeeds *)
  Theorem accepted_head_effect_proved (ai : addr_info peerid) (resp : option head) st id c :
    remove_id ai = Ok id -> get_head (Some id) resp = Ok c ->
    let '(r, st') := sync_ad_chain ai resp st in
    (r = Ok c /\ st_latest st' = Some c) \/ (is_ok r = false /\ st_latest st' = st_latest st).
  Proof.
    intros R H. unfold C03_SignedHead.sync_ad_chain. rewrite R, H.
    destruct (option_eqb cid_eqb (st_latest st) (Some c)) eqn:E.
    - left. split; [reflexivity|]. cbn. destruct (st_latest st) as [l|]; cbn in E; [|discriminate].
      apply cid_eqb_eq in E. congruence.
    - destruct (chain_sync c (st_latest st)) as [blocks ok]. destruct ok; cbn; auto.
  Qed.

  (* ---- any history of SyncAdChain calls ---- *)

  Fixpoint run (calls : list (addr_info peerid * option head)) (st : sub_state) : sub_state :=
    match calls with
    | [] => st
    | (ai, resp) :: r => run r (snd (sync_ad_chain ai resp st))
    end.

  Definition accepted_call (call : addr_info peerid * option head) (c : cid) : Prop :=
    exists id, remove_id (fst call) = Ok id /\ get_head (Some id) (snd call) = Ok c.

  Lemma step_latest ai resp st :
    st_latest (snd (sync_ad_chain ai resp st)) = st_latest st \/
    exists c, accepted_call (ai, resp) c /\ st_latest (snd (sync_ad_chain ai resp st)) = Some c.
  Proof.
    unfold C03_SignedHead.sync_ad_chain. destruct (remove_id ai) as [id| |] eqn:R; cbn; auto.
    destruct (get_head (Some id) resp) as [c| |] eqn:G; cbn; auto.
    destruct (option_eqb cid_eqb (st_latest st) (Some c)); cbn; auto.
    destruct (chain_sync c (st_latest st)) as [blocks ok]. destruct ok; cbn; auto.
    right. exists c. split; [exists id; auto|reflexivity].
  Qed.

  Lemma step_blocks ai resp st :
    (forall c, ~ accepted_call (ai, resp) c) ->
    blocks_of (st_reqs (snd (sync_ad_chain ai resp st))) = blocks_of (st_reqs st).
  Proof.
    intro N. unfold C03_SignedHead.sync_ad_chain. destruct (remove_id ai) as [id| |] eqn:R; cbn; auto.
    assert (B : forall l, blocks_of (l ++ [RqHead]) = blocks_of l).
    { induction l as [|[|x] l IH]; cbn; auto. rewrite IH. reflexivity. }
    destruct (get_head (Some id) resp) as [c| |] eqn:G; cbn; auto.
    exfalso. apply (N c). exists id. auto.
  Qed.

  (* over ANY history of head-query syncs: latest-sync is its initial value or the CID of a
     head that was accepted in that history; and if no head of the history is accepted, no
     block is ever requested and latest-sync does not move *)
  Theorem history_latest_only_from_accepted_heads_proved calls st :
    (st_latest (run calls st) = st_latest st \/
     exists call c, In call calls /\ accepted_call call c /\ st_latest (run calls st) = Some c) /\
    ((forall call c, In call calls -> ~ accepted_call call c) ->
     st_latest (run calls st) = st_latest st /\
     blocks_of (st_reqs (run calls st)) = blocks_of (st_reqs st)).
  Proof.
    revert st. induction calls as [|[ai resp] r IH]; intro st; cbn [run].
    - split; auto.
    - destruct (IH (snd (sync_ad_chain ai resp st))) as [IH1 IH2]. split.
      + destruct IH1 as [E|(call & c & I & A & E)].
        * rewrite E. destruct (step_latest ai resp st) as [S|(c & A & S)]; [auto|].
          right. exists (ai, resp), c. cbn. auto.
        * right. exists call, c. cbn. auto.
      + intro N. destruct IH2 as [L B]; [intros call c I; apply N; cbn; auto|].
        rewrite L, B. split.
        * destruct (step_latest ai resp st) as [S|(c & A & _)]; [exact S|].
          exfalso. apply (N (ai, resp) c); cbn; auto.
        * apply step_blocks. intros c A. apply (N (ai, resp) c); cbn; auto.
  Qed.
End Proofs.

(* ---- the publisher under concurrency ---- *)

Lemma root_after_app pre post root : root_after (pre ++ post) root = root_after post (root_after pre root).
Proof. revert root. induction pre as [|[r|i|i] pre IH]; intro root; cbn; auto. Qed.

(* after a SetRoot with no later SetRoot the root is the one that was set *)
Lemma root_after_last pre r mid root :
  (forall r', ~ In (PSetRoot r') mid) -> root_after (pre ++ PSetRoot r :: mid) root = r.
Proof.
  intro N. rewrite root_after_app. cbn. clear pre root.
  revert r. induction mid as [|[r'|i|i] mid IH]; intro r; cbn; auto.
  - exfalso. apply (N r'). left. reflexivity.
  - apply IH. intros r' I. apply (N r'). right. exact I.
  - apply IH. intros r' I. apply (N r'). right. exact I.
Qed.

Section PubProofs.
  Variables privkey pubkey sigt : Type.
  Variable pub : privkey -> pubkey.
  Variable sign : privkey -> bytes -> sigt.

  (* every response of every schedule is the head signed for the root the request read: the
     root current when it went through its critical section *)
  Lemma pub_run_outputs topic k : forall evs st i out,
    In (i, out) (pub_run pub sign topic k evs st) ->
    (exists r, plookup i (p_pend st) = Some r /\ out = serve_head pub sign r topic k) \/
    (exists pre post, evs = pre ++ PRead i :: post /\
                      out = serve_head pub sign (root_after pre (p_root st)) topic k).
  Proof.
    induction evs as [|[r|j|j] evs IH]; intros st i out H; cbn in H; [contradiction| | |].
    - apply IH in H as [(r0 & L & E)|(pre & post & E1 & E2)]; cbn in *.
      + left. eauto.
      + right. exists (PSetRoot r :: pre), post. subst. auto.
    - apply IH in H as [(r0 & L & E)|(pre & post & E1 & E2)]; cbn in *.
      + destruct (j =? i) eqn:J.
        * apply N.eqb_eq in J. subst j. inversion L; subst. right. exists [], evs. auto.
        * left. eauto.
      + right. exists (PRead j :: pre), post. subst. auto.
    - destruct (plookup j (p_pend st)) as [r|] eqn:L.
      + destruct H as [H|H].
        * inversion H; subst. left. eauto.
        * apply IH in H as [(r0 & L0 & E)|(pre & post & E1 & E2)]; [left; eauto|].
          right. exists (PServe j :: pre), post. subst. auto.
      + apply IH in H as [(r0 & L0 & E)|(pre & post & E1 & E2)]; [left; eauto|].
        right. exists (PServe j :: pre), post. subst. auto.
  Qed.
End PubProofs.

Section PubTheorem.
  Variables privkey pubkey sigt peerid : Type.
  Variable pub : privkey -> pubkey.
  Variable sign : privkey -> bytes -> sigt.
  Variable verify : pubkey -> bytes -> sigt -> bool.
  Variable peer_id : pubkey -> peerid.
  Variable peerid_eqb : peerid -> peerid -> bool.
  Hypothesis VS : VerifySign pub sign verify.
  Hypothesis VU : VerifyUnique pub sign verify.
  Hypothesis EQB : forall a b, peerid_eqb a b = true <-> a = b.

  Theorem published_head_follows_set_root_proved topic k evs i out :
    In (i, out) (pub_run pub sign topic k evs (PubState None [])) ->
    exists pre post, evs = pre ++ PRead i :: post /\
      let r := root_after pre None in
      out = serve_head pub sign r topic k /\
      (forall c, r = Some c ->
         exists sh, out = Some sh /\ sh_cid sh = c /\
                    validate_head verify peer_id sh = Ok (peer_id (pub k)) /\
                    get_head verify peer_id peerid_eqb (Some (peer_id (pub k))) out = Ok c) /\
      (r = None -> out = None) /\
      (forall pre' r' mid, pre = pre' ++ PSetRoot r' :: mid ->
         (forall r'', ~ In (PSetRoot r'') mid) -> r = r').
  Proof.
    intro H. apply pub_run_outputs in H as [(r0 & L & _)|(pre & post & E1 & E2)]; [discriminate|].
    cbn [p_root] in E2. exists pre, post. split; [exact E1|]. cbv zeta. split; [exact E2|]. split; [|split].
    - intros c Hr. rewrite Hr in E2. cbn in E2. eexists. split; [exact E2|]. split; [reflexivity|].
      destruct (published_head_verifies_proved _ _ _ _ pub sign verify peer_id peerid_eqb VS VU EQB c topic k) as (A & B & _).
      split; [exact A|]. rewrite E2. exact B.
    - intro Hr. rewrite Hr in E2. exact E2.
    - intros pre' r' mid E N. rewrite E. apply root_after_last. exact N.
  Qed.
End PubTheorem.

(* ------------------------------------------------------------------ *)
(* non-vacuity on the symbolic instance *)

Definition ex_cid : cid := CidV1 297 18 (List.repeat 7 32).

Example honest_head_accepted :
  get_head Sym.verify Sym.peer_id Sym.peerid_eqb (Some 3)
           (Some (new_signed_head Sym.pub Sym.sign ex_cid [47; 116] 3)) = Ok ex_cid.
Proof. vm_compute. reflexivity. Qed.

Example resigned_head_rejected :
  is_ok (get_head Sym.verify Sym.peer_id Sym.peerid_eqb (Some 3)
           (Some (new_signed_head Sym.pub Sym.sign ex_cid [47; 116] 4))) = false.
Proof. vm_compute. reflexivity. Qed.

(* an absent topic and an empty topic are the same topic for the signature *)
Example empty_topic_is_absent_topic :
  get_head Sym.verify Sym.peer_id Sym.peerid_eqb (Some 3)
           (Some (SignedHead ex_cid (Some []) (KKey 3) (SBytes (Sym.Sig 3 (payload ex_cid None))))) = Ok ex_cid.
Proof. vm_compute. reflexivity. Qed.

Example ex_cid_wf : cid_wf ex_cid = true.
Proof. vm_compute. reflexivity. Qed.
