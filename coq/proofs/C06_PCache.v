(* C06 — proofs about model/C06_PCache.v (the repaired publication rule, [fixed] = true;
   any merge policy; any time-to-live). *)
From stdpp Require Import gmap.
From Model Require Import C06_PCache.
From Coq Require Import ZArith NArith Lia.
From Gen Require Gen_Funcs.

(* advertisement times present in a record are after 1970 *)
Definition wf_rec (r : rec) : Prop := match r_time r with Some t => (0 < t)%Z | None => True end.

Definition wf_src (o : src_outcome) : Prop :=
  match o with Reports l => Forall (fun pr : N * rec => wf_rec pr.2) l | _ => True end.
Definition wf_fetch (o : fetch_outcome) : Prop :=
  match o with Found r => wf_rec r | _ => True end.
Definition wf_op (o : op) : Prop :=
  match o with
  | ORefresh _ outs => Forall wf_src outs
  | OGet _ _ outs => Forall wf_fetch outs
  | OWait => True
  end.

Lemma eff_time_nonneg r : wf_rec r -> (0 <= eff_time r)%Z.
Proof. unfold wf_rec, eff_time. destruct (r_time r); simpl; lia. Qed.

Lemma eff_raw r : wf_rec r -> Z.max 0 (raw_time r) = eff_time r.
Proof. unfold wf_rec, eff_time, raw_time. destruct (r_time r); simpl; lia. Qed.

(* ---------------------------------------------------------------- *)
(* the reader's view                                                  *)

Lemma view_of_lookup ru rm pid :
  view_of ru rm pid = match ru !! pid with Some v => Some v | None => rm !! pid end.
Proof.
  unfold view_of. rewrite lookup_union.
  destruct (ru !! pid), (rm !! pid); reflexivity.
Qed.

Lemma view_of_insert ru rm pid v : view_of (<[pid := v]> ru) rm pid = Some v.
Proof. rewrite view_of_lookup, lookup_insert. reflexivity. Qed.

Lemma view_of_insert_ne ru rm pid q v : pid <> q -> view_of (<[pid := v]> ru) rm q = view_of ru rm q.
Proof. intro H. rewrite !view_of_lookup, lookup_insert_ne by done. reflexivity. Qed.

Lemma listing_lookup s pid : listing s !! pid = visible s pid.
Proof.
  unfold listing, visible, view, view_of, vis. rewrite lookup_omap.
  destruct ((st_ru s ∪ st_rm s) !! pid) as [[r|]|]; reflexivity.
Qed.

(* ---------------------------------------------------------------- *)
(* one source answer against one write-map entry                      *)

Definition entry_after (seq' : N) (oe : option entry) (rs : list rec) : option entry :=
  fold_left (fun oe r => Some (apply_entry seq' oe r)) rs oe.

Fixpoint reps (pid : N) (l : list (N * rec)) : list rec :=
  match l with
  | [] => []
  | pr :: l' => if decide (pr.1 = pid) then pr.2 :: reps pid l' else reps pid l'
  end.

(* what the responding sources said about [pid], in the order the loop meets it, up to the
   source at which the context was found cancelled *)
Fixpoint wreps (pid : N) (outs : list src_outcome) : list rec :=
  match outs with
  | [] => []
  | Reports l :: rest => reps pid l ++ wreps pid rest
  | Fails :: rest => wreps pid rest
  | CancelledHere :: _ => []
  end.

Definition completes (outs : list src_outcome) : bool :=
  forallb (fun o => match o with CancelledHere => false | _ => true end) outs.

Lemma fold_apply_lookup seq' l : forall w pid,
  fold_left (apply_info seq') l w !! pid = entry_after seq' (w !! pid) (reps pid l).
Proof.
  induction l as [|[q r] l IH]; intros w pid; [reflexivity|].
  cbn [fold_left reps fst snd]. rewrite IH. unfold apply_info; cbn [fst snd].
  destruct (decide (q = pid)) as [->|Hne].
  - rewrite lookup_insert. reflexivity.
  - rewrite lookup_insert_ne by done. reflexivity.
Qed.

Lemma entry_after_app seq' oe a b :
  entry_after seq' oe (a ++ b) = entry_after seq' (entry_after seq' oe a) b.
Proof. unfold entry_after. apply fold_left_app. Qed.

Lemma walk_spec seq' outs : forall w c w1 b c1,
  walk seq' outs w c = (w1, b, c1) ->
  (forall pid, w1 !! pid = entry_after seq' (w !! pid) (wreps pid outs)) /\
  b = negb (completes outs) /\
  (completes outs = true -> c1 = (c + length outs)%nat).
Proof.
  induction outs as [|o outs IH]; intros w c w1 b c1 H.
  - inversion H; subst. repeat split; auto; intros; cbn; lia.
  - destruct o as [l| |]; cbn [walk] in H.
    + apply IH in H as (H1 & H2 & H3). repeat split.
      * intro pid. rewrite H1, fold_apply_lookup. cbn [wreps]. rewrite entry_after_app. reflexivity.
      * exact H2.
      * cbn. intro Hc. rewrite H3 by exact Hc. lia.
    + apply IH in H as (H1 & H2 & H3). repeat split; auto.
      cbn. intro Hc. rewrite H3 by exact Hc. lia.
    + inversion H; subst. repeat split; auto. cbn. discriminate.
Qed.

Lemma Forall_wf_reps pid l :
  Forall (fun pr : N * rec => wf_rec pr.2) l -> Forall wf_rec (reps pid l).
Proof.
  induction 1 as [|[q r] l H1 H2 IH]; cbn; [constructor|].
  destruct (decide (q = pid)); [constructor|]; assumption.
Qed.

Lemma Forall_wf_wreps pid outs : Forall wf_src outs -> Forall wf_rec (wreps pid outs).
Proof.
  induction 1 as [|o outs H1 H2 IH]; cbn; [constructor|].
  destruct o; cbn in *; try assumption; [|constructor].
  apply Forall_app. split; [apply Forall_wf_reps; assumption|assumption].
Qed.

(* per-entry well-formedness: the time kept is the time of the record kept *)
Definition entry_ok (e : entry) : Prop :=
  match e_prov e with
  | Some r => Z.max 0 (e_last e) = eff_time r /\ wf_rec r
  | None => e_last e = (-1)%Z /\ e_dirty e = false
  end.

Definition oentry_ok (oe : option entry) : Prop :=
  match oe with Some e => entry_ok e | None => True end.

(* the time the cache holds for a provider: 0 when it holds none *)
Definition ctime (oe : option entry) : Z :=
  match oe with Some e => Z.max 0 (e_last e) | None => 0%Z end.

Definition lmax (rs : list rec) : Z := fold_right (fun r m => Z.max (eff_time r) m) 0%Z rs.

Lemma lmax_cons0 x rs : lmax (x :: rs) = Z.max (eff_time x) (lmax rs).
Proof. reflexivity. Qed.

Lemma apply_entry_facts seq' oe r :
  let a := apply_entry seq' oe r in
  e_seq a = seq' /\ e_expires a = None /\
  (e_dirty a = false -> exists e0, oe = Some e0 /\ e_dirty e0 = false /\ e_prov a = e_prov e0 /\ e_last a = e_last e0).
Proof.
  unfold apply_entry. destruct oe as [e|]; cbn.
  - destruct (e_last e <? eff_time r)%Z; cbn; repeat split; try discriminate.
    intro Hd. exists e. auto.
  - repeat split; discriminate.
Qed.

Lemma apply_entry_ok seq' oe r :
  oentry_ok oe -> wf_rec r ->
  entry_ok (apply_entry seq' oe r) /\ is_Some (e_prov (apply_entry seq' oe r)) /\
  ctime (Some (apply_entry seq' oe r)) = Z.max (ctime oe) (eff_time r).
Proof.
  intros Hok Hwf. pose proof (eff_time_nonneg r Hwf) as Hnn.
  unfold apply_entry. destruct oe as [e|]; cbn.
  - destruct (e_last e <? eff_time r)%Z eqn:E; cbn.
    + apply Z.ltb_lt in E. unfold entry_ok; cbn. repeat split; eauto; lia.
    + apply Z.ltb_ge in E. cbn in Hok. unfold entry_ok in *; cbn.
      destruct (e_prov e) as [r0|] eqn:Ep.
      * repeat split; eauto; try tauto; lia.
      * destruct Hok as [Hl _]. lia.
  - unfold entry_ok; cbn. rewrite eff_raw by assumption. repeat split; eauto; lia.
Qed.

Lemma entry_after_nil seq' oe : entry_after seq' oe [] = oe.
Proof. reflexivity. Qed.

Lemma entry_after_cons seq' oe r rs :
  entry_after seq' oe (r :: rs) = entry_after seq' (Some (apply_entry seq' oe r)) rs.
Proof. reflexivity. Qed.

(* everything the proofs below need to know about what a pass does to one entry *)
Lemma entry_after_spec seq' rs : forall oe,
  oentry_ok oe -> Forall wf_rec rs -> rs <> [] ->
  exists e, entry_after seq' oe rs = Some e /\
    e_seq e = seq' /\ e_expires e = None /\ entry_ok e /\
    (exists r, e_prov e = Some r) /\
    ctime (Some e) = Z.max (ctime oe) (lmax rs) /\
    (e_dirty e = false -> exists e0, oe = Some e0 /\ e_dirty e0 = false /\ e_prov e = e_prov e0).
Proof.
  induction rs as [|r rs IH]; intros oe Hok Hwf Hne; [congruence|].
  inversion Hwf as [|? ? Hr Hrs]; subst.
  rewrite entry_after_cons.
  destruct (apply_entry_facts seq' oe r) as (Fs & Fe & Fd).
  destruct (apply_entry_ok seq' oe r Hok Hr) as (Ok1 & Is1 & Ct1).
  destruct rs as [|r2 rs].
  - rewrite entry_after_nil. eexists; split; [reflexivity|].
    split_and!; [exact Fs|exact Fe|exact Ok1| | |].
    + destruct Is1 as [x Hx]. eauto.
    + rewrite Ct1, lmax_cons0. change (lmax []) with 0%Z. pose proof (eff_time_nonneg r Hr). lia.
    + intro Hd. destruct (Fd Hd) as (e0 & -> & ? & ? & ?). eauto.
  - destruct (IH (Some (apply_entry seq' oe r)) Ok1 Hrs ltac:(discriminate))
      as (e & He & Hs & Hx & Hok' & Hp & Hc & Hd).
    exists e. split; [exact He|]. split_and!; [exact Hs|exact Hx|exact Hok'|exact Hp| |].
    + rewrite Hc, Ct1, (lmax_cons0 r). lia.
    + intro Hdd. destruct (Hd Hdd) as (a & Ha & Hda & Hpa). inversion Ha; subst a.
      destruct (Fd Hda) as (e0 & -> & ? & Hp0 & ?). exists e0. split_and!; auto. congruence.
Qed.

Lemma lmax_cons x rs : lmax (x :: rs) = Z.max (eff_time x) (lmax rs).
Proof. reflexivity. Qed.

Lemma lmax_nonneg rs : (0 <= lmax rs)%Z.
Proof. induction rs as [|x rs IH]; [cbn; lia|]. rewrite lmax_cons. lia. Qed.

Lemma lmax_ge rs r : In r rs -> (eff_time r <= lmax rs)%Z.
Proof.
  induction rs as [|x rs IH]; [contradiction|]. rewrite lmax_cons. intros [->|H].
  - lia.
  - specialize (IH H). lia.
Qed.

Lemma lmax_perm a b : a ≡ₚ b -> lmax a = lmax b.
Proof.
  induction 1 as [|x a b _ IH|x y a|a b c _ IH1 _ IH2]; rewrite ?lmax_cons; lia.
Qed.

Lemma lmax_app a b : lmax (a ++ b) = Z.max (lmax a) (lmax b).
Proof.
  induction a as [|x a IH].
  - cbn [app]. pose proof (lmax_nonneg b). change (lmax []) with 0%Z. lia.
  - cbn [app]. rewrite !lmax_cons, IH. lia.
Qed.

(* ---------------------------------------------------------------- *)
Section Proofs.
  Variable need_merge : nat -> nat -> bool.
  Variable ttl : Z.

  Notation finish := (finish need_merge).
  Notation refresh := (refresh true need_merge ttl).
  Notation get := (get need_merge ttl).
  Notation step := (step true need_merge ttl).
  Notation run := (run true need_merge ttl).
  Notation settle := (settle true ttl).
  Notation upd_of := (upd_of true).

  (* ---- publication into the snapshot, whatever the merge policy decides *)

  Lemma finish_write seq' w upd rm :
    st_write (finish seq' w upd rm) = w /\ st_seq (finish seq' w upd rm) = seq'.
  Proof. unfold C06_PCache.finish. destruct (need_merge _ _); split; reflexivity. Qed.

  Lemma merged_lookup (w : gmap N entry) (upd rm : gmap N (option rec)) pid :
    merged w upd rm !! pid =
    match w !! pid with Some _ => Some (default None ((upd ∪ rm) !! pid)) | None => None end.
  Proof.
    unfold merged. rewrite lookup_merge.
    destruct (w !! pid), ((upd ∪ rm) !! pid); reflexivity.
  Qed.

  Lemma finish_view_some seq' w upd rm pid v :
    is_Some (w !! pid) -> (upd ∪ rm) !! pid = Some v ->
    view (finish seq' w upd rm) pid = Some v.
  Proof.
    intros [e He] Hv. unfold C06_PCache.finish, view. destruct (need_merge _ _); cbn [st_ru st_rm].
    - rewrite view_of_lookup, lookup_empty, merged_lookup, He, Hv. reflexivity.
    - exact Hv.
  Qed.

  Lemma finish_visible seq' w upd rm pid :
    (w !! pid = None -> vis ((upd ∪ rm) !! pid) = None) ->
    visible (finish seq' w upd rm) pid = vis ((upd ∪ rm) !! pid).
  Proof.
    intros Hn. unfold C06_PCache.finish, visible, view. destruct (need_merge _ _); cbn [st_ru st_rm].
    - rewrite view_of_lookup, lookup_empty, merged_lookup.
      destruct (w !! pid) as [e|].
      + destruct ((upd ∪ rm) !! pid) as [[r|]|]; reflexivity.
      + rewrite Hn by reflexivity. reflexivity.
    - reflexivity.
  Qed.

  Lemma union_lookup_same (upd ru rm : gmap N (option rec)) pid :
    upd !! pid = ru !! pid -> (upd ∪ rm) !! pid = (ru ∪ rm) !! pid.
  Proof. intro H. rewrite !lookup_union, H. reflexivity. Qed.

  Lemma union_lookup_l (upd rm : gmap N (option rec)) pid v :
    upd !! pid = Some v -> (upd ∪ rm) !! pid = Some v.
  Proof. intro H. rewrite lookup_union, H. destruct (rm !! pid); reflexivity. Qed.

  (* ---- the invariant *)

  Definition Inv (s : state) : Prop :=
    (forall pid e, st_write s !! pid = Some e ->
       entry_ok e /\ (e_seq e <= st_seq s)%N /\ (e_dirty e = false -> view s pid = Some (e_prov e))) /\
    (forall pid, st_write s !! pid = None -> visible s pid = None).

  Lemma Inv_init : Inv init.
  Proof.
    split.
    - intros pid e H. cbn in H. rewrite lookup_empty in H. discriminate.
    - intros pid _. unfold visible, view, view_of. cbn. rewrite lookup_union, !lookup_empty. reflexivity.
  Qed.

  Lemma Inv_oentry_ok s pid : Inv s -> oentry_ok (st_write s !! pid).
  Proof. intros [H _]. destruct (st_write s !! pid) as [e|] eqn:E; [apply (H pid e E)|exact I]. Qed.

  Definition keeps (s s' : state) (pid : N) : Prop :=
    (forall v, view s pid = Some v -> view s' pid = Some v) /\ visible s' pid = visible s pid.

  Definition refreshed (s : state) (now : Z) (w1 : gmap N entry) : state :=
    finish (st_seq s + 1) (omap (settle now (st_seq s + 1)) w1)
           (merge (upd_of now (st_seq s + 1)) w1 (st_ru s)) (st_rm s).

  Lemma refresh_unfold now outs s :
    refresh now outs s =
    let '(w1, cancelled, calls) := walk (st_seq s + 1) outs (st_write s) 0 in
    if cancelled then (State (st_seq s + 1) w1 (st_rm s) (st_ru s), RRefresh true calls)
    else (refreshed s now w1, RRefresh false calls).
  Proof. reflexivity. Qed.

  Lemma upd_lookup now seq' (w1 : gmap N entry) (ru : gmap N (option rec)) pid :
    merge (upd_of now seq') w1 ru !! pid = upd_of now seq' (w1 !! pid) (ru !! pid).
  Proof. rewrite lookup_merge. destruct (w1 !! pid), (ru !! pid); reflexivity. Qed.

  (* a provider no responding source reported in this pass *)
  Lemma refresh_unseen s now outs w1 c pid :
    Inv s -> walk (st_seq s + 1) outs (st_write s) 0 = (w1, false, c) ->
    wreps pid outs = [] ->
    let s' := refreshed s now w1 in
    match st_write s !! pid with
    | None => st_write s' !! pid = None /\ visible s' pid = None
    | Some e0 =>
      match e_expires e0 with
      | Some x =>
        if (x <? now)%Z then st_write s' !! pid = None /\ visible s' pid = None
        else st_write s' !! pid = Some e0 /\ keeps s s' pid
      | None =>
        st_write s' !! pid =
          Some (Entry (e_prov e0) (Some (now + ttl)%Z) (e_last e0) (e_seq e0) (e_upd e0) (e_dirty e0)) /\
        keeps s s' pid
      end
    end.
  Proof.
    intros HI Hw Hr s'.
    destruct (walk_spec _ _ _ _ _ _ _ Hw) as (Hl & _ & _).
    specialize (Hl pid). rewrite Hr, entry_after_nil in Hl.
    destruct (finish_write (st_seq s + 1) (omap (settle now (st_seq s + 1)) w1)
                (merge (upd_of now (st_seq s + 1)) w1 (st_ru s)) (st_rm s)) as [Hfw _].
    fold (refreshed s now w1) in Hfw. fold s' in Hfw.
    assert (Hw2 : st_write s' !! pid = w1 !! pid ≫= settle now (st_seq s + 1)).
    { rewrite Hfw, lookup_omap. reflexivity. }
    pose proof (upd_lookup now (st_seq s + 1) w1 (st_ru s) pid) as Hu.
    rewrite Hl in Hw2, Hu.
    destruct HI as [HI1 HI2].
    destruct (st_write s !! pid) as [e0|] eqn:E0.
    - destruct (HI1 pid e0 E0) as (Hok & Hseq & Hview).
      assert (Hne : (e_seq e0 =? st_seq s + 1)%N = false) by (apply N.eqb_neq; lia).
      cbn [mbind option_bind] in Hw2. unfold C06_PCache.settle in Hw2. rewrite Hne in Hw2.
      unfold C06_PCache.upd_of in Hu. rewrite Hne in Hu.
      assert (Hkeep : forall e', st_write s' !! pid = Some e' ->
                merge (upd_of now (st_seq s + 1)) w1 (st_ru s) !! pid = st_ru s !! pid -> keeps s s' pid).
      { intros e' He' Hsame. apply union_lookup_same with (rm := st_rm s) in Hsame. split.
        - intros v Hv. apply finish_view_some; [rewrite <- Hfw; eauto|].
          rewrite Hsame. exact Hv.
        - unfold s', refreshed. rewrite finish_visible.
          + rewrite Hsame. reflexivity.
          + intro Hn. fold (refreshed s now w1) in Hfw. rewrite <- Hfw in Hn. fold s' in Hn. congruence. }
      destruct (e_expires e0) as [x|].
      + destruct (x <? now)%Z.
        * split; [exact Hw2|]. unfold s', refreshed. rewrite finish_visible.
          -- rewrite (union_lookup_l _ _ _ _ Hu). reflexivity.
          -- intros _. rewrite (union_lookup_l _ _ _ _ Hu). reflexivity.
        * split; [exact Hw2|]. eapply Hkeep; eauto.
      + split; [exact Hw2|]. eapply Hkeep; eauto.
    - cbn in Hw2. split; [exact Hw2|].
      cbn in Hu. apply union_lookup_same with (rm := st_rm s) in Hu.
      specialize (HI2 pid E0). unfold visible, view, view_of in HI2.
      unfold s', refreshed. rewrite finish_visible; rewrite Hu; auto.
  Qed.

  (* a provider some responding source reported in this pass *)
  Lemma refresh_seen s now outs w1 c pid :
    Inv s -> Forall wf_src outs -> walk (st_seq s + 1) outs (st_write s) 0 = (w1, false, c) ->
    wreps pid outs <> [] ->
    let s' := refreshed s now w1 in
    exists e1, entry_after (st_seq s + 1) (st_write s !! pid) (wreps pid outs) = Some e1 /\
      st_write s' !! pid = Some (Entry (e_prov e1) None (e_last e1) (st_seq s + 1) (e_upd e1) false) /\
      view s' pid = Some (e_prov e1).
  Proof.
    intros HI Hwf Hw Hr s'.
    destruct (walk_spec _ _ _ _ _ _ _ Hw) as (Hl & _ & _). specialize (Hl pid).
    destruct (entry_after_spec (st_seq s + 1) (wreps pid outs) (st_write s !! pid)
                (Inv_oentry_ok s pid HI) (Forall_wf_wreps pid outs Hwf) Hr)
      as (e1 & He1 & Hs1 & Hx1 & Hok1 & Hp1 & Hc1 & Hd1).
    exists e1. split; [exact He1|]. rewrite He1 in Hl.
    destruct (finish_write (st_seq s + 1) (omap (settle now (st_seq s + 1)) w1)
                (merge (upd_of now (st_seq s + 1)) w1 (st_ru s)) (st_rm s)) as [Hfw _].
    fold (refreshed s now w1) in Hfw. fold s' in Hfw.
    assert (Hw2 : st_write s' !! pid = w1 !! pid ≫= settle now (st_seq s + 1)).
    { rewrite Hfw, lookup_omap. reflexivity. }
    pose proof (upd_lookup now (st_seq s + 1) w1 (st_ru s) pid) as Hu.
    rewrite Hl in Hw2, Hu. cbn [mbind option_bind] in Hw2.
    unfold C06_PCache.settle, publish_now in Hw2. unfold C06_PCache.upd_of, publish_now in Hu.
    rewrite Hs1, N.eqb_refl in Hw2, Hu.
    assert (Hin : is_Some (omap (settle now (st_seq s + 1)) w1 !! pid)).
    { rewrite <- Hfw. fold s'. rewrite Hw2. eauto. }
    destruct e1 as [p1 x1 l1 q1 u1 d1]. cbn in *. subst q1 x1.
    destruct d1.
    - split; [exact Hw2|]. apply finish_view_some; [exact Hin|].
      apply union_lookup_l. exact Hu.
    - split; [exact Hw2|]. apply finish_view_some; [exact Hin|].
      destruct (Hd1 eq_refl) as (e0 & E0 & Hd0 & Hp0).
      destruct HI as [HI1 _]. destruct (HI1 pid e0 E0) as (_ & _ & Hv). specialize (Hv Hd0).
      rewrite (union_lookup_same _ _ _ _ Hu). rewrite Hp0. exact Hv.
  Qed.

  Lemma entry_ok_fields p x l q u d x' q' u' :
    entry_ok (Entry p x l q u d) -> (p = None -> d = false) ->
    entry_ok (Entry p x' l q' u' false).
  Proof. unfold entry_ok; cbn. destruct p; intuition. Qed.

  (* ---- the invariant is preserved by every step *)

  Lemma Inv_refresh_complete s now outs w1 c :
    Inv s -> Forall wf_src outs -> walk (st_seq s + 1) outs (st_write s) 0 = (w1, false, c) ->
    Inv (refreshed s now w1).
  Proof.
    intros HI Hwf Hw.
    assert (Hseq : st_seq (refreshed s now w1) = (st_seq s + 1)%N) by apply finish_write.
    split.
    - intros pid e He.
      destruct (wreps pid outs) as [|r0 rs0] eqn:Er.
      + pose proof (refresh_unseen s now outs w1 c pid HI Hw Er) as H. cbn zeta in H.
        destruct HI as [HI1 HI2].
        destruct (st_write s !! pid) as [e0|] eqn:E0; [|destruct H; congruence].
        destruct (HI1 pid e0 E0) as (Hok & Hsq & Hv).
        destruct (e_expires e0) as [x|].
        * destruct (x <? now)%Z; [destruct H; congruence|].
          destruct H as [H1 [Hk _]]. rewrite H1 in He. inversion He; subst e.
          split_and!; [exact Hok|rewrite Hseq; lia|]. intro Hd. apply Hk, Hv, Hd.
        * destruct H as [H1 [Hk _]]. rewrite H1 in He. inversion He; subst e. cbn.
          split_and!; [exact Hok|rewrite Hseq; lia|]. intro Hd. apply Hk, Hv, Hd.
      + assert (Hne : wreps pid outs <> []) by (rewrite Er; discriminate).
        destruct (refresh_seen s now outs w1 c pid HI Hwf Hw Hne) as (e1 & He1 & Hw' & Hv').
        rewrite Hw' in He. inversion He; subst e. cbn.
        destruct (entry_after_spec (st_seq s + 1) (wreps pid outs) (st_write s !! pid)
                    (Inv_oentry_ok s pid HI) (Forall_wf_wreps pid outs Hwf) Hne)
          as (e1' & He1' & _ & _ & Hok1 & [r Hp1] & _).
        rewrite He1 in He1'. inversion He1'; subst e1'.
        split_and!; [|rewrite Hseq; lia|intros _; exact Hv'].
        destruct e1 as [p1 x1 l1 q1 u1 d1]. cbn in *.
        eapply entry_ok_fields; [exact Hok1|]. intro; congruence.
    - intros pid Hn.
      destruct (wreps pid outs) as [|r0 rs0] eqn:Er.
      + pose proof (refresh_unseen s now outs w1 c pid HI Hw Er) as H. cbn zeta in H.
        destruct (st_write s !! pid) as [e0|] eqn:E0; [|apply H].
        destruct (e_expires e0) as [x|].
        * destruct (x <? now)%Z; [apply H|]. destruct H; congruence.
        * destruct H; congruence.
      + assert (Hne : wreps pid outs <> []) by (rewrite Er; discriminate).
        destruct (refresh_seen s now outs w1 c pid HI Hwf Hw Hne) as (e1 & _ & Hw' & _). congruence.
  Qed.

  Lemma Inv_refresh_cancelled s outs w1 c :
    Inv s -> Forall wf_src outs -> walk (st_seq s + 1) outs (st_write s) 0 = (w1, true, c) ->
    Inv (State (st_seq s + 1) w1 (st_rm s) (st_ru s)).
  Proof.
    intros HI Hwf Hw.
    destruct (walk_spec _ _ _ _ _ _ _ Hw) as (Hl & _ & _).
    destruct HI as [HI1 HI2].
    split; cbn [st_write st_seq].
    - intros pid e He. rewrite Hl in He.
      destruct (wreps pid outs) as [|r0 rs0] eqn:Er.
      + rewrite entry_after_nil in He. destruct (HI1 pid e He) as (A & B & C).
        split_and!; [exact A|lia|exact C].
      + assert (Hne : r0 :: rs0 <> []) by discriminate.
        pose proof (Forall_wf_wreps pid outs Hwf) as Hwr. rewrite Er in Hwr.
        destruct (entry_after_spec (st_seq s + 1) (r0 :: rs0) (st_write s !! pid)
                    (Inv_oentry_ok s pid (conj HI1 HI2)) Hwr Hne)
          as (e1 & He1 & Hs1 & _ & Hok1 & _ & _ & Hd1).
        rewrite He1 in He. inversion He; subst e1.
        split_and!; [exact Hok1|lia|].
        intro Hd. destruct (Hd1 Hd) as (e0 & E0 & Hd0 & Hp0).
        destruct (HI1 pid e0 E0) as (_ & _ & Hv). rewrite Hp0. exact (Hv Hd0).
    - intros pid Hn. rewrite Hl in Hn.
      destruct (wreps pid outs) as [|r0 rs0] eqn:Er.
      + rewrite entry_after_nil in Hn. exact (HI2 pid Hn).
      + exfalso. assert (Hne : r0 :: rs0 <> []) by discriminate.
        pose proof (Forall_wf_wreps pid outs Hwf) as Hwr. rewrite Er in Hwr.
        destruct (entry_after_spec (st_seq s + 1) (r0 :: rs0) (st_write s !! pid)
                    (Inv_oentry_ok s pid (conj HI1 HI2)) Hwr Hne) as (e1 & He1 & _).
        congruence.
  Qed.

  Lemma Inv_refresh s now outs : Inv s -> Forall wf_src outs -> Inv (refresh now outs s).1.
  Proof.
    intros HI Hwf. rewrite refresh_unfold.
    destruct (walk (st_seq s + 1) outs (st_write s) 0) as [[w1 b] c] eqn:Hw.
    destruct b; cbn [fst].
    - eapply Inv_refresh_cancelled; eauto.
    - eapply Inv_refresh_complete; eauto.
  Qed.

  (* the miss path *)
  Lemma fetch_fold_spec outs : forall acc,
    Forall wf_fetch outs ->
    match acc.2 with Some r => acc.1 = eff_time r /\ wf_rec r | None => acc.1 = (-1)%Z end ->
    let res := fold_left fetch_fold outs acc in
    match res.2 with Some r => res.1 = eff_time r /\ wf_rec r | None => res.1 = (-1)%Z end.
  Proof.
    induction outs as [|o outs IH]; intros acc Hwf Hacc; [exact Hacc|].
    inversion Hwf as [|? ? Ho Hos]; subst. cbn [fold_left]. apply IH; [exact Hos|].
    destruct o as [r| |]; cbn [fetch_fold]; try exact Hacc.
    destruct (acc.1 <? eff_time r)%Z; [cbn; split; [reflexivity|exact Ho]|exact Hacc].
  Qed.

  Lemma fetch_fold_none outs : forall acc,
    Forall (fun o => match o with Found _ => False | _ => True end) outs ->
    fold_left fetch_fold outs acc = acc.
  Proof.
    induction outs as [|o outs IH]; intros acc H; [reflexivity|].
    inversion H as [|? ? Ho Hos]; subst. cbn [fold_left]. rewrite IH by exact Hos.
    destruct o; [contradiction|reflexivity|reflexivity].
  Qed.

  Notation miss_entry := (miss_entry ttl).
  Notation miss := (miss need_merge ttl).

  Lemma get_miss_unfold now pid outs s :
    view s pid = None -> get now pid outs s = miss now pid outs s.
  Proof. intro Hv. unfold C06_PCache.get. rewrite Hv. reflexivity. Qed.

  Lemma get_hit now pid outs s v : view s pid = Some v -> get now pid outs s = (s, RGet v 0).
  Proof. intro Hv. unfold C06_PCache.get. rewrite Hv. reflexivity. Qed.

  Lemma miss_entry_ok s now outs : Forall wf_fetch outs -> entry_ok (miss_entry s now outs) /\ e_dirty (miss_entry s now outs) = false /\ e_seq (miss_entry s now outs) = st_seq s.
  Proof.
    intro Hwf. unfold C06_PCache.miss_entry.
    pose proof (fetch_fold_spec outs ((-1)%Z, None) Hwf eq_refl) as H. cbn zeta in H.
    destruct (fold_left fetch_fold outs ((-1)%Z, None)) as [last prov]. cbn in *.
    split_and!; try reflexivity. unfold entry_ok; cbn. destruct prov as [r|].
    - destruct H as [-> Hw]. split; [|exact Hw]. pose proof (eff_time_nonneg r Hw). lia.
    - auto.
  Qed.

  (* what a miss does to the looked-up provider and to every other one *)
  Definition keeps_w (s s' : state) (q : N) : Prop :=
    visible s' q = visible s q /\
    (is_Some (st_write s !! q) -> forall v, view s q = Some v -> view s' q = Some v).

  Lemma miss_spec now pid outs s :
    Inv s ->
    let s' := (miss now pid outs s).1 in
    st_write s' !! pid = Some (miss_entry s now outs) /\
    view s' pid = Some (e_prov (miss_entry s now outs)) /\
    st_seq s' = st_seq s /\
    forall q, q <> pid -> st_write s' !! q = st_write s !! q /\ keeps_w s s' q.
  Proof.
    intros HI s'. unfold s', C06_PCache.miss. cbn [fst].
    set (e := miss_entry s now outs).
    destruct (finish_write (st_seq s) (<[pid := e]> (st_write s)) (<[pid := e_prov e]> (st_ru s)) (st_rm s)) as [Hfw Hfs].
    split_and!.
    - rewrite Hfw, lookup_insert. reflexivity.
    - apply finish_view_some; [rewrite lookup_insert; eauto|].
      apply union_lookup_l, lookup_insert.
    - exact Hfs.
    - intros q Hq. rewrite Hfw, lookup_insert_ne by done. split; [reflexivity|].
      assert (Hsame : (<[pid := e_prov e]> (st_ru s) ∪ st_rm s) !! q = (st_ru s ∪ st_rm s) !! q).
      { apply union_lookup_same. rewrite lookup_insert_ne by done. reflexivity. }
      split.
      + rewrite finish_visible; [rewrite Hsame; reflexivity|].
        rewrite lookup_insert_ne by done. intro Eq. rewrite Hsame.
        destruct HI as [_ HI2]. exact (HI2 q Eq).
      + intros Hin v Hvq.
        apply finish_view_some; [rewrite lookup_insert_ne by done; exact Hin|]. rewrite Hsame. exact Hvq.
  Qed.

  Lemma get_miss_spec now pid outs s :
    Inv s -> view s pid = None ->
    let s' := (get now pid outs s).1 in
    st_write s' !! pid = Some (miss_entry s now outs) /\
    view s' pid = Some (e_prov (miss_entry s now outs)) /\
    st_seq s' = st_seq s /\
    forall q, q <> pid -> st_write s' !! q = st_write s !! q /\ keeps_w s s' q.
  Proof. intros HI Hv. rewrite (get_miss_unfold _ _ _ _ Hv). apply miss_spec, HI. Qed.

  Lemma Inv_miss s now pid outs : Inv s -> Forall wf_fetch outs -> Inv (miss now pid outs s).1.
  Proof.
    intros HI Hwf.
    destruct (miss_spec now pid outs s HI) as (Hw & Hview & Hseq & Hoth).
    destruct (miss_entry_ok s now outs Hwf) as (Hok & Hd & Hsq).
    set (s' := (miss now pid outs s).1) in *.
    destruct HI as [HI1 HI2]. split.
    + intros q e He. destruct (decide (q = pid)) as [->|Hne].
      * rewrite Hw in He. inversion He; subst e. split_and!; [exact Hok|rewrite Hseq, Hsq; lia|].
        intros _. exact Hview.
      * destruct (Hoth q Hne) as [Hwq [_ Hk]]. rewrite Hwq in He.
        destruct (HI1 q e He) as (A & B & C). split_and!; [exact A|rewrite Hseq; exact B|].
        intro Hdd. apply Hk; [eauto|]. exact (C Hdd).
    + intros q Hn. destruct (decide (q = pid)) as [->|Hne]; [congruence|].
      destruct (Hoth q Hne) as [Hwq [Hvis _]]. rewrite Hvis. apply HI2. congruence.
  Qed.

  Lemma Inv_fetch_missing s now pid outs :
    Inv s -> Forall wf_fetch outs -> Inv (fetch_missing need_merge ttl now pid outs s).1.
  Proof.
    intros HI Hwf. unfold fetch_missing.
    destruct (st_write s !! pid); [destruct (view s pid)|]; try exact HI; apply Inv_miss; assumption.
  Qed.

  Lemma Inv_get s now pid outs : Inv s -> Forall wf_fetch outs -> Inv (get now pid outs s).1.
  Proof.
    intros HI Hwf.
    destruct (view s pid) as [v|] eqn:Hv.
    - rewrite (get_hit _ _ _ _ _ Hv). exact HI.
    - rewrite (get_miss_unfold _ _ _ _ Hv). apply Inv_miss; assumption.
  Qed.

  Lemma Inv_step s o : Inv s -> wf_op o -> Inv (step s o).1.
  Proof.
    destruct o as [now outs|now pid outs|]; cbn [C06_PCache.step wf_op]; intros HI Hwf.
    - apply Inv_refresh; assumption.
    - apply Inv_get; assumption.
    - exact HI.
  Qed.

  Lemma run_app ops1 ops2 s : run (ops1 ++ ops2) s = run ops2 (run ops1 s).
  Proof. unfold C06_PCache.run. apply fold_left_app. Qed.

  Lemma Inv_run ops : forall s, Inv s -> Forall wf_op ops -> Inv (run ops s).
  Proof.
    induction ops as [|o ops IH]; intros s HI Hwf; [exact HI|].
    inversion Hwf; subst. cbn. apply IH; [apply Inv_step|]; assumption.
  Qed.

  Lemma inv_reachable_l ops : Forall wf_op ops -> Inv (run ops init).
  Proof. apply Inv_run, Inv_init. Qed.

  (* ---------------------------------------------------------------- *)
  (* a refresh that completes without error publishes the freshest record *)

  Lemma refresh_complete_result s now outs :
    completes outs = true ->
    exists w1, walk (st_seq s + 1) outs (st_write s) 0 = (w1, false, length outs) /\
      refresh now outs s = (refreshed s now w1, RRefresh false (length outs)).
  Proof.
    intro Hc. rewrite refresh_unfold.
    destruct (walk (st_seq s + 1) outs (st_write s) 0) as [[w1 b] c] eqn:Hw.
    destruct (walk_spec _ _ _ _ _ _ _ Hw) as (_ & Hb & Hcalls).
    rewrite Hc in Hb. cbn in Hb. subst b. rewrite (Hcalls Hc). cbn. eauto.
  Qed.

  Lemma refresh_cancelled_result s now outs :
    completes outs = false ->
    exists w1 c, walk (st_seq s + 1) outs (st_write s) 0 = (w1, true, c) /\
      refresh now outs s = (State (st_seq s + 1) w1 (st_rm s) (st_ru s), RRefresh true c).
  Proof.
    intro Hc. rewrite refresh_unfold.
    destruct (walk (st_seq s + 1) outs (st_write s) 0) as [[w1 b] c] eqn:Hw.
    destruct (walk_spec _ _ _ _ _ _ _ Hw) as (_ & Hb & _).
    rewrite Hc in Hb. cbn in Hb. subst b. eauto.
  Qed.

  Lemma reps_in pid l r : In (pid, r) l -> In r (reps pid l).
  Proof.
    induction l as [|[q r'] l IH]; [contradiction|]. intros [H|H]; cbn.
    - inversion H; subst. rewrite decide_True by reflexivity. left; reflexivity.
    - destruct (decide (q = pid)); [right|]; apply IH, H.
  Qed.

  Lemma wreps_in pid outs l r :
    completes outs = true -> In (Reports l) outs -> In (pid, r) l -> In r (wreps pid outs).
  Proof.
    induction outs as [|o outs IH]; [contradiction|]. intros Hc [->|Hin] Hr.
    - cbn. apply in_or_app. left. apply reps_in, Hr.
    - cbn in Hc. destruct o; cbn; try discriminate.
      + apply in_or_app. right. apply IH; auto.
      + apply IH; auto.
  Qed.

  Theorem refresh_ok_freshest_l s now outs pid :
    Inv s -> Forall wf_src outs -> completes outs = true -> wreps pid outs <> [] ->
    let s' := (refresh now outs s).1 in
    (refresh now outs s).2 = RRefresh false (length outs) /\
    exists r', view s' pid = Some (Some r') /\
      eff_time r' = Z.max (ctime (st_write s !! pid)) (lmax (wreps pid outs)) /\
      (forall r, In r (wreps pid outs) -> (eff_time r <= eff_time r')%Z).
  Proof.
    intros HI Hwf Hc Hne s'.
    destruct (refresh_complete_result s now outs Hc) as (w1 & Hw & Hr).
    unfold s'. rewrite Hr. cbn [fst snd]. split; [reflexivity|].
    destruct (refresh_seen s now outs w1 _ pid HI Hwf Hw Hne) as (e1 & He1 & Hw' & Hv').
    destruct (entry_after_spec (st_seq s + 1) (wreps pid outs) (st_write s !! pid)
                (Inv_oentry_ok s pid HI) (Forall_wf_wreps pid outs Hwf) Hne)
      as (e1' & He1' & _ & _ & Hok1 & [r' Hp1] & Hct & _).
    rewrite He1 in He1'. inversion He1'; subst e1'.
    exists r'. rewrite Hv', Hp1. split; [reflexivity|].
    unfold entry_ok in Hok1. rewrite Hp1 in Hok1. destruct Hok1 as [Ht _].
    assert (Heq : eff_time r' = Z.max (ctime (st_write s !! pid)) (lmax (wreps pid outs))).
    { rewrite <- Ht. exact Hct. }
    split; [exact Heq|]. intros r Hin. pose proof (lmax_ge _ _ Hin). lia.
  Qed.

  (* ... and lookups and listings return it *)
  Lemma view_hit_get s pid r now outs :
    view s pid = Some (Some r) ->
    get now pid outs s = (s, RGet (Some r) 0) /\ listing s !! pid = Some r.
  Proof.
    intro Hv. split; [apply get_hit, Hv|]. rewrite listing_lookup. unfold visible. rewrite Hv. reflexivity.
  Qed.

  (* the order of the sources does not matter *)
  Lemma reps_perm pid a b : a ≡ₚ b -> reps pid a ≡ₚ reps pid b.
  Proof.
    induction 1 as [|x a b _ IH|x y a|a b c _ IH1 _ IH2]; cbn.
    - reflexivity.
    - destruct (decide (x.1 = pid)); [constructor|]; exact IH.
    - destruct (decide (x.1 = pid)), (decide (y.1 = pid)); try reflexivity. apply perm_swap.
    - etransitivity; eassumption.
  Qed.

  Definition not_cancel (o : src_outcome) : bool := match o with CancelledHere => false | _ => true end.
  Lemma completes_cons o outs : completes (o :: outs) = not_cancel o && completes outs.
  Proof. reflexivity. Qed.

  Lemma wreps_perm pid a b :
    a ≡ₚ b -> completes a = true -> completes b = true /\ wreps pid a ≡ₚ wreps pid b.
  Proof.
    induction 1 as [|x a b _ IH|x y a|a b c _ IH1 _ IH2]; intro Hc.
    - split; [exact Hc|reflexivity].
    - rewrite completes_cons in Hc. apply andb_prop in Hc as [Hx Ha]. destruct (IH Ha) as [Hb Hp].
      split; [rewrite completes_cons, Hx, Hb; reflexivity|].
      destruct x; cbn in Hx |- *; try discriminate; [apply Permutation_app_head|]; exact Hp.
    - rewrite !completes_cons in Hc. apply andb_prop in Hc as [Hy Hc]. apply andb_prop in Hc as [Hx Ha].
      split; [rewrite !completes_cons, Hx, Hy, Ha; reflexivity|].
      destruct x, y; cbn in Hx, Hy |- *; try discriminate; try reflexivity.
      rewrite !app_assoc. apply Permutation_app_tail, Permutation_app_comm.
    - destruct (IH1 Hc) as [Hb H1]. destruct (IH2 Hb) as [Hcc H2]. split; [exact Hcc|].
      etransitivity; eassumption.
  Qed.

  Theorem refresh_source_order_irrelevant_l s now outs outs' pid :
    Inv s -> Forall wf_src outs -> outs ≡ₚ outs' -> completes outs = true ->
    eff_time <$> visible (refresh now outs s).1 pid = eff_time <$> visible (refresh now outs' s).1 pid.
  Proof.
    intros HI Hwf Hp Hc.
    destruct (wreps_perm pid _ _ Hp Hc) as [Hc' Hpr].
    assert (Hwf' : Forall wf_src outs') by (rewrite <- Hp; exact Hwf).
    destruct (wreps pid outs) as [|r0 rs0] eqn:Er.
    - apply Permutation_nil_l in Hpr.
      destruct (refresh_complete_result s now outs Hc) as (w1 & Hw & Hr).
      destruct (refresh_complete_result s now outs' Hc') as (w1' & Hw' & Hr').
      rewrite Hr, Hr'. cbn [fst].
      pose proof (refresh_unseen s now outs w1 _ pid HI Hw Er) as H1.
      pose proof (refresh_unseen s now outs' w1' _ pid HI Hw' (eq_sym Hpr)) as H2.
      cbn zeta in H1, H2.
      destruct (st_write s !! pid) as [e0|].
      + destruct (e_expires e0) as [x|].
        * destruct (x <? now)%Z.
          -- destruct H1 as [_ ->], H2 as [_ ->]. reflexivity.
          -- destruct H1 as [_ [_ ->]], H2 as [_ [_ ->]]. reflexivity.
        * destruct H1 as [_ [_ ->]], H2 as [_ [_ ->]]. reflexivity.
      + destruct H1 as [_ ->], H2 as [_ ->]. reflexivity.
    - assert (Hne : wreps pid outs <> []) by (rewrite Er; discriminate).
      assert (Hne' : wreps pid outs' <> []).
      { intro E. rewrite E in Hpr. apply Permutation_nil_r in Hpr. discriminate. }
      destruct (refresh_ok_freshest_l s now outs pid HI Hwf Hc Hne) as (_ & r1 & Hv1 & Ht1 & _).
      destruct (refresh_ok_freshest_l s now outs' pid HI Hwf' Hc' Hne') as (_ & r2 & Hv2 & Ht2 & _).
      unfold visible. rewrite Hv1, Hv2. cbn. f_equal.
      rewrite Ht1, Ht2, Er, (lmax_perm _ _ Hpr). reflexivity.
  Qed.

  (* ---------------------------------------------------------------- *)
  (* time-to-live                                                       *)

  Definition no_found (outs : list fetch_outcome) : Prop :=
    Forall (fun o => match o with Found _ => False | _ => True end) outs.

  (* an op that brings no news of [pid]: no responding source reports it, no lookup finds it *)
  Definition silent (pid : N) (o : op) : Prop :=
    match o with
    | ORefresh _ outs => wreps pid outs = []
    | OGet _ q outs => q <> pid \/ no_found outs
    | OWait => True
    end.

  Inductive phase := PFresh | PMissing (t0 : Z) | PGone.

  (* from the property text: the countdown starts at the first completed refresh that
     misses the provider; it is gone after the first completed refresh later than that
     plus the time-to-live *)
  Definition phase_step (ph : phase) (o : op) : phase :=
    match o with
    | ORefresh now outs =>
      if completes outs then
        match ph with
        | PFresh => PMissing now
        | PMissing t0 => if (t0 + ttl <? now)%Z then PGone else PMissing t0
        | PGone => PGone
        end
      else ph
    | _ => ph
    end.

  Definition J (pid : N) (r : rec) (ph : phase) (s : state) : Prop :=
    match ph with
    | PFresh => visible s pid = Some r /\ exists e, st_write s !! pid = Some e /\ e_expires e = None
    | PMissing t0 => visible s pid = Some r /\
                     exists e, st_write s !! pid = Some e /\ e_expires e = Some (t0 + ttl)%Z
    | PGone => visible s pid = None
    end.

  Lemma silent_refresh_cancelled s now outs pid :
    completes outs = false -> wreps pid outs = [] ->
    let s' := (refresh now outs s).1 in
    st_write s' !! pid = st_write s !! pid /\ st_rm s' = st_rm s /\ st_ru s' = st_ru s.
  Proof.
    intros Hc Hr s'. destruct (refresh_cancelled_result s now outs Hc) as (w1 & c & Hw & Hres).
    unfold s'. rewrite Hres. cbn. destruct (walk_spec _ _ _ _ _ _ _ Hw) as (Hl & _ & _).
    rewrite Hl, Hr. auto.
  Qed.

  Lemma visible_eq s s' pid : st_rm s' = st_rm s -> st_ru s' = st_ru s -> visible s' pid = visible s pid.
  Proof. unfold visible, view. intros -> ->. reflexivity. Qed.

  Lemma view_eq s s' pid : st_rm s' = st_rm s -> st_ru s' = st_ru s -> view s' pid = view s pid.
  Proof. unfold view. intros -> ->. reflexivity. Qed.

  Lemma miss_entry_no_found s now outs : no_found outs -> e_prov (miss_entry s now outs) = None.
  Proof. intro H. unfold miss_entry. rewrite (fetch_fold_none outs _ H). reflexivity. Qed.

  Lemma J_step pid r ph s o :
    Inv s -> wf_op o -> silent pid o -> J pid r ph s -> J pid r (phase_step ph o) (step s o).1.
  Proof.
    intros HI Hwf Hs HJ.
    destruct o as [now outs|now q outs|]; cbn [C06_PCache.step phase_step silent wf_op] in *.
    - destruct (completes outs) eqn:Hc.
      + destruct (refresh_complete_result s now outs Hc) as (w1 & Hw & Hres). rewrite Hres. cbn [fst].
        pose proof (refresh_unseen s now outs w1 _ pid HI Hw Hs) as H. cbn zeta in H.
        destruct ph as [|t0|]; cbn [J] in *.
        * destruct HJ as (Hv & e & He & Hx). rewrite He, Hx in H. destruct H as [Hw' [_ Hvis]].
          split; [rewrite Hvis; exact Hv|]. eexists; split; [exact Hw'|reflexivity].
        * destruct HJ as (Hv & e & He & Hx). rewrite He, Hx in H.
          destruct (t0 + ttl <? now)%Z.
          -- apply H.
          -- destruct H as [Hw' [_ Hvis]]. split; [rewrite Hvis; exact Hv|]. eauto.
        * destruct (st_write s !! pid) as [e0|]; [|apply H].
          destruct (e_expires e0) as [x|].
          -- destruct (x <? now)%Z; [apply H|]. destruct H as [_ [_ ->]]. exact HJ.
          -- destruct H as [_ [_ ->]]. exact HJ.
      + destruct (silent_refresh_cancelled s now outs pid Hc Hs) as (Hw & Hm & Hu).
        destruct ph as [|t0|]; cbn [J] in *; rewrite (visible_eq _ _ pid Hm Hu), ?Hw; exact HJ.
    - assert (Hsame : J pid r ph s -> forall s', (st_write s' !! pid = st_write s !! pid) ->
                      visible s' pid = visible s pid -> J pid r ph s').
      { intros HJ' s' Hw Hv. destruct ph; cbn [J] in *; rewrite Hv, ?Hw; exact HJ'. }
      destruct (view s q) as [v|] eqn:Hvq.
      + rewrite (get_hit _ _ _ _ _ Hvq). exact HJ.
      + destruct (get_miss_spec now q outs s HI Hvq) as (Hwq & Hviewq & _ & Hoth).
        destruct (decide (q = pid)) as [->|Hne].
        * destruct Hs as [Hs|Hs]; [congruence|].
          assert (Hgone : visible s pid = None) by (unfold visible; rewrite Hvq; reflexivity).
          assert (Hg' : visible (get now pid outs s).1 pid = None).
          { unfold visible. rewrite Hviewq, (miss_entry_no_found _ _ _ Hs). reflexivity. }
          destruct ph as [|t0|]; cbn [J] in *; [destruct HJ; congruence|destruct HJ; congruence|exact Hg'].
        * assert (Hne' : pid <> q) by congruence.
          destruct (Hoth pid Hne') as [Hw [Hvis _]]. apply Hsame; assumption.
    - exact HJ.
  Qed.

  Theorem ttl_l pid r ops : forall s ph,
    Inv s -> Forall wf_op ops -> Forall (silent pid) ops -> J pid r ph s ->
    J pid r (fold_left phase_step ops ph) (run ops s).
  Proof.
    induction ops as [|o ops IH]; intros s ph HI Hwf Hs HJ; [exact HJ|].
    inversion Hwf; inversion Hs; subst. cbn [fold_left C06_PCache.run].
    apply IH; [apply Inv_step| | |apply J_step]; assumption.
  Qed.

  (* a completed refresh in which a source reports the provider starts it afresh *)
  Lemma fresh_after_refresh s now outs pid :
    Inv s -> Forall wf_src outs -> completes outs = true -> wreps pid outs <> [] ->
    exists r, J pid r PFresh (refresh now outs s).1.
  Proof.
    intros HI Hwf Hc Hne.
    destruct (refresh_complete_result s now outs Hc) as (w1 & Hw & Hr). rewrite Hr. cbn [fst].
    destruct (refresh_seen s now outs w1 _ pid HI Hwf Hw Hne) as (e1 & He1 & Hw' & Hv').
    destruct (entry_after_spec (st_seq s + 1) (wreps pid outs) (st_write s !! pid)
                (Inv_oentry_ok s pid HI) (Forall_wf_wreps pid outs Hwf) Hne)
      as (e1' & He1' & _ & _ & _ & [r' Hp1] & _).
    rewrite He1 in He1'. inversion He1'; subst e1'.
    exists r'. cbn [J]. split.
    - unfold visible. rewrite Hv', Hp1. reflexivity.
    - eexists; split; [exact Hw'|reflexivity].
  Qed.

  (* ---------------------------------------------------------------- *)
  (* negative entries                                                    *)

  Theorem negative_cached_l s now pid outs :
    Inv s -> view s pid = None -> no_found outs ->
    let s1 := (get now pid outs s).1 in
    (get now pid outs s).2 = RGet None (length outs) /\
    view s1 pid = Some None /\
    forall now' outs', get now' pid outs' s1 = (s1, RGet None 0).
  Proof.
    intros HI Hv Hnf s1.
    destruct (get_miss_spec now pid outs s HI Hv) as (_ & Hview & _).
    fold s1 in Hview. rewrite (miss_entry_no_found _ _ _ Hnf) in Hview.
    split_and!.
    - rewrite (get_miss_unfold _ _ _ _ Hv). unfold C06_PCache.miss. cbn [snd]. rewrite (miss_entry_no_found _ _ _ Hnf). reflexivity.
    - exact Hview.
    - intros now' outs'. apply get_hit. exact Hview.
  Qed.

  (* the negative entry stays (no source is asked) across ops that bring no news of the
     provider, until a completed refresh later than its expiry *)
  Definition JN (pid : N) (x : Z) (s : state) : Prop :=
    view s pid = Some None /\ exists e, st_write s !! pid = Some e /\ e_expires e = Some x.

  Definition quiet_until (pid : N) (x : Z) (o : op) : Prop :=
    silent pid o /\ match o with ORefresh now outs => completes outs = true -> (now <= x)%Z | _ => True end.

  Lemma JN_step pid x s o :
    Inv s -> wf_op o -> quiet_until pid x o -> JN pid x s -> JN pid x (step s o).1.
  Proof.
    intros HI Hwf [Hs Hq] [Hv (e & He & Hx)].
    destruct o as [now outs|now q outs|]; cbn [C06_PCache.step silent wf_op] in *.
    - destruct (completes outs) eqn:Hc.
      + destruct (refresh_complete_result s now outs Hc) as (w1 & Hw & Hres). rewrite Hres. cbn [fst].
        pose proof (refresh_unseen s now outs w1 _ pid HI Hw Hs) as H. cbn zeta in H.
        rewrite He, Hx in H. specialize (Hq eq_refl).
        assert (Hlt : (x <? now)%Z = false) by (apply Z.ltb_ge; lia). rewrite Hlt in H.
        destruct H as [Hw' [Hk _]]. split; [apply Hk, Hv|]. eauto.
      + destruct (silent_refresh_cancelled s now outs pid Hc Hs) as (Hw & Hm & Hu).
        split; [rewrite (view_eq _ _ pid Hm Hu); exact Hv|]. rewrite Hw. eauto.
    - destruct (view s q) as [v|] eqn:Hvq.
      + rewrite (get_hit _ _ _ _ _ Hvq). split; eauto.
      + destruct (decide (q = pid)) as [->|Hne]; [congruence|].
        destruct (get_miss_spec now q outs s HI Hvq) as (_ & _ & _ & Hoth).
        assert (Hne' : pid <> q) by congruence.
        destruct (Hoth pid Hne') as [Hw [_ Hk]]. split; [apply Hk; [rewrite He; eauto|exact Hv]|].
        rewrite Hw. eauto.
    - split; eauto.
  Qed.

  Theorem negative_stays_l pid x ops : forall s,
    Inv s -> Forall wf_op ops -> Forall (quiet_until pid x) ops -> JN pid x s ->
    JN pid x (run ops s) /\ forall now outs, get now pid outs (run ops s) = (run ops s, RGet None 0).
  Proof.
    induction ops as [|o ops IH]; intros s HI Hwf Hq HJ.
    - split; [exact HJ|]. intros. apply get_hit. apply HJ.
    - inversion Hwf; inversion Hq; subst. cbn [C06_PCache.run fold_left].
      apply IH; [apply Inv_step| | |apply JN_step]; assumption.
  Qed.

  Lemma negative_entry_after_miss s now pid outs :
    Inv s -> view s pid = None -> no_found outs -> JN pid (now + ttl) (get now pid outs s).1.
  Proof.
    intros HI Hv Hnf.
    destruct (get_miss_spec now pid outs s HI Hv) as (Hw & Hview & _).
    pose proof (miss_entry_no_found s now outs Hnf) as Hp. rewrite Hp in Hview.
    split; [exact Hview|]. eexists; split; [exact Hw|].
    unfold miss_entry in *. destruct (fold_left fetch_fold outs ((-1)%Z, None)) as [last prov].
    cbn in *. subst prov. reflexivity.
  Qed.

  (* ... and is replaced by the first completed refresh in which a source reports the
     provider: it becomes visible with the newest reported time *)
  Theorem negative_replaced_at_first_refresh_l s now outs pid :
    Inv s -> Forall wf_src outs -> completes outs = true -> wreps pid outs <> [] ->
    (st_write s !! pid = None \/ exists e, st_write s !! pid = Some e /\ e_prov e = None) ->
    exists r', view (refresh now outs s).1 pid = Some (Some r') /\ eff_time r' = lmax (wreps pid outs).
  Proof.
    intros HI Hwf Hc Hne Hneg.
    destruct (refresh_ok_freshest_l s now outs pid HI Hwf Hc Hne) as (_ & r' & Hv & Ht & _).
    exists r'. split; [exact Hv|]. rewrite Ht.
    pose proof (lmax_nonneg (wreps pid outs)).
    destruct Hneg as [->|(e & He & Hp)]; cbn [ctime]; [lia|].
    rewrite He. cbn [ctime]. destruct HI as [HI1 _]. destruct (HI1 pid e He) as (Hok & _).
    unfold entry_ok in Hok. rewrite Hp in Hok. destruct Hok as [-> _]. lia.
  Qed.

  (* ---------------------------------------------------------------- *)
  (* whatever came before                                                *)

  Theorem failed_or_cancelled_then_ok_l ops now outs pid :
    Forall wf_op ops -> Forall wf_src outs -> completes outs = true -> wreps pid outs <> [] ->
    let s := run ops init in
    let s' := (refresh now outs s).1 in
    (refresh now outs s).2 = RRefresh false (length outs) /\
    exists r', view s' pid = Some (Some r') /\
      eff_time r' = Z.max (ctime (st_write s !! pid)) (lmax (wreps pid outs)) /\
      (forall r, In r (wreps pid outs) -> (eff_time r <= eff_time r')%Z).
  Proof.
    intros Hops Hwf Hc Hne. apply refresh_ok_freshest_l; try assumption. apply inv_reachable_l, Hops.
  Qed.

  (* the time held for a provider never goes back while a pass sees it *)
  Lemma refresh_time_monotone s now outs pid e :
    Inv s -> Forall wf_src outs -> st_write s !! pid = Some e -> wreps pid outs <> [] ->
    exists e', st_write (refresh now outs s).1 !! pid = Some e' /\ (ctime (Some e) <= ctime (Some e'))%Z.
  Proof.
    intros HI Hwf He Hne. rewrite refresh_unfold.
    destruct (walk (st_seq s + 1) outs (st_write s) 0) as [[w1 b] c] eqn:Hw.
    destruct (entry_after_spec (st_seq s + 1) (wreps pid outs) (st_write s !! pid)
                (Inv_oentry_ok s pid HI) (Forall_wf_wreps pid outs Hwf) Hne)
      as (e1 & He1 & _ & _ & _ & _ & Hct & _).
    rewrite He in Hct.
    destruct b; cbn [fst].
    - destruct (walk_spec _ _ _ _ _ _ _ Hw) as (Hl & _ & _). cbn [st_write].
      exists e1. rewrite Hl, He1. split; [reflexivity|]. rewrite Hct. lia.
    - destruct (refresh_seen s now outs w1 c pid HI Hwf Hw Hne) as (e1' & He1' & Hw' & _).
      rewrite He1 in He1'. inversion He1'; subst e1'.
      eexists; split; [exact Hw'|]. cbn [ctime e_last] in *. rewrite Hct. lia.
  Qed.

  (* ---------------------------------------------------------------- *)
  (* what readers see of a provider never goes back in time while it stays visible
     (used by C07: successive reads of one caller)                                  *)

  Definition Inv2 (s : state) : Prop :=
    forall pid e r, st_write s !! pid = Some e -> visible s pid = Some r ->
      (eff_time r <= ctime (Some e))%Z.

  Lemma Inv2_init : Inv2 init.
  Proof. intros pid e r H. cbn in H. rewrite lookup_empty in H. discriminate. Qed.

  Lemma visible_view s pid r : visible s pid = Some r -> view s pid = Some (Some r).
  Proof. unfold visible, vis. destruct (view s pid) as [[x|]|]; intro H; inversion H; reflexivity. Qed.

  Lemma refresh_visible_monotone s now outs :
    Inv s -> Inv2 s -> Forall wf_src outs ->
    let s' := (refresh now outs s).1 in
    Inv2 s' /\
    forall pid r r', visible s pid = Some r -> visible s' pid = Some r' -> (eff_time r <= eff_time r')%Z.
  Proof.
    intros HI H2 Hwf s'. unfold s'. rewrite refresh_unfold.
    destruct (walk (st_seq s + 1) outs (st_write s) 0) as [[w1 b] c] eqn:Hw.
    destruct b; cbn [fst].
    - (* cancelled: the snapshot is untouched, times held only grow *)
      destruct (walk_spec _ _ _ _ _ _ _ Hw) as (Hl & _ & _). split.
      + intros pid e r He Hv. cbn [st_write] in He. rewrite Hl in He.
        assert (Hv0 : visible s pid = Some r) by exact Hv.
        destruct (wreps pid outs) as [|r0 rs0] eqn:Er.
        * rewrite entry_after_nil in He. exact (H2 pid e r He Hv0).
        * assert (Hne : r0 :: rs0 <> []) by discriminate.
          pose proof (Forall_wf_wreps pid outs Hwf) as Hwr. rewrite Er in Hwr.
          destruct (entry_after_spec (st_seq s + 1) (r0 :: rs0) (st_write s !! pid)
                      (Inv_oentry_ok s pid HI) Hwr Hne) as (e1 & He1 & _ & _ & _ & _ & Hct & _).
          rewrite He1 in He. inversion He; subst e1. rewrite Hct.
          destruct (st_write s !! pid) as [e0|] eqn:E0.
          -- pose proof (H2 pid e0 r E0 Hv0). lia.
          -- destruct HI as [_ HI2]. rewrite (HI2 pid E0) in Hv0. discriminate.
      + intros pid r r' Hv Hv'. assert (Heq : visible (State (st_seq s + 1) w1 (st_rm s) (st_ru s)) pid = visible s pid) by reflexivity.
        rewrite Heq, Hv in Hv'. inversion Hv'; subst. lia.
    - assert (HI' : Inv (refreshed s now w1)) by (eapply Inv_refresh_complete; eauto).
      assert (Hstep : forall pid r', visible (refreshed s now w1) pid = Some r' ->
                (forall r, visible s pid = Some r -> (eff_time r <= eff_time r')%Z) /\
                (forall e', st_write (refreshed s now w1) !! pid = Some e' -> (eff_time r' <= ctime (Some e'))%Z)).
      { intros pid r' Hv'.
        destruct (wreps pid outs) as [|r0 rs0] eqn:Er.
        - pose proof (refresh_unseen s now outs w1 c pid HI Hw Er) as H. cbn zeta in H.
          destruct (st_write s !! pid) as [e0|] eqn:E0.
          + assert (Hk : forall e', st_write (refreshed s now w1) !! pid = Some e' -> e_last e' = e_last e0 ->
                      keeps s (refreshed s now w1) pid ->
                      (forall r, visible s pid = Some r -> (eff_time r <= eff_time r')%Z) /\
                      (forall e'', st_write (refreshed s now w1) !! pid = Some e'' -> (eff_time r' <= ctime (Some e''))%Z)).
            { intros e' He' Hlast [_ Hvis]. rewrite Hvis in Hv'. split.
              - intros r Hr. rewrite Hr in Hv'. inversion Hv'; subst. lia.
              - intros e'' He''. rewrite He' in He''. inversion He''; subst e''.
                pose proof (H2 pid e0 r' E0 Hv'). cbn [ctime] in *. rewrite Hlast. lia. }
            destruct (e_expires e0) as [x|].
            * destruct (x <? now)%Z; [destruct H as [_ Hn]; congruence|].
              destruct H as [Hw' Hkeep]. eapply Hk; eauto.
            * destruct H as [Hw' Hkeep]. eapply Hk; eauto.
          + destruct H as [_ Hn]. congruence.
        - assert (Hne : wreps pid outs <> []) by (rewrite Er; discriminate).
          destruct (refresh_seen s now outs w1 c pid HI Hwf Hw Hne) as (e1 & He1 & Hw' & Hview').
          destruct (entry_after_spec (st_seq s + 1) (wreps pid outs) (st_write s !! pid)
                      (Inv_oentry_ok s pid HI) (Forall_wf_wreps pid outs Hwf) Hne)
            as (e1' & He1' & _ & _ & Hok1 & _ & Hct & _).
          rewrite He1 in He1'. inversion He1'; subst e1'.
          apply visible_view in Hv'. rewrite Hview' in Hv'. inversion Hv' as [Hp].
          unfold entry_ok in Hok1. rewrite Hp in Hok1. destruct Hok1 as [Ht _].
          split.
          + intros r Hr. destruct (st_write s !! pid) as [e0|] eqn:E0.
            * pose proof (H2 pid e0 r E0 Hr). cbn [ctime] in *. lia.
            * destruct HI as [_ HI2]. rewrite (HI2 pid E0) in Hr. discriminate.
          + intros e' He'. rewrite Hw' in He'. inversion He'; subst e'. cbn [ctime e_last]. lia. }
      split.
      + intros pid e r He Hv. destruct (Hstep pid r Hv) as [_ H]. exact (H e He).
      + intros pid r r' Hv Hv'. destruct (Hstep pid r' Hv') as [H _]. exact (H r Hv).
  Qed.

  Lemma miss_visible_monotone s now pid outs :
    Inv s -> Inv2 s -> Forall wf_fetch outs -> visible s pid = None ->
    let s' := (miss now pid outs s).1 in
    Inv2 s' /\
    forall q r r', visible s q = Some r -> visible s' q = Some r' -> (eff_time r <= eff_time r')%Z.
  Proof.
    intros HI H2 Hwf Hnone s'.
    destruct (miss_spec now pid outs s HI) as (Hw & Hview & _ & Hoth). fold s' in Hw, Hview, Hoth.
    destruct (miss_entry_ok s now outs Hwf) as (Hok & _ & _).
    split.
    - intros q e r He Hv. destruct (decide (q = pid)) as [->|Hne].
      + rewrite Hw in He. inversion He; subst e. apply visible_view in Hv. rewrite Hview in Hv.
        inversion Hv as [Hp]. unfold entry_ok in Hok. rewrite Hp in Hok. cbn [ctime]. lia.
      + destruct (Hoth q Hne) as [Hwq [Hvis _]]. rewrite Hwq in He. rewrite Hvis in Hv. exact (H2 q e r He Hv).
    - intros q r r' Hv Hv'. destruct (decide (q = pid)) as [->|Hne]; [congruence|].
      destruct (Hoth q Hne) as [_ [Hvis _]]. rewrite Hvis, Hv in Hv'. inversion Hv'; subst. lia.
  Qed.

  Lemma fetch_missing_visible_monotone s now pid outs :
    Inv s -> Inv2 s -> Forall wf_fetch outs ->
    let s' := (fetch_missing need_merge ttl now pid outs s).1 in
    Inv2 s' /\
    forall q r r', visible s q = Some r -> visible s' q = Some r' -> (eff_time r <= eff_time r')%Z.
  Proof.
    intros HI H2 Hwf. unfold fetch_missing.
    assert (Hid : Inv2 s /\ forall q r r', visible s q = Some r -> visible s q = Some r' -> (eff_time r <= eff_time r')%Z).
    { split; [exact H2|]. intros q r r' A B. rewrite A in B. inversion B; subst. lia. }
    destruct (st_write s !! pid) as [e|] eqn:Ew.
    - destruct (view s pid) as [v|] eqn:Ev; [exact Hid|].
      apply miss_visible_monotone; auto. unfold visible. rewrite Ev. reflexivity.
    - apply miss_visible_monotone; auto. destruct HI as [_ HI2]. exact (HI2 pid Ew).
  Qed.
  (* ---------------------------------------------------------------- *)
  (* every record the cache holds or shows for a provider is one of the records a source
     reported FOR THAT PROVIDER in the history: the cache never fabricates a record     *)

  Lemma entry_after_prov seq' rs : forall oe e r,
    entry_after seq' oe rs = Some e -> e_prov e = Some r ->
    In r rs \/ exists e0, oe = Some e0 /\ e_prov e0 = Some r.
  Proof.
    induction rs as [|x rs IH]; intros oe e r He Hp.
    - rewrite entry_after_nil in He. right. eauto.
    - rewrite entry_after_cons in He. destruct (IH _ _ _ He Hp) as [Hin|(e0 & E0 & P0)].
      + left. right. exact Hin.
      + injection E0 as <-. unfold apply_entry in P0. destruct oe as [e1|]; cbn in P0.
        * destruct (e_last e1 <? eff_time x)%Z; cbn in P0.
          -- injection P0 as <-. left. left. reflexivity.
          -- right. eauto.
        * injection P0 as <-. left. left. reflexivity.
  Qed.

  Lemma fetch_fold_in outs : forall acc r,
    (fold_left fetch_fold outs acc).2 = Some r -> acc.2 = Some r \/ In (Found r) outs.
  Proof.
    induction outs as [|o outs IH]; intros acc r H; [left; exact H|].
    cbn [fold_left] in H. destruct (IH _ _ H) as [Ha|Hin]; [|right; right; exact Hin].
    destruct o as [x| |]; cbn [fetch_fold] in Ha; auto.
    destruct (acc.1 <? eff_time x)%Z; cbn in Ha; [injection Ha as <-; right; left; reflexivity|auto].
  Qed.

  (* what the sources said about [pid] in one op *)
  Definition op_reports (o : op) (pid : N) (r : rec) : Prop :=
    match o with
    | ORefresh _ outs => In r (wreps pid outs)
    | OGet _ q outs => q = pid /\ In (Found r) outs
    | OWait => False
    end.

  Definition reported_in (ops : list op) (pid : N) (r : rec) : Prop :=
    exists o, In o ops /\ op_reports o pid r.

  Definition InvR (R : N -> rec -> Prop) (s : state) : Prop :=
    (forall pid e r, st_write s !! pid = Some e -> e_prov e = Some r -> R pid r) /\
    (forall pid r, visible s pid = Some r -> R pid r).

  Lemma InvR_mono (R R' : N -> rec -> Prop) s : (forall p r, R p r -> R' p r) -> InvR R s -> InvR R' s.
  Proof. intros H [A B]. split; eauto. Qed.

  Lemma InvR_step R s o :
    Inv s -> wf_op o -> InvR R s ->
    InvR (fun p r => R p r \/ op_reports o p r) (step s o).1.
  Proof.
    intros HI Hwf [HW HV].
    destruct o as [now outs|now q outs|]; cbn [C06_PCache.step wf_op op_reports] in *.
    - rewrite refresh_unfold.
      destruct (walk (st_seq s + 1) outs (st_write s) 0) as [[w1 b] c] eqn:Hw.
      destruct (walk_spec _ _ _ _ _ _ _ Hw) as (Hl & _ & _).
      assert (Hw1 : forall pid e r, w1 !! pid = Some e -> e_prov e = Some r -> R pid r \/ In r (wreps pid outs)).
      { intros pid e r He Hp. rewrite Hl in He.
        destruct (entry_after_prov _ _ _ _ _ He Hp) as [Hin|(e0 & E0 & P0)]; [right; exact Hin|left; eauto]. }
      destruct b; cbn [fst].
      + split; cbn [st_write].
        * exact Hw1.
        * intros pid r Hv. left. apply HV. exact Hv.
      + split.
        * intros pid e r He Hp.
          destruct (wreps pid outs) as [|r0 rs0] eqn:Er.
          -- pose proof (refresh_unseen s now outs w1 c pid HI Hw Er) as H. cbn zeta in H.
             destruct (st_write s !! pid) as [e0|] eqn:E0; [|destruct H; congruence].
             left. destruct (e_expires e0) as [x|].
             ++ destruct (x <? now)%Z; [destruct H; congruence|].
                destruct H as [H1 _]. rewrite H1 in He. injection He as <-. eauto.
             ++ destruct H as [H1 _]. rewrite H1 in He. injection He as <-. cbn in Hp. eauto.
          -- assert (Hne : wreps pid outs <> []) by (rewrite Er; discriminate).
             destruct (refresh_seen s now outs w1 c pid HI Hwf Hw Hne) as (e1 & He1 & Hw' & _).
             rewrite Hw' in He. injection He as <-. cbn in Hp.
             specialize (Hl pid). rewrite He1 in Hl. rewrite <- Er. exact (Hw1 pid e1 r Hl Hp).
        * intros pid r Hv.
          destruct (wreps pid outs) as [|r0 rs0] eqn:Er.
          -- pose proof (refresh_unseen s now outs w1 c pid HI Hw Er) as H. cbn zeta in H.
             left. apply HV.
             destruct (st_write s !! pid) as [e0|] eqn:E0; [|destruct H; congruence].
             destruct (e_expires e0) as [x|].
             ++ destruct (x <? now)%Z; [destruct H; congruence|]. destruct H as [_ [_ Hk]]. congruence.
             ++ destruct H as [_ [_ Hk]]. congruence.
          -- assert (Hne : wreps pid outs <> []) by (rewrite Er; discriminate).
             destruct (refresh_seen s now outs w1 c pid HI Hwf Hw Hne) as (e1 & He1 & _ & Hview).
             apply visible_view in Hv. rewrite Hview in Hv. injection Hv as Hp.
             specialize (Hl pid). rewrite He1 in Hl. rewrite <- Er. exact (Hw1 pid e1 r Hl Hp).
    - destruct (view s q) as [v|] eqn:Hvq.
      + rewrite (get_hit _ _ _ _ _ Hvq). split; intros; left; eauto.
      + destruct (get_miss_spec now q outs s HI Hvq) as (Hwq & Hviewq & _ & Hoth).
        assert (Hme : forall r, e_prov (miss_entry s now outs) = Some r -> In (Found r) outs).
        { intros r Hp. unfold C06_PCache.miss_entry in Hp.
          destruct (fold_left fetch_fold outs ((-1)%Z, None)) as [last prov] eqn:Ef. cbn in Hp. subst prov.
          destruct (fetch_fold_in outs ((-1)%Z, None) r) as [H|H]; [rewrite Ef; reflexivity|discriminate H|exact H]. }
        split.
        * intros pid e r He Hp. destruct (decide (pid = q)) as [->|Hne].
          -- rewrite Hwq in He. injection He as <-. right. split; [reflexivity|apply Hme, Hp].
          -- destruct (Hoth pid Hne) as [Hw' _]. rewrite Hw' in He. left. eauto.
        * intros pid r Hv. destruct (decide (pid = q)) as [->|Hne].
          -- apply visible_view in Hv. rewrite Hviewq in Hv. injection Hv as Hp.
             right. split; [reflexivity|apply Hme, Hp].
          -- destruct (Hoth pid Hne) as [_ [Hvis _]]. rewrite Hvis in Hv. left. eauto.
    - split; intros; left; eauto.
  Qed.

  Theorem returned_record_is_a_reported_record_l ops : forall s R,
    Inv s -> Forall wf_op ops -> InvR R s ->
    InvR (fun p r => R p r \/ reported_in ops p r) (run ops s).
  Proof.
    induction ops as [|o ops IH]; intros s R HI Hwf HR.
    - cbn. eapply InvR_mono; [|exact HR]. auto.
    - inversion Hwf; subst. cbn [C06_PCache.run fold_left].
      eapply InvR_mono; [|apply (IH (step s o).1 (fun p r => R p r \/ op_reports o p r));
                           [apply Inv_step; assumption|assumption|apply InvR_step; assumption]].
      intros p r [[H|H]|(o' & Hin & Hrep)]; [left; exact H| |].
      + right. exists o. split; [left; reflexivity|exact H].
      + right. exists o'. split; [right; exact Hin|exact Hrep].
  Qed.

  Corollary visible_record_was_reported ops pid r :
    Forall wf_op ops -> visible (run ops init) pid = Some r -> reported_in ops pid r.
  Proof.
    intros Hwf Hv.
    destruct (returned_record_is_a_reported_record_l ops init (fun _ _ => False) Inv_init Hwf) as [_ B].
    - split; [intros p0 e r0 H; cbn in H; rewrite lookup_empty in H; discriminate|].
      intros p0 r0 H. unfold visible, view, view_of in H. cbn in H.
      rewrite lookup_union, !lookup_empty in H. discriminate.
    - destruct (B pid r Hv) as [[]|H]. exact H.
  Qed.
End Proofs.

(* ---------------------------------------------------------------- *)
(* The unrepaired publication rule (updateSeq == seq): the convergence statement is false. *)

Definition pP : N := 1.
Definition pQ : N := 2.
Definition rc (t : Z) (g : N) : rec := Rec (Some t) g.

(* P cached at time 1; source 0 advances P and adds Q; that refresh is cancelled at source 1 *)
Definition h_cancel : list op :=
  [ORefresh 0 [Reports [(pP, rc 1 10)]; Reports []];
   ORefresh 1 [Reports [(pP, rc 2 11); (pQ, rc 1 12)]; CancelledHere]].
Definition outs_after : list src_outcome := [Reports [(pP, rc 2 11); (pQ, rc 1 12)]; Reports []].

Lemma wf_h_cancel : Forall wf_op h_cancel.
Proof. repeat constructor; cbn; lia. Qed.
Lemma wf_outs_after : Forall wf_src outs_after.
Proof. repeat constructor; cbn; lia. Qed.

Definition two_refreshes (fixed : bool) : state :=
  (refresh fixed real_need_merge 500 3 outs_after
     (refresh fixed real_need_merge 500 2 outs_after (run fixed real_need_merge 500 h_cancel init)).1).1.

Lemma failed_or_cancelled_then_ok_v0_refuted :
  Forall wf_op h_cancel /\ Forall wf_src outs_after /\ completes outs_after = true /\
  (* both sources respond in two further refreshes, source 0 reporting P at time 2 and Q ... *)
  wreps pP outs_after = [rc 2 11] /\ wreps pQ outs_after = [rc 1 12] /\
  (* ... yet readers keep P's record of time 1 and never see Q *)
  visible (two_refreshes false) pP = Some (rc 1 10) /\
  visible (two_refreshes false) pQ = None.
Proof.
  split_and!; [exact wf_h_cancel|exact wf_outs_after|reflexivity|reflexivity|reflexivity| |];
    vm_compute; reflexivity.
Qed.

(* the same history under the repaired rule *)
Example cancelled_then_ok_fixed :
  visible (two_refreshes true) pP = Some (rc 2 11) /\ visible (two_refreshes true) pQ = Some (rc 1 12).
Proof. split; vm_compute; reflexivity. Qed.

(* non-vacuity of the time-to-live statement: P reported once, then never again *)
Definition h_ttl : list op :=
  [ORefresh 10 [Reports []];            (* first completed refresh that misses P: t0 = 10 *)
   OGet 11 pQ [NotFound];               (* a lookup of another provider (negative entry) *)
   ORefresh 400 [CancelledHere];        (* a cancelled pass *)
   ORefresh 510 [Fails];                (* 510 <= t0 + ttl: still visible *)
   ORefresh 511 [Reports []]].          (* past t0 + ttl: gone *)

Example ttl_example :
  let s0 := (refresh true real_need_merge 500 0 [Reports [(pP, rc 1 10)]] init).1 in
  J 500 pP (rc 1 10) PFresh s0 /\
  Forall (silent pP) h_ttl /\
  fold_left (phase_step 500) (firstn 4 h_ttl) PFresh = PMissing 10 /\
  visible (run true real_need_merge 500 (firstn 4 h_ttl) s0) pP = Some (rc 1 10) /\
  fold_left (phase_step 500) h_ttl PFresh = PGone /\
  visible (run true real_need_merge 500 h_ttl s0) pP = None.
Proof.
  cbn zeta. split_and!.
  - split; [vm_compute; reflexivity|]. eexists. split; [vm_compute; reflexivity|reflexivity].
  - unfold h_ttl. repeat (apply List.Forall_cons; [cbn; first [reflexivity | (left; discriminate)] | ]).
    apply List.Forall_nil.
  - reflexivity.
  - vm_compute; reflexivity.
  - reflexivity.
  - vm_compute; reflexivity.
Qed.

(* non-vacuity of the negative-entry statements *)
Example negative_example :
  let s1 := (get real_need_merge 500 5 pQ [NotFound; FetchFails] init).1 in
  (get real_need_merge 500 5 pQ [NotFound; FetchFails] init).2 = RGet None 2 /\
  (get real_need_merge 500 6 pQ [Found (rc 9 1); NotFound] s1).2 = RGet None 0 /\
  visible (refresh true real_need_merge 500 7 [Reports [(pQ, rc 9 1)]; Fails] s1).1 pQ = Some (rc 9 1).
Proof. cbn zeta. split_and!; vm_compute; reflexivity. Qed.

(* ---------------------------------------------------------------- *)
(* the merge policy the case checkers run with is the function astgen translates from the
   Go source (gen/Gen_Funcs.v, regenerated every run) *)
Lemma need_merge_is_source_l u m :
  real_need_merge u m = Gen_Funcs.pcache_needMerge (Z.of_nat u) (Z.of_nat m).
Proof.
  unfold real_need_merge, Gen_Funcs.pcache_needMerge.
  destruct (Nat.ltb_spec (m * 2) (u * (u + 1))) as [H|H];
    symmetry; [apply Z.ltb_lt|apply Z.ltb_ge]; nia.
Qed.
