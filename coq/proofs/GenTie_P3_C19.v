(* GenTie_P3_C19 -- phase 3: the two pieces of rwriter.New / apierror.DecodeError that were still
   untied (design-notes/GenTie.md 8.4):
     * rwriter.New's path handling (resource type and key: `pathType := path.Base(path.Dir(..))`
       up to the `if err != nil` after `dm, err := multihash.Decode(b)`), against model parse_key;
     * apierror.DecodeError's head (`len(data) == 0`, json.Unmarshal's verdict), and with
       GenTie_C19.tie_DecodeError_tail the whole function against model decode_error.
   Both as regenerated from the Go source (gen/Gen_Funcs_rwriter.v, gen/Gen_Funcs_apierror.v). *)
From Coq Require Import ZArith NArith List Bool Lia String.
From Lib Require Import Bytes.
From Model Require Import C19_FindWire.
From Proofs Require Import GenTie_Lib GenTie_C19.
From Gen Require Import Gen_Consts Gen_Funcs_prelude Gen_Funcs_rwriter Gen_Funcs_apierror.
Import ListNotations.
Open Scope Z_scope.

(* ================================================================== *)
(* rwriter.New: path handling *)

(* reading of the external calls: a text decoder is a partial function on the text *)
Definition dec_pair (d : list N -> option (list N)) (t : list N) : list N * option string :=
  match d t with Some b => (b, None) | None => ([], Some "decode"%string) end.
Definition mhdec (b : list N) : N * option string :=
  match mh_decode b with Ok c => (c, None) | _ => (0%N, Some "multihash.Decode"%string) end.

(* which return statement reports which model error *)
Definition path_err_stmt (c : N) : string :=
  if (c =? EMissingType)%N then "return nil, apierror.New(errors.New(""missing resource type""), http.StatusBadRequest)"
  else if (c =? EUnsupportedType)%N then "return nil, apierror.New(errors.New(""unsupported resource type""), http.StatusBadRequest)"
  else if (c =? EInvalidMultihash)%N then "return nil, apierror.New(multihash.ErrInvalidMultihash, http.StatusBadRequest)"
  else "return nil, apierror.New(err, http.StatusBadRequest)".

(* multihash.Decode has one error and does not panic *)
Lemma mh_decode_cases : forall b, (exists c, mh_decode b = Ok c) \/ mh_decode b = Err EMhDecode.
Proof.
  intros b. unfold mh_decode. destruct (_ <? _)%nat; [right; reflexivity|].
  destruct (Varint.dec_rest b) as [[code r1]|e|e]; try (right; reflexivity).
  destruct (Varint.dec_rest r1) as [[l r2]|e|e]; try (right; reflexivity).
  destruct (_ <? l)%N; [right; reflexivity|]. destruct (_ <? l)%N; [right; reflexivity|].
  destruct (negb _); [right; reflexivity|left; eexists; reflexivity].
Qed.

Ltac fin :=
  repeat first [ progress cbn
               | match goal with H : mh_decode _ = _ |- _ => rewrite H end ];
  eexists; reflexivity.

(* the CID is represented by its multihash bytes (T_cid_Cid := list N): cid.NewCidV1(_, mh) has
   hash mh, cid.Decode(text).Hash() is the model's k_cid *)
Theorem tie_New_path : forall (d58 dhex dcid : list N -> option (list N))
                              (mhtype cidtype p b0 mh0 cid0 : list N),
  let k := KV (d58 (key_text p)) (dhex (key_text p)) (dcid (key_text p)) in
  let run := rwriter_New_path (list N) N (dec_pair d58) (dec_pair dcid) (fun _ mh => mh) (dec_pair dhex) mhdec
                              path_base path_dir trim_space (fun c => c) p b0 cid0 mh0 cidtype mhtype in
  match parse_key mhtype cidtype p k with
  | Ok (_, b, _) => exists tr, run = FFall (b, b, b, tr)
  | Err c => exists o, run = FReturn (path_err_stmt c) o
  | Panic _ => False
  end.
Proof.
  intros. subst run k.
  unfold rwriter_New_path, parse_key, parse_key_with, classify_type, key_bytes, mh_valid, mhdec, dec_pair.
  cbv zeta. rewrite gen_bytes_eqb_nil. fold (key_text p).
  replace (C19_FindWire.is_nil (path_base (path_dir p))) with (Gen_Funcs_prelude.is_nil (path_base (path_dir p)))
    by (destruct (path_base (path_dir p)); reflexivity).
  destruct (Gen_Funcs_prelude.is_nil (path_base (path_dir p))); [cbn; eexists; reflexivity|].
  pose proof (gen_bytes_eqb_eq (path_base (path_dir p)) mhtype) as E1.
  pose proof (gen_bytes_eqb_eq (path_base (path_dir p)) cidtype) as E2.
  destruct (Bytes.bytes_eqb (path_base (path_dir p)) mhtype); rewrite E1; clear E1.
  - (* the multihash path type: base58 first, kept only if it is a multihash; hex second *)
    clear E2.
    destruct (d58 (key_text p)) as [b58|]; [destruct (mh_decode_cases b58) as [[c58 M58]|M58]|];
      (destruct (dhex (key_text p)) as [bh|]; [destruct (mh_decode_cases bh) as [[ch Mh]|Mh]|]); fin.
  - destruct (Bytes.bytes_eqb (path_base (path_dir p)) cidtype); rewrite E2; clear E2.
    + destruct (dcid (key_text p)) as [bc|]; [destruct (mh_decode_cases bc) as [[cc Mc]|Mc]|]; fin.
    + cbn. eexists; reflexivity.
Qed.

(* mh_decode never panics, so the Panic row above is never the case that matters: *)
Theorem parse_key_no_panic : forall mhtype cidtype p k c, parse_key mhtype cidtype p k <> Panic c.
Proof.
  intros. unfold parse_key, parse_key_with, classify_type.
  destruct (C19_FindWire.is_nil _); [discriminate|].
  assert (M : forall b c', mh_decode b <> Panic c').
  { intros b c'. destruct (mh_decode_cases b) as [[x E]|E]; rewrite E; discriminate. }
  destruct (Bytes.bytes_eqb _ mhtype).
  - cbn [bind]. destruct (key_bytes PMh k) as [b|e|e] eqn:Kb; cbn [bind]; try discriminate.
    + destruct (mh_decode b) as [cc|e|e] eqn:Mb; cbn; try discriminate. exfalso. exact (M _ _ Mb).
    + exfalso. unfold key_bytes in Kb. destruct (match k_b58 k with Some b => _ | None => None end); [discriminate|].
      destruct (k_hex k); discriminate.
  - destruct (Bytes.bytes_eqb _ cidtype); [|discriminate].
    cbn [bind]. destruct (key_bytes PCid k) as [b|e|e] eqn:Kb; cbn [bind]; try discriminate.
    + destruct (mh_decode b) as [cc|e|e] eqn:Mb; cbn; try discriminate. exfalso. exact (M _ _ Mb).
    + exfalso. unfold key_bytes in Kb. destruct (k_cid k); discriminate.
Qed.

(* ================================================================== *)
(* apierror.DecodeError *)

Theorem tie_DecodeError_head : forall (data : list N) (uerr : option string),
  apierror_DecodeError_head data uerr =
  if is_nil data then FReturn "return nil"%string []
  else match uerr with
       | Some _ => FReturn "return fmt.Errorf(""cannot decode error message: %s"", err)"%string
                           ["err := json.Unmarshal(data, &e)"%string]
       | None => FFall ["err := json.Unmarshal(data, &e)"%string]
       end.
Proof.
  intros. unfold apierror_DecodeError_head. rewrite len_eqb_0.
  destruct (is_nil data); [reflexivity|]. destruct uerr; reflexivity.
Qed.

(* the whole function against model decode_error.  [d] is what the body holds: nothing, or the
   JSON value; json.Unmarshal fails exactly where the model says EJson, and fills Message and
   Status with the object's fields (absent: zero values) *)
Theorem tie_DecodeError_whole : forall (data : list N) (d : option jv) (uerr e0 : option string),
  (d = None <-> data = []) ->
  (isSome uerr = negb (is_ok (decode_error d))) ->
  match decode_error d with
  | Ok None => exists tr, apierror_DecodeError_head data uerr = FReturn "return nil"%string tr
  | Ok (Some ae) =>
      (exists tr, apierror_DecodeError_head data uerr = FFall tr) /\
      match apierror_DecodeError_tail (ae_msg ae) (status_of ae) e0 with
      | FReturn s _ => s = (match ae_status ae with None => "return err" | Some _ => "return New(err, e.Status)" end)%string
      | _ => False
      end
  | Err _ => exists tr, apierror_DecodeError_head data uerr =
                        FReturn "return fmt.Errorf(""cannot decode error message: %s"", err)"%string tr
  | Panic _ => True
  end.
Proof.
  intros data d uerr e0 Hd Hu. rewrite tie_DecodeError_head.
  destruct d as [v|].
  - assert (Hn : is_nil data = false).
    { destruct data; [|reflexivity]. pose proof (proj2 Hd eq_refl) as X. discriminate X. }
    rewrite Hn.
    destruct (decode_error (Some v)) as [[ae|]|c|c] eqn:E; cbn [is_ok negb] in Hu.
    + destruct uerr; [discriminate|]. split; [eexists; reflexivity|].
      pose proof (tie_DecodeError_tail e0 (ae_msg ae) (status_of ae)) as T.
      destruct (apierror_DecodeError_tail _ _ _); try contradiction. rewrite T.
      (* the model builds ae_status from the decoded status: it is never Some 0 *)
      unfold status_of. destruct (ae_status ae) as [s|] eqn:S; [|reflexivity].
      assert (s <> 0).
      { clear - E S. unfold decode_error in E. destruct v; try discriminate.
        - inversion E; subst; discriminate.
        - destruct (match lookup FMessage l with None | Some JNull => Ok [] | Some (JStr s0) => Ok s0 | _ => Err EJson end); cbn [bind] in E; try discriminate.
          destruct (match lookup FStatus l with None | Some JNull => Ok 0 | Some (JInt z) => Ok z | _ => Err EJson end) as [st|?|?]; cbn [bind] in E; try discriminate.
          inversion E; subst. cbn [ae_status] in S. destruct (st =? 0) eqn:Z0; [discriminate|].
          inversion S; subst. apply Z.eqb_neq. exact Z0. }
      destruct (s =? 0) eqn:Z0; [apply Z.eqb_eq in Z0; contradiction|reflexivity].
    + exfalso. clear - E. unfold decode_error in E. destruct v; try discriminate.
      destruct (match lookup FMessage l with None | Some JNull => Ok [] | Some (JStr s0) => Ok s0 | _ => Err EJson end); cbn [bind] in E; try discriminate.
      destruct (match lookup FStatus l with None | Some JNull => Ok 0 | Some (JInt z) => Ok z | _ => Err EJson end); cbn [bind] in E; discriminate.
    + destruct uerr; [|discriminate]. eexists; reflexivity.
    + exact I.
  - rewrite (proj1 Hd eq_refl). cbn. eexists; reflexivity.
Qed.
Print Assumptions tie_New_path.
Print Assumptions parse_key_no_panic.
Print Assumptions tie_DecodeError_whole.
