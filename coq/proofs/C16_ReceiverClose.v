(* Proofs about the Receiver transition system: invariants over all schedules. *)
From Coq Require Import List NArith Bool Arith Lia.
From Lib Require Import SyncSkel LTS.
From Model Require Import Announce_Receiver C16_ReceiverClose.
Import ListNotations.

Local Open Scope nat_scope.

(* ------------------------------------------------------------------ *)
(* step inversion                                                      *)

Lemma upd_same f t th : upd f t th t = Some th.
Proof. unfold upd. rewrite Nat.eqb_refl. reflexivity. Qed.
Lemma upd_other f t th x : x <> t -> upd f t th x = f x.
Proof. intro H. unfold upd. destruct (Nat.eqb_spec x t); [contradiction|reflexivity]. Qed.

Lemma upd_cases f t th x th0 :
  upd f t th x = Some th0 -> (x = t /\ th0 = th) \/ (x <> t /\ f x = Some th0).
Proof.
  unfold upd. destruct (Nat.eqb_spec x t); intro H.
  - left. split; [assumption|congruence].
  - right. split; assumption.
Qed.

(* A Step of thread t: what can change.  We characterise every successful step by
   the old thread, its pc, and the new state, via a single inversion lemma that the
   invariants below are proved against case by case. *)

Ltac inv_some :=
  repeat match goal with
  | H : Some _ = Some _ |- _ => inversion H; subst; clear H
  | H : None = Some _ |- _ => discriminate H
  | H : goto _ _ _ _ = Some _ |- _ => unfold goto in H
  | H : ret _ _ _ _ = Some _ |- _ => unfold ret in H
  end.

(* destruct the step function completely *)
Ltac step_inv H :=
  match type of H with
  | stepf ?s ?l = Some ?s' =>
    destruct l as [c|t|a c|t choice]; cbn [stepf] in H;
    [ inv_some
    | destruct (threads s t) as [th|] eqn:Hth; [|discriminate H];
      destruct (t_watcher th) eqn:Hw; [discriminate H|]; inv_some
    | destruct (threads s watcher_tid) as [th|] eqn:Hth; [|discriminate H];
      destruct (t_watcher th) eqn:Hw; [|discriminate H];
      destruct (t_pc th) eqn:Hpc; try discriminate H; inv_some
    | destruct (threads s t) as [th|] eqn:Hth; [|discriminate H];
      unfold step_thread in H;
      destruct (t_pc th) eqn:Hpc;
      repeat match type of H with
      | context [match mu s with _ => _ end] => destruct (mu s) eqn:Hmu
      | context [if closed s then _ else _] => destruct (closed s) eqn:Hclosed
      | context [if has_watcher s then _ else _] => destruct (has_watcher s) eqn:Hhw
      | context [if watch_done s then _ else _] => destruct (watch_done s) eqn:Hwd
      | context [if call_allowed ?c then _ else _] => destruct (call_allowed c) eqn:Hallow
      | context [let '(_, _) := lru_update ?a ?b ?c in _] => destruct (lru_update a b c) as [hit l'] eqn:Hupd
      | context [match choice with _ => _ end] => destruct choice as [|[|choice]]
      | context [match out s with _ => _ end] => destruct (out s) eqn:Hout
      | context [if done s then _ else _] => destruct (done s) eqn:Hdone
      | context [if ctx_done s th then _ else _] => destruct (ctx_done s th) eqn:Hctx
      | context [if ?a || ?b then _ else _] => destruct (a || b) eqn:Hor
      end;
      try discriminate H; inv_some ]
  end.

(* ------------------------------------------------------------------ *)
(* Layer A: structure                                                  *)

Definition is_watcher_pc (p : pc) : bool := match p with WaNext | WaCloseDone => true | _ => false end.

(* pcs a call of each kind can be at *)
Definition pc_ok (c : call) (p : pc) : bool :=
  match c, p with
  | CClose, (ClLock | ClCheck | ClEarlyUnlock | ClSet | ClUnlock | ClCloseDone | ClCancelWatch | ClWaitWatch) => true
  | CClose, Fin (RetNil | RetEarly) => true
  | CUncache _, (UnLock | UnRemove | UnUnlock | Fin RetNil) => true
  | CDirect _ _, (DiAllow | DiLock | DiCheck | DiUpdate | DiUnlockClosed | DiUnlockDup | DiUnlockGo | DiSelect) => true
  | CDirect _ _, Fin (RetNil | RetIgnored | RetClosed | RetCtx) => true
  | CNext, NxSelect => true
  | CNext, Fin (RetCtx | RetClosed | RetAnn _) => true
  | _, _ => false
  end.

Definition watcher_pc_ok (c : call) (p : pc) : bool :=
  match p with
  | WaNext | WaCloseDone | Fin RetNil => true
  | DiAllow | DiLock | DiCheck | DiUpdate | DiUnlockClosed | DiUnlockDup | DiUnlockGo | DiSelect =>
    match c with CDirect _ _ => true | _ => false end
  | _ => false
  end.

Definition InvA (s : st) : Prop :=
  (forall t th, threads s t = Some th -> t < next_tid s) /\
  (forall t th, threads s t = Some th -> t_watcher th = true -> t = 0 /\ has_watcher s = true) /\
  (forall t th, threads s t = Some th -> t_watcher th = false -> pc_ok (t_call th) (t_pc th) = true) /\
  (forall t th, threads s t = Some th -> t_watcher th = true -> watcher_pc_ok (t_call th) (t_pc th) = true) /\
  (has_watcher s = true -> exists th, threads s 0 = Some th /\ t_watcher th = true) /\
  0 < next_tid s.

Ltac split_all := repeat match goal with |- _ /\ _ => split end.

Ltac upd_destruct :=
  repeat match goal with
  | H : upd _ _ _ _ = Some _ |- _ => apply upd_cases in H; destruct H as [[? ?]|[? ?]]; subst
  | H : with_threads _ _ = _ |- _ => idtac
  end.

Lemma finish_watcher th r : t_watcher (finish th r) = t_watcher th.
Proof. unfold finish. destruct (t_watcher th) eqn:E; [destruct r|]; cbn; auto. Qed.
Lemma finish_call th r : t_call (finish th r) = t_call th.
Proof. unfold finish. destruct (t_watcher th); [destruct r|]; reflexivity. Qed.
Lemma finish_pc_nw th r : t_watcher th = false -> t_pc (finish th r) = Fin r.
Proof. unfold finish. intros ->. reflexivity. Qed.
Lemma finish_pc_w th r : t_watcher th = true ->
  t_pc (finish th r) = match r with RetClosed | RetCtx => WaCloseDone | _ => WaNext end.
Proof. unfold finish. intros ->. destruct r; reflexivity. Qed.
Lemma finish_born th r : t_born_closed (finish th r) = t_born_closed th /\ t_born_done (finish th r) = t_born_done th /\ t_ctx (finish th r) = t_ctx th.
Proof. unfold finish. destruct (t_watcher th); [destruct r|]; cbn; auto. Qed.

Lemma invA_init w : InvA (init w).
Proof.
  unfold InvA, init; cbn. split_all.
  - intros t th H. destruct w; cbn in H; [|discriminate]. destruct (Nat.eqb_spec t 0); [lia|discriminate].
  - intros t th H Hw. destruct w; cbn in H; [|discriminate]. destruct (Nat.eqb_spec t 0); [auto|discriminate].
  - intros t th H Hw. destruct w; cbn in H; [|discriminate]. destruct (Nat.eqb_spec t 0); [|discriminate].
    inversion H; subst. discriminate.
  - intros t th H Hw. destruct w; cbn in H; [|discriminate]. destruct (Nat.eqb_spec t 0); [|discriminate].
    inversion H; subst. reflexivity.
  - intros ->. cbn. eexists; split; reflexivity.
  - lia.
Qed.

(* resolve `finish th r` by cases on whether th is the watcher *)
Ltac norm_finish :=
  repeat match goal with
  | |- context [finish ?th ?r] =>
    unfold finish; destruct (t_watcher th) eqn:?; cbn [t_pc t_call t_watcher t_ctx t_born_closed t_born_done set_pc]
  | H : context [finish ?th ?r] |- _ =>
    unfold finish in H; destruct (t_watcher th) eqn:?; cbn [t_pc t_call t_watcher t_ctx t_born_closed t_born_done set_pc] in H
  end.

Ltac finish_goal :=
  cbn [t_pc t_call t_watcher t_ctx t_born_closed t_born_done set_pc new_thread first_pc
       mu closed done out lru sub_cancelled watch_cancelled watch_done has_watcher panicked next_tid threads
       with_threads with_mu with_lru with_out do_set_closed do_close_done do_cancel_watch do_watch_done] in *;
  try congruence; try lia; eauto.

(* instantiate a per-thread invariant A with every thread lookup in the context *)
Ltac inst A :=
  repeat match goal with
  | Hx : threads _ ?x = Some ?y |- _ =>
    let T := type of (A x y Hx) in
    lazymatch goal with
    | _ : T |- _ => fail
    | _ => pose proof (A x y Hx)
    end
  end.

Lemma invA_step s l s' : InvA s -> stepf s l = Some s' -> InvA s'.
Proof.
  intros (A1 & A2 & A3 & A4 & A5 & A6) H.
  step_inv H; unfold InvA; split_all; finish_goal;
    try (intros t0 th0 H0; upd_destruct;
         inst A1; inst A2; inst A3; inst A4;
         norm_finish; finish_goal;
         try (intros; exfalso; congruence);
         try (intros; intuition congruence);
         try (rewrite ?Hpc in *; try destruct hit; try destruct c; destruct (t_call th); cbn in *; intuition congruence);
         try lia; fail);
    try (intro Hh; specialize (A5 Hh); destruct A5 as (thw & Hw1 & Hw2);
         match goal with
         | |- exists th, upd _ ?t ?n 0 = Some th /\ _ =>
           destruct (Nat.eq_dec 0 t) as [E|E];
           [ subst; rewrite upd_same; eexists; split; [reflexivity|];
             norm_finish; finish_goal
           | rewrite upd_other by assumption; eauto ]
         end; fail).
  - intros t0 th0 H0; upd_destruct; inst A3; finish_goal. destruct c; reflexivity.
  - intro Hh; specialize (A5 Hh); destruct A5 as (thw & Hw1 & Hw2).
    rewrite upd_other by lia. eauto.
  - intros _. destruct (A5 eq_refl) as (thw & Hw1 & Hw2).
    destruct (Nat.eq_dec 0 t) as [E|E].
    + subst. rewrite upd_same. eexists; split; [reflexivity|]. cbn. congruence.
    + rewrite upd_other by assumption. eauto.
Qed.

Theorem invA_reach w s : reach w s -> InvA s.
Proof. apply invariant_reachable; [apply invA_init|apply invA_step]. Qed.


(* ------------------------------------------------------------------ *)
(* Layers B-D: mutex, close-once, results -- as a boolean per-thread   *)
(* invariant plus two relational facts                                 *)

Definition pre_done (p : pc) : bool := match p with ClUnlock | ClCloseDone => true | _ => false end.
Definition post_done (p : pc) : bool := match p with ClCancelWatch | ClWaitWatch => true | _ => false end.
Definition late_direct_pc (p : pc) : bool :=
  match p with DiAllow | DiLock | DiCheck | DiUnlockClosed | Fin RetClosed => true | _ => false end.
Definition is_ClSet (p : pc) : bool := match p with ClSet => true | _ => false end.
Definition is_ClWaitWatch (p : pc) : bool := match p with ClWaitWatch => true | _ => false end.
Definition is_FinNil (p : pc) : bool := match p with Fin RetNil => true | _ => false end.
Definition is_FinEarly (p : pc) : bool := match p with Fin RetEarly | ClEarlyUnlock => true | _ => false end.
Definition is_close (c : call) : bool := match c with CClose => true | _ => false end.
Definition is_direct_true (c : call) : bool := match c with CDirect true _ => true | _ => false end.
Definition holds (m : option nat) (t : nat) : bool := match m with Some x => Nat.eqb x t | None => false end.

Definition tinv (s : st) (t : nat) (th : thread) : bool :=
  implb (in_cs (t_pc th)) (holds (mu s) t) &&
  implb (negb (closed s)) (negb (pre_done (t_pc th)) && negb (post_done (t_pc th))) &&
  implb (is_ClSet (t_pc th)) (negb (closed s)) &&
  implb (pre_done (t_pc th)) (negb (done s)) &&
  implb (post_done (t_pc th)) (done s) &&
  implb (is_ClWaitWatch (t_pc th)) (watch_cancelled s && has_watcher s) &&
  implb (t_watcher th) (Bool.eqb (watch_done s) (is_FinNil (t_pc th))) &&
  implb (t_born_closed th) (closed s) &&
  implb (t_born_done th) (done s) &&
  implb (negb (t_watcher th) && t_born_closed th && is_direct_true (t_call th)) (late_direct_pc (t_pc th)) &&
  implb (negb (t_watcher th) && is_close (t_call th) && is_FinNil (t_pc th))
        (closed s && done s && implb (has_watcher s) (watch_done s)) &&
  implb (is_FinEarly (t_pc th)) (closed s).

Definition ginv (s : st) : bool :=
  implb (negb (closed s)) (negb (done s) && negb (sub_cancelled s)) && negb (panicked s).

Definition InvB (s : st) : Prop :=
  (forall t th, threads s t = Some th -> tinv s t th = true) /\
  ginv s = true /\
  (forall t, mu s = Some t -> exists th, threads s t = Some th /\ in_cs (t_pc th) = true) /\
  (forall t1 t2 th1 th2, threads s t1 = Some th1 -> threads s t2 = Some th2 ->
     pre_done (t_pc th1) = true -> pre_done (t_pc th2) = true -> t1 = t2).

(* boolean goal solver: split the conjunctions, destruct the atoms *)
Ltac bsplit_hyps :=
  repeat match goal with
  | H : _ && _ = true |- _ => apply andb_prop in H; destruct H
  end.
Ltac bsplit_goal := repeat (apply andb_true_intro; split).

Ltac batoms :=
  repeat match goal with
  | |- context [closed ?s] => destruct (closed s) eqn:?
  | |- context [done ?s] => destruct (done s) eqn:?
  | |- context [sub_cancelled ?s] => destruct (sub_cancelled s) eqn:?
  | |- context [watch_cancelled ?s] => destruct (watch_cancelled s) eqn:?
  | |- context [watch_done ?s] => destruct (watch_done s) eqn:?
  | |- context [has_watcher ?s] => destruct (has_watcher s) eqn:?
  | |- context [panicked ?s] => destruct (panicked s) eqn:?
  | |- context [t_watcher ?th] => destruct (t_watcher th) eqn:?
  | |- context [t_born_closed ?th] => destruct (t_born_closed th) eqn:?
  | |- context [t_born_done ?th] => destruct (t_born_done th) eqn:?
  | |- context [is_direct_true ?c] => destruct (is_direct_true c) eqn:?
  | |- context [is_close ?c] => destruct (is_close c) eqn:?
  | |- context [in_cs (t_pc ?th)] => destruct (in_cs (t_pc th)) eqn:?
  | |- context [pre_done (t_pc ?th)] => destruct (pre_done (t_pc th)) eqn:?
  | |- context [post_done (t_pc ?th)] => destruct (post_done (t_pc th)) eqn:?
  | |- context [late_direct_pc (t_pc ?th)] => destruct (late_direct_pc (t_pc th)) eqn:?
  | |- context [is_ClSet (t_pc ?th)] => destruct (is_ClSet (t_pc th)) eqn:?
  | |- context [is_ClWaitWatch (t_pc ?th)] => destruct (is_ClWaitWatch (t_pc th)) eqn:?
  | |- context [is_FinNil (t_pc ?th)] => destruct (is_FinNil (t_pc th)) eqn:?
  | |- context [is_FinEarly (t_pc ?th)] => destruct (is_FinEarly (t_pc th)) eqn:?
  | |- context [holds ?m ?t] => destruct (holds m t) eqn:?
  end.

Ltac bsolve := cbn [implb negb andb orb Bool.eqb] in *; try reflexivity; try assumption; try congruence;
               batoms; cbn [implb negb andb orb Bool.eqb] in *; try reflexivity; try congruence.

Lemma holds_other m t t0 : holds m t = true -> t0 <> t -> holds m t0 = false.
Proof.
  unfold holds. destruct m as [x|]; [|discriminate]. intros H1 H2.
  apply Nat.eqb_eq in H1. subst. apply Nat.eqb_neq. auto.
Qed.
Lemma holds_some t : holds (Some t) t = true.
Proof. cbn. apply Nat.eqb_refl. Qed.
Lemma holds_some_other t t0 : t0 <> t -> holds (Some t) t0 = false.
Proof. intro. cbn. apply Nat.eqb_neq. auto. Qed.
Lemma holds_none t : holds None t = false.
Proof. reflexivity. Qed.

Lemma invB_init w : InvB (init w).
Proof.
  unfold InvB, init; cbn. split_all; auto; try discriminate.
  - intros t th H. destruct w; cbn in H; [|discriminate]. destruct (Nat.eqb_spec t 0); [|discriminate].
    inversion H; subst. reflexivity.
  - intros t1 t2 th1 th2 H. destruct w; cbn in H; [|discriminate]. destruct (Nat.eqb_spec t1 0); [|discriminate].
    inversion H; subst; cbn. discriminate.
Qed.

Lemma is_ClSet_cs p : is_ClSet p = true -> in_cs p = true.
Proof. destruct p; cbn; congruence. Qed.
Lemma pre_done_not_cs_or p : pre_done p = true -> post_done p = false.
Proof. destruct p; cbn; congruence. Qed.

Ltac use_impl :=
  repeat match goal with
  | H : ?a = ?b, F : ?a = ?b -> _ |- _ => specialize (F H)
  end.

Ltac cbn_st :=
  cbn [t_pc t_call t_watcher t_ctx t_born_closed t_born_done set_pc new_thread first_pc
       mu closed done out lru sub_cancelled watch_cancelled watch_done has_watcher panicked next_tid threads
       with_threads with_mu with_lru with_out do_set_closed do_close_done do_cancel_watch do_watch_done
       in_cs pre_done post_done late_direct_pc is_ClSet is_ClWaitWatch is_FinNil is_FinEarly is_close is_direct_true
       pc_ok watcher_pc_ok holds implb negb andb orb Bool.eqb] in *.

Ltac rw_atoms :=
  repeat match goal with
  | H : ?a = ?b, H' : context [?a] |- _ =>
      lazymatch b with true => idtac | false => idtac end;
      lazymatch a with true => fail | false => fail | _ => idtac end;
      first [ constr_eq H H'; fail 1 | rewrite H in H' ]
  end.

Ltac bsolve2 :=
  cbn_st; try reflexivity; try assumption; try congruence;
  batoms; cbn_st; use_impl; cbn_st; try reflexivity; try congruence;
  repeat match goal with
  | H : is_ClSet ?p = true |- _ =>
    lazymatch goal with _ : in_cs p = true |- _ => fail | _ => pose proof (is_ClSet_cs p H) end
  end;
  rw_atoms; cbn_st; use_impl; cbn_st; try reflexivity; try congruence;
  try (exfalso;
       repeat match goal with O : t_watcher ?th = _ -> _ |- _ => destruct (t_watcher th) eqn:?; use_impl end;
       repeat match goal with H : _ /\ _ |- _ => destruct H end;
       first [ congruence | lia ]).

Lemma invB_step_tinv s l s' :
  InvA s -> InvB s -> stepf s l = Some s' ->
  forall t0 th0, threads s' t0 = Some th0 -> tinv s' t0 th0 = true.
Proof.
  intros (A1 & A2 & A3 & A4 & A5 & A6) (T & G & B2 & C4) H.
  step_inv H; intros t0 th0 H0; cbn [threads with_threads] in H0; upd_destruct;
    try (apply T; assumption);
    try (exact (T _ _ Hth));
    try pose proof (T _ _ Hth) as Tt;
    try pose proof (A3 _ _ Hth) as O3; try pose proof (A4 _ _ Hth) as O4; try pose proof (A2 _ _ Hth) as O2;
    try match goal with
    | Hx : threads s ?x = Some ?y, Hne : ?x <> _ |- _ =>
      pose proof (T _ _ Hx) as T0;
      pose proof (fun h => holds_other (mu s) _ x h Hne) as F0;
      pose proof (A2 _ _ Hx) as O2';
      pose proof (fun h1 h2 => C4 _ _ _ _ Hth Hx h1 h2) as U0
    end;
    try (pose proof (A1 _ _ Hth) as O1);
    unfold tinv, ginv in *; norm_finish; cbn_st; rewrite ?Hpc in *; cbn_st;
    try (destruct hit; cbn_st);
    try (destruct (t_call th) as [|[|] ?| |?] eqn:Hcall; cbn_st; try discriminate);
    try (destruct c as [|[|] ?| |?]; cbn_st);
    use_impl; cbn_st; try discriminate;
    try (rewrite ?Hmu in *; cbn_st);
    try (match goal with O : t_watcher ?th = _ -> false = true |- _ =>
           destruct (t_watcher th) eqn:?; use_impl; congruence end);
    bsplit_hyps; bsplit_goal; try (rewrite Nat.eqb_refl); bsolve2.
Qed.

Lemma invB_step_ginv s l s' :
  InvA s -> InvB s -> stepf s l = Some s' -> ginv s' = true.
Proof.
  intros (A1 & A2 & A3 & A4 & A5 & A6) (T & G & B2 & C4) H.
  step_inv H; try exact G;
    pose proof (T _ _ Hth) as Tt;
    pose proof (A3 _ _ Hth) as O3; pose proof (A4 _ _ Hth) as O4;
    unfold tinv, ginv in *; cbn_st; rewrite ?Hpc in *; cbn_st;
    try (destruct (t_call th) as [|[|] ?| |?] eqn:Hcall; cbn_st; try discriminate);
    bsplit_hyps; bsplit_goal; bsolve2.
Qed.

Lemma invB_step_holder s l s' :
  InvA s -> InvB s -> stepf s l = Some s' ->
  forall t, mu s' = Some t -> exists th, threads s' t = Some th /\ in_cs (t_pc th) = true.
Proof.
  intros (A1 & A2 & A3 & A4 & A5 & A6) (T & G & B2 & C4) H.
  step_inv H; intros x Hx; cbn_st; try discriminate Hx;
  try (inversion Hx; subst; eexists; split; [apply upd_same|reflexivity]; fail);
  try (destruct (B2 _ Hx) as (thx & Hx1 & Hx2);
       match goal with
       | |- exists _, upd _ ?u _ _ = _ /\ _ =>
         destruct (Nat.eq_dec x u) as [E|Hne];
         [ subst; first [ exfalso; pose proof (A1 _ _ Hx1); lia
                        | rewrite Hth in Hx1; inversion Hx1; subst; rewrite ?Hpc in Hx2; cbn in Hx2;
                          first [ discriminate Hx2
                                | eexists; split; [apply upd_same | norm_finish; cbn_st; try reflexivity; try exact Hx2; try (destruct hit; reflexivity)] ] ]
         | eexists; split; [rewrite upd_other by assumption; eassumption | assumption] ]
       end; fail).
Qed.

Lemma invB_step_unique s l s' :
  InvA s -> InvB s -> stepf s l = Some s' ->
  forall t1 t2 th1 th2, threads s' t1 = Some th1 -> threads s' t2 = Some th2 ->
     pre_done (t_pc th1) = true -> pre_done (t_pc th2) = true -> t1 = t2.
Proof.
  intros (A1 & A2 & A3 & A4 & A5 & A6) (T & G & B2 & C4) H.
  step_inv H; intros t1 t2 th1 th2 H1 H2 P1 P2; cbn [threads with_threads] in H1, H2;
    upd_destruct; try reflexivity; try (eapply C4; eassumption);
    cbn_st; try discriminate P1; try discriminate P2;
    try (destruct c; discriminate);
    try (norm_finish; cbn_st; try discriminate P1; try discriminate P2; try (destruct hit; discriminate));
    try (rewrite ?Hpc in *; eapply C4; try eassumption; rewrite ?Hpc; reflexivity);
    try (symmetry; rewrite ?Hpc in *; eapply C4; try eassumption; rewrite ?Hpc; reflexivity).
  all: exfalso; pose proof (T _ _ Hth) as Tt;
    match goal with Hx : threads _ ?x = Some ?y, Px : pre_done (t_pc ?y) = true |- _ =>
      pose proof (T _ _ Hx) as T0; unfold tinv in Tt, T0; rewrite Hpc in Tt; rewrite Px in T0 end;
    cbn_st; bsplit_hyps; destruct (closed s) eqn:?; cbn_st; congruence.
Qed.

Lemma invB_step s l s' : InvA s -> InvB s -> stepf s l = Some s' -> InvB s'.
Proof.
  intros HA HB H. unfold InvB. split_all.
  - eapply invB_step_tinv; eassumption.
  - eapply invB_step_ginv; eassumption.
  - eapply invB_step_holder; eassumption.
  - eapply invB_step_unique; eassumption.
Qed.

Theorem invB_reach w s : reach w s -> InvB s.
Proof.
  apply (invariant_reachable2 stepf InvA InvB).
  - apply invA_reach.
  - apply invB_init.
  - intros; eapply invB_step; eassumption.
Qed.

(* ------------------------------------------------------------------ *)
(* Derived theorems                                                    *)

Lemma tinv_of w s t th : reach w s -> threads s t = Some th -> tinv s t th = true.
Proof. intros R H. destruct (invB_reach w s R) as (T & _). exact (T _ _ H). Qed.

Theorem mutex_held_iff w s t th :
  reach w s -> threads s t = Some th -> (in_cs (t_pc th) = true <-> mu s = Some t).
Proof.
  intros R H. destruct (invB_reach w s R) as (T & G & B2 & C4). split.
  - intro Hc. pose proof (T _ _ H) as Tt. unfold tinv in Tt. bsplit_hyps.
    rewrite Hc in *. cbn_st.
    match goal with Hh : holds (mu s) t = true |- _ =>
      unfold holds in Hh; destruct (mu s) as [x|]; [apply Nat.eqb_eq in Hh; congruence|discriminate] end.
  - intro Hm. destruct (B2 _ Hm) as (th' & H1 & H2). congruence.
Qed.

Theorem mutex_free_when_idle w s :
  reach w s -> (forall t th, threads s t = Some th -> in_cs (t_pc th) = false) -> mu s = None.
Proof.
  intros R Hidle. destruct (invB_reach w s R) as (T & G & B2 & C4).
  destruct (mu s) as [t|] eqn:Hm; [|reflexivity].
  destruct (B2 _ eq_refl) as (th & H1 & H2). rewrite (Hidle _ _ H1) in H2. discriminate.
Qed.

Lemma cs_step_enabled s t th :
  threads s t = Some th -> in_cs (t_pc th) = true -> exists s', stepf s (Step t 0) = Some s'.
Proof.
  intros H Hc. cbn [stepf]. rewrite H. unfold step_thread.
  destruct (t_pc th); try discriminate Hc; unfold goto, ret;
    try (eexists; reflexivity);
    try (destruct (closed s); eexists; reflexivity).
  destruct (lru_update _ _ _). eexists; reflexivity.
Qed.

Theorem holder_enabled w s t : reach w s -> mu s = Some t -> enabled s t.
Proof.
  intros R Hm. destruct (invB_reach w s R) as (T & G & B2 & C4).
  destruct (B2 _ Hm) as (th & H1 & H2).
  destruct (cs_step_enabled _ _ _ H1 H2) as (s' & E). exists 0, s'. exact E.
Qed.

Theorem no_panic w s : reach w s -> panicked s = false.
Proof.
  intros R. destruct (invB_reach w s R) as (T & G & _). unfold ginv in G.
  apply andb_prop in G as [_ G]. destruct (panicked s); [discriminate|reflexivity].
Qed.

Theorem close_returned w s t th :
  reach w s -> threads s t = Some th -> t_watcher th = false -> t_call th = CClose ->
  (t_pc th = Fin RetNil -> closed s = true /\ done s = true /\ (has_watcher s = true -> watch_done s = true)) /\
  (t_pc th = Fin RetEarly -> closed s = true).
Proof.
  intros R H Hw Hc. pose proof (tinv_of _ _ _ _ R H) as Tt. unfold tinv in Tt.
  rewrite Hw, Hc in Tt. split; intro Hp; rewrite Hp in Tt; cbn_st; bsplit_hyps;
    destruct (closed s), (done s), (has_watcher s), (watch_done s); cbn_st; try discriminate; auto.
Qed.

Theorem late_direct_gets_closed_error w s t th c r :
  reach w s -> threads s t = Some th -> t_watcher th = false -> t_born_closed th = true ->
  t_call th = CDirect true c -> t_pc th = Fin r -> r = RetClosed.
Proof.
  intros R H Hw Hb Hc Hp. pose proof (tinv_of _ _ _ _ R H) as Tt. unfold tinv in Tt.
  rewrite Hw, Hb, Hc, Hp in Tt. cbn_st. bsplit_hyps.
  destruct r; cbn_st; try discriminate; reflexivity.
Qed.

Theorem born_closed_stays_closed w s t th :
  reach w s -> threads s t = Some th ->
  (t_born_closed th = true -> closed s = true) /\ (t_born_done th = true -> done s = true).
Proof.
  intros R H. pose proof (tinv_of _ _ _ _ R H) as Tt. unfold tinv in Tt. bsplit_hyps.
  split; intro Hb; rewrite Hb in *; cbn_st; assumption.
Qed.

(* once done is closed, nobody waits in a select *)
Theorem after_done_selects_enabled s t th :
  threads s t = Some th -> done s = true -> (t_pc th = NxSelect \/ t_pc th = DiSelect) -> enabled s t.
Proof.
  intros H Hd [Hp|Hp].
  - exists 2, (with_threads s (upd (threads s) t (finish th RetClosed))).
    cbn [stepf]. rewrite H. unfold step_thread. rewrite Hp, Hd. reflexivity.
  - exists 1, (with_threads s (upd (threads s) t (finish th RetClosed))).
    cbn [stepf]. rewrite H. unfold step_thread. rewrite Hp, Hd. reflexivity.
Qed.

Definition waits_for_mutex (p : pc) : bool := match p with ClLock | UnLock | DiLock => true | _ => false end.

(* a thread that can neither step nor is waiting for the mutex is in one of the
   three waits the API defines: a select with nothing ready, Close waiting for
   the watcher, the watcher waiting for a pubsub message *)
Lemma not_enabled_cases s t th :
  threads s t = Some th -> is_fin (t_pc th) = false ->
  enabled s t \/
  (waits_for_mutex (t_pc th) = true /\ exists t', mu s = Some t') \/
  (t_pc th = ClWaitWatch /\ watch_done s = false) \/
  (t_pc th = NxSelect /\ done s = false /\ ctx_done s th = false /\ out s = None) \/
  (t_pc th = DiSelect /\ done s = false /\ ctx_done s th = false /\ out s <> None) \/
  (t_pc th = WaNext /\ watch_cancelled s = false /\ sub_cancelled s = false).
Proof.
  intros H Hf. unfold enabled. cbn [stepf]. rewrite H. unfold step_thread, goto, ret.
  destruct (t_pc th) eqn:Hp; try discriminate Hf.
  all: try (left; exists 0; eexists; reflexivity).
  all: try (left; exists 0; destruct (closed s); eexists; reflexivity).
  all: try (destruct (mu s) as [x|] eqn:Hm;
            [right; left; split; [reflexivity|eauto] | left; exists 0; eexists; reflexivity]).
  - (* ClCancelWatch *) left. exists 0. destruct (has_watcher s); eexists; reflexivity.
  - (* ClWaitWatch *) destruct (watch_done s) eqn:Hw.
    + left. exists 0. eexists; reflexivity.
    + right; right; left. auto.
  - (* DiAllow *) left. exists 0. destruct (call_allowed (t_call th)); eexists; reflexivity.
  - (* DiUpdate *) left. exists 0. destruct (lru_update _ _ _). eexists; reflexivity.
  - (* DiSelect *)
    destruct (out s) eqn:Ho.
    + destruct (done s) eqn:Hd; [left; exists 1; eexists; reflexivity|].
      destruct (ctx_done s th) eqn:Hc; [left; exists 2; eexists; reflexivity|].
      right; right; right; right; left. repeat split; auto. discriminate.
    + left. exists 0. eexists; reflexivity.
  - (* NxSelect *)
    destruct (ctx_done s th) eqn:Hc; [left; exists 0; eexists; reflexivity|].
    destruct (out s) eqn:Ho; [left; exists 1; eexists; reflexivity|].
    destruct (done s) eqn:Hd; [left; exists 2; eexists; reflexivity|].
    right; right; right; left. auto.
  - (* WaNext *)
    destruct (watch_cancelled s || sub_cancelled s) eqn:Hc.
    + left. exists 0. eexists; reflexivity.
    + apply orb_false_elim in Hc as [? ?]. right; right; right; right; right. auto.
Qed.

(* no deadlock: whoever waits for the mutex waits for a thread that can step; Close
   waiting for the watcher waits for a thread that can step or itself waits for the
   mutex; all other waits are the API's own (nothing to deliver / not closed / no
   message) *)
Theorem progress w s t th :
  reach w s -> threads s t = Some th -> is_fin (t_pc th) = false ->
  enabled s t \/
  (waits_for_mutex (t_pc th) = true /\ exists t', mu s = Some t' /\ enabled s t') \/
  (t_pc th = ClWaitWatch /\ watch_cancelled s = true /\
     exists wth, threads s 0 = Some wth /\ t_watcher wth = true /\ is_fin (t_pc wth) = false /\
       (enabled s 0 \/ (waits_for_mutex (t_pc wth) = true /\ exists t', mu s = Some t' /\ enabled s t'))) \/
  (t_pc th = NxSelect /\ done s = false /\ ctx_done s th = false /\ out s = None) \/
  (t_pc th = DiSelect /\ done s = false /\ ctx_done s th = false /\ out s <> None) \/
  (t_pc th = WaNext /\ watch_cancelled s = false /\ sub_cancelled s = false).
Proof.
  intros R H Hf.
  destruct (not_enabled_cases s t th H Hf) as [E|[(Hw & t' & Hm)|[(Hp & Hwd)|[N|[D|W]]]]]; auto 10.
  - right; left. split; [assumption|]. exists t'. split; [assumption|]. eapply holder_enabled; eassumption.
  - right; right; left.
    pose proof (tinv_of _ _ _ _ R H) as Tt. unfold tinv in Tt. rewrite Hp in Tt. cbn_st. bsplit_hyps.
    assert (Hwc : watch_cancelled s = true) by assumption.
    assert (Hhw : has_watcher s = true) by assumption.
    split; [exact Hp|]. split; [assumption|].
    destruct (invA_reach w s R) as (A1 & A2 & A3 & A4 & A5 & A6).
    destruct (A5 Hhw) as (wth & Hw1 & Hw2). exists wth. split; [assumption|]. split; [assumption|].
    pose proof (tinv_of _ _ _ _ R Hw1) as Tw. unfold tinv in Tw. rewrite Hw2 in Tw. cbn_st. bsplit_hyps.
    assert (Hnf : is_fin (t_pc wth) = false).
    { pose proof (A4 _ _ Hw1 Hw2) as Hok.
      destruct (t_pc wth) as [| | | | | | | | | | | | | | | | | | | | | |r]; try reflexivity.
      destruct r; cbn in Hok; try discriminate Hok.
      match goal with Hx : Bool.eqb (watch_done s) _ = true |- _ => rewrite Hwd in Hx; cbn in Hx; discriminate Hx end. }
    split; [assumption|].
    destruct (not_enabled_cases s 0 wth Hw1 Hnf) as [E|[(Hwm & t' & Hm)|[(Hp' & _)|[(Hp' & _)|[(Hp' & Hd' & Hc' & _)|(Hp' & Hc' & _)]]]]].
    + left; assumption.
    + right. split; [assumption|]. exists t'. split; [assumption|]. eapply holder_enabled; eassumption.
    + exfalso. pose proof (A4 _ _ Hw1 Hw2) as Hok. rewrite Hp' in Hok. discriminate Hok.
    + exfalso. pose proof (A4 _ _ Hw1 Hw2) as Hok. rewrite Hp' in Hok. discriminate Hok.
    + exfalso. unfold ctx_done in Hc'. rewrite Hw2 in Hc'. congruence.
    + exfalso. congruence.
Qed.

(* every own step brings a thread closer to returning (the watcher: to waiting for the
   next message or to exiting), whatever the other threads do *)
Theorem rank_decreases s t c s' th :
  stepf s (Step t c) = Some s' -> threads s t = Some th ->
  exists th', threads s' t = Some th' /\ rank (t_pc th') < rank (t_pc th).
Proof.
  intros E H. cbn [stepf] in E. rewrite H in E. unfold step_thread, goto, ret in E.
  destruct (t_pc th) eqn:Hp;
    repeat match type of E with
    | context [match mu s with _ => _ end] => destruct (mu s)
    | context [if closed s then _ else _] => destruct (closed s)
    | context [if has_watcher s then _ else _] => destruct (has_watcher s)
    | context [if watch_done s then _ else _] => destruct (watch_done s)
    | context [if call_allowed ?x then _ else _] => destruct (call_allowed x)
    | context [let '(_, _) := lru_update ?a ?b ?x in _] => destruct (lru_update a b x) as [hit l']
    | context [match c with _ => _ end] => destruct c as [|[|c]]
    | context [match out s with _ => _ end] => destruct (out s)
    | context [if done s then _ else _] => destruct (done s)
    | context [if ctx_done s th then _ else _] => destruct (ctx_done s th)
    | context [if ?a || ?b then _ else _] => destruct (a || b)
    end; try discriminate E; inversion E; subst; clear E;
    cbn [threads with_threads]; rewrite upd_same; eexists; (split; [reflexivity|]);
    unfold finish; try destruct hit; destruct (t_watcher th); cbn; lia.
Qed.

(* a step of one thread does not touch the others *)
Theorem step_frame s t c s' x :
  stepf s (Step t c) = Some s' -> x <> t -> threads s' x = threads s x.
Proof.
  intros E Hne. cbn [stepf] in E. destruct (threads s t) as [th|] eqn:H; [|discriminate].
  unfold step_thread, goto, ret in E.
  destruct (t_pc th);
    repeat match type of E with
    | context [match mu s with _ => _ end] => destruct (mu s)
    | context [if closed s then _ else _] => destruct (closed s)
    | context [if has_watcher s then _ else _] => destruct (has_watcher s)
    | context [if watch_done s then _ else _] => destruct (watch_done s)
    | context [if call_allowed ?y then _ else _] => destruct (call_allowed y)
    | context [let '(_, _) := lru_update ?a ?b ?y in _] => destruct (lru_update a b y) as [hit l']
    | context [match c with _ => _ end] => destruct c as [|[|c]]
    | context [match out s with _ => _ end] => destruct (out s)
    | context [if done s then _ else _] => destruct (done s)
    | context [if ctx_done s th then _ else _] => destruct (ctx_done s th)
    | context [if ?a || ?b then _ else _] => destruct (a || b)
    end; try discriminate E; inversion E; subst; clear E;
    cbn [threads with_threads]; apply upd_other; assumption.
Qed.

(* non-vacuity: a concrete schedule with a watcher in which Close races with a
   Direct, a Next and a second Close, and everybody returns *)
Definition demo_schedule : list label :=
  [Spawn (CDirect true 7); Spawn CNext; Spawn CClose; Spawn CClose;
   Step 1 0; Step 1 0; Step 1 0; Step 1 0; Step 1 0; Step 1 0;   (* Direct delivers 7 *)
   Step 3 0; Step 3 0; Step 3 0; Step 3 0; Step 3 0;             (* first Close up to cancelWatch *)
   Step 4 0; Step 4 0; Step 4 0;                                  (* second Close returns early *)
   Step 2 1;                                                      (* Next gets 7 *)
   Step 3 0;                                                      (* cancelWatch *)
   Step 0 0; Step 0 0;                                            (* watcher exits *)
   Step 3 0].                                                     (* Close returns *)

Example demo_runs :
  match run stepf (init true) demo_schedule with
  | Some s => (closed s, done s, watch_done s, panicked s,
               match threads s 1, threads s 2, threads s 3, threads s 4 with
               | Some a, Some b, Some c, Some d => Some (t_pc a, t_pc b, t_pc c, t_pc d)
               | _, _, _, _ => None
               end)
  | None => (false, false, false, true, None)
  end = (true, true, true, false, Some (Fin RetNil, Fin (RetAnn 7%N), Fin RetNil, Fin RetEarly)).
Proof. vm_compute. reflexivity. Qed.
