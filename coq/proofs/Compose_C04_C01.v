(* C04's abstract chain walk tied to the models that own the walk (C01) and the block
   fetch (C02).  Part A: positions <-> CIDs. *)
From Coq Require Import List Bool Arith NArith ZArith Lia.
From Lib Require Import Bytes.
From Model Require Import Compose_C04_C01.
From Proofs Require C01_ChainSync C02_FetchVerify C04_SyncFailure.
Import ListNotations.

Module P1 := Proofs.C01_ChainSync.
Module P2 := Proofs.C02_FetchVerify.
Module P4 := Proofs.C04_SyncFailure.

Local Open Scope nat_scope.

(* ---------------------------------------------------------------------------------- *)
(* A. the bijection                                                                    *)

Lemma cid_of_cons : forall c r p, p <= length r -> cid_of (c :: r) p = cid_of r p.
Proof.
  intros c r p H. unfold cid_of. simpl length.
  replace (S (length r) - p) with (S (length r - p)) by lia. reflexivity.
Qed.

Lemma cid_of_In : forall ch p, in_range ch p -> In (cid_of ch p) ch.
Proof. intros ch p [H1 H2]. unfold cid_of. apply nth_In. lia. Qed.

Lemma cid_of_inj : forall ch p q, NoDup ch -> in_range ch p -> in_range ch q ->
  cid_of ch p = cid_of ch q -> p = q.
Proof.
  intros ch p q Hnd [P1 P2] [Q1 Q2] H. unfold cid_of in H.
  assert (length ch - p = length ch - q).
  { apply (proj1 (NoDup_nth ch 0%N) Hnd); [lia | lia | exact H]. }
  lia.
Qed.

Lemma skipn_cons_nth : forall (A : Type) (d : A) k (l : list A),
  k < length l -> skipn k l = nth k l d :: skipn (S k) l.
Proof.
  intros A d k. induction k as [|k IH]; intros [|x l] H; simpl in *; try lia; [reflexivity|].
  apply IH. lia.
Qed.

Lemma down_S : forall h, C4.down (S h) (S h) = S h :: C4.down h h.
Proof. intros h. simpl. rewrite Nat.sub_0_r. reflexivity. Qed.

Lemma cids_down_all : forall ch h, h <= length ch -> cids ch (C4.down h h) = skipn (length ch - h) ch.
Proof.
  intros ch h. induction h as [|h IH]; intros H.
  - simpl. rewrite Nat.sub_0_r, skipn_all. reflexivity.
  - rewrite down_S. unfold cids in *. unfold C1.cid in *. simpl map. rewrite IH by lia.
    rewrite (skipn_cons_nth _ 0%N (length ch - S h)) by lia.
    unfold cid_of. unfold C1.cid in *. replace (S (length ch - S h)) with (length ch - h) by lia. reflexivity.
Qed.

Lemma from_pos : forall ch h, NoDup ch -> in_range ch h ->
  C1.from (cid_of ch h) ch = skipn (length ch - h) ch.
Proof.
  intros ch. induction ch as [|c r IH]; intros h Hnd [H1 H2]; simpl in H2; [lia|].
  inversion Hnd as [|x l Hc Hr]; subst.
  destruct (Nat.eq_dec h (S (length r))) as [E|E].
  - subst h. unfold cid_of. simpl length. rewrite Nat.sub_diag. simpl.
    rewrite N.eqb_refl. reflexivity.
  - assert (Hh : h <= length r) by lia.
    rewrite cid_of_cons by exact Hh. simpl C1.from.
    assert (Hin : In (cid_of r h) r) by (apply cid_of_In; split; lia).
    destruct (N.eqb_spec c (cid_of r h)) as [E2|E2]; [subst c; contradiction|].
    rewrite IH by (try assumption; split; lia).
    simpl length. replace (S (length r) - h) with (S (length r - h)) by lia. reflexivity.
Qed.

Lemma is_stop_pos : forall ch s p, NoDup ch -> in_range ch p -> s <= length ch ->
  C1.is_stop (stop_of ch s) (cid_of ch p) = (s =? p).
Proof.
  intros ch s p Hnd Hp Hs. destruct s as [|s]; cbn [stop_of].
  - destruct Hp as [Hp _]. destruct p; [lia | reflexivity].
  - change (C1.is_stop (Some (cid_of ch (S s))) (cid_of ch p)) with (N.eqb (cid_of ch (S s)) (cid_of ch p)).
    destruct (N.eqb_spec (cid_of ch (S s)) (cid_of ch p)) as [E|E].
    + apply cid_of_inj in E; auto; [|split; lia]. subst p. symmetry. apply Nat.eqb_refl.
    + symmetry. apply Nat.eqb_neq. intros E2. apply E. rewrite E2. reflexivity.
Qed.

Lemma take_until_none : forall l, C1.take_until None l = l.
Proof. induction l as [|c l IH]; simpl; [reflexivity|]. rewrite IH. reflexivity. Qed.

Lemma down_cons : forall h k, C4.down (S h) (S k) = S h :: C4.down h k.
Proof. intros. simpl. rewrite Nat.sub_0_r. reflexivity. Qed.

Lemma take_until_down : forall ch s, NoDup ch -> 1 <= s <= length ch ->
  forall k h, k <= h -> h <= length ch ->
  C1.take_until (stop_of ch s) (cids ch (C4.down h k)) =
  cids ch (C4.down h (if h <? s then k else Nat.min k (h - s))).
Proof.
  intros ch s Hnd Hs k. induction k as [|k IH]; intros h Hk Hh.
  - destruct (h <? s); reflexivity.
  - destruct h as [|h]; [lia|]. rewrite down_cons.
    change (cids ch (S h :: C4.down h k)) with (cid_of ch (S h) :: cids ch (C4.down h k)).
    cbn [C1.take_until]. rewrite is_stop_pos; auto; [|split; lia|lia].
    destruct (Nat.eqb_spec s (S h)) as [E|E].
    + subst s. rewrite Nat.ltb_irrefl, Nat.sub_diag, Nat.min_0_r. reflexivity.
    + rewrite IH by lia.
      destruct (S h <? s) eqn:E1.
      * apply Nat.ltb_lt in E1. assert (E2 : h <? s = true) by (apply Nat.ltb_lt; lia). rewrite E2.
        rewrite down_cons. reflexivity.
      * apply Nat.ltb_ge in E1. assert (E2 : h <? s = false) by (apply Nat.ltb_ge; lia). rewrite E2.
        replace (Nat.min (S k) (S h - s)) with (S (Nat.min k (h - s))) by lia.
        rewrite down_cons. reflexivity.
Qed.

(* the positions C04 walks are the blocks of C01's specified segment, in its order; also for
   stop = head (nothing) and stop = 0 (no latest sync) *)
Lemma bridge_need : forall ch h L0, NoDup ch -> in_range ch h -> L0 <= length ch ->
  cids ch (P4.need h L0) = C1.segment ch (cid_of ch h) (stop_of ch L0) None.
Proof.
  intros ch h L0 Hnd Hh HL. destruct Hh as [H1 H2].
  unfold C1.segment, C1.cut. rewrite from_pos by (auto; split; lia).
  rewrite <- cids_down_all by lia.
  destruct L0 as [|s].
  - simpl stop_of. rewrite take_until_none. unfold P4.need.
    destruct (0 =? h) eqn:E; [apply Nat.eqb_eq in E; lia|].
    unfold C4.todo. destruct (0 <? h) eqn:E2; [|apply Nat.ltb_ge in E2; lia].
    rewrite Nat.sub_0_r. reflexivity.
  - rewrite (take_until_down ch (S s) Hnd) by lia.
    unfold P4.need, C4.todo. destruct (Nat.eqb_spec (S s) h) as [E|E].
    + subst h. rewrite Nat.ltb_irrefl, Nat.sub_diag, Nat.min_0_r. reflexivity.
    + destruct (h <? S s) eqn:E1.
      * apply Nat.ltb_lt in E1. assert (E2 : S s <? h = false) by (apply Nat.ltb_ge; lia). rewrite E2. reflexivity.
      * apply Nat.ltb_ge in E1. assert (E2 : S s <? h = true) by (apply Nat.ltb_lt; lia). rewrite E2.
        replace (Nat.min h (h - S s)) with (h - S s) by lia. reflexivity.
Qed.

Lemma need_todo : forall h s, s <> h -> P4.need h s = C4.todo h s.
Proof. intros h s H. unfold P4.need. destruct (Nat.eqb_spec s h); [contradiction | reflexivity]. Qed.

Lemma bridge_todo : forall ch h s, NoDup ch -> in_range ch h -> s <= length ch -> s <> h ->
  cids ch (C4.todo h s) = C1.segment ch (cid_of ch h) (stop_of ch s) None.
Proof. intros. rewrite <- need_todo by assumption. apply bridge_need; assumption. Qed.

Lemma In_down : forall k h p, k <= h -> In p (C4.down h k) -> h - k < p <= h.
Proof.
  induction k as [|k IH]; intros h p Hk H; simpl in H; [destruct H|].
  destruct H as [H|H]; [subst; lia|]. apply IH in H; lia.
Qed.

Lemma NoDup_down : forall k h, k <= h -> NoDup (C4.down h k).
Proof.
  induction k as [|k IH]; intros h Hk; simpl; constructor.
  - intros H. apply In_down in H; lia.
  - apply IH. lia.
Qed.

Lemma todo_facts : forall h s, NoDup (C4.todo h s) /\ (forall p, In p (C4.todo h s) -> 1 <= p <= h).
Proof.
  intros h s. unfold C4.todo. destruct (s <? h); split;
    try (apply NoDup_down; lia); intros p Hp; apply In_down in Hp; lia.
Qed.

Lemma memb_cids : forall ch store p, NoDup ch -> in_range ch p -> Forall (in_range ch) store ->
  C1.memb (cid_of ch p) (cids ch store) = C4.mem p store.
Proof.
  intros ch store p Hnd Hp. induction store as [|q store IH]; intros Hst; [reflexivity|].
  inversion Hst; subst. unfold cids. simpl map. rewrite P1.memb_cons. fold (cids ch store). rewrite IH by assumption.
  unfold C4.mem. simpl existsb. f_equal.
  destruct (N.eqb_spec (cid_of ch p) (cid_of ch q)) as [E|E].
  - apply cid_of_inj in E; auto. subst. symmetry. apply Nat.eqb_refl.
  - symmetry. apply Nat.eqb_neq. intros E2. apply E. rewrite E2. reflexivity.
Qed.

Lemma miss_bridge : forall ch store l, NoDup ch -> Forall (in_range ch) store -> Forall (in_range ch) l ->
  cids ch (miss store l) = C1.missing (cids ch store) (cids ch l).
Proof.
  intros ch store l Hnd Hst. induction l as [|p l IH]; intros Hl; [reflexivity|].
  inversion Hl; subst. unfold cids, miss, C1.missing in *. simpl.
  fold (cids ch store). rewrite memb_cids by assumption.
  destruct (C4.mem p store); simpl; rewrite IH by assumption; reflexivity.
Qed.

(* ---------------------------------------------------------------------------------- *)
(* B. C04's walk under ANY fault script: the store grows by a prefix of the missing     *)
(*    blocks, in walk order; the answered block requests are that prefix                *)

Lemma mem_cons : forall q p l, C4.mem q (p :: l) = (q =? p) || C4.mem q l.
Proof. reflexivity. Qed.

Lemma mem_app : forall q a b, C4.mem q (a ++ b) = C4.mem q a || C4.mem q b.
Proof. intros. unfold C4.mem. apply existsb_app. Qed.

Lemma miss_ext : forall s1 s2 l, (forall q, In q l -> C4.mem q s1 = C4.mem q s2) -> miss s1 l = miss s2 l.
Proof. intros s1 s2 l H. unfold miss. apply filter_ext_in. intros q Hq. rewrite (H q Hq). reflexivity. Qed.

Lemma miss_app : forall s a b, miss s (a ++ b) = miss s a ++ miss s b.
Proof. intros. apply filter_app. Qed.

Lemma miss_In : forall s l q, In q (miss s l) -> In q l.
Proof. intros s l q H. unfold miss in H. apply filter_In in H. tauto. Qed.

Lemma answered_app : forall w a b, answered w (a ++ b) = answered w a ++ answered w b.
Proof. intros. unfold answered. apply flat_map_app. Qed.

Lemma answered1_rev : forall w q, rev (answered1 w q) = answered1 w q.
Proof.
  intros w [[[a np] r] f]. unfold answered1. destruct r; [reflexivity|].
  destruct f as [f|]; [|reflexivity]. destruct f; try reflexivity. destruct (C4.genuine w np); reflexivity.
Qed.

Lemma answered_rev : forall w l, answered w (rev l) = rev (answered w l).
Proof.
  intros w l. induction l as [|q l IH]; [reflexivity|].
  simpl rev. rewrite answered_app, IH. unfold answered at 2 3. simpl flat_map.
  rewrite app_nil_r, rev_app_distr, answered1_rev. reflexivity.
Qed.

Definition blk_of (r : C4.rsrc) : list nat := match r with C4.Blk p => [p] | C4.Head => [] end.

Lemma exchange_answered : forall w pin a np r n x n',
  C4.exchange w pin a np r n = (x, n') ->
  answered w (C4.n_log n') = (if is_good x then blk_of r else []) ++ answered w (C4.n_log n).
Proof.
  intros w pin a np r n x n' H. unfold C4.exchange in H.
  destruct (C4.n_cancelled n); [inversion H; reflexivity|].
  destruct (negb (C4.pin_ok pin a)); [inversion H; reflexivity|].
  destruct (negb (C4.alive w a)).
  - inversion H; subst. simpl. destruct r; reflexivity.
  - inversion H; subst. clear H. cbn [C4.n_log]. unfold answered at 1. cbn [flat_map]. fold (answered w (C4.n_log n)).
    f_equal. unfold answered1.
    destruct (P4.genuine_cases w np) as [Hg|[c Hg]]; rewrite Hg;
      destruct (hd C4.FOk (C4.n_script n)); destruct r; reflexivity.
Qed.

Lemma fetch_loop_answered : forall fx w fuel r sy n d t tried res sy' n',
  C4.fetch_loop fx w fuel r sy n d t tried = (res, sy', n') ->
  answered w (C4.n_log n') =
    (match res with C4.FetchOk => blk_of r | _ => [] end) ++ answered w (C4.n_log n).
Proof.
  intros fx w fuel. induction fuel as [|fuel IH]; intros r sy n d t tried res sy' n' H.
  - simpl in H. inversion H; reflexivity.
  - simpl in H.
    destruct (C4.exchange w (C4.sy_pinned sy) (hd 0 (C4.sy_urls sy)) (C4.sy_nopath sy || t) r n) as [x n1] eqn:Hx.
    pose proof (exchange_answered _ _ _ _ _ _ _ _ Hx) as Ha.
    destruct x as [reset| c | |]; simpl in Ha.
    + destruct (C4.can_failover fx sy tried).
      * apply IH in H. rewrite H, Ha. reflexivity.
      * destruct (negb d && reset).
        -- apply IH in H. rewrite H, Ha. reflexivity.
        -- inversion H; subst. exact Ha.
    + destruct ((c =? 404)%N || (c =? 403)%N).
      * destruct (C4.sy_plain sy && negb (C4.sy_nopath sy) && negb t).
        -- destruct (C4.fx_nopath fx); apply IH in H; rewrite H, Ha; reflexivity.
        -- inversion H; subst. exact Ha.
      * inversion H; subst. exact Ha.
    + inversion H; subst. exact Ha.
    + inversion H; subst. exact Ha.
Qed.

Lemma walk_prefix : forall fx w T sy n store ok sy' n' store',
  NoDup T -> C4.walk fx w T sy n store = (ok, sy', n', store') ->
  exists k, k <= length (miss store T) /\
    store' = rev (firstn k (miss store T)) ++ store /\
    answered w (C4.n_log n') = rev (firstn k (miss store T)) ++ answered w (C4.n_log n) /\
    (ok = true -> k = length (miss store T)) /\
    (ok = false -> k < length (miss store T)).
Proof.
  intros fx w T. induction T as [|p rest IH]; intros sy n store ok sy' n' store' Hnd H; simpl in H.
  - inversion H; subst. exists 0. simpl. repeat split; auto; intros; discriminate.
  - inversion Hnd as [|x l Hp Hr]; subst.
    unfold miss. cbn [filter]. fold (miss store rest).
    destruct (C4.mem p store) eqn:Hm; cbn [negb].
    + apply IH in H; assumption.
    + destruct (C4.fetch fx w (C4.Blk p) sy n) as [[res sy1] n1] eqn:Hf. unfold C4.fetch in Hf.
      pose proof (fetch_loop_answered _ _ _ _ _ _ _ _ _ _ _ _ Hf) as Ha.
      assert (Hext : miss (p :: store) rest = miss store rest).
      { apply miss_ext. intros q Hq. rewrite mem_cons.
        destruct (Nat.eqb_spec q p); [subst; contradiction | reflexivity]. }
      destruct res.
      * apply IH in H; [|assumption]. rewrite Hext in H. destruct H as [k [K1 [K2 [K3 [K4 K5]]]]].
        exists (S k). cbn [firstn length rev]. repeat split.
        -- lia.
        -- rewrite K2, <- app_assoc. reflexivity.
        -- rewrite K3, Ha, <- app_assoc. reflexivity.
        -- intros E. rewrite (K4 E). reflexivity.
        -- intros E. specialize (K5 E). lia.
      * inversion H; subst. exists 0. cbn [firstn rev app length]. repeat split; auto; try lia; intros; discriminate.
      * inversion H; subst. exists 0. cbn [firstn rev app length]. repeat split; auto; try lia; intros; discriminate.
Qed.

Lemma n_log_cancel_if : forall (b : bool) n, C4.n_log (if b then C4.cancel_net n else n) = C4.n_log n.
Proof. intros [|] n; reflexivity. Qed.

Lemma firstn_len_app : forall (A : Type) (a b : list A) k, firstn (length a + k) (a ++ b) = a ++ firstn k b.
Proof. intros. apply firstn_app_2. Qed.

Lemma handle_segs_prefix : forall fx w sg segs hf sy n store hooks r,
  NoDup (concat segs) -> C4.handle_segs fx w sg segs hf sy n store hooks = r ->
  exists k, k <= length (miss store (concat segs)) /\
    C4.h_store r = rev (firstn k (miss store (concat segs))) ++ store /\
    answered w (C4.n_log (C4.h_net r)) = rev (firstn k (miss store (concat segs))) ++ answered w (C4.n_log n) /\
    (C4.h_ok r = true -> k = length (miss store (concat segs)) /\
       C4.h_hooks r = hooks ++ concat segs /\ C4.h_count r = length (hooks ++ concat segs)).
Proof.
  intros fx w sg segs. induction segs as [|s rest IH]; intros hf sy n store hooks r Hnd H; simpl in H.
  - subst r. exists 0. simpl. rewrite app_nil_r. repeat split; auto.
  - simpl concat in *. rewrite miss_app.
    pose proof (P1.NoDup_app_l _ _ Hnd) as Hs. pose proof (P1.NoDup_app_r _ _ Hnd) as Hr.
    destruct (C4.walk fx w s sy n store) as [[[ok sy1] n1] store1] eqn:Hw.
    destruct (walk_prefix _ _ _ _ _ _ _ _ _ _ Hs Hw) as [k1 [W1 [W2 [W3 [W4 W5]]]]].
    destruct ok.
    + specialize (W4 eq_refl). subst k1. rewrite firstn_all in W2, W3.
      destruct (sg && C4.hook_fails hf (length hooks) (length s)).
      * subst r. cbn [C4.h_store C4.h_net C4.h_ok].
        exists (length (miss store s)). rewrite app_length.
        rewrite (P1.firstn_app_le _ _ _ (le_n _)), firstn_all.
        repeat split; auto; try lia; try discriminate.
      * assert (Hext : miss store1 (concat rest) = miss store (concat rest)).
        { apply miss_ext. intros q Hq. rewrite W2, mem_app.
          replace (C4.mem q (rev (miss store s))) with false; [reflexivity|].
          symmetry. destruct (C4.mem q (rev (miss store s))) eqn:E; [|reflexivity].
          apply P4.mem_In in E. apply in_rev in E. apply miss_In in E.
          exfalso. eapply P1.NoDup_app_disj; eauto. }
        apply IH in H; [|assumption]. rewrite Hext in H. destruct H as [k2 [K1 [K2 [K3 K4]]]].
        rewrite n_log_cancel_if in K3.
        exists (length (miss store s) + k2). rewrite app_length, firstn_len_app, rev_app_distr.
        repeat split.
        -- lia.
        -- rewrite K2, W2, app_assoc. reflexivity.
        -- rewrite K3, W3, app_assoc. reflexivity.
        -- destruct (K4 H) as [K5 _]. lia.
        -- destruct (K4 H) as [_ [K6 _]]. rewrite K6, app_assoc. reflexivity.
        -- destruct (K4 H) as [_ [_ K7]]. rewrite K7, app_assoc. reflexivity.
    + specialize (W5 eq_refl). subst r. cbn [C4.h_store C4.h_net C4.h_ok].
      exists k1. rewrite app_length, (P1.firstn_app_le _ _ _ (Nat.lt_le_incl _ _ W5)).
      repeat split; auto; try lia; try discriminate.
Qed.

Lemma handle_prefix : forall fx w seg h s hf sy n store r,
  C4.handle fx w seg h s hf sy n store = r ->
  let M := miss store (C4.todo h s) in
  exists k, k <= length M /\
    C4.h_store r = rev (firstn k M) ++ store /\
    answered w (rev (C4.n_log (C4.h_net r))) = answered w (rev (C4.n_log n)) ++ firstn k M /\
    (C4.h_ok r = true -> k = length M /\ C4.h_hooks r = C4.todo h s /\ C4.h_count r = length (C4.todo h s)).
Proof.
  intros fx w seg h s hf sy n store r H M. unfold C4.handle in H.
  apply (handle_segs_prefix fx w) in H; [|rewrite P4.concat_segments; apply todo_facts].
  rewrite P4.concat_segments in H. destruct H as [k [K1 [K2 [K3 K4]]]].
  exists k. repeat split; auto.
  - rewrite !answered_rev, K3, rev_app_distr, rev_involutive. reflexivity.
  - apply K4; assumption.
  - apply K4; assumption.
  - apply K4; assumption.
Qed.

(* ---------------------------------------------------------------------------------- *)
(* C. the composed theorems                                                            *)

Lemma chain_nodup : forall extra ch, C1.chain_wf C1.EPrev extra ch = true -> NoDup ch.
Proof.
  intros extra ch H. unfold C1.chain_wf in H. apply andb_true_iff in H. destruct H as [_ H].
  apply P1.nodupb_NoDup. exact H.
Qed.

Lemma range_todo : forall ch h s, in_range ch h -> Forall (in_range ch) (C4.todo h s).
Proof.
  intros ch h s [H1 H2]. apply Forall_forall. intros p Hp.
  apply (proj2 (todo_facts h s)) in Hp. split; lia.
Qed.

Lemma cids_app : forall ch a b, cids ch (a ++ b) = cids ch a ++ cids ch b.
Proof. intros. apply map_app. Qed.
Lemma cids_rev : forall ch a, cids ch (rev a) = rev (cids ch a).
Proof. intros. apply map_rev. Qed.
Lemma cids_firstn : forall ch k a, cids ch (firstn k a) = firstn k (cids ch a).
Proof. intros. symmetry. apply firstn_map. Qed.

(* what C01 says about the sync C04 abstracts: handle = the specified segment *)
Lemma c01_handle_closed : forall extra ch pub h s store segdl,
  C1.chain_wf C1.EPrev extra ch = true -> in_range ch h -> s <= length ch -> s <> h ->
  let sg := C1.segment ch (cid_of ch h) (stop_of ch s) None in
  C1.avail pub (cids ch store) sg = true ->
  C1.handle (C1.chain_world C1.EPrev extra ch pub) C1.VPrev (stop_of ch s) None segdl C1.HNominate
            (cid_of ch h) (cids ch store) =
  C1.HO sg (C1.missing (cids ch store) sg) (rev (C1.missing (cids ch store) sg) ++ cids ch store) (length sg) None.
Proof.
  intros extra ch pub h s store segdl Hwf Hh Hs Hne sg Hav.
  pose proof (chain_nodup _ _ Hwf) as Hnd.
  apply (P1.segmented_eq_unsegmented_proved C1.EPrev extra ch pub (cid_of ch h) (stop_of ch s) None (cids ch store) segdl); auto.
  - apply cid_of_In. exact Hh.
  - rewrite is_stop_pos by assumption. apply Nat.eqb_neq. exact Hne.
Qed.

(* (1) fault-free: C04's abstract walk IS C01's handle (hence the specified segment), for
   every segment size *)
Theorem abstract_walk_is_c01_walk_l : forall extra ch pub w seg h s sy n store,
  C1.chain_wf C1.EPrev extra ch = true -> in_range ch h -> s <= length ch -> s <> h ->
  Forall (in_range ch) store ->
  C1.avail pub (cids ch store) (C1.segment ch (cid_of ch h) (stop_of ch s) None) = true ->
  P4.wf_world w -> P4.SyOk w sy -> P4.HasGood w sy -> P4.clean n ->
  let r := C4.handle C4.fx_fixed w seg h s None sy n store in
  let o := C1.handle (C1.chain_world C1.EPrev extra ch pub) C1.VPrev (stop_of ch s) None
                     (Z.of_nat seg) C1.HNominate (cid_of ch h) (cids ch store) in
  C4.h_ok r = true /\ C1.h_err o = None /\
  cids ch (C4.h_hooks r) = C1.h_hooks o /\
  (exists reqs, answered w (rev (C4.n_log (C4.h_net r))) = answered w (rev (C4.n_log n)) ++ reqs /\
                cids ch reqs = C1.h_reqs o) /\
  cids ch (C4.h_store r) = C1.h_store o /\
  C4.h_count r = C1.h_count o /\
  C1.h_hooks o = C1.segment ch (cid_of ch h) (stop_of ch s) None.
Proof.
  intros extra ch pub w seg h s sy n store Hwf Hh Hs Hne Hst Hav Hw Hok Hg Hc r o.
  pose proof (chain_nodup _ _ Hwf) as Hnd.
  assert (Ho : o = _) by (apply c01_handle_closed; assumption). 
  pose proof (P4.handle_clean w seg h s sy n store Hw Hok Hc Hg) as Hk. fold r in Hk.
  destruct (handle_prefix C4.fx_fixed w seg h s None sy n store r eq_refl) as [k [K1 [K2 [K3 K4]]]].
  destruct (K4 Hk) as [K5 [K6 K7]]. subst k. rewrite firstn_all in K2, K3.
  pose proof (bridge_todo ch h s Hnd Hh Hs Hne) as Hb.
  pose proof (miss_bridge ch store (C4.todo h s) Hnd Hst (range_todo ch h s Hh)) as Hm. rewrite Hb in Hm.
  rewrite Ho. cbn [C1.h_err C1.h_hooks C1.h_reqs C1.h_store C1.h_count].
  split; [exact Hk|]. split; [reflexivity|]. split; [rewrite K6; exact Hb|].
  split; [exists (miss store (C4.todo h s)); split; [exact K3 | exact Hm]|].
  split; [rewrite K2, cids_app, cids_rev, Hm; reflexivity|].
  split; [rewrite K7, <- Hb; unfold cids; rewrite map_length; reflexivity | reflexivity].
Qed.

(* (2) under ANY fault script (any faults, at any requests, any code variant): what C04's
   walk stores is exactly a PREFIX of C01's request order, newest first on top of the old
   store, and nothing else; the block requests the publisher answered are that prefix; the
   walk succeeds iff the prefix is the whole order *)
Theorem faulty_walk_is_prefix_l : forall fx extra ch pub w seg h s hf sy n store,
  C1.chain_wf C1.EPrev extra ch = true -> in_range ch h -> s <= length ch -> s <> h ->
  Forall (in_range ch) store ->
  C1.avail pub (cids ch store) (C1.segment ch (cid_of ch h) (stop_of ch s) None) = true ->
  let r := C4.handle fx w seg h s hf sy n store in
  let o := C1.handle (C1.chain_world C1.EPrev extra ch pub) C1.VPrev (stop_of ch s) None
                     (Z.of_nat seg) C1.HNominate (cid_of ch h) (cids ch store) in
  exists k, k <= length (C1.h_reqs o) /\
    cids ch (C4.h_store r) = rev (firstn k (C1.h_reqs o)) ++ cids ch store /\
    (exists reqs, answered w (rev (C4.n_log (C4.h_net r))) = answered w (rev (C4.n_log n)) ++ reqs /\
                  cids ch reqs = firstn k (C1.h_reqs o)) /\
    (C4.h_ok r = true -> k = length (C1.h_reqs o)).
Proof.
  intros fx extra ch pub w seg h s hf sy n store Hwf Hh Hs Hne Hst Hav r o.
  pose proof (chain_nodup _ _ Hwf) as Hnd.
  assert (Ho : o = _) by (apply c01_handle_closed; assumption).
  destruct (handle_prefix fx w seg h s hf sy n store r eq_refl) as [k [K1 [K2 [K3 K4]]]].
  pose proof (bridge_todo ch h s Hnd Hh Hs Hne) as Hb.
  pose proof (miss_bridge ch store (C4.todo h s) Hnd Hst (range_todo ch h s Hh)) as Hm. rewrite Hb in Hm.
  rewrite Ho. cbn [C1.h_reqs]. rewrite <- Hm.
  exists k. unfold cids at 1. rewrite map_length. split; [exact K1|].
  split; [rewrite K2, cids_app, cids_rev, cids_firstn; reflexivity|].
  split; [exists (firstn k (miss store (C4.todo h s))); split; [exact K3 | apply cids_firstn]|].
  intros E. apply K4 in E. destruct E as [E _]. unfold cids. rewrite map_length. exact E.
Qed.

(* ---- the fault index: one address, a publisher serving the IPNI path ---- *)

Definition single_good (w : C4.world) (sy : C4.syncer) : Prop :=
  exists a, C4.sy_urls sy = [a] /\ P4.good w sy a = true /\ C4.w_legacy w = false /\ C4.sy_nopath sy = false.

Lemma exchange_single : forall w sy a r n f rest,
  P4.good w sy a = true -> C4.w_legacy w = false ->
  C4.n_cancelled n = false -> C4.n_script n = f :: rest ->
  exists n', C4.exchange w (C4.sy_pinned sy) a false r n = (C4.apply_fault f C4.XOkGood, n') /\
             C4.n_script n' = rest /\ C4.n_cancelled n' = C4.is_cancel f.
Proof.
  intros w sy a r n f rest Hg Hl Hc Hs. unfold C4.exchange. rewrite Hc.
  unfold P4.good in Hg. apply andb_true_iff in Hg. destruct Hg as [Ha Hp]. rewrite Ha, Hp. simpl.
  rewrite Hs. simpl. unfold C4.genuine. rewrite Hl. eexists. split; [reflexivity|]. split; reflexivity.
Qed.

Lemma fetch_single_ok : forall w sy n r rest,
  single_good w sy -> C4.n_cancelled n = false -> C4.n_script n = C4.FOk :: rest ->
  exists n', C4.fetch C4.fx_fixed w r sy n = (C4.FetchOk, sy, n') /\
             C4.n_script n' = rest /\ C4.n_cancelled n' = false.
Proof.
  intros w sy n r rest [a [Hu [Hg [Hl Hn]]]] Hc Hs.
  destruct (exchange_single w sy a r n C4.FOk rest Hg Hl Hc Hs) as [n' [Hx [H1 H2]]].
  exists n'. unfold C4.fetch, C4.fetch_fuel. rewrite Hu. cbn [length Nat.mul Nat.add C4.fetch_loop].
  rewrite Hu, Hn. cbn [hd orb]. rewrite Hx. cbn [C4.apply_fault]. split; [reflexivity | split; assumption].
Qed.

Lemma fetch_single_hard : forall w sy n r f rest,
  single_good w sy -> C4.n_cancelled n = false -> C4.n_script n = f :: rest -> hard f = true ->
  fst (fst (C4.fetch C4.fx_fixed w r sy n)) = C4.FetchErr.
Proof.
  intros w sy n r f rest [a [Hu [Hg [Hl Hn]]]] Hc Hs Hh.
  destruct (exchange_single w sy a r n f rest Hg Hl Hc Hs) as [n' [Hx _]].
  unfold C4.fetch, C4.fetch_fuel. rewrite Hu. cbn [length Nat.mul Nat.add C4.fetch_loop].
  rewrite Hu, Hn. cbn [hd orb]. rewrite Hx.
  unfold C4.can_failover. rewrite Hu. cbn [C4.fx_rotate C4.fx_fixed length Nat.sub Nat.ltb Nat.leb].
  destruct f; try discriminate; cbn [C4.apply_fault negb andb]; try reflexivity.
  simpl in Hh. apply negb_true_iff in Hh. rewrite Hh. reflexivity.
Qed.

Lemma walk_single : forall w T sy n store i f rest,
  NoDup T -> single_good w sy -> C4.n_cancelled n = false ->
  C4.n_script n = repeat C4.FOk i ++ f :: rest -> hard f = true ->
  let M := miss store T in
  let '(ok, sy', n', store') := C4.walk C4.fx_fixed w T sy n store in
  if i <? length M
  then ok = false /\ store' = rev (firstn i M) ++ store
  else ok = true /\ store' = rev M ++ store /\ sy' = sy /\ C4.n_cancelled n' = false /\
       C4.n_script n' = repeat C4.FOk (i - length M) ++ f :: rest.
Proof.
  intros w T. induction T as [|p T IH]; intros sy n store i f rest Hnd Hsg Hc Hs Hh; simpl.
  - rewrite Nat.sub_0_r. repeat split; auto.
  - inversion Hnd as [|x l Hp Hr]; subst.
    unfold miss. cbn [filter]. fold (miss store T).
    destruct (C4.mem p store) eqn:Hm; cbn [negb].
    + apply IH; assumption.
    + assert (Hext : miss (p :: store) T = miss store T).
      { apply miss_ext. intros q Hq. rewrite mem_cons.
        destruct (Nat.eqb_spec q p); [subst; contradiction | reflexivity]. }
      destruct i as [|i]; simpl repeat in Hs; cbn [app] in Hs.
      * pose proof (fetch_single_hard w sy n (C4.Blk p) f rest Hsg Hc Hs Hh) as Hf.
        destruct (C4.fetch C4.fx_fixed w (C4.Blk p) sy n) as [[res sy1] n1]. simpl in Hf. subst res.
        cbn [length Nat.ltb Nat.leb firstn rev app]. split; reflexivity.
      * destruct (fetch_single_ok w sy n (C4.Blk p) _ Hsg Hc Hs) as [n1 [Hf [H1 H2]]]. rewrite Hf.
        specialize (IH sy n1 (p :: store) i f rest Hr Hsg H2 H1 Hh). rewrite Hext in IH.
        destruct (C4.walk C4.fx_fixed w T sy n1 (p :: store)) as [[[ok sy'] n'] store'].
        cbv beta iota zeta in IH. cbn [length]. change (S i <? S (length (miss store T))) with (i <? length (miss store T)).
        destruct (i <? length (miss store T)).
        -- destruct IH as [I1 I2]. split; [exact I1|]. rewrite I2. cbn [firstn rev]. rewrite <- app_assoc. reflexivity.
        -- destruct IH as [I1 [I2 I3]]. split; [exact I1|]. split; [|exact I3].
           rewrite I2. cbn [rev]. rewrite <- app_assoc. reflexivity.
Qed.

Lemma handle_segs_single : forall w sg segs sy n store hooks i f rest,
  NoDup (concat segs) -> single_good w sy -> C4.n_cancelled n = false ->
  C4.n_script n = repeat C4.FOk i ++ f :: rest -> hard f = true ->
  let M := miss store (concat segs) in
  i < length M ->
  let r := C4.handle_segs C4.fx_fixed w sg segs None sy n store hooks in
  C4.h_ok r = false /\ C4.h_store r = rev (firstn i M) ++ store.
Proof.
  intros w sg segs. induction segs as [|s segs IH]; intros sy n store hooks i f rest Hnd Hsg Hc Hs Hh M Hi r.
  - simpl in Hi. lia.
  - subst r M. simpl concat in *. rewrite miss_app in *. rewrite app_length in Hi. simpl C4.handle_segs.
    pose proof (P1.NoDup_app_l _ _ Hnd) as Hs1. pose proof (P1.NoDup_app_r _ _ Hnd) as Hr1.
    pose proof (walk_single w s sy n store i f rest Hs1 Hsg Hc Hs Hh) as Hw. cbv zeta in Hw.
    destruct (C4.walk C4.fx_fixed w s sy n store) as [[[ok sy1] n1] store1].
    destruct (i <? length (miss store s)) eqn:E.
    + destruct Hw as [W1 W2]. subst ok. cbn [C4.h_ok C4.h_store]. split; [reflexivity|].
      apply Nat.ltb_lt in E. rewrite (P1.firstn_app_le _ _ _ (Nat.lt_le_incl _ _ E)). exact W2.
    + destruct Hw as [W1 [W2 [W3 [W4 W5]]]]. subst ok sy1. rewrite andb_false_r.
      apply Nat.ltb_ge in E.
      assert (Hext : miss store1 (concat segs) = miss store (concat segs)).
      { apply miss_ext. intros q Hq. rewrite W2, mem_app.
        replace (C4.mem q (rev (miss store s))) with false; [reflexivity|].
        symmetry. destruct (C4.mem q (rev (miss store s))) eqn:E2; [|reflexivity].
        apply P4.mem_In in E2. apply in_rev in E2. apply miss_In in E2.
        exfalso. eapply P1.NoDup_app_disj; eauto. }
      specialize (IH sy n1 store1 (hooks ++ s) (i - length (miss store s)) f rest Hr1 Hsg W4 W5 Hh).
      cbv zeta in IH. rewrite Hext in IH. destruct IH as [I1 I2]; [lia|].
      split; [exact I1|]. rewrite I2, W2.
      replace i with (length (miss store s) + (i - length (miss store s))) at 2 by lia.
      rewrite firstn_len_app, rev_app_distr, app_assoc. reflexivity.
Qed.

(* with the first i requests answered and a hard fault at request i (one address, a publisher
   serving the IPNI path, no hook failure): the sync fails and has stored exactly the first
   i blocks of C01's request order *)
Theorem fault_at_request_i_l : forall extra ch pub w seg h s sy n store i f rest,
  C1.chain_wf C1.EPrev extra ch = true -> in_range ch h -> s <= length ch -> s <> h ->
  Forall (in_range ch) store ->
  C1.avail pub (cids ch store) (C1.segment ch (cid_of ch h) (stop_of ch s) None) = true ->
  single_good w sy -> C4.n_cancelled n = false ->
  C4.n_script n = repeat C4.FOk i ++ f :: rest -> hard f = true ->
  let r := C4.handle C4.fx_fixed w seg h s None sy n store in
  let o := C1.handle (C1.chain_world C1.EPrev extra ch pub) C1.VPrev (stop_of ch s) None
                     (Z.of_nat seg) C1.HNominate (cid_of ch h) (cids ch store) in
  i < length (C1.h_reqs o) ->
  C4.h_ok r = false /\ C4.h_count r = 0 /\
  cids ch (C4.h_store r) = rev (firstn i (C1.h_reqs o)) ++ cids ch store.
Proof.
  intros extra ch pub w seg h s sy n store i f rest Hwf Hh Hs Hne Hst Hav Hsg Hc Hscr Hhard r o Hi.
  pose proof (chain_nodup _ _ Hwf) as Hnd.
  assert (Ho : o = _) by (apply c01_handle_closed; assumption).
  pose proof (bridge_todo ch h s Hnd Hh Hs Hne) as Hb.
  pose proof (miss_bridge ch store (C4.todo h s) Hnd Hst (range_todo ch h s Hh)) as Hm. rewrite Hb in Hm.
  rewrite Ho in *. cbn [C1.h_reqs] in *. rewrite <- Hm in *. unfold cids in Hi at 1. rewrite map_length in Hi.
  subst r. unfold C4.handle.
  destruct (handle_segs_single w (0 <? seg) (C4.segments seg (C4.todo h s)) sy n store [] i f rest) as [R1 R2]; auto.
  - rewrite P4.concat_segments. apply todo_facts.
  - rewrite P4.concat_segments. exact Hi.
  - rewrite P4.concat_segments in R2. split; [exact R1|]. split.
    + apply (P4.segment_failure_count_zero_l C4.fx_fixed w seg h s None sy n store). exact R1.
    + rewrite R2, cids_app, cids_rev, cids_firstn. reflexivity.
Qed.

(* (2b) the one place where C04 abstracts C02: a block request whose outcome in C04 is x is,
   in C02's fetchBlock (symbolic instance: content number = CID), the answer [c02_answer x]:
   the genuine content, a body that does not hash to the CID, or no 200 answer.  fetchBlock
   then commits exactly (c, content) when x is "200 with the genuine body" and leaves the
   store EXACTLY as it was otherwise (C02's bad_fetch_commits_nothing) -- which is C04's
   rule "a fetched block is stored at once, a rejected answer stores nothing". *)
Theorem fetch_step_refines_c02_l : forall d resp reqs c bs x b,
  C2.local_ok N C2.sym_hashes_to (C2.sym_links_of d) bs c = None ->
  b <> c -> resp (length reqs) = c02_answer x c b ->
  C2.fetch_block N C2.sym_hashes_to (C2.sym_links_of d) resp reqs c bs =
    (reqs ++ [c], if is_good x then (c, c) :: bs else bs, if is_good x then Some c else None).
Proof.
  intros d resp reqs c bs x b Hl Hb Hr.
  destruct x; simpl in *.
  - apply P2.fetch_block_bad; [exact Hl | rewrite Hr; reflexivity].
  - apply P2.fetch_block_bad; [exact Hl | rewrite Hr; reflexivity].
  - unfold C2.fetch_block. rewrite Hl, Hr. unfold C2.sym_hashes_to. rewrite N.eqb_refl. reflexivity.
  - apply P2.fetch_block_bad; [exact Hl|]. rewrite Hr. simpl. unfold C2.sym_hashes_to.
    apply negb_true_iff. apply N.eqb_neq. exact Hb.
Qed.

(* (3) retry_converges against the INDEPENDENT specification: after any history of syncs of
   head h (any faults) a fault-free sync ends with the latest sync and the stored blocks that
   C01's sync_ad_chain_meets_spec gives for a SyncAdChain of that head on the INITIAL state:
   initial store + segment ch head latest0 *)
Theorem retry_converges_to_c01_spec_l : forall extra ch pub cfg w seg S0 L0 h ops r,
  P4.wf_world w -> Forall (P4.wf_op w h) ops -> P4.retry_ok w h r ->
  C1.chain_wf C1.EPrev extra ch = true -> in_range ch h -> L0 <= length ch ->
  Forall (in_range ch) S0 ->
  C1.c_strict cfg = true -> C1.c_hook cfg = C1.HNominate ->
  C1.c_ads_depth cfg = 0%Z -> C1.c_first_depth cfg = 0%Z -> C1.c_lastknown cfg = None ->
  let sg := C1.segment ch (cid_of ch h) (stop_of ch L0) None in
  C1.avail pub (cids ch S0) sg = true ->
  let st1 := fst (C4.step C4.fx_fixed w seg r (C4.run C4.fx_fixed w seg ops (C4.init S0 L0))) in
  let o := C1.sync_ad_chain (C1.chain_world C1.EPrev extra ch pub) cfg (c01_call (cid_of ch h)) (c01_state ch S0 L0) in
  let moved := negb (L0 =? h) in
  o = C1.CO (C1.ROk (cid_of ch h)) sg (C1.missing (cids ch S0) sg)
            (if moved then Some (cid_of ch h, length sg) else None)
            (C1.ST (if moved then Some (cid_of ch h) else stop_of ch L0)
                   (rev (C1.missing (cids ch S0) sg) ++ cids ch S0)) /\
  stop_of ch (C4.s_latest st1) = C1.s_latest (C1.r_state o) /\
  (forall c, In c (cids ch (C4.s_store st1)) <-> In c (C1.s_store (C1.r_state o))) /\
  (forall c, In c (cids ch (C4.s_store st1)) <-> In c (cids ch S0) \/ In c sg).
Proof.
  intros extra ch pub cfg w seg S0 L0 h ops r Hw Hops Hr Hwf Hh HL HS0 Hstrict Hhook Hads Hfirst Hlk sg Hav st1 o moved.
  assert (Heff : forall st, C1.eff_latest cfg st = C1.s_latest st) by (intro st0; unfold C1.eff_latest; rewrite Hlk; destruct (C1.s_latest st0); reflexivity).
  pose proof (chain_nodup _ _ Hwf) as Hnd.
  (* C01's specification, instantiated *)
  assert (Hstop : C1.stop_table (C1.eff_latest cfg (c01_state ch S0 L0)) (C1.a_stop (c01_call (cid_of ch h)))
                                (C1.a_resync (c01_call (cid_of ch h))) = stop_of ch L0) by (rewrite Heff; reflexivity).
  assert (Hlim : forall stop, C1.depth_table (C1.c_ads_depth cfg) (C1.c_first_depth cfg)
                                (C1.a_depth (c01_call (cid_of ch h))) stop = None).
  { intros stop. unfold C1.depth_table. rewrite Hads, Hfirst. destruct stop; reflexivity. }
  assert (Hmoved : true && negb (C1.is_stop (stop_of ch L0) (cid_of ch h)) = moved).
  { rewrite is_stop_pos by assumption. reflexivity. }
  assert (Hav' : C1.avail pub (C1.s_store (c01_state ch S0 L0))
            (C1.segment ch (cid_of ch h)
               (C1.stop_table (C1.eff_latest cfg (c01_state ch S0 L0)) (C1.a_stop (c01_call (cid_of ch h))) (C1.a_resync (c01_call (cid_of ch h))))
               (C1.depth_table (C1.c_ads_depth cfg) (C1.c_first_depth cfg) (C1.a_depth (c01_call (cid_of ch h)))
                  (C1.stop_table (C1.eff_latest cfg (c01_state ch S0 L0)) (C1.a_stop (c01_call (cid_of ch h))) (C1.a_resync (c01_call (cid_of ch h)))))) = true).
  { rewrite Hstop, Hlim. exact Hav. }
  pose proof (P1.sync_ad_chain_spec extra ch pub cfg (c01_call (cid_of ch h)) (c01_state ch S0 L0) (cid_of ch h) true
                Hwf Hstrict Hhook eq_refl (cid_of_In ch h Hh) Hav') as Ho.
  unfold P1.ad_result in Ho. rewrite Hstop, Hlim, Hmoved in Ho. cbn [c01_state C1.s_latest C1.s_store] in Ho.
  fold sg in Ho. fold o in Ho.
  (* C04's retry *)
  destruct (P4.hinv_run w seg S0 L0 h ops (C4.init S0 L0) Hw (P4.hinv_init w S0 L0 h) eq_refl Hops) as [Hinv Hsl].
  destruct (P4.retry_from_inv w seg S0 L0 h _ r Hw Hinv Hsl Hr) as [_ [Hlat Hstore]]. fold st1 in Hlat, Hstore.
  pose proof (bridge_need ch h L0 Hnd Hh HL) as Hb. fold sg in Hb.
  assert (Hin : forall c, In c (cids ch (C4.s_store st1)) <-> In c (cids ch S0) \/ In c sg).
  { intros c. rewrite <- Hb. unfold cids. rewrite !in_map_iff. split.
    - intros [p [E Hp]]. apply Hstore in Hp. destruct Hp as [Hp|Hp]; [left | right]; exists p; auto.
    - intros [[p [E Hp]]|[p [E Hp]]]; exists p; (split; [exact E|]); apply Hstore; [left | right]; exact Hp. }
  split; [exact Ho|]. rewrite Ho. cbn [C1.r_state C1.s_latest C1.s_store].
  split.
  - rewrite Hlat. unfold moved. destruct (Nat.eqb_spec L0 h) as [E|E]; simpl.
    + subst L0. reflexivity.
    + destruct Hh as [H1 _]. destruct h; [lia | reflexivity].
  - split; [|exact Hin]. intros c. rewrite Hin, in_app_iff, <- in_rev. split.
    + intros [Hc|Hc]; [right; exact Hc|].
      destruct (C1.memb c (cids ch S0)) eqn:Em; [right; apply P1.memb_In; exact Em|].
      left. unfold C1.missing. apply filter_In. split; [exact Hc | rewrite Em; reflexivity].
    + intros [Hc|Hc]; [right; apply P1.missing_In in Hc; tauto | left; exact Hc].
Qed.

(* Non-vacuity: a 5-chain, head at position 4, latest sync at position 1, block 3 already
   stored, segment size 2: both models computed, the hypotheses of the theorems hold *)
Example ex_compose :
  let ch := [105; 104; 103; 102; 101]%N in
  let w := P4.w_plain [true] in
  let sy := {| C4.sy_addrs := [0]; C4.sy_urls := [0]; C4.sy_nopath := false; C4.sy_plain := true; C4.sy_pinned := None |} in
  let n0 := {| C4.n_script := []; C4.n_cancelled := false; C4.n_log := [] |} in
  let nf := {| C4.n_script := [C4.FOk; C4.FCorrupt]; C4.n_cancelled := false; C4.n_log := [] |} in
  let r := C4.handle C4.fx_fixed w 2 4 1 None sy n0 [3] in
  let rf := C4.handle C4.fx_fixed w 2 4 1 None sy nf [3] in
  let o := C1.handle (C1.chain_world C1.EPrev [] ch ch) C1.VPrev (stop_of ch 1) None 2%Z C1.HNominate (cid_of ch 4) (cids ch [3]) in
  C1.chain_wf C1.EPrev [] ch = true /\ in_range ch 4 /\ Forall (in_range ch) [3] /\
  C1.avail ch (cids ch [3]) (C1.segment ch (cid_of ch 4) (stop_of ch 1) None) = true /\
  single_good w sy /\ P4.SyOk w sy /\ P4.HasGood w sy /\
  C1.h_hooks o = [104; 103; 102]%N /\ C1.h_reqs o = [104; 102]%N /\
  cids ch (C4.h_hooks r) = C1.h_hooks o /\ cids ch (C4.h_store r) = C1.h_store o /\
  answered w (rev (C4.n_log (C4.h_net r))) = [4; 2] /\
  C4.h_ok rf = false /\ cids ch (C4.h_store rf) = rev (firstn 1 (C1.h_reqs o)) ++ cids ch [3].
Proof.
  cbv zeta. split; [reflexivity|]. split; [split; simpl; lia|].
  split; [constructor; [split; simpl; lia | constructor]|]. split; [reflexivity|].
  split; [exists 0; repeat split|].
  split; [constructor; simpl; try tauto; try discriminate|].
  split; [exists 0; split; [left; reflexivity | reflexivity]|].
  vm_compute. repeat split.
Qed.
