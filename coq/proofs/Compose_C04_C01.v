(* C04's abstract chain walk tied to the models that own the walk (C01) and the block
   fetch (C02).  Part A: positions <-> CIDs. *)
From Coq Require Import List Bool Arith NArith ZArith Lia.
From Lib Require Import Bytes.
From Model Require Import Compose_C04_C01.
From Proofs Require C01_ChainSync C02_FetchVerify C04_SyncFailure.
Import ListNotations.

Module P1 := Proofs.C01_ChainSync.
Module P2 := Proofs.C02_FetchVerify.
Module P4 := Proofs.C04_SyncFailure.

Local Open Scope nat_scope.

(* ---------------------------------------------------------------------------------- *)
(* A. the bijection                                                                    *)

Lemma cid_of_cons : forall c r p, p <= length r -> cid_of (c :: r) p = cid_of r p.
Proof.
  intros c r p H. unfold cid_of. simpl length.
  replace (S (length r) - p) with (S (length r - p)) by lia. reflexivity.
Qed.

Lemma cid_of_In : forall ch p, in_range ch p -> In (cid_of ch p) ch.
Proof. intros ch p [H1 H2]. unfold cid_of. apply nth_In. lia. Qed.

Lemma cid_of_inj : forall ch p q, NoDup ch -> in_range ch p -> in_range ch q ->
  cid_of ch p = cid_of ch q -> p = q.
Proof.
  intros ch p q Hnd [P1 P2] [Q1 Q2] H. unfold cid_of in H.
  assert (length ch - p = length ch - q).
  { apply (proj1 (NoDup_nth ch 0%N) Hnd); [lia | lia | exact H]. }
  lia.
Qed.

Lemma skipn_cons_nth : forall (A : Type) (d : A) k (l : list A),
  k < length l -> skipn k l = nth k l d :: skipn (S k) l.
Proof.
  intros A d k. induction k as [|k IH]; intros [|x l] H; simpl in *; try lia; [reflexivity|].
  apply IH. lia.
Qed.

Lemma down_S : forall h, C4.down (S h) (S h) = S h :: C4.down h h.
Proof. intros h. simpl. rewrite Nat.sub_0_r. reflexivity. Qed.

Lemma cids_down_all : forall ch h, h <= length ch -> cids ch (C4.down h h) = skipn (length ch - h) ch.
Proof.
  intros ch h. induction h as [|h IH]; intros H.
  - simpl. rewrite Nat.sub_0_r, skipn_all. reflexivity.
  - rewrite down_S. unfold cids in *. simpl map. rewrite IH by lia.
    rewrite (skipn_cons_nth _ 0%N (length ch - S h)) by lia.
    unfold cid_of. unfold C1.cid in *. replace (S (length ch - S h)) with (length ch - h) by lia. reflexivity.
Qed.

Lemma from_pos : forall ch h, NoDup ch -> in_range ch h ->
  C1.from (cid_of ch h) ch = skipn (length ch - h) ch.
Proof.
  intros ch. induction ch as [|c r IH]; intros h Hnd [H1 H2]; simpl in H2; [lia|].
  inversion Hnd as [|x l Hc Hr]; subst.
  destruct (Nat.eq_dec h (S (length r))) as [E|E].
  - subst h. unfold cid_of. simpl length. rewrite Nat.sub_diag. simpl.
    rewrite N.eqb_refl. reflexivity.
  - assert (Hh : h <= length r) by lia.
    rewrite cid_of_cons by exact Hh. simpl C1.from.
    assert (Hin : In (cid_of r h) r) by (apply cid_of_In; split; lia).
    destruct (N.eqb_spec c (cid_of r h)) as [E2|E2]; [subst c; contradiction|].
    rewrite IH by (try assumption; split; lia).
    simpl length. replace (S (length r) - h) with (S (length r - h)) by lia. reflexivity.
Qed.

Lemma is_stop_pos : forall ch s p, NoDup ch -> in_range ch p -> s <= length ch ->
  C1.is_stop (stop_of ch s) (cid_of ch p) = (s =? p).
Proof.
  intros ch s p Hnd Hp Hs. destruct s as [|s]; simpl.
  - destruct Hp as [Hp _]. destruct p; [lia | reflexivity].
  - change (C1.is_stop (Some (cid_of ch (S s))) (cid_of ch p)) with (N.eqb (cid_of ch (S s)) (cid_of ch p)).
    destruct (N.eqb_spec (cid_of ch (S s)) (cid_of ch p)) as [E|E].
    + apply cid_of_inj in E; auto; [|split; lia]. subst p. symmetry. apply Nat.eqb_refl.
    + symmetry. apply Nat.eqb_neq. intros E2. apply E. rewrite E2. reflexivity.
Qed.

Lemma take_until_none : forall l, C1.take_until None l = l.
Proof. induction l as [|c l IH]; simpl; [reflexivity|]. rewrite IH. reflexivity. Qed.

Lemma take_until_down : forall ch s, NoDup ch -> 1 <= s <= length ch ->
  forall k h, k <= h -> h <= length ch ->
  C1.take_until (stop_of ch s) (cids ch (C4.down h k)) =
  cids ch (C4.down h (if h <? s then k else Nat.min k (h - s))).
Proof.
  intros ch s Hnd Hs k. induction k as [|k IH]; intros h Hk Hh.
  - simpl. destruct (h <? s); reflexivity.
  - destruct h as [|h]; [lia|]. unfold cids. simpl C4.down. rewrite Nat.sub_0_r. simpl map.
    cbn [C1.take_until]. rewrite is_stop_pos; auto; [|split; lia|lia].
    destruct (Nat.eqb_spec s (S h)) as [E|E].
    + subst s. rewrite Nat.ltb_irrefl, Nat.sub_diag, Nat.min_0_r. reflexivity.
    + fold (cids ch (C4.down h k)). rewrite IH by lia.
      destruct (S h <? s) eqn:E1.
      * apply Nat.ltb_lt in E1. assert (E2 : h <? s = true) by (apply Nat.ltb_lt; lia). rewrite E2.
        simpl. rewrite Nat.sub_0_r. reflexivity.
      * apply Nat.ltb_ge in E1. assert (E2 : h <? s = false) by (apply Nat.ltb_ge; lia). rewrite E2.
        replace (Nat.min (S k) (S h - s)) with (S (Nat.min k (h - s))) by lia.
        simpl. rewrite Nat.sub_0_r. reflexivity.
Qed.

(* the positions C04 walks are the blocks of C01's specified segment, in its order; also for
   stop = head (nothing) and stop = 0 (no latest sync) *)
Lemma bridge_need : forall ch h L0, NoDup ch -> in_range ch h -> L0 <= length ch ->
  cids ch (P4.need h L0) = C1.segment ch (cid_of ch h) (stop_of ch L0) None.
Proof.
  intros ch h L0 Hnd Hh HL. destruct Hh as [H1 H2].
  unfold C1.segment, C1.cut. rewrite from_pos by (auto; split; lia).
  rewrite <- cids_down_all by lia.
  destruct L0 as [|s].
  - simpl stop_of. rewrite take_until_none. unfold P4.need.
    destruct (0 =? h) eqn:E; [apply Nat.eqb_eq in E; lia|].
    unfold C4.todo. destruct (0 <? h) eqn:E2; [|apply Nat.ltb_ge in E2; lia].
    rewrite Nat.sub_0_r. reflexivity.
  - rewrite (take_until_down ch (S s) Hnd) by lia.
    unfold P4.need, C4.todo. destruct (Nat.eqb_spec (S s) h) as [E|E].
    + subst h. rewrite Nat.ltb_irrefl, Nat.sub_diag, Nat.min_0_r. reflexivity.
    + destruct (h <? S s) eqn:E1.
      * apply Nat.ltb_lt in E1. assert (E2 : S s <? h = false) by (apply Nat.ltb_ge; lia). rewrite E2. reflexivity.
      * apply Nat.ltb_ge in E1. assert (E2 : S s <? h = true) by (apply Nat.ltb_lt; lia). rewrite E2.
        replace (Nat.min h (h - S s)) with (h - S s) by lia. reflexivity.
Qed.

Lemma need_todo : forall h s, s <> h -> P4.need h s = C4.todo h s.
Proof. intros h s H. unfold P4.need. destruct (Nat.eqb_spec s h); [contradiction | reflexivity]. Qed.

Lemma bridge_todo : forall ch h s, NoDup ch -> in_range ch h -> s <= length ch -> s <> h ->
  cids ch (C4.todo h s) = C1.segment ch (cid_of ch h) (stop_of ch s) None.
Proof. intros. rewrite <- need_todo by assumption. apply bridge_need; assumption. Qed.

Lemma In_down : forall k h p, k <= h -> In p (C4.down h k) -> h - k < p <= h.
Proof.
  induction k as [|k IH]; intros h p Hk H; simpl in H; [destruct H|].
  destruct H as [H|H]; [subst; lia|]. apply IH in H; lia.
Qed.

Lemma NoDup_down : forall k h, k <= h -> NoDup (C4.down h k).
Proof.
  induction k as [|k IH]; intros h Hk; simpl; constructor.
  - intros H. apply In_down in H; lia.
  - apply IH. lia.
Qed.

Lemma todo_facts : forall h s, NoDup (C4.todo h s) /\ (forall p, In p (C4.todo h s) -> 1 <= p <= h).
Proof.
  intros h s. unfold C4.todo. destruct (s <? h); split;
    try (apply NoDup_down; lia); intros p Hp; apply In_down in Hp; lia.
Qed.

Lemma memb_cids : forall ch store p, NoDup ch -> in_range ch p -> Forall (in_range ch) store ->
  C1.memb (cid_of ch p) (cids ch store) = C4.mem p store.
Proof.
  intros ch store p Hnd Hp. induction store as [|q store IH]; intros Hst; [reflexivity|].
  inversion Hst; subst. unfold cids. simpl map. rewrite P1.memb_cons. fold (cids ch store). rewrite IH by assumption.
  unfold C4.mem. simpl existsb. f_equal.
  destruct (N.eqb_spec (cid_of ch p) (cid_of ch q)) as [E|E].
  - apply cid_of_inj in E; auto. subst. symmetry. apply Nat.eqb_refl.
  - symmetry. apply Nat.eqb_neq. intros E2. apply E. rewrite E2. reflexivity.
Qed.

Lemma miss_bridge : forall ch store l, NoDup ch -> Forall (in_range ch) store -> Forall (in_range ch) l ->
  cids ch (miss store l) = C1.missing (cids ch store) (cids ch l).
Proof.
  intros ch store l Hnd Hst. induction l as [|p l IH]; intros Hl; [reflexivity|].
  inversion Hl; subst. unfold cids, miss, C1.missing in *. simpl.
  fold (cids ch store). rewrite memb_cids by assumption.
  destruct (C4.mem p store); simpl; rewrite IH by assumption; reflexivity.
Qed.
