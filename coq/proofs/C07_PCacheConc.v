(* C07 — proofs about the thread-level model model/C07_PCacheConc.v.
   All statements are over [LTS.reachable (stepf need_merge ttl) (ginit auto)]: every
   schedule, any number of goroutines, any merge policy, any time-to-live. *)
From stdpp Require Import gmap.
From Coq Require Import ZArith NArith Lia.
From Lib Require LTS.
From Model Require Import C06_PCache C07_PCacheConc.
From Proofs Require Import C06_PCache.

Lemma upd_same f t th : upd f t th t = Some th.
Proof. unfold upd. rewrite Nat.eqb_refl. reflexivity. Qed.

Lemma upd_other f t th x : x <> t -> upd f t th x = f x.
Proof. intro H. unfold upd. apply Nat.eqb_neq in H. rewrite H. reflexivity. Qed.

Lemma upd_cases f t th x y : upd f t th x = Some y -> (x = t /\ y = th) \/ (x <> t /\ f x = Some y).
Proof.
  unfold upd. destruct (Nat.eqb x t) eqn:E; intro H.
  - apply Nat.eqb_eq in E. inversion H. auto.
  - apply Nat.eqb_neq in E. auto.
Qed.

Local Arguments upd : simpl never.
Local Arguments obj : simpl never.

Section Proofs.
  Variable need_merge : nat -> nat -> bool.
  Variable ttl : Z.
  Variable auto : bool.

  Notation stepf := (stepf need_merge ttl).
  Notation step_thread := (step_thread need_merge ttl).
  Notation reachable := (LTS.reachable stepf (ginit auto)).

  (* inversion of one thread step into its cases *)
  Ltac inv_step H :=
    unfold C07_PCacheConc.step_thread in H;
    repeat match type of H with
           | context [match ?x with _ => _ end] =>
             let E := fresh "E" in destruct x eqn:E; try discriminate H
           | context [if ?x then _ else _] =>
             let E := fresh "E" in destruct x eqn:E; try discriminate H
           end;
    unfold goto in H; inversion H; subst; clear H.

  (* ---------------------------------------------------------------- *)
  (* Layer 1: thread identifiers; who holds the write slot              *)

  Definition InvA (s : gst) : Prop :=
    (forall n, next_tid s <= n -> threads s n = None) /\
    (forall t th, threads s t = Some th -> holding (t_pc th) = true -> slot s = Some t) /\
    (forall t, slot s = Some t -> exists th, threads s t = Some th /\ holding (t_pc th) = true).

  Lemma InvA_init : InvA (ginit auto).
  Proof. split_and!; cbn; intros; try discriminate; reflexivity. Qed.

  Lemma InvA_step s l s' : InvA s -> stepf s l = Some s' -> InvA s'.
  Proof.
    intros (HA & HB1 & HB2) Hs. destruct l as [c after|[]|t e]; cbn in Hs.
    - (* Spawn *)
      destruct c; try discriminate;
        (destruct (match after with Some t0 => _ | None => true end); [|discriminate]);
        inversion Hs; subst; clear Hs; unfold InvA; cbn; (split_and!;
        [ intros n Hn; rewrite upd_other by lia; apply HA; lia
        | intros t th Ht Hh; apply upd_cases in Ht as [[-> ->]|[Hne Ht]]; [discriminate Hh|eauto]
        | intros t Ht; destruct (HB2 t Ht) as (th & Hth & Hh); exists th; split; [|exact Hh];
          rewrite upd_other; [exact Hth|]; intro; subst; rewrite HA in Hth by lia; discriminate ]).
    - destruct (auto_on s && armed s); [|discriminate]. inversion Hs; subst. unfold InvA; cbn. split_and!; assumption.
    - destruct (threads s t) as [th|] eqn:Eth; [|discriminate].
      assert (Hlt : t < next_tid s).
      { destruct (le_lt_dec (next_tid s) t) as [Hle|]; [|assumption]. rewrite HA in Eth by exact Hle. discriminate. }
      inv_step Hs; unfold InvA; cbn in *.
      all: try match goal with |- context [refresh_end ?x _] => unfold refresh_end; destruct (t_call x) eqn:? end.
      all: split_and!.
      (* identifiers *)
      all: try (intros nn Hnn; rewrite ?upd_other by lia; apply HA; lia).
      (* a thread at a holding point owns the slot *)
      all: try (intros tt' thh' Ht' Hh';
        repeat (apply upd_cases in Ht' as [[-> ->]|[? Ht']]); cbn in Hh'; try discriminate Hh';
        try reflexivity;
        first [ apply (HB1 t th Eth); match goal with E : t_pc _ = _ |- _ => rewrite E end; reflexivity
              | pose proof (HB1 _ _ Ht' Hh') as X;
                try (pose proof (HB1 t th Eth ltac:(match goal with E : t_pc _ = _ |- _ => rewrite E end; reflexivity)) as Y);
                congruence ]).
      (* the owner of the slot is at a holding point *)
      all: try (try match goal with E : slot _ = _ |- _ => rewrite E end;
        intros tt' Ht'; try discriminate Ht';
        first [ inversion Ht'; subst tt'; eexists; split; [rewrite ?upd_other by lia; apply upd_same|reflexivity]
              | destruct (HB2 tt' Ht') as (th0 & Hth0 & Hh0);
                destruct (Nat.eq_dec tt' t) as [->|Hne];
                [ rewrite Eth in Hth0; inversion Hth0; subst th0;
                  match goal with E : t_pc _ = _ |- _ => rewrite E in Hh0 end;
                  first [ discriminate Hh0
                        | eexists; split; [rewrite ?upd_other by lia; apply upd_same|reflexivity] ]
                | exists th0; split; [|exact Hh0];
                  assert (tt' < next_tid s) by
                    (destruct (le_lt_dec (next_tid s) tt'); [rewrite HA in Hth0 by assumption; discriminate|assumption]);
                  rewrite ?upd_other by (first [assumption | lia]); exact Hth0 ] ]).
  Qed.

  Lemma InvA_reachable s : reachable s -> InvA s.
  Proof. apply LTS.invariant_reachable; [apply InvA_init|apply InvA_step]. Qed.

  (* every thread is at a point of the function its call runs *)
  Definition is_refresh (th : thread) : bool :=
    match t_call th with CRefresh | CAuto => true | _ => false end.

  Definition pc_call_ok (th : thread) : Prop :=
    match t_pc th with
    | GLoad | GLookupU | GLookupM | GCas _
    | MTake | MStored | MReleaseHit _ | MFetch | MInsert | MCopy | MFill =>
      match t_call th with CGet _ | CGetResults _ => True | _ => False end
    | LLoad | LBuild => t_call th = CList
    | NLoad | NCount => t_call th = CLen
    | RTry | RWait _ | RRecheck _ | RCollect | RReleaseCancelled | RCopy | RFill | TAdd =>
      is_refresh th = true
    | ARearm _ => t_call th = CAuto
    | TDecide | TAllocM | TFillM | TStore _ | TRelease =>
      match t_call th with CList | CLen => False | _ => True end
    | Fin _ => True
    end.

  Definition InvP (s : gst) : Prop := forall t th, threads s t = Some th -> pc_call_ok th.

  Lemma InvP_init : InvP (ginit auto).
  Proof. intros t th H. discriminate H. Qed.

  Lemma InvP_step s l s' : InvP s -> stepf s l = Some s' -> InvP s'.
  Proof.
    intros HP Hs. destruct l as [c after|[]|t e]; cbn in Hs.
    - destruct c; try discriminate;
        (destruct (match after with Some t0 => _ | None => true end); [|discriminate]);
        inversion Hs; subst; clear Hs; intros t th Ht; cbn in Ht;
        apply upd_cases in Ht as [[-> ->]|[? Ht]]; eauto; cbn; auto.
    - destruct (auto_on s && armed s); [|discriminate]. inversion Hs; subst. exact HP.
    - destruct (threads s t) as [th|] eqn:Eth; [|discriminate].
      pose proof (HP t th Eth) as Hok. unfold pc_call_ok in Hok.
      inv_step Hs; intros t' th' Ht'; cbn in Ht';
        repeat (apply upd_cases in Ht' as [[-> ->]|[? Ht']]); eauto;
        unfold pc_call_ok, refresh_end, is_refresh in *; cbn in *;
        destruct (t_call th); cbn in *; try tauto; try discriminate; auto.
  Qed.

  Lemma InvP_reachable s : reachable s -> InvP s.
  Proof. apply LTS.invariant_reachable; [apply InvP_init|apply InvP_step]. Qed.

  (* ---------------------------------------------------------------- *)
  (* Layer 2: the heap, the history of Stores, and the refinement of the writer's
     private steps to the sequential model                                     *)

  Notation finish := (C06_PCache.finish need_merge).
  Notation refresh := (C06_PCache.refresh true need_merge ttl).
  Notation fetch_missing := (C06_PCache.fetch_missing need_merge ttl).
  Notation settle := (C06_PCache.settle true ttl).
  Notation upd_of := (C06_PCache.upd_of true).
  Notation miss_entry := (C06_PCache.miss_entry ttl).

  (* what readers see can only move forward in time *)
  Definition vmono (a b : state) : Prop :=
    forall pid r r', visible a pid = Some r -> visible b pid = Some r' -> (eff_time r <= eff_time r')%Z.

  Definition hist_ok (s : gst) : Prop :=
    forall v st mid uid, hist s !! v = Some (st, mid, uid) ->
      heap s !! mid = Some (st_rm st) /\ heap s !! uid = Some (st_ru st) /\
      mid < next_id s /\ uid < next_id s.

  (* a map object no pointer value ever stored refers to *)
  Definition priv (s : gst) (id : nat) : Prop :=
    id < next_id s /\
    forall v st mid uid, hist s !! v = Some (st, mid, uid) -> id <> mid /\ id <> uid.

  Definition last_ok (s : gst) : Prop :=
    exists h0 st, hist s = h0 ++ [(st, (readp s).1, (readp s).2)] /\
      st_rm st = st_rm (cur s) /\ st_ru st = st_ru (cur s).

  Definition conc_eq (s : gst) : Prop :=
    pc_seq s = st_seq (cur s) /\ pc_write s = st_write (cur s).

  Definition walked (c : state) (th : thread) :=
    walk (st_seq c + 1) (l_outs th) (st_write c) 0.

  Definition miss_path (c : state) (pid : N) : Prop :=
    match st_write c !! pid, view c pid with Some _, Some _ => False | _, _ => True end.

  (* what the writer is going to hand to [finish]: pc.seq, pc.write, the update map *)
  Definition plan (th : thread) (c : state) : N * gmap N entry * mapobj :=
    if is_refresh th then
      let seq' := (st_seq c + 1)%N in
      let w1 := (walked c th).1.1 in
      (seq', omap (settle (l_now th) seq') w1, merge (upd_of (l_now th) seq') w1 (st_ru c))
    else
      let e := miss_entry c (l_now th) (l_fouts th) in
      (st_seq c, <[call_pid (t_call th) := e]> (st_write c), <[call_pid (t_call th) := e_prov e]> (st_ru c)).

  Definition path_ok (th : thread) (c : state) : Prop :=
    if is_refresh th then (walked c th).1.2 = false /\ Forall wf_src (l_outs th)
    else miss_path c (call_pid (t_call th)) /\ Forall wf_fetch (l_fouts th).

  Definition tail_inv (s : gst) (th : thread) : Prop :=
    path_ok th (cur s) /\
    pc_seq s = (plan th (cur s)).1.1 /\ pc_write s = (plan th (cur s)).1.2 /\
    heap s !! l_upd th = Some (plan th (cur s)).2 /\
    l_mid th = (readp s).1 /\ priv s (l_upd th).

  Definition wants_merge (th : thread) (c : state) : bool :=
    need_merge (size (plan th c).2) (size (st_rm c)).

  Definition HolderInv (s : gst) (th : thread) : Prop :=
    let c := cur s in
    let pid := call_pid (t_call th) in
    match t_pc th with
    | RRecheck _ | RCollect | MStored | TAdd | TRelease => conc_eq s
    | MReleaseHit v => conc_eq s /\ view c pid = Some v
    | MFetch => conc_eq s /\ miss_path c pid
    | MInsert => conc_eq s /\ miss_path c pid /\ Forall wf_fetch (l_fouts th)
    | RReleaseCancelled =>
      Forall wf_src (l_outs th) /\ pc_seq s = (st_seq c + 1)%N /\
      pc_write s = (walked c th).1.1 /\ (walked c th).1.2 = true
    | RCopy =>
      Forall wf_src (l_outs th) /\ pc_seq s = (st_seq c + 1)%N /\
      pc_write s = (walked c th).1.1 /\ (walked c th).1.2 = false
    | RFill =>
      Forall wf_src (l_outs th) /\ pc_seq s = (st_seq c + 1)%N /\
      pc_write s = (walked c th).1.1 /\ (walked c th).1.2 = false /\
      heap s !! l_upd th = Some (st_ru c) /\ l_mid th = (readp s).1 /\ priv s (l_upd th)
    | MCopy =>
      path_ok th c /\ pc_seq s = (plan th c).1.1 /\ pc_write s = (plan th c).1.2
    | MFill =>
      path_ok th c /\ pc_seq s = (plan th c).1.1 /\ pc_write s = (plan th c).1.2 /\
      heap s !! l_upd th = Some (st_ru c) /\ l_mid th = (readp s).1 /\ priv s (l_upd th)
    | TDecide => tail_inv s th
    | TAllocM => tail_inv s th /\ wants_merge th c = true
    | TFillM => tail_inv s th /\ wants_merge th c = true /\ priv s (l_m th) /\ l_m th <> l_upd th
    | TStore true =>
      tail_inv s th /\ wants_merge th c = true /\ priv s (l_m th) /\ l_m th <> l_upd th /\
      heap s !! l_m th = Some (merged (plan th c).1.2 (plan th c).2 (st_rm c))
    | TStore false => tail_inv s th /\ wants_merge th c = false
    | _ => True
    end.

  Definition InvC (s : gst) : Prop :=
    hist s !! 0 = Some (init, 0, 0) /\
    hist_ok s /\ last_ok s /\
    (forall id, next_id s <= id -> heap s !! id = None) /\
    Inv (cur s) /\ Inv2 (cur s) /\
    (forall i a b, hist s !! i = Some a -> hist s !! (S i) = Some b -> vmono a.1.1 b.1.1) /\
    match slot s with
    | None => conc_eq s
    | Some t => exists th, threads s t = Some th /\ HolderInv s th
    end.

  Lemma InvC_init : InvC (ginit auto).
  Proof.
    unfold InvC; cbn. split_and!.
    - reflexivity.
    - intros v st mid uid H. destruct v; cbn in H; [|discriminate]. inversion H; subst. cbn.
      rewrite lookup_singleton. split_and!; auto.
    - exists [], init. cbn. auto.
    - intros id Hid. apply lookup_singleton_ne. lia.
    - apply Inv_init.
    - apply Inv2_init.
    - intros i a b Ha Hb. destruct i; discriminate.
    - split; reflexivity.
  Qed.

  (* the objects the current pointer refers to hold the current sequential snapshot *)
  Lemma cur_objects s : hist_ok s -> last_ok s ->
    heap s !! (readp s).1 = Some (st_rm (cur s)) /\ heap s !! (readp s).2 = Some (st_ru (cur s)).
  Proof.
    intros Hh (h0 & st & Hl & Hm & Hu).
    destruct (Hh (length h0) st (readp s).1 (readp s).2) as (A & B & _).
    { rewrite Hl. rewrite lookup_app_r by lia. replace (length h0 - length h0) with 0 by lia. reflexivity. }
    rewrite <- Hm, <- Hu. auto.
  Qed.

  Lemma obj_some h id x : h !! id = Some x -> obj h id = x.
  Proof. unfold obj. intros ->. reflexivity. Qed.

  Lemma refresh_walked c now outs :
    (refresh now outs c).1 =
    let w := walk (st_seq c + 1) outs (st_write c) 0 in
    if w.1.2 then State (st_seq c + 1) w.1.1 (st_rm c) (st_ru c)
    else finish (st_seq c + 1) (omap (settle now (st_seq c + 1)) w.1.1)
                (merge (upd_of now (st_seq c + 1)) w.1.1 (st_ru c)) (st_rm c).
  Proof.
    unfold C06_PCache.refresh. destruct (walk (st_seq c + 1) outs (st_write c) 0) as [[w1 b] n].
    destruct b; reflexivity.
  Qed.

  Lemma seq_apply_plan th c :
    path_ok th c ->
    seq_apply need_merge ttl th c = finish (plan th c).1.1 (plan th c).1.2 (plan th c).2 (st_rm c).
  Proof.
    unfold path_ok, plan, seq_apply, is_refresh, walked.
    destruct (t_call th); intros [H1 H2]; cbn [fst snd].
    3,4: (unfold C06_PCache.fetch_missing, miss_path in *;
          destruct (st_write c !! _); [destruct (view c _); [contradiction|]|]; reflexivity).
    1,2: (unfold C06_PCache.fetch_missing, miss_path in *;
          destruct (st_write c !! _); [destruct (view c _); [contradiction|]|]; reflexivity).
    all: rewrite refresh_walked; cbn zeta; rewrite H1; reflexivity.
  Qed.

  Lemma seq_apply_cancelled th c :
    is_refresh th = true -> (walked c th).1.2 = true ->
    seq_apply need_merge ttl th c = State (st_seq c + 1) (walked c th).1.1 (st_rm c) (st_ru c).
  Proof.
    unfold is_refresh, seq_apply, walked. destruct (t_call th); try discriminate; intros _ H;
      rewrite refresh_walked; cbn zeta; rewrite H; reflexivity.
  Qed.

  Lemma finish_fields seq' w u rm :
    st_seq (finish seq' w u rm) = seq' /\ st_write (finish seq' w u rm) = w /\
    (need_merge (size u) (size rm) = false -> st_rm (finish seq' w u rm) = rm /\ st_ru (finish seq' w u rm) = u) /\
    (need_merge (size u) (size rm) = true -> st_rm (finish seq' w u rm) = merged w u rm /\ st_ru (finish seq' w u rm) = ∅).
  Proof. unfold C06_PCache.finish. destruct (need_merge _ _); split_and!; auto; discriminate. Qed.

  (* HolderInv only looks at these fields of the global state *)
  Lemma HolderInv_frame s s' th :
    cur s' = cur s -> heap s' = heap s -> hist s' = hist s -> readp s' = readp s ->
    pc_seq s' = pc_seq s -> pc_write s' = pc_write s -> next_id s' = next_id s ->
    HolderInv s th -> HolderInv s' th.
  Proof.
    intros Hc Hh Hi Hr Hq Hw Hn.
    unfold HolderInv, tail_inv, conc_eq, priv. rewrite Hc, Hh, Hi, Hr, Hq, Hw, Hn. auto.
  Qed.

  Lemma InvC_intro s s' :
    InvC s ->
    hist s' = hist s -> cur s' = cur s -> readp s' = readp s ->
    next_id s <= next_id s' ->
    (forall id, next_id s' <= id -> heap s' !! id = None) ->
    (forall v st mid uid, hist s !! v = Some (st, mid, uid) ->
       heap s' !! mid = heap s !! mid /\ heap s' !! uid = heap s !! uid) ->
    match slot s' with
    | None => conc_eq s'
    | Some t => exists th, threads s' t = Some th /\ HolderInv s' th
    end ->
    InvC s'.
  Proof.
    intros (C0 & C1 & C2 & C3 & G1 & G2 & G3 & _) Hh Hc Hr Hn Hfresh Hsame Hslot.
    unfold InvC, hist_ok, last_ok. rewrite Hh, Hc, Hr. split_and!; auto.
    intros v st mid uid Hv. destruct (C1 v st mid uid Hv) as (A & B & Lm & Lu).
    destruct (Hsame v st mid uid Hv) as [E1 E2].
    split_and!; [etransitivity; [exact E1|exact A]|etransitivity; [exact E2|exact B]|lia|lia].
  Qed.

  Ltac frame_goal := cbn; first [reflexivity | lia | assumption | (intros; split; reflexivity) | idtac].

  (* steps of threads that do not hold the slot, spawns and timer fires *)
  Lemma InvC_nonholder s s' t th e :
    InvA s -> InvC s -> threads s t = Some th -> holding (t_pc th) = false ->
    step_thread s t th e = Some s' -> InvC s'.
  Proof.
    intros (HA & HB1 & HB2) HC Eth Hnh Hs.
    assert (Hlt : t < next_tid s).
    { destruct (le_lt_dec (next_tid s) t) as [Hle|]; [|assumption]. rewrite HA in Eth by exact Hle. discriminate. }
    pose proof HC as (_ & _ & _ & C3 & _ & _ & _ & Hsl).
    inv_step Hs; cbn in Hnh; try discriminate Hnh.
    all: apply (InvC_intro s); [exact HC|frame_goal..|]; try exact C3.
    all: cbn.
    all: try match goal with E : slot _ = _ |- _ => rewrite E in * end.
    all: try (split; reflexivity).
    all: try exact Hsl.
    all: try (destruct (slot s) as [t0|] eqn:Es; [|exact Hsl]).
    all: try match goal with
      | Hx : (exists th0, threads _ ?t0 = Some th0 /\ HolderInv _ th0) |- _ =>
        destruct Hx as (th0 & Hth0 & Hh0);
        assert (t0 <> t) by
          (intro Heq; destruct (HB2 _ eq_refl) as (thx & Hxx & Hhx); rewrite Heq, Eth in Hxx; inversion Hxx; subst thx;
           match goal with E : t_pc _ = _ |- _ => rewrite E in Hhx end; discriminate Hhx);
        assert (t0 < next_tid s) by
          (destruct (le_lt_dec (next_tid s) t0); [rewrite HA in Hth0 by assumption; discriminate|assumption]);
        exists th0; split; [rewrite ?upd_other by (first [assumption|lia]); exact Hth0|];
        apply (HolderInv_frame s); [reflexivity..|exact Hh0]
      end.
    all: try (eexists; split; [apply upd_same|]; unfold HolderInv; cbn; exact Hsl).
    all: match goal with |- ?G => idtac G end.
  Qed.
End Proofs.
