(* C07 — proofs about the thread-level model model/C07_PCacheConc.v.
   All statements are over [LTS.reachable (stepf need_merge ttl) (ginit auto)]: every
   schedule, any number of goroutines, any merge policy, any time-to-live. *)
From stdpp Require Import gmap.
From Coq Require Import ZArith NArith Lia.
From Lib Require LTS.
From Model Require Import C06_PCache C07_PCacheConc.
From Proofs Require Import C06_PCache.

Lemma upd_same f t th : upd f t th t = Some th.
Proof. unfold upd. rewrite Nat.eqb_refl. reflexivity. Qed.

Lemma upd_other f t th x : x <> t -> upd f t th x = f x.
Proof. intro H. unfold upd. apply Nat.eqb_neq in H. rewrite H. reflexivity. Qed.

Lemma upd_cases f t th x y : upd f t th x = Some y -> (x = t /\ y = th) \/ (x <> t /\ f x = Some y).
Proof.
  unfold upd. destruct (Nat.eqb x t) eqn:E; intro H.
  - apply Nat.eqb_eq in E. inversion H. auto.
  - apply Nat.eqb_neq in E. auto.
Qed.

Local Arguments upd : simpl never.
Local Arguments obj : simpl never.

Section Proofs.
  Variable need_merge : nat -> nat -> bool.
  Variable ttl : Z.
  Variable auto : bool.

  Notation stepf := (stepf need_merge ttl).
  Notation step_thread := (step_thread need_merge ttl).
  Notation reachable := (LTS.reachable stepf (ginit auto)).

  (* inversion of one thread step into its cases *)
  Ltac inv_step H :=
    unfold C07_PCacheConc.step_thread in H;
    repeat match type of H with
           | context [match ?x with _ => _ end] =>
             let E := fresh "E" in destruct x eqn:E; try discriminate H
           | context [if ?x then _ else _] =>
             let E := fresh "E" in destruct x eqn:E; try discriminate H
           end;
    unfold goto in H; inversion H; subst; clear H.

  (* ---------------------------------------------------------------- *)
  (* Layer 1: thread identifiers; who holds the write slot              *)

  Definition InvA (s : gst) : Prop :=
    (forall n, next_tid s <= n -> threads s n = None) /\
    (forall t th, threads s t = Some th -> holding (t_pc th) = true -> slot s = Some t) /\
    (forall t, slot s = Some t -> exists th, threads s t = Some th /\ holding (t_pc th) = true).

  Lemma InvA_init : InvA (ginit auto).
  Proof. split_and!; cbn; intros; try discriminate; reflexivity. Qed.

  Lemma InvA_step s l s' : InvA s -> stepf s l = Some s' -> InvA s'.
  Proof.
    intros (HA & HB1 & HB2) Hs. destruct l as [c after|[]|t e]; cbn in Hs.
    - (* Spawn *)
      destruct c; try discriminate;
        (destruct (match after with Some t0 => _ | None => true end); [|discriminate]);
        inversion Hs; subst; clear Hs; unfold InvA; cbn; (split_and!;
        [ intros n Hn; rewrite upd_other by lia; apply HA; lia
        | intros t th Ht Hh; apply upd_cases in Ht as [[-> ->]|[Hne Ht]]; [discriminate Hh|eauto]
        | intros t Ht; destruct (HB2 t Ht) as (th & Hth & Hh); exists th; split; [|exact Hh];
          rewrite upd_other; [exact Hth|]; intro; subst; rewrite HA in Hth by lia; discriminate ]).
    - destruct (auto_on s && armed s); [|discriminate]. inversion Hs; subst. unfold InvA; cbn. split_and!; assumption.
    - destruct (threads s t) as [th|] eqn:Eth; [|discriminate].
      assert (Hlt : t < next_tid s).
      { destruct (le_lt_dec (next_tid s) t) as [Hle|]; [|assumption]. rewrite HA in Eth by exact Hle. discriminate. }
      inv_step Hs; unfold InvA; cbn in *.
      all: try match goal with |- context [refresh_end ?x _] => unfold refresh_end; destruct (t_call x) eqn:? end.
      all: split_and!.
      (* identifiers *)
      all: try (intros nn Hnn; rewrite ?upd_other by lia; apply HA; lia).
      (* a thread at a holding point owns the slot *)
      all: try (intros tt' thh' Ht' Hh';
        repeat (apply upd_cases in Ht' as [[-> ->]|[? Ht']]); cbn in Hh'; try discriminate Hh';
        try reflexivity;
        first [ apply (HB1 t th Eth); match goal with E : t_pc _ = _ |- _ => rewrite E end; reflexivity
              | pose proof (HB1 _ _ Ht' Hh') as X;
                try (pose proof (HB1 t th Eth ltac:(match goal with E : t_pc _ = _ |- _ => rewrite E end; reflexivity)) as Y);
                congruence ]).
      (* the owner of the slot is at a holding point *)
      all: try (try match goal with E : slot _ = _ |- _ => rewrite E end;
        intros tt' Ht'; try discriminate Ht';
        first [ inversion Ht'; subst tt'; eexists; split; [rewrite ?upd_other by lia; apply upd_same|reflexivity]
              | destruct (HB2 tt' Ht') as (th0 & Hth0 & Hh0);
                destruct (Nat.eq_dec tt' t) as [->|Hne];
                [ rewrite Eth in Hth0; inversion Hth0; subst th0;
                  match goal with E : t_pc _ = _ |- _ => rewrite E in Hh0 end;
                  first [ discriminate Hh0
                        | eexists; split; [rewrite ?upd_other by lia; apply upd_same|reflexivity] ]
                | exists th0; split; [|exact Hh0];
                  assert (tt' < next_tid s) by
                    (destruct (le_lt_dec (next_tid s) tt'); [rewrite HA in Hth0 by assumption; discriminate|assumption]);
                  rewrite ?upd_other by (first [assumption | lia]); exact Hth0 ] ]).
  Qed.

  Lemma InvA_reachable s : reachable s -> InvA s.
  Proof. apply LTS.invariant_reachable; [apply InvA_init|apply InvA_step]. Qed.

  (* every thread is at a point of the function its call runs *)
  Definition is_refresh (th : thread) : bool :=
    match t_call th with CRefresh | CAuto => true | _ => false end.

  Definition pc_call_ok (th : thread) : Prop :=
    match t_pc th with
    | GLoad | GLookupU | GLookupM | GCas _
    | MTake | MStored | MReleaseHit _ | MFetch | MInsert | MCopy | MFill =>
      match t_call th with CGet _ | CGetResults _ => True | _ => False end
    | LLoad | LBuild => t_call th = CList
    | NLoad | NCount => t_call th = CLen
    | RTry | RWait _ | RRecheck _ | RCollect | RReleaseCancelled | RCopy | RFill | TAdd =>
      is_refresh th = true
    | ARearm _ => t_call th = CAuto
    | TDecide | TAllocM | TFillM | TStore _ | TRelease =>
      match t_call th with CList | CLen => False | _ => True end
    | Fin _ => True
    end.

  Definition InvP (s : gst) : Prop := forall t th, threads s t = Some th -> pc_call_ok th.

  Lemma InvP_init : InvP (ginit auto).
  Proof. intros t th H. discriminate H. Qed.

  Lemma InvP_step s l s' : InvP s -> stepf s l = Some s' -> InvP s'.
  Proof.
    intros HP Hs. destruct l as [c after|[]|t e]; cbn in Hs.
    - destruct c; try discriminate;
        (destruct (match after with Some t0 => _ | None => true end); [|discriminate]);
        inversion Hs; subst; clear Hs; intros t th Ht; cbn in Ht;
        apply upd_cases in Ht as [[-> ->]|[? Ht]]; eauto; cbn; auto.
    - destruct (auto_on s && armed s); [|discriminate]. inversion Hs; subst. exact HP.
    - destruct (threads s t) as [th|] eqn:Eth; [|discriminate].
      pose proof (HP t th Eth) as Hok. unfold pc_call_ok in Hok.
      inv_step Hs; intros t' th' Ht'; cbn in Ht';
        repeat (apply upd_cases in Ht' as [[-> ->]|[? Ht']]); eauto;
        unfold pc_call_ok, refresh_end, is_refresh in *; cbn in *;
        destruct (t_call th); cbn in *; try tauto; try discriminate; auto.
  Qed.

  Lemma InvP_reachable s : reachable s -> InvP s.
  Proof. apply LTS.invariant_reachable; [apply InvP_init|apply InvP_step]. Qed.

  (* ---------------------------------------------------------------- *)
  (* Layer 2: the heap, the history of Stores, and the refinement of the writer's
     private steps to the sequential model                                     *)

  Notation finish := (C06_PCache.finish need_merge).
  Notation refresh := (C06_PCache.refresh true need_merge ttl).
  Notation fetch_missing := (C06_PCache.fetch_missing need_merge ttl).
  Notation settle := (C06_PCache.settle true ttl).
  Notation upd_of := (C06_PCache.upd_of true).
  Notation miss_entry := (C06_PCache.miss_entry ttl).

  (* what readers see can only move forward in time *)
  Definition vmono (a b : state) : Prop :=
    forall pid r r', visible a pid = Some r -> visible b pid = Some r' -> (eff_time r <= eff_time r')%Z.

  Definition hist_ok (s : gst) : Prop :=
    forall v st mid uid, hist s !! v = Some (st, mid, uid) ->
      heap s !! mid = Some (st_rm st) /\ heap s !! uid = Some (st_ru st) /\
      mid < next_id s /\ uid < next_id s.

  (* a map object no pointer value ever stored refers to *)
  Definition priv (s : gst) (id : nat) : Prop :=
    id < next_id s /\
    forall v st mid uid, hist s !! v = Some (st, mid, uid) -> id <> mid /\ id <> uid.

  Definition last_ok (s : gst) : Prop :=
    exists h0 st, hist s = h0 ++ [(st, (readp s).1, (readp s).2)] /\
      st_rm st = st_rm (cur s) /\ st_ru st = st_ru (cur s).

  Definition conc_eq (s : gst) : Prop :=
    pc_seq s = st_seq (cur s) /\ pc_write s = st_write (cur s).

  Definition walked (c : state) (th : thread) :=
    walk (st_seq c + 1) (l_outs th) (st_write c) 0.

  Definition miss_path (c : state) (pid : N) : Prop :=
    match st_write c !! pid, view c pid with Some _, Some _ => False | _, _ => True end.

  (* what the writer is going to hand to [finish]: pc.seq, pc.write, the update map *)
  Definition plan (th : thread) (c : state) : N * gmap N entry * mapobj :=
    if is_refresh th then
      let seq' := (st_seq c + 1)%N in
      let w1 := (walked c th).1.1 in
      (seq', omap (settle (l_now th) seq') w1, merge (upd_of (l_now th) seq') w1 (st_ru c))
    else
      let e := miss_entry c (l_now th) (l_fouts th) in
      (st_seq c, <[call_pid (t_call th) := e]> (st_write c), <[call_pid (t_call th) := e_prov e]> (st_ru c)).

  Definition path_ok (th : thread) (c : state) : Prop :=
    if is_refresh th then (walked c th).1.2 = false /\ Forall wf_src (l_outs th)
    else miss_path c (call_pid (t_call th)) /\ Forall wf_fetch (l_fouts th).

  Definition tail_inv (s : gst) (th : thread) : Prop :=
    path_ok th (cur s) /\
    pc_seq s = (plan th (cur s)).1.1 /\ pc_write s = (plan th (cur s)).1.2 /\
    heap s !! l_upd th = Some (plan th (cur s)).2 /\
    l_mid th = (readp s).1 /\ priv s (l_upd th).

  Definition wants_merge (th : thread) (c : state) : bool :=
    need_merge (size (plan th c).2) (size (st_rm c)).

  Definition HolderInv (s : gst) (th : thread) : Prop :=
    let c := cur s in
    let pid := call_pid (t_call th) in
    match t_pc th with
    | RRecheck _ | RCollect | MStored | TAdd | TRelease => conc_eq s
    | MReleaseHit v => conc_eq s /\ view c pid = Some v
    | MFetch => conc_eq s /\ miss_path c pid
    | MInsert => conc_eq s /\ miss_path c pid /\ Forall wf_fetch (l_fouts th)
    | RReleaseCancelled =>
      Forall wf_src (l_outs th) /\ pc_seq s = (st_seq c + 1)%N /\
      pc_write s = (walked c th).1.1 /\ (walked c th).1.2 = true
    | RCopy =>
      Forall wf_src (l_outs th) /\ pc_seq s = (st_seq c + 1)%N /\
      pc_write s = (walked c th).1.1 /\ (walked c th).1.2 = false
    | RFill =>
      Forall wf_src (l_outs th) /\ pc_seq s = (st_seq c + 1)%N /\
      pc_write s = (walked c th).1.1 /\ (walked c th).1.2 = false /\
      heap s !! l_upd th = Some (st_ru c) /\ l_mid th = (readp s).1 /\ priv s (l_upd th)
    | MCopy =>
      path_ok th c /\ pc_seq s = (plan th c).1.1 /\ pc_write s = (plan th c).1.2
    | MFill =>
      path_ok th c /\ pc_seq s = (plan th c).1.1 /\ pc_write s = (plan th c).1.2 /\
      heap s !! l_upd th = Some (st_ru c) /\ l_mid th = (readp s).1 /\ priv s (l_upd th)
    | TDecide => tail_inv s th
    | TAllocM => tail_inv s th /\ wants_merge th c = true
    | TFillM => tail_inv s th /\ wants_merge th c = true /\ priv s (l_m th) /\ l_m th <> l_upd th
    | TStore true =>
      tail_inv s th /\ wants_merge th c = true /\ priv s (l_m th) /\ l_m th <> l_upd th /\
      heap s !! l_m th = Some (merged (plan th c).1.2 (plan th c).2 (st_rm c))
    | TStore false => tail_inv s th /\ wants_merge th c = false
    | _ => True
    end.

  Definition InvC (s : gst) : Prop :=
    hist s !! 0 = Some (init, 0, 0) /\
    hist_ok s /\ last_ok s /\
    (forall id, next_id s <= id -> heap s !! id = None) /\
    Inv (cur s) /\ Inv2 (cur s) /\
    (forall i a b, hist s !! i = Some a -> hist s !! (S i) = Some b -> vmono a.1.1 b.1.1) /\
    match slot s with
    | None => conc_eq s
    | Some t => exists th, threads s t = Some th /\ HolderInv s th
    end.

  Lemma InvC_init : InvC (ginit auto).
  Proof.
    unfold InvC; cbn. split_and!.
    - reflexivity.
    - intros v st mid uid H. destruct v; cbn in H; [|discriminate]. inversion H; subst. cbn.
      rewrite lookup_singleton. split_and!; auto.
    - exists [], init. cbn. auto.
    - intros id Hid. apply lookup_singleton_ne. lia.
    - apply Inv_init.
    - apply Inv2_init.
    - intros i a b Ha Hb. destruct i; discriminate.
    - split; reflexivity.
  Qed.

  (* the objects the current pointer refers to hold the current sequential snapshot *)
  Lemma cur_objects s : hist_ok s -> last_ok s ->
    heap s !! (readp s).1 = Some (st_rm (cur s)) /\ heap s !! (readp s).2 = Some (st_ru (cur s)).
  Proof.
    intros Hh (h0 & st & Hl & Hm & Hu).
    destruct (Hh (length h0) st (readp s).1 (readp s).2) as (A & B & _).
    { rewrite Hl. rewrite lookup_app_r by lia. replace (length h0 - length h0) with 0 by lia. reflexivity. }
    rewrite <- Hm, <- Hu. auto.
  Qed.

  Lemma obj_some h id x : h !! id = Some x -> obj h id = x.
  Proof. unfold obj. intros ->. reflexivity. Qed.

  Lemma refresh_walked c now outs :
    (refresh now outs c).1 =
    let w := walk (st_seq c + 1) outs (st_write c) 0 in
    if w.1.2 then State (st_seq c + 1) w.1.1 (st_rm c) (st_ru c)
    else finish (st_seq c + 1) (omap (settle now (st_seq c + 1)) w.1.1)
                (merge (upd_of now (st_seq c + 1)) w.1.1 (st_ru c)) (st_rm c).
  Proof.
    unfold C06_PCache.refresh. destruct (walk (st_seq c + 1) outs (st_write c) 0) as [[w1 b] n].
    destruct b; reflexivity.
  Qed.

  Lemma seq_apply_plan th c :
    path_ok th c ->
    seq_apply need_merge ttl th c = finish (plan th c).1.1 (plan th c).1.2 (plan th c).2 (st_rm c).
  Proof.
    unfold path_ok, plan, seq_apply, is_refresh, walked.
    destruct (t_call th); intros [H1 H2]; cbn [fst snd].
    3,4: (unfold C06_PCache.fetch_missing, miss_path in *;
          destruct (st_write c !! _); [destruct (view c _); [contradiction|]|]; reflexivity).
    1,2: (unfold C06_PCache.fetch_missing, miss_path in *;
          destruct (st_write c !! _); [destruct (view c _); [contradiction|]|]; reflexivity).
    all: rewrite refresh_walked; cbn zeta; rewrite H1; reflexivity.
  Qed.

  Lemma seq_apply_cancelled th c :
    is_refresh th = true -> (walked c th).1.2 = true ->
    seq_apply need_merge ttl th c = State (st_seq c + 1) (walked c th).1.1 (st_rm c) (st_ru c).
  Proof.
    unfold is_refresh, seq_apply, walked. destruct (t_call th); try discriminate; intros _ H;
      rewrite refresh_walked; cbn zeta; rewrite H; reflexivity.
  Qed.

  Lemma finish_fields seq' w u rm :
    st_seq (finish seq' w u rm) = seq' /\ st_write (finish seq' w u rm) = w /\
    (need_merge (size u) (size rm) = false -> st_rm (finish seq' w u rm) = rm /\ st_ru (finish seq' w u rm) = u) /\
    (need_merge (size u) (size rm) = true -> st_rm (finish seq' w u rm) = merged w u rm /\ st_ru (finish seq' w u rm) = ∅).
  Proof. unfold C06_PCache.finish. destruct (need_merge _ _); split_and!; auto; discriminate. Qed.

  (* HolderInv only looks at these fields of the global state *)
  Lemma HolderInv_frame s s' th :
    cur s' = cur s -> heap s' = heap s -> hist s' = hist s -> readp s' = readp s ->
    pc_seq s' = pc_seq s -> pc_write s' = pc_write s -> next_id s' = next_id s ->
    HolderInv s th -> HolderInv s' th.
  Proof.
    intros Hc Hh Hi Hr Hq Hw Hn.
    unfold HolderInv, tail_inv, conc_eq, priv. rewrite Hc, Hh, Hi, Hr, Hq, Hw, Hn. auto.
  Qed.

  Lemma InvC_intro s s' :
    InvC s ->
    hist s' = hist s -> cur s' = cur s -> readp s' = readp s ->
    next_id s <= next_id s' ->
    (forall id, next_id s' <= id -> heap s' !! id = None) ->
    (forall v st mid uid, hist s !! v = Some (st, mid, uid) ->
       heap s' !! mid = heap s !! mid /\ heap s' !! uid = heap s !! uid) ->
    match slot s' with
    | None => conc_eq s'
    | Some t => exists th, threads s' t = Some th /\ HolderInv s' th
    end ->
    InvC s'.
  Proof.
    intros (C0 & C1 & C2 & C3 & G1 & G2 & G3 & _) Hh Hc Hr Hn Hfresh Hsame Hslot.
    unfold InvC, hist_ok, last_ok. rewrite Hh, Hc, Hr. split_and!; auto.
    intros v st mid uid Hv. destruct (C1 v st mid uid Hv) as (A & B & Lm & Lu).
    destruct (Hsame v st mid uid Hv) as [E1 E2].
    split_and!; [etransitivity; [exact E1|exact A]|etransitivity; [exact E2|exact B]|lia|lia].
  Qed.

  Ltac frame_goal := cbn; first [reflexivity | lia | assumption | (intros; split; reflexivity) | idtac].

  (* steps of threads that do not hold the slot, spawns and timer fires *)
  Lemma InvC_nonholder s s' t th e :
    InvA s -> InvC s -> threads s t = Some th -> holding (t_pc th) = false ->
    step_thread s t th e = Some s' -> InvC s'.
  Proof.
    intros (HA & HB1 & HB2) HC Eth Hnh Hs.
    assert (Hlt : t < next_tid s).
    { destruct (le_lt_dec (next_tid s) t) as [Hle|]; [|assumption]. rewrite HA in Eth by exact Hle. discriminate. }
    pose proof HC as (_ & _ & _ & C3 & _ & _ & _ & Hsl).
    inv_step Hs; cbn in Hnh; try discriminate Hnh.
    all: apply (InvC_intro s); [exact HC|frame_goal..|]; try exact C3.
    all: cbn.
    all: try match goal with E : slot _ = _ |- _ => rewrite E in * end.
    all: try (split; reflexivity).
    all: try exact Hsl.
    all: try (destruct (slot s) as [t0|] eqn:Es; [|exact Hsl]).
    all: try match goal with
      | Hx : ex _ |- _ =>
        destruct Hx as (th0 & Hth0 & Hh0);
        match type of Hth0 with threads _ ?t0 = _ =>
        assert (t0 <> t) by
          (intro Heq; destruct (HB2 _ eq_refl) as (thx & Hxx & Hhx); rewrite Heq, Eth in Hxx; inversion Hxx; subst thx;
           match goal with E : t_pc _ = _ |- _ => rewrite E in Hhx end; discriminate Hhx);
        assert (t0 < next_tid s) by
          (destruct (le_lt_dec (next_tid s) t0); [rewrite HA in Hth0 by assumption; discriminate|assumption]);
        exists th0; split; [rewrite ?upd_other by (first [assumption|lia]); exact Hth0|];
        apply (HolderInv_frame s); [reflexivity..|exact Hh0]
        end
      end.
    all: try (eexists; split; [apply upd_same|]; unfold HolderInv; cbn; exact Hsl).
  Qed.

  Lemma wf_recb_spec r : wf_recb r = true -> wf_rec r.
  Proof. unfold wf_recb, wf_rec. destruct (r_time r); [apply Z.ltb_lt|auto]. Qed.

  Lemma forallb_wf_src outs : forallb wf_srcb outs = true -> Forall wf_src outs.
  Proof.
    induction outs as [|o outs IH]; cbn; [constructor|]. intro H. apply andb_prop in H as [Ho Hr].
    constructor; [|apply IH, Hr]. destruct o as [l| |]; cbn in *; auto.
    induction l as [|pr l IHl]; cbn in *; [constructor|]. apply andb_prop in Ho as [H1 H2].
    constructor; [apply wf_recb_spec, H1|apply IHl, H2].
  Qed.

  Lemma forallb_wf_fetch outs : forallb wf_fetchb outs = true -> Forall wf_fetch outs.
  Proof.
    induction outs as [|o outs IH]; cbn; [constructor|]. intro H. apply andb_prop in H as [Ho Hr].
    constructor; [|apply IH, Hr]. destruct o as [r| |]; cbn in *; auto. apply wf_recb_spec, Ho.
  Qed.

  Lemma miss_entry_seq a b now outs : st_seq a = st_seq b -> miss_entry a now outs = miss_entry b now outs.
  Proof. intro H. unfold C06_PCache.miss_entry. rewrite H. reflexivity. Qed.

  (* common preamble of the holder lemmas *)
  Lemma holder_facts s t th :
    InvA s -> InvC s -> threads s t = Some th -> holding (t_pc th) = true ->
    slot s = Some t /\ HolderInv s th /\
    heap s !! (readp s).1 = Some (st_rm (cur s)) /\ heap s !! (readp s).2 = Some (st_ru (cur s)).
  Proof.
    intros (HA & HB1 & HB2) (C0 & C1 & C2 & C3 & G1 & G2 & G3 & Hsl) Eth Hh.
    pose proof (HB1 t th Eth Hh) as Hslot. rewrite Hslot in Hsl.
    destruct Hsl as (th0 & Hth0 & Hh0). rewrite Eth in Hth0. inversion Hth0; subst th0.
    destruct (cur_objects s C1 C2). auto.
  Qed.

  (* a holder step that leaves the published world alone: only its private objects,
     pc.write, pc.seq and its own thread record change *)
  Lemma InvC_private_step s s' t th' x :
    InvC s -> slot s' = Some t -> threads s' t = Some th' ->
    hist s' = hist s -> cur s' = cur s -> readp s' = readp s ->
    next_id s <= next_id s' ->
    (forall id, next_id s' <= id -> heap s' !! id = None) ->
    (priv s x \/ next_id s <= x) ->
    (forall id, id <> x -> heap s' !! id = heap s !! id) ->
    HolderInv s' th' -> InvC s'.
  Proof.
    intros HC Hsl Hth Hh Hc Hr Hn Hfresh Hx Hch Hinv.
    pose proof HC as (_ & C1 & _).
    apply (InvC_intro s); auto.
    - intros v st mid uid Hv. destruct (C1 v st mid uid Hv) as (_ & _ & Lm & Lu).
      assert (mid <> x /\ uid <> x) as [N1 N2].
      { destruct Hx as [[_ Hp]|Hge]; [destruct (Hp v st mid uid Hv); split; congruence|split; lia]. }
      split; apply Hch; assumption.
    - rewrite Hsl. eauto.
  Qed.

  Ltac holder_pre s t th :=
    intros HAA HP HC Eth Hpc Hs;
    destruct (holder_facts s t th HAA HC Eth ltac:(rewrite Hpc; reflexivity)) as (Hslot & HI & Hrm & Hru);
    pose proof (HP t th Eth) as Hcall; unfold pc_call_ok in Hcall; rewrite Hpc in Hcall;
    unfold HolderInv in HI; rewrite Hpc in HI; cbn zeta in HI;
    unfold C07_PCacheConc.step_thread in Hs; cbn zeta in Hs; rewrite Hpc in Hs.

  (* the step keeps the heap and the slot: only the holder's record, pc.write, pc.seq move *)
  Ltac keep_heap s t :=
    eapply (InvC_private_step s _ t _ (next_id s));
    [ eassumption | cbn; try eassumption; try reflexivity | cbn; apply upd_same
    | reflexivity | reflexivity | reflexivity | cbn; lia
    | cbn; match goal with HC : InvC _ |- _ => apply HC end
    | right; lia | intros; reflexivity | ].

  (* the step releases the slot *)
  Ltac release_slot s :=
    apply (InvC_intro s);
    [ eassumption | reflexivity | reflexivity | reflexivity | cbn; lia
    | cbn; match goal with HC : InvC _ |- _ => apply HC end
    | intros; split; reflexivity | cbn ].

  Lemma step_RRecheck s s' t th e c :
    InvA s -> InvP s -> InvC s -> threads s t = Some th -> t_pc th = RRecheck c ->
    step_thread s t th e = Some s' -> InvC s'.
  Proof.
    holder_pre s t th. destruct e; try discriminate Hs.
    destruct (Nat.eqb (refreshes s) c); unfold goto in Hs; inversion Hs; subst; clear Hs.
    - keep_heap s t. unfold HolderInv; cbn. exact HI.
    - release_slot s. exact HI.
  Qed.

  Lemma step_RCollect s s' t th e :
    InvA s -> InvP s -> InvC s -> threads s t = Some th -> t_pc th = RCollect ->
    step_thread s t th e = Some s' -> InvC s'.
  Proof.
    holder_pre s t th. destruct e; try discriminate Hs.
    destruct (forallb wf_srcb outs) eqn:Ewf; [|discriminate Hs].
    apply forallb_wf_src in Ewf. destruct HI as [Hq Hw].
    inversion Hs; subst; clear Hs.
    keep_heap s t.
    unfold HolderInv, walked; cbn. rewrite <- Hq, <- Hw.
    destruct ((walk (pc_seq s + 1) outs (pc_write s) 0).1.2) eqn:Eb; cbn; rewrite ?Eb; split_and!; auto.
  Qed.

  Lemma step_MStored s s' t th e :
    InvA s -> InvP s -> InvC s -> threads s t = Some th -> t_pc th = MStored ->
    step_thread s t th e = Some s' -> InvC s'.
  Proof.
    holder_pre s t th. destruct e; try discriminate Hs.
    destruct HI as [Hq Hw].
    rewrite (obj_some _ _ _ Hrm), (obj_some _ _ _ Hru) in Hs.
    match type of Hs with
    | match ?x with Some _ => match ?y with Some _ => _ | None => _ end | None => _ end = _ =>
      destruct x eqn:Ew; [destruct y eqn:Ev|]
    end; unfold goto in Hs; inversion Hs; subst; clear Hs; keep_heap s t;
      unfold HolderInv, conc_eq, miss_path; cbn; rewrite <- ?Hw, ?Ew; auto.
    all: try (split; [auto|]; exact Ev).
    all: try (split; [split; auto|]).
    all: try (assert (Hv0 : view (cur s) (call_pid (t_call th)) = None) by exact Ev; rewrite Hv0; exact I).
  Qed.

  Lemma step_MReleaseHit s s' t th e v :
    InvA s -> InvP s -> InvC s -> threads s t = Some th -> t_pc th = MReleaseHit v ->
    step_thread s t th e = Some s' -> InvC s'.
  Proof.
    holder_pre s t th. destruct e; try discriminate Hs. inversion Hs; subst; clear Hs.
    release_slot s. apply HI.
  Qed.

  Lemma step_MFetch s s' t th e :
    InvA s -> InvP s -> InvC s -> threads s t = Some th -> t_pc th = MFetch ->
    step_thread s t th e = Some s' -> InvC s'.
  Proof.
    holder_pre s t th. destruct e; try discriminate Hs.
    - destruct (forallb wf_fetchb outs) eqn:Ewf; [|discriminate Hs].
      apply forallb_wf_fetch in Ewf. inversion Hs; subst; clear Hs.
      keep_heap s t. unfold HolderInv; cbn. destruct HI. auto.
    - unfold goto in Hs. inversion Hs; subst; clear Hs. release_slot s. apply HI.
  Qed.

  Lemma is_refresh_get th :
    match t_call th with CGet _ | CGetResults _ => True | _ => False end -> is_refresh th = false.
  Proof. unfold is_refresh. destruct (t_call th); tauto. Qed.

  Lemma step_MInsert s s' t th e :
    InvA s -> InvP s -> InvC s -> threads s t = Some th -> t_pc th = MInsert ->
    step_thread s t th e = Some s' -> InvC s'.
  Proof.
    holder_pre s t th. destruct e; try discriminate Hs. inversion Hs; subst; clear Hs.
    destruct HI as ([Hq Hw] & Hmp & Hwf). apply is_refresh_get in Hcall.
    keep_heap s t.
    unfold HolderInv, path_ok, plan, is_refresh in *; cbn. rewrite Hcall. cbn.
    split_and!; auto.
    rewrite Hw. f_equal. apply miss_entry_seq. exact Hq.
  Qed.

  Lemma step_TAdd s s' t th e :
    InvA s -> InvP s -> InvC s -> threads s t = Some th -> t_pc th = TAdd ->
    step_thread s t th e = Some s' -> InvC s'.
  Proof.
    holder_pre s t th. destruct e; try discriminate Hs. unfold goto in Hs. inversion Hs; subst; clear Hs.
    keep_heap s t. unfold HolderInv; cbn. exact HI.
  Qed.

  Lemma step_TRelease s s' t th e :
    InvA s -> InvP s -> InvC s -> threads s t = Some th -> t_pc th = TRelease ->
    step_thread s t th e = Some s' -> InvC s'.
  Proof.
    holder_pre s t th. destruct e; try discriminate Hs. unfold goto in Hs. inversion Hs; subst; clear Hs.
    release_slot s. exact HI.
  Qed.

  Lemma hist_ids_lt s v st mid uid :
    InvC s -> hist s !! v = Some (st, mid, uid) -> mid < next_id s /\ uid < next_id s.
  Proof. intros (_ & C1 & _) Hv. destruct (C1 v st mid uid Hv) as (_ & _ & A & B). auto. Qed.

  Lemma priv_fresh s : InvC s ->
    S (next_id s) > next_id s /\
    forall v st mid uid, hist s !! v = Some (st, mid, uid) -> next_id s <> mid /\ next_id s <> uid.
  Proof.
    intro HC. split; [lia|]. intros v st mid uid Hv.
    destruct (hist_ids_lt s v st mid uid HC Hv). lia.
  Qed.

  (* allocation of a fresh object by the holder *)
  Ltac alloc_step s t :=
    eapply (InvC_private_step s _ t _ (next_id s));
    [ eassumption | cbn; try eassumption; try reflexivity | cbn; apply upd_same
    | reflexivity | reflexivity | reflexivity | cbn; lia
    | cbn; intros id Hid; rewrite lookup_insert_ne by lia;
      match goal with HC : InvC _ |- _ => apply HC end; lia
    | right; lia
    | cbn; intros id Hid; rewrite lookup_insert_ne by congruence; reflexivity | ].

  (* mutation of a private object by the holder *)
  Ltac mutate_step s t x Hpriv :=
    eapply (InvC_private_step s _ t _ x);
    [ eassumption | cbn; try eassumption; try reflexivity | cbn; apply upd_same
    | reflexivity | reflexivity | reflexivity | cbn; lia
    | cbn; intros id Hid; rewrite lookup_insert_ne by (destruct Hpriv; lia);
      match goal with HC : InvC _ |- _ => apply HC end; lia
    | left; exact Hpriv
    | cbn; intros id Hid; rewrite lookup_insert_ne by congruence; reflexivity | ].

  Lemma step_RCopy s s' t th e :
    InvA s -> InvP s -> InvC s -> threads s t = Some th -> t_pc th = RCopy ->
    step_thread s t th e = Some s' -> InvC s'.
  Proof.
    holder_pre s t th. destruct e; try discriminate Hs. inversion Hs; subst; clear Hs.
    destruct HI as (Hwf & Hq & Hw & Hb). destruct (priv_fresh s HC) as [P1 P2].
    alloc_step s t.
    unfold HolderInv, walked, priv in *; cbn. rewrite lookup_insert, (obj_some _ _ _ Hru).
    split_and!; auto.
  Qed.

  Lemma step_MCopy s s' t th e :
    InvA s -> InvP s -> InvC s -> threads s t = Some th -> t_pc th = MCopy ->
    step_thread s t th e = Some s' -> InvC s'.
  Proof.
    holder_pre s t th. destruct e; try discriminate Hs. inversion Hs; subst; clear Hs.
    destruct HI as (Hpath & Hq & Hw). destruct (priv_fresh s HC) as [P1 P2].
    alloc_step s t.
    unfold HolderInv, path_ok, plan, walked, is_refresh, priv in *; cbn. rewrite lookup_insert, (obj_some _ _ _ Hru).
    split_and!; auto.
  Qed.

  Lemma step_RFill s s' t th e :
    InvA s -> InvP s -> InvC s -> threads s t = Some th -> t_pc th = RFill ->
    step_thread s t th e = Some s' -> InvC s'.
  Proof.
    holder_pre s t th. destruct e; try discriminate Hs. inversion Hs; subst; clear Hs.
    destruct HI as (Hwf & Hq & Hw & Hb & Hu & Hm & Hpriv).
    mutate_step s t (l_upd th) Hpriv.
    unfold HolderInv, tail_inv, path_ok, plan, walked, priv, is_refresh in *; cbn.
    rewrite lookup_insert, (obj_some _ _ _ Hu), Hq, Hw.
    destruct (t_call th); try discriminate Hcall; cbn; split_and!; auto; apply Hpriv.
  Qed.

  Lemma step_MFill s s' t th e :
    InvA s -> InvP s -> InvC s -> threads s t = Some th -> t_pc th = MFill ->
    step_thread s t th e = Some s' -> InvC s'.
  Proof.
    holder_pre s t th. destruct e; try discriminate Hs. unfold goto in Hs. inversion Hs; subst; clear Hs.
    destruct HI as (Hpath & Hq & Hw & Hu & Hm & Hpriv). apply is_refresh_get in Hcall.
    mutate_step s t (l_upd th) Hpriv.
    unfold HolderInv, tail_inv, path_ok, plan, walked, priv, is_refresh in *; cbn.
    rewrite lookup_insert, (obj_some _ _ _ Hu).
    destruct (t_call th); try discriminate Hcall; cbn in *;
      rewrite (miss_entry_seq (State (pc_seq s) (pc_write s) ∅ ∅) (cur s) _ _ Hq);
      split_and!; auto; first [apply Hpath | apply Hpriv].
  Qed.

  Lemma plan_set_pc th p c : plan (set_pc th p) c = plan th c.
  Proof. reflexivity. Qed.
  Lemma path_ok_set_pc th p c : path_ok (set_pc th p) c = path_ok th c.
  Proof. reflexivity. Qed.

  Lemma tail_inv_set_pc s th p : tail_inv s th -> tail_inv s (set_pc th p).
  Proof. exact (fun H => H). Qed.

  Lemma step_TDecide s s' t th e :
    InvA s -> InvP s -> InvC s -> threads s t = Some th -> t_pc th = TDecide ->
    step_thread s t th e = Some s' -> InvC s'.
  Proof.
    holder_pre s t th. destruct e; try discriminate Hs.
    pose proof HI as (Hpath & Hq & Hw & Hu & Hm & Hpriv).
    rewrite (obj_some _ _ _ Hu) in Hs. rewrite Hm, (obj_some _ _ _ Hrm) in Hs.
    match type of Hs with (if ?c then _ else _) = _ => destruct c eqn:Enm end;
      unfold goto in Hs; inversion Hs; subst; clear Hs; keep_heap s t;
      unfold HolderInv; cbn; (split; [exact HI|exact Enm]).
  Qed.

  Lemma step_TAllocM s s' t th e :
    InvA s -> InvP s -> InvC s -> threads s t = Some th -> t_pc th = TAllocM ->
    step_thread s t th e = Some s' -> InvC s'.
  Proof.
    holder_pre s t th. destruct e; try discriminate Hs. inversion Hs; subst; clear Hs.
    destruct HI as ((Hpath & Hq & Hw & Hu & Hm & Hpriv) & Hwm). destruct (priv_fresh s HC) as [P1 P2].
    alloc_step s t.
    unfold HolderInv, tail_inv, priv in *; cbn.
    change (plan _ (cur s)) with (plan th (cur s)). change (path_ok _ (cur s)) with (path_ok th (cur s)).
    change (wants_merge _ (cur s)) with (wants_merge th (cur s)).
    rewrite lookup_insert_ne by (destruct Hpriv; lia).
    destruct Hpriv as [Hlt Hp]. split_and!; auto; lia.
  Qed.

  Lemma step_TFillM s s' t th e :
    InvA s -> InvP s -> InvC s -> threads s t = Some th -> t_pc th = TFillM ->
    step_thread s t th e = Some s' -> InvC s'.
  Proof.
    holder_pre s t th. destruct e; try discriminate Hs. unfold goto in Hs. inversion Hs; subst; clear Hs.
    destruct HI as ((Hpath & Hq & Hw & Hu & Hm & Hpriv) & Hwm & Hprivm & Hne).
    mutate_step s t (l_m th) Hprivm.
    unfold HolderInv, tail_inv, priv in *; cbn.
    change (plan _ (cur s)) with (plan th (cur s)). change (path_ok _ (cur s)) with (path_ok th (cur s)).
    change (wants_merge _ (cur s)) with (wants_merge th (cur s)).
    rewrite lookup_insert, lookup_insert_ne by congruence.
    rewrite (obj_some _ _ _ Hu), Hm, (obj_some _ _ _ Hrm), Hw.
    split_and!; auto; first [apply Hpriv | apply Hprivm].
  Qed.

  Lemma seq_apply_sound th c :
    Inv c -> Inv2 c ->
    (if is_refresh th then Forall wf_src (l_outs th) else Forall wf_fetch (l_fouts th)) ->
    Inv (seq_apply need_merge ttl th c) /\ Inv2 (seq_apply need_merge ttl th c) /\
    vmono c (seq_apply need_merge ttl th c).
  Proof.
    intros HI H2 Hwf. unfold seq_apply, is_refresh in *.
    destruct (t_call th); cbn [call_pid].
    1-4: (split_and!; [apply Inv_fetch_missing; assumption
                      |eapply (fetch_missing_visible_monotone need_merge ttl c); assumption
                      |intros q r r'; eapply (fetch_missing_visible_monotone need_merge ttl c); assumption]).
    all: (split_and!; [apply Inv_refresh; assumption
                      |eapply (refresh_visible_monotone need_merge ttl c); assumption
                      |intros q r r'; eapply (refresh_visible_monotone need_merge ttl c); assumption]).
  Qed.

  Lemma vmono_same_view a a' b :
    st_rm a = st_rm a' -> st_ru a = st_ru a' -> vmono a' b -> vmono a b.
  Proof.
    intros Hm Hu H pid r r' Hv. apply H. unfold visible, view in *. rewrite <- Hm, <- Hu. exact Hv.
  Qed.

  Lemma step_RReleaseCancelled s s' t th e :
    InvA s -> InvP s -> InvC s -> threads s t = Some th -> t_pc th = RReleaseCancelled ->
    step_thread s t th e = Some s' -> InvC s'.
  Proof.
    holder_pre s t th. destruct e; try discriminate Hs. unfold goto in Hs. inversion Hs; subst; clear Hs.
    destruct HI as (Hwf & Hq & Hw & Hb).
    pose proof HC as (C0 & C1 & C2 & C3 & G1 & G2 & G3 & _).
    assert (Hwfs : if is_refresh th then Forall wf_src (l_outs th) else Forall wf_fetch (l_fouts th)) by (rewrite Hcall; exact Hwf).
    destruct (seq_apply_sound th (cur s) G1 G2 Hwfs) as (I1 & I2 & _).
    pose proof (seq_apply_cancelled th (cur s) Hcall Hb) as Hsa.
    unfold InvC, hist_ok, last_ok, conc_eq; cbn. rewrite Hsa. cbn.
    split_and!; auto.
    - rewrite <- Hsa. exact I1.
    - rewrite <- Hsa. exact I2.
  Qed.

  Lemma step_TStore s s' t th e b :
    InvA s -> InvP s -> InvC s -> threads s t = Some th -> t_pc th = TStore b ->
    step_thread s t th e = Some s' -> InvC s'.
  Proof.
    holder_pre s t th. destruct e; try discriminate Hs. inversion Hs; subst; clear Hs.
    pose proof HC as (C0 & C1 & C2 & C3 & G1 & G2 & G3 & _).
    assert (Htail : tail_inv s th) by (destruct b; apply HI).
    destruct Htail as (Hpath & Hq & Hw & Hu & Hm & Hpriv).
    assert (Hwfs : if is_refresh th then Forall wf_src (l_outs th) else Forall wf_fetch (l_fouts th)).
    { unfold path_ok in Hpath. destruct (is_refresh th); apply Hpath. }
    destruct (seq_apply_sound th (cur s) G1 G2 Hwfs) as (I1 & I2 & I3).
    pose proof (seq_apply_plan th (cur s) Hpath) as Hsa.
    set (c' := seq_apply need_merge ttl th (cur s)) in *.
    destruct (finish_fields (plan th (cur s)).1.1 (plan th (cur s)).1.2 (plan th (cur s)).2 (st_rm (cur s)))
      as (Fq & Fw & Fnm & Fm). rewrite <- Hsa in Fq, Fw, Fnm, Fm.
    destruct (C1 0 init 0 0 C0) as (H00 & _ & L0 & _).
    assert (Hlen : 0 < length (hist s)) by (apply lookup_lt_Some in C0; exact C0).
    (* the objects the new pointer refers to hold the new sequential snapshot *)
    assert (Hnew : let p := if b then (l_m th, 0) else (l_mid th, l_upd th) in
                   heap s !! p.1 = Some (st_rm c') /\ heap s !! p.2 = Some (st_ru c') /\
                   p.1 < next_id s /\ p.2 < next_id s).
    { destruct b; cbn.
      - destruct HI as (_ & Hwm & Hprivm & Hne & Hhm). destruct (Fm Hwm) as [-> ->].
        split_and!; [exact Hhm|exact H00|apply Hprivm|exact L0].
      - destruct HI as (_ & Hwm). destruct (Fnm Hwm) as [-> ->].
        rewrite Hm. split_and!; [exact Hrm|exact Hu| |apply Hpriv].
        destruct C2 as (h0 & st & Hl & _). destruct (C1 (length h0) st (readp s).1 (readp s).2) as (_ & _ & A & _); [|exact A].
        rewrite Hl, lookup_app_r by lia. replace (length h0 - length h0) with 0 by lia. reflexivity. }
    cbn zeta in Hnew. destruct Hnew as (N1 & N2 & N3 & N4).
    unfold InvC; cbn. fold c'.
    split_and!.
    - rewrite lookup_app_l by exact Hlen. exact C0.
    - intros v st mid uid Hv. apply lookup_app_Some in Hv as [Hv|[Hge Hv]].
      + exact (C1 v st mid uid Hv).
      + destruct (v - length (hist s)) eqn:Ev; cbn in Hv; [|discriminate]. inversion Hv; subst. auto.
    - exists (hist s), c'. cbn. auto.
    - exact C3.
    - exact I1.
    - exact I2.
    - intros i a b0 Ha Hb.
      apply lookup_app_Some in Hb as [Hb|[Hge Hb]].
      + assert (Ha' : hist s !! i = Some a).
        { apply lookup_app_Some in Ha as [Ha|[Hge' _]]; [exact Ha|]. apply lookup_lt_Some in Hb. lia. }
        exact (G3 i a b0 Ha' Hb).
      + destruct (S i - length (hist s)) eqn:Ev; cbn in Hb; [|discriminate]. inversion Hb; subst b0. cbn.
        assert (Hi : S i = length (hist s)) by lia.
        rewrite lookup_app_l in Ha by lia.
        destruct C2 as (h0 & st & Hl & Hrm' & Hru'). rewrite Hl in Ha, Hi. rewrite app_length in Hi. cbn in Hi.
        rewrite lookup_app_r in Ha by lia. replace (i - length h0) with 0 in Ha by lia. inversion Ha; subst a. cbn.
        eapply vmono_same_view; [exact Hrm'|exact Hru'|exact I3].
    - rewrite Hslot. eexists. split; [apply upd_same|].
      unfold HolderInv, conc_eq; cbn. fold c'.
      destruct (t_call th); cbn; rewrite Fq, Fw; auto.
  Qed.

  Lemma InvC_step s l s' : InvA s -> InvP s -> InvC s -> stepf s l = Some s' -> InvC s'.
  Proof.
    intros HAA HP HC Hs. pose proof HAA as (HA & HB1 & HB2).
    destruct l as [c after|[]|t e]; cbn in Hs.
    - (* Spawn *)
      assert (Hgen : forall th0, InvC (with_next_tid (with_threads s (upd (threads s) (next_tid s) th0)) (S (next_tid s)))).
      { intro th0. apply (InvC_intro s); [exact HC|reflexivity..|cbn; lia|cbn; apply HC|intros; split; reflexivity|].
        cbn. destruct HC as (_ & _ & _ & _ & _ & _ & _ & Hsl).
        destruct (slot s) as [t0|]; [|exact Hsl]. destruct Hsl as (thh & Hth & Hh).
        exists thh. split; [|apply (HolderInv_frame s); [reflexivity..|exact Hh]].
        rewrite upd_other; [exact Hth|]. intro; subst. rewrite HA in Hth by lia. discriminate. }
      destruct c; try discriminate;
        (destruct (match after with Some t0 => _ | None => true end); [|discriminate]);
        inversion Hs; subst; apply Hgen.
    - destruct (auto_on s && armed s); [|discriminate]. inversion Hs; subst.
      apply (InvC_intro s); [exact HC|reflexivity..|cbn; lia|cbn; apply HC|intros; split; reflexivity|].
      cbn. destruct HC as (_ & _ & _ & _ & _ & _ & _ & Hsl).
      destruct (slot s) as [t0|]; [|exact Hsl]. destruct Hsl as (thh & Hth & Hh).
      exists thh. split; [exact Hth|apply (HolderInv_frame s); [reflexivity..|exact Hh]].
    - destruct (threads s t) as [th|] eqn:Eth; [|discriminate].
      destruct (holding (t_pc th)) eqn:Hh.
      + destruct (t_pc th) eqn:Hpc; try discriminate Hh.
        * eapply step_RRecheck; eauto.
        * eapply step_RCollect; eauto.
        * eapply step_RReleaseCancelled; eauto.
        * eapply step_RCopy; eauto.
        * eapply step_RFill; eauto.
        * eapply step_MStored; eauto.
        * eapply step_MReleaseHit; eauto.
        * eapply step_MFetch; eauto.
        * eapply step_MInsert; eauto.
        * eapply step_MCopy; eauto.
        * eapply step_MFill; eauto.
        * eapply step_TDecide; eauto.
        * eapply step_TAllocM; eauto.
        * eapply step_TFillM; eauto.
        * eapply step_TStore; eauto.
        * eapply step_TAdd; eauto.
        * eapply step_TRelease; eauto.
      + eapply InvC_nonholder; eauto.
  Qed.

  Definition Inv1 (s : gst) : Prop := InvA s /\ InvP s /\ InvC s.

  Lemma Inv1_reachable s : reachable s -> Inv1 s.
  Proof.
    apply LTS.invariant_reachable.
    - split_and!; [apply InvA_init|apply InvP_init|apply InvC_init].
    - intros s0 l s1 (A & P & C) Hs. split_and!;
        [eapply InvA_step|eapply InvP_step|eapply InvC_step]; eauto.
  Qed.

  (* ---------------------------------------------------------------- *)
  (* the history only grows, and only by a Store, which leaves the heap alone *)

  Lemma step_hist_heap s l s' :
    stepf s l = Some s' ->
    (hist s' = hist s) \/ (heap s' = heap s /\ exists x, hist s' = hist s ++ [x]).
  Proof.
    intro Hs. destruct l as [c after|[]|t e]; cbn in Hs.
    - destruct c; try discriminate;
        (destruct (match after with Some t0 => _ | None => true end); [|discriminate]);
        inversion Hs; subst; left; reflexivity.
    - destruct (auto_on s && armed s); [|discriminate]. inversion Hs; subst. left; reflexivity.
    - destruct (threads s t) as [th|] eqn:Eth; [|discriminate].
      inv_step Hs; cbn; first [left; reflexivity | right; split; [reflexivity|eexists; reflexivity]].
  Qed.

  Lemma step_hist_lookup s l s' v x :
    stepf s l = Some s' -> hist s !! v = Some x -> hist s' !! v = Some x.
  Proof.
    intros Hs Hv. destruct (step_hist_heap s l s' Hs) as [->|[_ [y ->]]]; [exact Hv|].
    rewrite lookup_app_l; [exact Hv|]. apply lookup_lt_Some in Hv. exact Hv.
  Qed.

  Lemma step_cur_ver s l s' : stepf s l = Some s' -> cur_ver s <= cur_ver s'.
  Proof.
    intro Hs. unfold cur_ver. destruct (step_hist_heap s l s' Hs) as [->|[_ [y ->]]]; [lia|].
    rewrite app_length. cbn. lia.
  Qed.

  (* THEOREM published_maps_immutable *)
  Theorem published_maps_immutable_l s l s' :
    reachable s -> stepf s l = Some s' ->
    forall v st mid uid, hist s' !! v = Some (st, mid, uid) ->
      heap s' !! mid = heap s !! mid /\ heap s' !! uid = heap s !! uid /\
      heap s' !! mid = Some (st_rm st) /\ heap s' !! uid = Some (st_ru st).
  Proof.
    intros Hr Hs v st mid uid Hv.
    destruct (Inv1_reachable s Hr) as (HA & HP & HC).
    assert (HC' : InvC s') by (eapply InvC_step; eauto).
    destruct HC' as (_ & C1' & _). destruct (C1' v st mid uid Hv) as (A' & B' & _).
    destruct (step_hist_heap s l s' Hs) as [E|[E [x Hx]]].
    - rewrite E in Hv. destruct HC as (_ & C1 & _). destruct (C1 v st mid uid Hv) as (A & B & _).
      split_and!; [etransitivity; [exact A'|symmetry; exact A]|etransitivity; [exact B'|symmetry; exact B]|exact A'|exact B'].
    - rewrite E in *. auto.
  Qed.

  (* ---------------------------------------------------------------- *)
  (* Layer 3: what readers hold and return                              *)

  Definition ReaderInv (s : gst) (th : thread) : Prop :=
    let pid := call_pid (t_call th) in
    l_born th <= cur_ver s /\
    match t_pc th with
    | GLookupU | LBuild | NCount =>
      exists st, hist s !! l_ver th = Some (st, l_mid th, l_uid th) /\ l_born th <= l_ver th
    | GLookupM =>
      exists st, hist s !! l_ver th = Some (st, l_mid th, l_uid th) /\ l_born th <= l_ver th /\
                 st_ru st !! pid = None
    | GCas v | Fin (ResGet v) =>
      exists st mid uid, hist s !! l_ver th = Some (st, mid, uid) /\ view st pid = Some v /\
                         l_born th <= l_ver th
    | TRelease =>
      is_refresh th = false ->
      exists st mid uid, hist s !! l_ver th = Some (st, mid, uid) /\
        view st pid = Some (e_prov (miss_entry (cur s) (l_now th) (l_fouts th))) /\ l_born th <= l_ver th
    | Fin (ResList l) =>
      exists st mid uid, hist s !! l_ver th = Some (st, mid, uid) /\ l = listing st /\ l_born th <= l_ver th
    | Fin (ResLen n) =>
      exists st mid uid, hist s !! l_ver th = Some (st, mid, uid) /\ n = len st /\ l_born th <= l_ver th
    | _ => True
    end.

  Definition InvF (s : gst) : Prop :=
    (forall t th, threads s t = Some th -> ReaderInv s th) /\
    (forall t th t1, threads s t = Some th -> t_prev th = Some t1 ->
       exists th1, threads s t1 = Some th1 /\ is_fin (t_pc th1) = true /\
         (forall v, t_pc th1 = Fin (ResGet v) -> l_ver th1 <= l_born th)).

  Lemma InvF_init : InvF (ginit auto).
  Proof. split; intros; discriminate. Qed.

  Lemma nonholder_keeps s t th e s' :
    holding (t_pc th) = false -> step_thread s t th e = Some s' ->
    cur s' = cur s /\ hist s' = hist s.
  Proof. intros Hnh Hs. inv_step Hs; cbn in Hnh; try discriminate Hnh; split; reflexivity. Qed.

  (* a thread that is not the one stepping keeps its reader invariant *)
  Lemma ReaderInv_frame s l s' th :
    stepf s l = Some s' -> (t_pc th = TRelease -> cur s' = cur s) ->
    ReaderInv s th -> ReaderInv s' th.
  Proof.
    intros Hs Hcur [Hb HR]. pose proof (step_cur_ver s l s' Hs) as Hcv.
    split; [lia|].
    destruct (t_pc th) eqn:Epc; auto;
      try (destruct HR as (st & Hv & Hr); exists st; split; [eapply step_hist_lookup; eauto|exact Hr]);
      try (destruct HR as (st & mid & uid & Hv & Hr); exists st, mid, uid; split; [eapply step_hist_lookup; eauto|exact Hr]).
    - intro Hir. destruct (HR Hir) as (st & mid & uid & Hv & Hr). exists st, mid, uid.
      rewrite (Hcur eq_refl). split; [eapply step_hist_lookup; eauto|exact Hr].
    - destruct r; auto;
        (destruct HR as (st & mid & uid & Hv & Hr); exists st, mid, uid; split; [eapply step_hist_lookup; eauto|exact Hr]).
  Qed.

  Lemma last_entry s : InvC s ->
    exists st, hist s !! cur_ver s = Some (st, (readp s).1, (readp s).2) /\
               st_rm st = st_rm (cur s) /\ st_ru st = st_ru (cur s).
  Proof.
    intros (_ & _ & (h0 & st & Hl & Hm & Hu) & _). exists st. split; [|auto].
    unfold cur_ver. rewrite Hl, app_length. cbn. rewrite lookup_app_r by lia.
    replace (length h0 + 1 - 1 - length h0) with 0 by lia. reflexivity.
  Qed.

  Lemma view_same_maps a b pid : st_rm a = st_rm b -> st_ru a = st_ru b -> view a pid = view b pid.
  Proof. unfold view. intros -> ->. reflexivity. Qed.

  Definition special (p : pcs) : bool :=
    match p with
    | GLoad | LLoad | NLoad | GLookupU | GLookupM | GCas _ | LBuild | NCount
    | MReleaseHit _ | TStore _ | TRelease => true
    | _ => false
    end.

  Ltac own_pre s t th e s' :=
    intros (HAA & HP & HC) [HF _] Eth Hpc Hs th' Hth';
    pose proof (HF t th Eth) as [Hb HR]; rewrite Hpc in HR;
    pose proof HC as (C0 & C1 & C2 & C3 & G1 & G2 & G3 & Hsl);
    destruct (last_entry s HC) as (stl & Hlast & Hlm & Hlu);
    assert (Hcv : cur_ver s <= cur_ver s')
      by (apply (step_cur_ver s (Step t e)); cbn; rewrite Eth; exact Hs);
    assert (Hlt : t < next_tid s)
      by (destruct HAA as (HA & _); destruct (le_lt_dec (next_tid s) t) as [Hle|]; [|assumption];
          rewrite HA in Eth by exact Hle; discriminate);
    unfold C07_PCacheConc.step_thread in Hs; cbn zeta in Hs; rewrite Hpc in Hs.

  Ltac own_new H x :=
    cbn in H; rewrite ?upd_other in H by lia; rewrite upd_same in H;
    inversion H; subst x; clear H; (split; [cbn in *; lia|]); cbn.

  Lemma own_other s t th e s' :
    Inv1 s -> InvF s -> threads s t = Some th -> special (t_pc th) = false ->
    step_thread s t th e = Some s' ->
    forall th', threads s' t = Some th' -> ReaderInv s' th'.
  Proof.
    intros (HAA & HP & HC) [HF _] Eth Hsp Hs th' Hth'.
    pose proof (HF t th Eth) as [Hb HR].
    assert (Hcv : cur_ver s <= cur_ver s')
      by (apply (step_cur_ver s (Step t e)); cbn; rewrite Eth; exact Hs).
    assert (Hlt : t < next_tid s)
      by (destruct HAA as (HA & _); destruct (le_lt_dec (next_tid s) t) as [Hle|]; [|assumption];
          rewrite HA in Eth by exact Hle; discriminate).
    inv_step Hs; cbn in Hsp; try discriminate Hsp; own_new Hth' th'; try exact I;
      try (intro Hir; change (is_refresh th = false) in Hir;
           pose proof (HP t th Eth) as Hc; unfold pc_call_ok in Hc;
           match goal with E : t_pc _ = _ |- _ => rewrite E in Hc end; congruence);
      unfold refresh_end; destruct (t_call th); exact I.
  Qed.

  Lemma own_load s t th e s' :
    Inv1 s -> InvF s -> threads s t = Some th ->
    (t_pc th = GLoad \/ t_pc th = LLoad \/ t_pc th = NLoad) ->
    step_thread s t th e = Some s' ->
    forall th', threads s' t = Some th' -> ReaderInv s' th'.
  Proof.
    intros H1 HFF Eth Hpcs Hs th' Hth'.
    destruct Hpcs as [Hpc|[Hpc|Hpc]]; revert H1 HFF Eth Hpc Hs th' Hth'; own_pre s t th e s';
      (destruct e; try discriminate Hs); inversion Hs; subst; clear Hs.
    all: own_new Hth' th'; (exists stl; split; [exact Hlast|lia]).
  Qed.

  Lemma hist_objs s v st mid uid :
    InvC s -> hist s !! v = Some (st, mid, uid) ->
    obj (heap s) mid = st_rm st /\ obj (heap s) uid = st_ru st.
  Proof.
    intros (_ & C1 & _) Hv. destruct (C1 v st mid uid Hv) as (A & B & _).
    split; apply obj_some; assumption.
  Qed.

  Lemma own_GLookupU s t th e s' :
    Inv1 s -> InvF s -> threads s t = Some th -> t_pc th = GLookupU ->
    step_thread s t th e = Some s' ->
    forall th', threads s' t = Some th' -> ReaderInv s' th'.
  Proof.
    own_pre s t th e s'. destruct e; try discriminate Hs.
    destruct HR as (st & Hv & Hbv). destruct (hist_objs s _ _ _ _ HC Hv) as [Om Ou].
    rewrite Ou in Hs.
    match type of Hs with match ?x with _ => _ end = _ => destruct x eqn:Eu end; unfold goto in Hs; injection Hs as <-; own_new Hth' th'.
    - exists st, (l_mid th), (l_uid th). split_and!; auto.
      unfold view. rewrite view_of_lookup.
      assert (E2 : st_ru st !! call_pid (t_call th) = Some o) by exact Eu. rewrite E2. reflexivity.
    - exists st. auto.
  Qed.

  Lemma own_GLookupM s t th e s' :
    Inv1 s -> InvF s -> threads s t = Some th -> t_pc th = GLookupM ->
    step_thread s t th e = Some s' ->
    forall th', threads s' t = Some th' -> ReaderInv s' th'.
  Proof.
    own_pre s t th e s'. destruct e; try discriminate Hs.
    destruct HR as (st & Hv & Hbv & Hun). destruct (hist_objs s _ _ _ _ HC Hv) as [Om Ou].
    rewrite Om in Hs.
    match type of Hs with match ?x with _ => _ end = _ => destruct x eqn:Em end; unfold goto in Hs; injection Hs as <-; own_new Hth' th'.
    - exists st, (l_mid th), (l_uid th). split_and!; auto.
      unfold view. rewrite view_of_lookup, Hun. exact Em.
    - exact I.
  Qed.

  Lemma own_GCas s t th e s' v :
    Inv1 s -> InvF s -> threads s t = Some th -> t_pc th = GCas v ->
    step_thread s t th e = Some s' ->
    forall th', threads s' t = Some th' -> ReaderInv s' th'.
  Proof.
    own_pre s t th e s'. destruct e; try discriminate Hs.
    destruct (auto_on s && needs s); unfold goto in Hs; injection Hs as <-; own_new Hth' th'; exact HR.
  Qed.

  Lemma own_LBuild s t th e s' :
    Inv1 s -> InvF s -> threads s t = Some th -> t_pc th = LBuild ->
    step_thread s t th e = Some s' ->
    forall th', threads s' t = Some th' -> ReaderInv s' th'.
  Proof.
    own_pre s t th e s'. destruct e; try discriminate Hs.
    destruct HR as (st & Hv & Hbv). destruct (hist_objs s _ _ _ _ HC Hv) as [Om Ou].
    unfold goto in Hs; injection Hs as <-; own_new Hth' th'.
    exists st, (l_mid th), (l_uid th). rewrite Om, Ou. split_and!; auto.
  Qed.

  Lemma own_NCount s t th e s' :
    Inv1 s -> InvF s -> threads s t = Some th -> t_pc th = NCount ->
    step_thread s t th e = Some s' ->
    forall th', threads s' t = Some th' -> ReaderInv s' th'.
  Proof.
    own_pre s t th e s'. destruct e; try discriminate Hs.
    destruct HR as (st & Hv & Hbv). destruct (hist_objs s _ _ _ _ HC Hv) as [Om Ou].
    unfold goto in Hs; injection Hs as <-; own_new Hth' th'.
    exists st, (l_mid th), (l_uid th). rewrite Om, Ou. split_and!; auto.
  Qed.

  Lemma own_MReleaseHit s t th e s' v :
    Inv1 s -> InvF s -> threads s t = Some th -> t_pc th = MReleaseHit v ->
    step_thread s t th e = Some s' ->
    forall th', threads s' t = Some th' -> ReaderInv s' th'.
  Proof.
    own_pre s t th e s'. destruct e; try discriminate Hs. injection Hs as <-. own_new Hth' th'.
    destruct (holder_facts s t th HAA HC Eth ltac:(rewrite Hpc; reflexivity)) as (_ & HI & _).
    unfold HolderInv in HI. rewrite Hpc in HI. destruct HI as [_ Hview].
    exists stl, (readp s).1, (readp s).2. split_and!; [exact Hlast| |lia].
    rewrite (view_same_maps stl (cur s) _ Hlm Hlu). exact Hview.
  Qed.

  Lemma store_view th c :
    Inv c -> path_ok th c -> is_refresh th = false ->
    view (seq_apply need_merge ttl th c) (call_pid (t_call th)) =
    Some (e_prov (miss_entry (seq_apply need_merge ttl th c) (l_now th) (l_fouts th))).
  Proof.
    intros HI Hpath Hir. unfold path_ok in Hpath. rewrite Hir in Hpath. destruct Hpath as [Hmp _].
    assert (Hsa : seq_apply need_merge ttl th c =
                  (C06_PCache.miss need_merge ttl (l_now th) (call_pid (t_call th)) (l_fouts th) c).1).
    { unfold seq_apply, is_refresh in *. destruct (t_call th); try discriminate Hir;
        unfold C06_PCache.fetch_missing, miss_path in *;
        (destruct (st_write c !! _); [destruct (view c _); [contradiction|]|]); reflexivity. }
    rewrite Hsa.
    destruct (miss_spec need_merge ttl (l_now th) (call_pid (t_call th)) (l_fouts th) c HI) as (_ & Hvw & Hsq & _).
    rewrite Hvw. do 2 f_equal. symmetry. apply miss_entry_seq. exact Hsq.
  Qed.

  Lemma own_TStore s t th e s' b :
    Inv1 s -> InvF s -> threads s t = Some th -> t_pc th = TStore b ->
    step_thread s t th e = Some s' ->
    forall th', threads s' t = Some th' -> ReaderInv s' th'.
  Proof.
    own_pre s t th e s'. destruct e; try discriminate Hs. injection Hs as <-. own_new Hth' th'.
    destruct (holder_facts s t th HAA HC Eth ltac:(rewrite Hpc; reflexivity)) as (_ & HI & _).
    unfold HolderInv in HI. rewrite Hpc in HI.
    assert (Htail : tail_inv s th) by (destruct b; apply HI).
    destruct Htail as (Hpath & _).
    destruct (t_call th) eqn:Ec; cbn; try exact I; intros _.
    all: assert (Hir : is_refresh th = false) by (unfold is_refresh; rewrite Ec; reflexivity).
    all: pose proof (store_view th (cur s) G1 Hpath Hir) as Hsv; rewrite Ec in Hsv.
    all: eexists _, _, _; split; [rewrite lookup_app_r by lia; replace (length (hist s) - length (hist s)) with 0 by lia; reflexivity|].
    all: (split; [exact Hsv|unfold cur_ver in *; lia]).
  Qed.

  Lemma own_TRelease s t th e s' :
    Inv1 s -> InvF s -> threads s t = Some th -> t_pc th = TRelease ->
    step_thread s t th e = Some s' ->
    forall th', threads s' t = Some th' -> ReaderInv s' th'.
  Proof.
    own_pre s t th e s'. destruct e; try discriminate Hs. unfold goto in Hs. injection Hs as <-. own_new Hth' th'.
    destruct (holder_facts s t th HAA HC Eth ltac:(rewrite Hpc; reflexivity)) as (_ & HI & _).
    unfold HolderInv in HI. rewrite Hpc in HI. destruct HI as [Hq _].
    unfold refresh_end. destruct (t_call th) eqn:Ec; cbn; try exact I.
    all: assert (Hir : is_refresh th = false) by (unfold is_refresh; rewrite Ec; reflexivity).
    all: destruct (HR Hir) as (st & mid & uid & Hv & Hvw & Hbv); exists st, mid, uid; split_and!; auto.
    all: cbn [call_pid] in Hvw; (etransitivity; [exact Hvw|]); do 2 f_equal; apply miss_entry_seq; symmetry; exact Hq.
  Qed.

  Lemma ReaderInv_own s t th e s' :
    Inv1 s -> InvF s -> threads s t = Some th -> step_thread s t th e = Some s' ->
    forall th', threads s' t = Some th' -> ReaderInv s' th'.
  Proof.
    intros H1 HF Eth Hs.
    destruct (special (t_pc th)) eqn:Hsp; [|eapply own_other; eauto].
    destruct (t_pc th) eqn:Hpc; try discriminate Hsp.
    - eapply own_load; eauto.
    - eapply own_GLookupU; eauto.
    - eapply own_GLookupM; eauto.
    - eapply own_GCas; eauto.
    - eapply own_load; eauto.
    - eapply own_LBuild; eauto.
    - eapply own_load; eauto.
    - eapply own_NCount; eauto.
    - eapply own_MReleaseHit; eauto.
    - eapply own_TStore; eauto.
    - eapply own_TRelease; eauto.
  Qed.

  (* what a step of thread t does to the thread table *)
  Lemma step_threads s t th e s' :
    t < next_tid s -> threads s t = Some th -> step_thread s t th e = Some s' ->
    (exists th', threads s' t = Some th' /\ t_prev th' = t_prev th /\ l_born th' = l_born th /\
                 t_call th' = t_call th /\ is_fin (t_pc th) = false) /\
    (forall t', t' <> t ->
       threads s' t' = threads s t' \/
       (t' = next_tid s /\ threads s' t' = Some (new_thread CAuto None (cur_ver s)))).
  Proof.
    intros Hlt Eth Hs. inv_step Hs; cbn; (split;
      [ eexists; split; [rewrite ?upd_other by lia; apply upd_same|cbn; auto]
      | intros t' Hne; rewrite ?(upd_other _ t) by exact Hne; auto ]).
    all: try (destruct (Nat.eq_dec t' (next_tid s)) as [->|Hn];
              [ right; split; [reflexivity|apply upd_same]
              | left; rewrite upd_other by exact Hn; rewrite upd_other by exact Hne; reflexivity ]).
  Qed.

  Lemma tid_lt s t th : InvA s -> threads s t = Some th -> t < next_tid s.
  Proof.
    intros (HA & _) Eth. destruct (le_lt_dec (next_tid s) t) as [Hle|]; [|assumption].
    rewrite HA in Eth by exact Hle. discriminate.
  Qed.

  Lemma fin_no_step s t th e : is_fin (t_pc th) = true -> step_thread s t th e = None.
  Proof. intro H. unfold C07_PCacheConc.step_thread. destruct (t_pc th); try discriminate H. destruct e; reflexivity. Qed.

  Lemma InvF_step s l s' : Inv1 s -> InvF s -> stepf s l = Some s' -> InvF s'.
  Proof.
    intros H1 HF Hs. pose proof H1 as (HAA & HP & HC). pose proof HF as [HF1 HF2].
    pose proof HAA as (HA & HB1 & HB2).
    destruct l as [c after|[]|t e].
    - (* Spawn *)
      assert (Hgen : forall th0, stepf s (Spawn c after) = Some (with_next_tid (with_threads s (upd (threads s) (next_tid s) th0)) (S (next_tid s))) ->
                 ReaderInv s th0 -> t_prev th0 = after -> l_born th0 = cur_ver s ->
                 (forall t1, after = Some t1 -> exists th1, threads s t1 = Some th1 /\ is_fin (t_pc th1) = true) ->
                 InvF (with_next_tid (with_threads s (upd (threads s) (next_tid s) th0)) (S (next_tid s)))).
      { intros th0 Hst HR0 Hprev Hborn Hafter. split.
        - intros t th Ht. cbn in Ht. apply upd_cases in Ht as [[-> ->]|[Hne Ht]].
          + eapply ReaderInv_frame; [exact Hst|reflexivity|exact HR0].
          + eapply ReaderInv_frame; [exact Hst|reflexivity|exact (HF1 t th Ht)].
        - intros t th t1 Ht Hp. cbn in Ht. cbn.
          apply upd_cases in Ht as [[-> ->]|[Hne Ht]].
          + rewrite Hprev in Hp. destruct (Hafter t1 Hp) as (th1 & E1 & Hok).
            exists th1. split_and!; [|exact Hok|].
            * rewrite upd_other; [exact E1|]. pose proof (tid_lt s t1 th1 HAA E1). lia.
            * intros v Hv. destruct (HF1 t1 th1 E1) as [_ HR1]. rewrite Hv in HR1.
              destruct HR1 as (st & mid & uid & Hh & _). apply lookup_lt_Some in Hh.
              rewrite Hborn. unfold cur_ver. lia.
          + destruct (HF2 t th t1 Ht Hp) as (th1 & E1 & Hf & Hle). exists th1. split_and!; auto.
            rewrite upd_other; [exact E1|]. pose proof (tid_lt s t1 th1 HAA E1). lia. }
      cbn in Hs.
      destruct c; try discriminate Hs;
        (destruct (match after with Some t0 => _ | None => true end) eqn:Eok; [|discriminate Hs]);
        injection Hs as <-; (apply Hgen; [cbn; rewrite Eok; reflexivity| |reflexivity|reflexivity|]);
        try (split; [cbn; lia|exact I]);
        (intros t1 ->; destruct (threads s t1) as [th1|]; [exists th1; split; [reflexivity|exact Eok]|discriminate Eok]).
    - cbn in Hs. destruct (auto_on s && armed s) eqn:Ea; [|discriminate]. injection Hs as <-.
      assert (Hst : stepf s TimerFire = Some (with_auto s false true (S (n_fires s)) (n_spawns s) (n_rearms s)))
        by (cbn; rewrite Ea; reflexivity).
      split.
      + intros t th Ht. eapply ReaderInv_frame; [exact Hst|reflexivity|exact (HF1 t th Ht)].
      + exact HF2.
    - cbn in Hs. destruct (threads s t) as [th|] eqn:Eth; [|discriminate].
      pose proof (tid_lt s t th HAA Eth) as Hlt.
      assert (Hst : stepf s (Step t e) = Some s') by (cbn; rewrite Eth; exact Hs).
      destruct (step_threads s t th e s' Hlt Eth Hs) as ((thn & Hthn & Hprev & Hborn & _ & Hnf) & Hoth).
      split.
      + intros t' th' Ht'. destruct (Nat.eq_dec t' t) as [->|Hne].
        * eapply ReaderInv_own; eauto.
        * destruct (Hoth t' Hne) as [Hsame|[-> Hnew]].
          -- rewrite Hsame in Ht'. eapply ReaderInv_frame; [exact Hst| |exact (HF1 t' th' Ht')].
             intro Hrel.
             assert (Hnh : holding (t_pc th) = false).
             { destruct (holding (t_pc th)) eqn:Hh; [|reflexivity].
               pose proof (HB1 t th Eth Hh) as S1.
               pose proof (HB1 t' th' Ht' ltac:(rewrite Hrel; reflexivity)) as S2. congruence. }
             apply (nonholder_keeps s t th e s' Hnh Hs).
          -- rewrite Hnew in Ht'. injection Ht' as <-. split; [cbn; apply (step_cur_ver s _ s' Hst)|exact I].
      + intros t' th' t1 Ht' Hp.
        assert (Hfin_keep : forall th1, threads s t1 = Some th1 -> is_fin (t_pc th1) = true -> threads s' t1 = Some th1).
        { intros th1 E1 Hf. destruct (Nat.eq_dec t1 t) as [->|Hne1].
          - rewrite Eth in E1. injection E1 as <-. congruence.
          - destruct (Hoth t1 Hne1) as [Hsame|[-> _]]; [congruence|].
            pose proof (tid_lt s _ th1 HAA E1). lia. }
        destruct (Nat.eq_dec t' t) as [->|Hne].
        * rewrite Hthn in Ht'. injection Ht' as <-. rewrite Hprev in Hp.
          destruct (HF2 t th t1 Eth Hp) as (th1 & E1 & Hf & Hle). exists th1.
          split_and!; [apply Hfin_keep; assumption|exact Hf|]. rewrite Hborn. exact Hle.
        * destruct (Hoth t' Hne) as [Hsame|[-> Hnew]].
          -- rewrite Hsame in Ht'. destruct (HF2 t' th' t1 Ht' Hp) as (th1 & E1 & Hf & Hle). exists th1.
             split_and!; [apply Hfin_keep; assumption|exact Hf|exact Hle].
          -- rewrite Hnew in Ht'. injection Ht' as <-. discriminate Hp.
  Qed.

  Definition Inv2L (s : gst) : Prop := Inv1 s /\ InvF s.

  Lemma Inv2L_reachable s : reachable s -> Inv2L s.
  Proof.
    apply LTS.invariant_reachable.
    - split; [split_and!; [apply InvA_init|apply InvP_init|apply InvC_init]|apply InvF_init].
    - intros s0 l s1 [(A & P & C) F] Hs. split; [split_and!|];
        [eapply InvA_step|eapply InvP_step|eapply InvC_step|eapply InvF_step]; eauto.
      split_and!; assumption.
  Qed.

  (* ================================================================ *)
  (* The theorems                                                      *)

  (* every result returned by Get / GetResults (hit or miss), List, Len is the sequential
     model's answer on one snapshot of the history, namely the one current at the read's
     Load (hit, List, Len), at its second look (stored meanwhile) or at its own Store (miss) *)
  Theorem reads_linearise_at_load_l s t th r :
    reachable s -> threads s t = Some th -> t_pc th = Fin r ->
    match r with
    | ResGet v =>
      exists st mid uid, hist s !! l_ver th = Some (st, mid, uid) /\
        view st (call_pid (t_call th)) = Some v /\ l_born th <= l_ver th <= cur_ver s
    | ResList l =>
      exists st mid uid, hist s !! l_ver th = Some (st, mid, uid) /\
        l = listing st /\ l_born th <= l_ver th <= cur_ver s
    | ResLen n =>
      exists st mid uid, hist s !! l_ver th = Some (st, mid, uid) /\
        n = len st /\ l_born th <= l_ver th <= cur_ver s
    | _ => True
    end.
  Proof.
    intros Hr Eth Hpc. destruct (Inv2L_reachable s Hr) as [_ [HF _]].
    destruct (HF t th Eth) as [_ HR]. rewrite Hpc in HR.
    destruct r; auto; destruct HR as (st & mid & uid & Hv & Hx & Hb); exists st, mid, uid;
      (split_and!; auto; apply lookup_lt_Some in Hv; unfold cur_ver; lia).
  Qed.

  (* the ghost sequential state is a state of the C06 model: its invariants hold *)
  Theorem cur_is_sequential_l s : reachable s -> Inv (cur s) /\ Inv2 (cur s).
  Proof. intro Hr. destruct (Inv1_reachable s Hr) as (_ & _ & HC). split; apply HC. Qed.

  (* a provider visible in every snapshot that was current during the read is reported *)
  Theorem present_before_and_after_never_missing_l s t th v :
    reachable s -> threads s t = Some th -> t_pc th = Fin (ResGet v) ->
    (forall i st mid uid, l_born th <= i <= cur_ver s -> hist s !! i = Some (st, mid, uid) ->
       is_Some (visible st (call_pid (t_call th)))) ->
    exists rcd st mid uid, v = Some rcd /\ hist s !! l_ver th = Some (st, mid, uid) /\
      visible st (call_pid (t_call th)) = Some rcd.
  Proof.
    intros Hr Eth Hpc Hall.
    pose proof (reads_linearise_at_load_l s t th _ Hr Eth Hpc) as (st & mid & uid & Hv & Hview & Hb).
    destruct (Hall (l_ver th) st mid uid Hb Hv) as [rcd Hvis].
    apply visible_view in Hvis as Hvv. rewrite Hvv in Hview. injection Hview as <-.
    exists rcd, st, mid, uid. auto.
  Qed.

  Lemma hist_chain s pid : InvC s -> forall d i a b,
    (forall k st mid uid, i <= k <= i + d -> hist s !! k = Some (st, mid, uid) -> is_Some (visible st pid)) ->
    hist s !! i = Some a -> hist s !! (i + d) = Some b ->
    forall r r', visible a.1.1 pid = Some r -> visible b.1.1 pid = Some r' -> (eff_time r <= eff_time r')%Z.
  Proof.
    intros HC. destruct HC as (_ & _ & _ & _ & _ & _ & G3 & _).
    induction d as [|d IH]; intros i a b Hall Ha Hb r r' Hr Hr'.
    - replace (i + 0) with i in Hb by lia. rewrite Ha in Hb. injection Hb as <-.
      rewrite Hr in Hr'. injection Hr' as <-. lia.
    - assert (Hlt : i + d < length (hist s)) by (apply lookup_lt_Some in Hb; lia).
      destruct (lookup_lt_is_Some_2 (hist s) (i + d) Hlt) as [[[stm midm] uidm] Hm].
      destruct (Hall (i + d) stm midm uidm ltac:(lia) Hm) as [rm Hrm].
      assert (E1 : (eff_time r <= eff_time rm)%Z).
      { eapply (IH i a (stm, midm, uidm)); eauto. intros k st mid uid Hk. apply Hall. lia. }
      replace (i + S d) with (S (i + d)) in Hb by lia.
      pose proof (G3 (i + d) _ _ Hm Hb pid rm r' Hrm Hr'). lia.
  Qed.

  (* successive reads by one caller never go back in time for a provider that stays cached *)
  Theorem per_reader_monotone_l s t1 t2 th1 th2 r1 r2 :
    reachable s ->
    threads s t2 = Some th2 -> t_prev th2 = Some t1 -> threads s t1 = Some th1 ->
    call_pid (t_call th1) = call_pid (t_call th2) ->
    t_pc th1 = Fin (ResGet (Some r1)) -> t_pc th2 = Fin (ResGet (Some r2)) ->
    (forall k st mid uid, l_ver th1 <= k <= l_ver th2 -> hist s !! k = Some (st, mid, uid) ->
       is_Some (visible st (call_pid (t_call th2)))) ->
    l_ver th1 <= l_ver th2 /\ (eff_time r1 <= eff_time r2)%Z.
  Proof.
    intros Hr E2 Hp E1 Hpid Hpc1 Hpc2 Hall.
    destruct (Inv2L_reachable s Hr) as [(_ & _ & HC) [HF1 HF2]].
    destruct (HF2 t2 th2 t1 E2 Hp) as (th1' & E1' & _ & Hle). rewrite E1 in E1'. injection E1' as <-.
    specialize (Hle _ Hpc1).
    pose proof (reads_linearise_at_load_l s t1 th1 _ Hr E1 Hpc1) as (st1 & m1 & u1 & Hv1 & Hw1 & Hb1).
    pose proof (reads_linearise_at_load_l s t2 th2 _ Hr E2 Hpc2) as (st2 & m2 & u2 & Hv2 & Hw2 & Hb2).
    assert (Hord : l_ver th1 <= l_ver th2) by lia. split; [exact Hord|].
    rewrite Hpid in Hw1.
    eapply (hist_chain s (call_pid (t_call th2)) HC (l_ver th2 - l_ver th1) (l_ver th1) (st1, m1, u1) (st2, m2, u2)).
    - intros k st mid uid Hk. apply Hall. lia.
    - exact Hv1.
    - replace (l_ver th1 + (l_ver th2 - l_ver th1)) with (l_ver th2) by lia. exact Hv2.
    - cbn. unfold visible. rewrite Hw1. reflexivity.
    - cbn. unfold visible. rewrite Hw2. reflexivity.
  Qed.

  (* the hit path: every step of a reader is enabled whatever the other threads are doing,
     and takes it strictly closer to its return; other threads' steps do not touch it *)
  Theorem hit_path_wait_free_l s t th :
    reachable s -> threads s t = Some th -> reader_pc (t_pc th) = true ->
    (t_pc th = GLookupM -> forall st mid uid, hist s !! l_ver th = Some (st, mid, uid) ->
       is_Some (view st (call_pid (t_call th)))) ->
    exists s' th', stepf s (Step t ENone) = Some s' /\ threads s' t = Some th' /\
      hit_measure (t_pc th') < hit_measure (t_pc th).
  Proof.
    intros Hr Eth Hrp Hin. destruct (Inv2L_reachable s Hr) as [(HAA & _ & HC) [HF _]].
    pose proof (tid_lt s t th HAA Eth) as Hlt.
    destruct (HF t th Eth) as [_ HR].
    cbn. rewrite Eth. unfold C07_PCacheConc.step_thread. cbn zeta.
    destruct (t_pc th) eqn:Hpc; try discriminate Hrp; cbn.
    - eexists _, _. split; [reflexivity|]. cbn. rewrite upd_same. split; [reflexivity|cbn; lia].
    - destruct (obj (heap s) (l_uid th) !! call_pid (t_call th)); eexists _, _;
        (split; [reflexivity|]); cbn; rewrite upd_same; (split; [reflexivity|cbn; lia]).
    - destruct HR as (st & Hv & _ & Hun). destruct (hist_objs s _ _ _ _ HC Hv) as [Om _].
      destruct (Hin eq_refl st _ _ Hv) as [v Hview]. unfold view in Hview. rewrite view_of_lookup, Hun in Hview.
      rewrite Om.
      assert (E2 : st_rm st !! call_pid (t_call th) = Some v) by exact Hview.
      match goal with |- context [match ?x with _ => _ end] => replace x with (Some v) by (symmetry; exact E2) end.
      eexists _, _. split; [reflexivity|]. cbn. rewrite upd_same. split; [reflexivity|cbn; lia].
    - destruct (auto_on s && needs s); eexists _, _; (split; [reflexivity|]); cbn;
        rewrite ?upd_other by lia; rewrite upd_same; (split; [reflexivity|cbn; lia]).
    - eexists _, _. split; [reflexivity|]. cbn. rewrite upd_same. split; [reflexivity|cbn; lia].
    - eexists _, _. split; [reflexivity|]. cbn. rewrite upd_same. split; [reflexivity|cbn; lia].
    - eexists _, _. split; [reflexivity|]. cbn. rewrite upd_same. split; [reflexivity|cbn; lia].
    - eexists _, _. split; [reflexivity|]. cbn. rewrite upd_same. split; [reflexivity|cbn; lia].
  Qed.

  Theorem others_do_not_touch_l s l s' t th :
    reachable s -> threads s t = Some th -> stepf s l = Some s' ->
    (forall e, l <> Step t e) -> threads s' t = Some th.
  Proof.
    intros Hr Eth Hs Hl. destruct (Inv1_reachable s Hr) as (HAA & _).
    pose proof (tid_lt s t th HAA Eth) as Hlt.
    destruct l as [c after|[]|t0 e]; cbn in Hs.
    - destruct c; try discriminate;
        (destruct (match after with Some t1 => _ | None => true end); [|discriminate]);
        injection Hs as <-; cbn; rewrite upd_other by lia; exact Eth.
    - destruct (auto_on s && armed s); [|discriminate]. injection Hs as <-. exact Eth.
    - destruct (threads s t0) as [th0|] eqn:E0; [|discriminate].
      assert (Hne : t <> t0) by (intro; subst; apply (Hl e); reflexivity).
      destruct (step_threads s t0 th0 e s' (tid_lt s t0 th0 HAA E0) E0 Hs) as [_ Hoth].
      destruct (Hoth t Hne) as [->|[-> _]]; [exact Eth|lia].
  Qed.

  (* automatic refresh: every start consumed its own timer fire, and the timer fires again
     only after the goroutine that ran the refresh re-armed it *)
  Definition b2n (b : bool) : nat := if b then 1 else 0.

  Definition InvH (s : gst) : Prop :=
    n_spawns s + b2n (needs s) <= n_fires s /\ n_fires s + b2n (armed s) <= n_rearms s + 1.

  Lemma InvH_init : InvH (ginit auto).
  Proof. unfold InvH; cbn. destruct auto; cbn; lia. Qed.

  Lemma InvH_step s l s' : InvH s -> stepf s l = Some s' -> InvH s'.
  Proof.
    intros [H1 H2] Hs. destruct l as [c after|[]|t e]; cbn in Hs.
    - destruct c; try discriminate;
        (destruct (match after with Some t1 => _ | None => true end); [|discriminate]);
        injection Hs as <-; split; assumption.
    - destruct (auto_on s && armed s) eqn:E; [|discriminate]. injection Hs as <-.
      apply andb_prop in E as [_ Ea]. unfold InvH; cbn. rewrite Ea in H2. cbn in H2.
      destruct (needs s) eqn:En; cbn in *; lia.
    - destruct (threads s t) as [th|] eqn:Eth; [|discriminate].
      inv_step Hs; unfold InvH; cbn; try (split; assumption).
      + match goal with E : auto_on s && needs s = true |- _ => apply andb_prop in E as [_ En] end.
        rewrite En in H1. cbn in *. lia.
      + destruct (armed s); cbn in *; lia.
  Qed.

  Theorem auto_refresh_at_most_once_per_interval_l s :
    reachable s -> n_spawns s <= n_fires s /\ n_fires s <= n_rearms s + 1.
  Proof.
    intro Hr.
    assert (H : InvH s) by (revert s Hr; apply LTS.invariant_reachable; [apply InvH_init|apply InvH_step]).
    destruct H. destruct (needs s), (armed s); cbn in *; lia.
  Qed.

  (* at most one thread is ever between taking and giving back the write slot *)
  Theorem single_writer_l s t1 t2 th1 th2 :
    reachable s -> threads s t1 = Some th1 -> threads s t2 = Some th2 ->
    holding (t_pc th1) = true -> holding (t_pc th2) = true -> t1 = t2.
  Proof.
    intros Hr E1 E2 H1 H2. destruct (InvA_reachable s Hr) as (_ & HB1 & _).
    pose proof (HB1 t1 th1 E1 H1). pose proof (HB1 t2 th2 E2 H2). congruence.
  Qed.
End Proofs.

(* ---------------------------------------------------------------- *)
(* Non-vacuity: one schedule in which a refresh (merging) and a lookup that misses
   overlap with a second reader; run by vm_compute with the real merge policy.     *)
Definition ex_rec : rec := Rec (Some 5%Z) 1.
Definition ex_sched : list label :=
  [Spawn CRefresh None; Step 0 ENone;                      (* refresh takes the slot *)
   Spawn (CGet 7) None; Step 1 ENone; Step 1 ENone; Step 1 ENone;   (* a lookup misses in the empty snapshot *)
   Step 0 (EOuts [Reports [(7%N, ex_rec)]]);                (* the source answers *)
   Step 0 ENone; Step 0 (ENow 1%Z); Step 0 ENone; Step 0 ENone; Step 0 ENone;
   Spawn (CGet 7) (None); Step 2 ENone;                     (* a second reader loads the OLD snapshot *)
   Step 0 ENone;                                            (* Store *)
   Step 2 ENone; Step 2 ENone;                              (* ... and still misses in it *)
   Spawn CList None; Step 3 ENone; Step 3 ENone;            (* a listing sees the new one *)
   Step 0 ENone; Step 0 ENone;                              (* refreshes++, release *)
   Step 1 ENone; Step 1 ENone; Step 1 ENone; Step 1 ENone;  (* the first lookup: stored meanwhile *)
   Spawn (CGet 7) (Some 1); Step 4 ENone; Step 4 ENone; Step 4 ENone; Step 4 ENone].

Example ex_run :
  match LTS.run (stepf real_need_merge 500) (ginit false) ex_sched with
  | Some s =>
    slot s = None /\ length (hist s) = 2 /\ readp s = (2, 0) /\
    option_map t_pc (threads s 0) = Some (Fin (ResRefresh false)) /\
    option_map t_pc (threads s 1) = Some (Fin (ResGet (Some ex_rec))) /\
    option_map t_pc (threads s 2) = Some MTake /\
    option_map t_pc (threads s 4) = Some (Fin (ResGet (Some ex_rec))) /\
    option_map t_prev (threads s 4) = Some (Some 1)
  | None => False
  end.
Proof. vm_compute. repeat split; reflexivity. Qed.
