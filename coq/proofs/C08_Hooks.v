(* Part 3: block-hook calls of different sync sessions of one publisher never interleave
   (repaired code). *)
From Coq Require Import List Bool Arith Lia Permutation.
From Lib Require Import SyncSkel LTS.
From Model Require Import C08_AnnounceQueue.
From Proofs Require Import C08_Locks C08_AnnounceQueue.
Import ListNotations.
Local Open Scope nat_scope.

Definition prereport (p : pc) : bool :=
  match p with
  | WNext | WGet | WSwap | WSpawn | WRelease | GStart | GAcq | GTake | EGet
  | PLockS | PRead | PCmp | PHandle => true
  | _ => false
  end.

Definition tids (l : list (nat * nat * nat)) : list nat := map (fun x => fst (fst x)) l.

Lemma sess_of_cons_same t p a l : sess_of p ((t, p, a) :: l) = t :: sess_of p l.
Proof. unfold sess_of. cbn. rewrite Nat.eqb_refl. reflexivity. Qed.
Lemma sess_of_cons_other t p q a l : q <> p -> sess_of q ((t, p, a) :: l) = sess_of q l.
Proof. intro H. unfold sess_of. cbn. destruct (Nat.eqb_spec p q); [congruence|reflexivity]. Qed.
Lemma sess_of_tids t p l : In t (sess_of p l) -> In t (tids l).
Proof.
  unfold sess_of, tids. intro H. apply in_map_iff in H. destruct H as (x & E & Hx).
  apply filter_In in Hx. destruct Hx as [Hx _]. apply in_map_iff. exists x. auto.
Qed.

Lemma compress_subset x l : In x (compress l) -> In x l.
Proof.
  induction l as [|a r IH]; cbn; [auto|].
  destruct r as [|b r'].
  - cbn. auto.
  - destruct (Nat.eqb_spec a b).
    + intro H. right. apply IH. exact H.
    + intros [H|H]; [left; exact H|right; apply IH; exact H].
Qed.

Lemma compress_cons_same t r : compress (t :: t :: r) = compress (t :: r).
Proof. cbn [compress]. rewrite Nat.eqb_refl. reflexivity. Qed.

Lemma compress_cons_fresh t l : ~ In t l -> compress (t :: l) = t :: compress l.
Proof.
  intro H. destruct l as [|b r]; [reflexivity|].
  cbn [compress]. destruct (Nat.eqb_spec t b); [exfalso; apply H; left; congruence|reflexivity].
Qed.

Definition InvD (s : st) : Prop :=
  (forall x, In x (hooks s) -> fst (fst x) < next_tid s) /\
  (forall t th, threads s t = Some th -> prereport (t_pc th) = true -> ~ In t (tids (hooks s))) /\
  (forall t th, threads s t = Some th -> t_pc th = PReport ->
     (exists r, sess_of (t_pub th) (hooks s) = t :: r) \/ ~ In t (sess_of (t_pub th) (hooks s))) /\
  (forall p, NoDup (compress (sess_of p (hooks s)))).

Lemma invD_init : InvD init.
Proof.
  unfold InvD. split_all.
  - intros x [].
  - intros t th H _ [].
  - intros t th H Hp. apply init_thread in H. destruct H; subst. discriminate.
  - intro p. constructor.
Qed.

Lemma invD_step cap s l s' :
  InvA s -> InvB cap s -> InvD s -> stepf fixed cap s l = Some s' -> InvD s'.
Proof.
  intros A B D H. destruct A as (A1 & A2 & A3 & A4 & A5). pose proof B as B'. destruct_B B.
  destruct D as (D1 & D2 & D3 & D4).
  step_inv H; no_panic; unfold InvD; cbn_st; step_kind A2.
  all: split_all;
    [ (* D1 *)
      try (intros x Hx; cbn [In] in Hx; try (destruct Hx as [Hx|Hx]; [subst x; cbn; eapply A1; eauto|]);
           specialize (D1 _ Hx); lia)
    | (* D2 *)
      intros t0 th0 H0 Hp; thread_cases; cbn_st;
      try (pose proof (D2 _ _ Hth) as Is; rewrite Hpc in Is; cbn in Is);
      try (pose proof (D2 _ _ H0 Hp) as I0);
      try (rewrite Hpc in Hp); cbn in Hp; try discriminate Hp; use_impl;
      try assumption;
      try (intro Hin; apply in_map_iff in Hin; destruct Hin as (x & Ex & Hx); specialize (D1 _ Hx); lia);
      try (cbn [tids map fst In]; intros [Hin|Hin]; [congruence|contradiction])
    | (* D3 *)
      intros t0 th0 H0 Hp; thread_cases; cbn_st;
      try (pose proof (D3 _ _ H0 Hp) as I0);
      try (rewrite Hpc in Hp); cbn in Hp; try discriminate Hp;
      try assumption
    | (* D4 *)
      try exact D4 ].
  all: try (exact (D3 _ _ Hth Hpc)).
  all: try (right; intro Hin; apply sess_of_tids in Hin; eapply (D2 _ _ Hth); [rewrite Hpc; reflexivity|exact Hin]; fail).
  all: try (left; eexists; apply sess_of_cons_same; fail).
  all: try (destruct (Nat.eq_dec (t_pub th0) (t_pub th)) as [E|E];
            [ exfalso; apply H; eapply (smu_excl _ _ _ _ _ _ B' H0 Hth); [rewrite Hp; reflexivity|rewrite Hpc; reflexivity|exact E]
            | rewrite (sess_of_cons_other _ _ _ _ _ E); exact I0 ]; fail).
  all: intro p; destruct (Nat.eq_dec p (t_pub th)) as [E|E];
    [ subst p; rewrite sess_of_cons_same; destruct (D3 _ _ Hth Hpc) as [[r E]|N];
      [ rewrite E, compress_cons_same, <- E; apply D4
      | rewrite (compress_cons_fresh _ _ N); constructor; [|apply D4];
        intro Hc; apply compress_subset in Hc; contradiction ]
    | rewrite (sess_of_cons_other _ _ _ _ _ E); apply D4 ].
Qed.

Theorem invD_reach cap s : reach fixed cap s -> InvD s.
Proof.
  apply (invariant_reachable2 (stepf fixed cap) (fun s => InvA s /\ InvB cap s) InvD).
  - intros s0 R. split; [eapply invA_reach|eapply invB_reach]; exact R.
  - apply invD_init.
  - intros s0 l s1 [A B] D H. eapply invD_step; eauto.
Qed.

(* In the sequence of block-hook calls made for one publisher, the calls of each sync
   session are contiguous: the session sequence with consecutive repetitions removed
   has no repetition.  (Sessions are threads: each thread runs at most one sync.) *)
Theorem hooks_never_interleave cap s p :
  reach fixed cap s -> NoDup (compress (sess_of p (hooks s))).
Proof. intro R. destruct (invD_reach _ _ R) as (_ & _ & _ & D4). apply D4. Qed.

(* a hook call is made only by the thread that is inside handler.handle for that
   publisher, and no other thread is inside it at that moment *)
Theorem hook_call_inside_own_session cap s t ok s' a :
  reach fixed cap s -> stepo fixed cap s (Step t ok) = Some (s', Some (YHook a)) ->
  exists th, threads s t = Some th /\ in_session (t_pc th) = true /\
    forall t2 th2, threads s t2 = Some th2 -> in_session (t_pc th2) = true -> t_pub th2 = t_pub th -> t2 = t.
Proof.
  intros R H. cbn [stepo] in H. destruct (threads s t) as [th|] eqn:Hth; [|discriminate].
  exists th. split; [reflexivity|].
  assert (Hpc : t_pc th = PReport).
  { unfold step_thread in H. destruct (t_pc th); try discriminate H; try reflexivity;
    cbn [lockfix reffix fixed] in H;
    repeat match type of H with
    | context [let '(_, _) := ?x in _] => destruct x
    | context [match ?x with _ => _ end] =>
      lazymatch x with context [match _ with _ => _ end] => fail | _ => destruct x end
    end; try discriminate H; inversion H. }
  split; [rewrite Hpc; reflexivity|].
  intros t2 th2 H2 S2 E. eapply (one_sync_per_publisher cap s t2 t th2 th); eauto. rewrite Hpc. reflexivity.
Qed.
