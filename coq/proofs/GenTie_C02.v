(* GenTie_C02 -- dagsync/ipnisync/sync.go: fetchBlock (the block is committed to the store only
   after its digest was recomputed and found equal to the one in the CID; a block already held
   is not fetched) and the read opener of walkFetch (a block enters the traversal order only
   after fetchBlock and the local read succeeded), as regenerated from the Go source
   (gen/Gen_Funcs_ipnisync.v), against [fetch_block] of model/C02_FetchVerify.v. *)
From Coq Require Import ZArith NArith List Bool Lia String.
From Lib Require Import Bytes.
From Model Require Import C01_ChainSync C02_FetchVerify.
From Proofs Require Import GenTie_Lib.
From Gen Require Import Gen_Consts Gen_Funcs_prelude Gen_Funcs_ipnisync.
Import ListNotations.
Open Scope Z_scope.

Definition has_stmt (s : string) (tr : list string) : bool := existsb (String.eqb s) tr.
Definition commit_stmt : string := "err = committer(cidlink.Link{Cid: c})".

Section Fetch.
  Variables (CID LNK CTX RD WR LC LS CM : Type).
  Variables (commit : CM -> LNK -> option string) (mkl : CID -> LNK) (mklc : CTX -> LC).
  Variable opener : LS -> LC -> WR * CM * option string.
  Variables (ctx : CTX) (c : CID) (tee : RD) (lsys : LS).

  Definition go_verify (hash : list N) (sumerr : option string) (sum : list N) :=
    ipnisync_fetchBlock_verify_commit CID LNK CTX RD WR LC LS CM commit mkl mklc opener ctx c hash tee sumerr sum lsys.

  (* the committer runs iff the writer could be opened, the stream could be hashed, and the
     digest computed over the received bytes equals the digest in the CID; nil is returned only
     after a successful commit *)
  Theorem tie_fetchBlock_verify_commit : forall (hash : list N) (sumerr : option string) (sum : list N),
    match go_verify hash sumerr sum with
    | FReturn ret tr =>
        has_stmt commit_stmt tr =
          (isNone (snd (opener lsys (mklc ctx))) && isNone sumerr && Bytes.bytes_eqb hash sum)%bool /\
        (ret = "return nil"%string <->
           has_stmt commit_stmt tr = true /\ commit (snd (fst (opener lsys (mklc ctx)))) (mkl c) = None)
    | _ => False
    end.
  Proof.
    intros. unfold go_verify, ipnisync_fetchBlock_verify_commit.
    destruct (opener lsys (mklc ctx)) as [[w cm] e0]. cbn [fst snd].
    destruct e0; cbn [isNone negb andb].
    { split; [reflexivity|]. split; [discriminate|intros [H _]; discriminate H]. }
    destruct sumerr; cbn [isNone negb andb].
    { split; [reflexivity|]. split; [discriminate|intros [H _]; discriminate H]. }
    rewrite gen_bytes_eqb_eq. destruct (Bytes.bytes_eqb hash sum); cbn [negb].
    2:{ split; [reflexivity|]. split; [discriminate|intros [H _]; discriminate H]. }
    destruct (commit cm (mkl c)) eqn:E; cbn [isNone negb].
    - split; [reflexivity|]. split; [discriminate|intros [_ H]; discriminate H].
    - split; [reflexivity|]. split; [intros _; split; reflexivity|reflexivity].
  Qed.
End Fetch.

(* the model stores a fetched body iff it hashes to the CID that was asked for *)
Theorem model_fetch_block_stores : forall (body : Type) (hashes_to : body -> cid -> bool) links_of
    (resp : responder body) (reqs : list cid) (c : cid) (s : bstore body) (b : body),
  local_ok body hashes_to links_of s c = None -> resp (List.length reqs) = Some b ->
  fetch_block body hashes_to links_of resp reqs c s =
    if hashes_to b c then ((reqs ++ [c])%list, (c, b) :: s, Some b) else ((reqs ++ [c])%list, s, None).
Proof. intros. unfold fetch_block. rewrite H, H0. reflexivity. Qed.

(* a block that the local store already yields is not requested (fetchBlock returns at once) *)
Theorem tie_fetchBlock_present : forall (ND : Type) (isnil : ND -> bool) (n : ND) (err : option string),
  match ipnisync_fetchBlock_present ND isnil err n with
  | FReturn ret _ => ret = "return nil"%string /\ isnil n = false /\ err = None
  | FFall _ => isnil n = true \/ err <> None
  | _ => False
  end.
Proof.
  intros. unfold ipnisync_fetchBlock_present. destruct (isnil n), err; cbn; auto;
    try (right; discriminate).
Qed.

Theorem model_fetch_block_present : forall (body : Type) (hashes_to : body -> cid -> bool) links_of
    (resp : responder body) (reqs : list cid) (c : cid) (s : bstore body) (b : body),
  local_ok body hashes_to links_of s c = Some b ->
  fetch_block body hashes_to links_of resp reqs c s = (reqs, s, Some b).
Proof. intros. unfold fetch_block. rewrite H. reflexivity. Qed.

(* walkFetch's StorageReadOpener: the CID is appended to the traversal order (the order of the
   block-hook calls) exactly when fetchBlock and the read from the local store both succeeded *)
Theorem tie_walkFetch_opener : forall (CID RD : Type) (c : CID) (ferr rerr : option string) (r : RD) (order : list CID),
  match ipnisync_walkFetch_opener CID RD c ferr rerr r order with
  | FReturn _ (order', _) =>
      order' = if (isNone ferr && isNone rerr)%bool then (order ++ [c])%list else order
  | _ => False
  end.
Proof.
  intros. unfold ipnisync_walkFetch_opener. destruct ferr; cbn [isNone negb andb]; [reflexivity|].
  destruct rerr; reflexivity.
Qed.
