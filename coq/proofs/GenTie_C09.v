(* GenTie_C09 -- announce/string_lru.go and announce/receiver.go: the LRU update / remove
   procedures and the admission checks of the receiver, as regenerated from the Go source
   (gen/Gen_Funcs_announce.v), against model/Announce_Receiver.v. *)
From Coq Require Import ZArith NArith List Bool Lia String.
From Lib Require Import Bytes.
From Model Require Import Announce_Receiver.
From Proofs Require Import GenTie_Lib.
From Gen Require Import Gen_Consts Gen_Funcs_prelude Gen_Funcs_announce.
Import ListNotations.
Open Scope Z_scope.

(* what the recorded container/list and map statements do to the cache contents (most recently
   used first; the map mirrors the list, so map-only statements leave the contents alone) *)
Definition lru_stmt (c : N) (s : string) (l : list N) : list N :=
  if String.eqb s "l.ll.MoveToFront(elem)" then c :: removeN c l
  else if String.eqb s "l.ll.Remove(oldest)" then removelast l
  else if String.eqb s "l.cache[s] = l.ll.PushFront(s)" then c :: l
  else if String.eqb s "l.ll.Remove(elem)" then removeN c l
  else l.   (* oldest := l.ll.Back(); delete(l.cache, ...) *)

Definition lru_run (c : N) (tr : list string) (l : list N) : list N :=
  fold_left (fun acc s => lru_stmt c s acc) tr l.

(* stringLRU.update *)
Theorem tie_stringLRU_update : forall (E : Type) (elem : E) (cap : nat) (c : N) (l : list N),
  match announce_stringLRU_update E elem (len l) (memN c l) (Z.of_nat cap) with
  | FReturn ret tr =>
      ret = (if fst (lru_update cap c l) then "return true" else "return false")%string /\
      lru_run c tr l = snd (lru_update cap c l)
  | _ => False
  end.
Proof.
  intros. unfold announce_stringLRU_update, lru_update.
  destruct (memN c l); cbn [fst snd]; [split; reflexivity|].
  rewrite len_eqb_nat. destruct (Nat.eqb (List.length l) cap); split; reflexivity.
Qed.

(* stringLRU.remove *)
Theorem tie_stringLRU_remove : forall (E : Type) (elem : E) (c : N) (l : list N),
  match announce_stringLRU_remove E elem (memN c l) with
  | FReturn ret tr =>
      ret = (if memN c l then "return true" else "return false")%string /\
      (memN c l = true -> lru_run c tr l = lru_remove c l) /\ (memN c l = false -> tr = [])
  | _ => False
  end.
Proof.
  intros. unfold announce_stringLRU_remove. destruct (memN c l); cbn.
  - repeat split; try reflexivity; discriminate.
  - repeat split; try reflexivity; discriminate.
Qed.

Lemma removeN_notin : forall c l, memN c l = false -> removeN c l = l.
Proof.
  induction l as [|x r IH]; cbn; [reflexivity|]. destruct (c =? x)%N; cbn; [discriminate|].
  intro H. rewrite IH by exact H. reflexivity.
Qed.

(* ---- the admission checks of a direct announcement ---- *)
Definition err_of (ret : string) : option string :=
  if String.eqb ret "return errSourceNotAllowed" then Some announce_errSourceNotAllowed
  else if String.eqb ret "return ErrClosed" then Some announce_ErrClosed
  else if String.eqb ret "return errAlreadySeenCid" then Some announce_errAlreadySeenCid
  else None.

(* announceCheck then the head of handleAnnounce: the outcome of the call when it ends there *)
Definition go_front (T A : Type) (isnil : T -> bool) (allow : T) (allowed closed hit : bool)
           (addrs filtered : list A) (filter resend : bool) (rep : option string) : option outcome :=
  match announce_announceCheck T isnil allowed hit allow closed with
  | FReturn ret _ =>
    match announce_handleAnnounce_front A resend (err_of ret) rep addrs filtered filter with
    | FReturn r _ => if String.eqb r "return err" then Some RClosed else Some RNil
    | _ => None
    end
  | _ => None
  end.

Definition model_front (allowed closed hit : bool) : option outcome :=
  if negb allowed then Some RNil else if closed then Some RClosed else if hit then Some RNil else None.

(* seq_step's ODirect begins with exactly these three exits *)
Theorem seq_step_front : forall c s allowed a cancelled,
  match model_front allowed (closed s) (fst (lru_update (cap c) (a_cid a) (lru s))) with
  | Some o => exists s', seq_step c s (ODirect allowed a cancelled) = [(o, s')]
  | None => True
  end.
Proof.
  intros. unfold model_front, seq_step. destruct allowed; cbn [negb]; [|eexists; reflexivity].
  destruct (closed s); [eexists; reflexivity|].
  destruct (lru_update (cap c) (a_cid a) (lru s)) as [hit l']. cbn [fst].
  destruct hit; [eexists; reflexivity|exact I].
Qed.

Theorem tie_direct_front : forall (T A : Type) (isnil : T -> bool) (allow : T) (called closed hit : bool)
    (addrs filtered : list A) (filter resend : bool) (rep : option string),
  (* allowed = no allow-callback configured, or the callback said yes *)
  go_front T A isnil allow called closed hit addrs filtered filter resend rep
  = model_front (isnil allow || called) closed hit.
Proof.
  intros. unfold go_front, announce_announceCheck, model_front.
  destruct (isnil allow), called, closed, hit, filter, resend, rep; cbn [negb andb orb]; vm_compute; reflexivity.
Qed.

(* the addresses are filtered exactly when filterIPs is set (filter_addrs of the model) *)
Theorem handleAnnounce_filters : forall (A : Type) (addrs filtered : list A) (filter resend : bool) rep,
  match announce_handleAnnounce_front A resend None rep addrs filtered filter with
  | FFall tr => In "amsg.Addrs = mautil.FilterPublic(amsg.Addrs)"%string tr <-> filter = true
  | _ => False
  end.
Proof.
  intros. unfold announce_handleAnnounce_front. cbn [isNone negb].
  destruct filter, resend; cbn [app In]; try destruct rep; cbn [isNone negb app In]; split; intro H;
    try reflexivity; try discriminate;
    try (repeat (first [left; reflexivity | right]); fail);
    repeat (destruct H as [H|H]; try discriminate H); try contradiction.
Qed.
