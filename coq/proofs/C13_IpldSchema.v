(* Proofs about model/C13_IpldSchema.v: values survive value -> node -> value, in the
   schema's field order and in the encoder's sorted order; composition with the DAG-CBOR
   round trip; generic vs typed load. *)
From Lib Require Import Bytes Cid.
From Model Require Import C13_DagCbor C13_IpldSchema.
From Proofs Require Import C13_DagCbor.
From Coq Require Import Lia ZifyN ZifyNat ZifyBool ZArith.
Open Scope N_scope.

(* ---------------------------------------------------------------- *)
(* field access on maps without repeated keys                         *)

Lemma req_single {A} (conv : node -> res A) k m v x :
  occ k m = [v] -> conv v = Ok x -> req conv k m = Ok x.
Proof. intros Ho Hc. unfold req, opt. rewrite Ho. cbn [map_res]. rewrite Hc. reflexivity. Qed.
Lemma opt_single {A} (conv : node -> res A) k m v x :
  occ k m = [v] -> conv v = Ok x -> opt conv k m = Ok (Some x).
Proof. intros Ho Hc. unfold opt. rewrite Ho. cbn [map_res]. rewrite Hc. reflexivity. Qed.
Lemma opt_none {A} (conv : node -> res A) k m : occ k m = [] -> opt conv k m = Ok None.
Proof. intro Ho. unfold opt. rewrite Ho. reflexivity. Qed.
Lemma req_list_single {A} (conv : node -> res A) k m l xs :
  occ k m = [NList l] -> map_res conv l = Ok xs -> req_list conv k m = Ok xs.
Proof.
  intros Ho Hc. unfold req_list. rewrite Ho. cbn [map_res as_list]. rewrite Hc. cbn [bind List.concat].
  rewrite app_nil_r. reflexivity.
Qed.

Lemma map_res_map {A} (mk : A -> node) (conv : node -> res A) l :
  (forall x, conv (mk x) = Ok x) -> map_res conv (map mk l) = Ok l.
Proof.
  intro H. induction l as [|x l IH]; [reflexivity|]. cbn [map map_res]. rewrite H, IH. reflexivity.
Qed.

Lemma map_norm_leaf {A} (mk : A -> node) l : (forall x, norm (mk x) = mk x) -> map norm (map mk l) = map mk l.
Proof. intro H. rewrite map_map. apply map_ext. exact H. Qed.

(* ---------------------------------------------------------------- *)
(* value -> node -> value, schema order                               *)

Lemma prov_roundtrip p : node_to_prov (prov_to_node p) = Ok p.
Proof.
  unfold node_to_prov, prov_to_node.
  rewrite (req_single as_string kID _ (NString (p_id p)) (p_id p)) by reflexivity.
  rewrite (req_list_single as_string kAddresses _ (map NString (p_addrs p)) (p_addrs p))
    by (try reflexivity; apply map_res_map; reflexivity).
  rewrite (req_single as_bytes kMetadata _ (NBytes (p_meta p)) (p_meta p)) by reflexivity.
  rewrite (req_single as_bytes kSignature _ (NBytes (p_sig p)) (p_sig p)) by reflexivity.
  destruct p; reflexivity.
Qed.

Lemma ext_roundtrip x : node_to_ext (ext_to_node x) = Ok x.
Proof.
  unfold node_to_ext, ext_to_node.
  rewrite (req_list_single node_to_prov kProviders _ (map prov_to_node (x_provs x)) (x_provs x))
    by (try reflexivity; apply map_res_map; apply prov_roundtrip).
  rewrite (req_single as_bool kOverride _ (NBool (x_override x)) (x_override x)) by reflexivity.
  destruct x; reflexivity.
Qed.

Theorem ad_node_roundtrip_proved a : node_to_ad (ad_to_node a) = Ok a.
Proof.
  destruct a as [pv pr ad sg en cx md rm ex]. unfold node_to_ad, ad_to_node.
  cbn [a_prev a_provider a_addrs a_sig a_entries a_ctx a_meta a_isrm a_ext].
  destruct pv as [pv|], ex as [ex|]; cbn [option_map opt_field app];
    (rewrite (req_single as_string kProvider _ (NString pr) pr) by reflexivity);
    (rewrite (req_list_single as_string kAddresses _ (map NString ad) ad) by (try reflexivity; apply map_res_map; reflexivity));
    (rewrite (req_single as_bytes kSignature _ (NBytes sg) sg) by reflexivity);
    (rewrite (req_single as_link kEntries _ (NLink en) en) by reflexivity);
    (rewrite (req_single as_bytes kContextID _ (NBytes cx) cx) by reflexivity);
    (rewrite (req_single as_bytes kMetadata _ (NBytes md) md) by reflexivity);
    (rewrite (req_single as_bool kIsRm _ (NBool rm) rm) by reflexivity).
  - rewrite (opt_single as_link kPreviousID _ (NLink pv) pv) by reflexivity.
    rewrite (opt_single node_to_ext kExtendedProvider _ (ext_to_node ex) ex) by (try reflexivity; apply ext_roundtrip).
    reflexivity.
  - rewrite (opt_single as_link kPreviousID _ (NLink pv) pv) by reflexivity.
    rewrite (opt_none node_to_ext kExtendedProvider) by reflexivity. reflexivity.
  - rewrite (opt_none as_link kPreviousID) by reflexivity.
    rewrite (opt_single node_to_ext kExtendedProvider _ (ext_to_node ex) ex) by (try reflexivity; apply ext_roundtrip).
    reflexivity.
  - rewrite (opt_none as_link kPreviousID) by reflexivity.
    rewrite (opt_none node_to_ext kExtendedProvider) by reflexivity. reflexivity.
Qed.

Theorem chunk_node_roundtrip_proved c : node_to_chunk (chunk_to_node c) = Ok c.
Proof.
  destruct c as [es nx]. unfold node_to_chunk, chunk_to_node. cbn [c_entries c_next].
  destruct nx as [nx|]; cbn [option_map opt_field];
    (rewrite (req_list_single as_bytes kEntries _ (map NBytes es) es) by (try reflexivity; apply map_res_map; reflexivity)).
  - rewrite (opt_single as_link kNext _ (NLink nx) nx) by reflexivity. reflexivity.
  - rewrite (opt_none as_link kNext) by reflexivity. reflexivity.
Qed.

(* ---------------------------------------------------------------- *)
(* the same through the encoder's key order                           *)

Lemma prov_roundtrip_norm p : node_to_prov (norm (prov_to_node p)) = Ok p.
Proof.
  unfold prov_to_node. rewrite norm_map. unfold node_to_prov.
  assert (struct_check prov_fields (sort_entries (map norm_entry
            [(kID, NString (p_id p)); (kAddresses, NList (map NString (p_addrs p)));
             (kMetadata, NBytes (p_meta p)); (kSignature, NBytes (p_sig p))])) = Ok tt) as -> by reflexivity.
  cbn [bind].
  rewrite (req_single as_string kID _ (NString (p_id p)) (p_id p)) by reflexivity.
  rewrite (req_list_single as_string kAddresses _ (map norm (map NString (p_addrs p))) (p_addrs p))
    by (try reflexivity; rewrite map_norm_leaf by reflexivity; apply map_res_map; reflexivity).
  rewrite (req_single as_bytes kMetadata _ (NBytes (p_meta p)) (p_meta p)) by reflexivity.
  rewrite (req_single as_bytes kSignature _ (NBytes (p_sig p)) (p_sig p)) by reflexivity.
  destruct p; reflexivity.
Qed.

Lemma map_res_map_norm {A} (mk : A -> node) (conv : node -> res A) l :
  (forall x, conv (norm (mk x)) = Ok x) -> map_res conv (map norm (map mk l)) = Ok l.
Proof.
  intro H. induction l as [|x l IH]; [reflexivity|]. cbn [map map_res]. rewrite H, IH. reflexivity.
Qed.

Lemma ext_roundtrip_norm x : node_to_ext (norm (ext_to_node x)) = Ok x.
Proof.
  unfold ext_to_node. rewrite norm_map. unfold node_to_ext.
  assert (struct_check ext_fields (sort_entries (map norm_entry
            [(kProviders, NList (map prov_to_node (x_provs x))); (kOverride, NBool (x_override x))])) = Ok tt) as -> by reflexivity.
  cbn [bind].
  rewrite (req_list_single node_to_prov kProviders _ (map norm (map prov_to_node (x_provs x))) (x_provs x))
    by (try reflexivity; apply map_res_map_norm; apply prov_roundtrip_norm).
  rewrite (req_single as_bool kOverride _ (NBool (x_override x)) (x_override x)) by reflexivity.
  destruct x; reflexivity.
Qed.

Theorem ad_node_roundtrip_norm a : node_to_ad (norm (ad_to_node a)) = Ok a.
Proof.
  destruct a as [pv pr ad sg en cx md rm ex]. unfold ad_to_node.
  cbn [a_prev a_provider a_addrs a_sig a_entries a_ctx a_meta a_isrm a_ext].
  rewrite norm_map. unfold node_to_ad.
  destruct pv as [pv|], ex as [ex|]; cbn [option_map opt_field app];
    (match goal with |- context [struct_check ad_fields ?m] =>
       assert (struct_check ad_fields m = Ok tt) as -> by reflexivity end); cbn [bind];
    (rewrite (req_single as_string kProvider _ (NString pr) pr) by reflexivity);
    (rewrite (req_list_single as_string kAddresses _ (map norm (map NString ad)) ad)
       by (try reflexivity; rewrite map_norm_leaf by reflexivity; apply map_res_map; reflexivity));
    (rewrite (req_single as_bytes kSignature _ (NBytes sg) sg) by reflexivity);
    (rewrite (req_single as_link kEntries _ (NLink en) en) by reflexivity);
    (rewrite (req_single as_bytes kContextID _ (NBytes cx) cx) by reflexivity);
    (rewrite (req_single as_bytes kMetadata _ (NBytes md) md) by reflexivity);
    (rewrite (req_single as_bool kIsRm _ (NBool rm) rm) by reflexivity).
  - rewrite (opt_single as_link kPreviousID _ (NLink pv) pv) by reflexivity.
    rewrite (opt_single node_to_ext kExtendedProvider _ (norm (ext_to_node ex)) ex) by (try reflexivity; apply ext_roundtrip_norm).
    reflexivity.
  - rewrite (opt_single as_link kPreviousID _ (NLink pv) pv) by reflexivity.
    rewrite (opt_none node_to_ext kExtendedProvider) by reflexivity. reflexivity.
  - rewrite (opt_none as_link kPreviousID) by reflexivity.
    rewrite (opt_single node_to_ext kExtendedProvider _ (norm (ext_to_node ex)) ex) by (try reflexivity; apply ext_roundtrip_norm).
    reflexivity.
  - rewrite (opt_none as_link kPreviousID) by reflexivity.
    rewrite (opt_none node_to_ext kExtendedProvider) by reflexivity. reflexivity.
Qed.

Theorem chunk_node_roundtrip_norm c : node_to_chunk (norm (chunk_to_node c)) = Ok c.
Proof.
  destruct c as [es nx]. unfold chunk_to_node. cbn [c_entries c_next]. rewrite norm_map. unfold node_to_chunk.
  destruct nx as [nx|]; cbn [option_map opt_field];
    (match goal with |- context [struct_check chunk_fields ?m] =>
       assert (struct_check chunk_fields m = Ok tt) as -> by reflexivity end); cbn [bind];
    (rewrite (req_list_single as_bytes kEntries _ (map norm (map NBytes es)) es)
       by (try reflexivity; rewrite map_norm_leaf by reflexivity; apply map_res_map; reflexivity)).
  - rewrite (opt_single as_link kNext _ (NLink nx) nx) by reflexivity. reflexivity.
  - rewrite (opt_none as_link kNext) by reflexivity. reflexivity.
Qed.

(* ---------------------------------------------------------------- *)
(* well-formed values give well-formed nodes                          *)

Lemma wf_map_intro m :
  forallb wf_entry m = true -> has_dup_key m = false -> nlen m <= MaxInt -> wf_node (NMap m) = true.
Proof.
  intros H1 H2 H3.
  change (wf_node (NMap m)) with (forallb wf_entry m && negb (has_dup_key m) && (nlen m <=? MaxInt)).
  rewrite H1, H2. cbn [negb andb]. apply N.leb_le, H3.
Qed.

Lemma wf_entry_key k v :
  wf_bytes k && (blen k <=? MaxStr) = true -> wf_node v = true -> wf_entry (k, v) = true.
Proof. intros Hk Hv. unfold wf_entry. cbn [fst snd]. rewrite Hk, Hv. reflexivity. Qed.

Lemma wf_leaf_list {A} (mk : A -> node) (ok : A -> bool) l :
  (forall x, wf_node (mk x) = ok x) -> forallb ok l = true -> len_ok l = true -> wf_node (NList (map mk l)) = true.
Proof.
  intros H Hall Hlen. cbn [wf_node]. apply andb_true_intro. split.
  - rewrite forallb_forall in *. intros n Hn. apply in_map_iff in Hn as [x [<- Hx]]. rewrite H. apply Hall, Hx.
  - unfold len_ok, nlen in *. rewrite map_length. exact Hlen.
Qed.

Ltac split_and H :=
  repeat match type of H with
         | (_ && _ = true) => let H1 := fresh H in apply andb_prop in H as [H H1]
         end.

Lemma wf_prov_node p : wf_prov p = true -> wf_node (prov_to_node p) = true.
Proof.
  unfold wf_prov. intro H. apply andb_prop in H as [H H4]. apply andb_prop in H as [H H3].
  apply andb_prop in H as [H H2]. apply andb_prop in H as [H0 H1].
  unfold prov_to_node. apply wf_map_intro; [|reflexivity|unfold nlen, MaxInt; cbn [length]; lia].
  cbn [forallb]. rewrite !wf_entry_key; try reflexivity; try assumption.
  apply (wf_leaf_list NString str_ok); auto.
Qed.

Lemma wf_ext_node x : wf_ext x = true -> wf_node (ext_to_node x) = true.
Proof.
  unfold wf_ext. intro H. apply andb_prop in H as [H0 H1].
  unfold ext_to_node. apply wf_map_intro; [|reflexivity|unfold nlen, MaxInt; cbn [length]; lia].
  cbn [forallb]. rewrite !wf_entry_key; try reflexivity.
  cbn [wf_node]. apply andb_true_intro. split.
  - rewrite forallb_forall in *. intros n Hn. apply in_map_iff in Hn as [p [<- Hp]]. apply wf_prov_node, H0, Hp.
  - unfold len_ok, nlen in *. rewrite map_length. exact H1.
Qed.

Lemma wf_ad_node a : wf_ad a = true -> wf_node (ad_to_node a) = true.
Proof.
  destruct a as [pv pr ad sg en cx md rm ex]. unfold wf_ad, ad_to_node.
  cbn [a_prev a_provider a_addrs a_sig a_entries a_ctx a_meta a_isrm a_ext].
  intro H. apply andb_prop in H as [H H8]. apply andb_prop in H as [H H7]. apply andb_prop in H as [H H6].
  apply andb_prop in H as [H H5]. apply andb_prop in H as [H H4]. apply andb_prop in H as [H H3].
  apply andb_prop in H as [H H2]. apply andb_prop in H as [H0 H1].
  assert (wf_node (NList (map NString ad)) = true) as Hl by (apply (wf_leaf_list NString str_ok); auto).
  destruct pv as [pv|], ex as [ex|]; cbn [option_map opt_field app];
    (apply wf_map_intro; [|reflexivity|unfold nlen, MaxInt; cbn [length]; lia]);
    cbn [forallb]; rewrite !wf_entry_key; try reflexivity; try assumption; try (apply wf_ext_node; assumption).
Qed.

Lemma wf_chunk_node c : wf_chunk c = true -> wf_node (chunk_to_node c) = true.
Proof.
  destruct c as [es nx]. unfold wf_chunk, chunk_to_node. cbn [c_entries c_next].
  intro H. apply andb_prop in H as [H H2]. apply andb_prop in H as [H0 H1].
  assert (wf_node (NList (map NBytes es)) = true) as Hl by (apply (wf_leaf_list NBytes str_ok); auto).
  destruct nx as [nx|]; cbn [option_map opt_field];
    (apply wf_map_intro; [|reflexivity|unfold nlen, MaxInt; cbn [length]; lia]);
    cbn [forallb]; rewrite !wf_entry_key; try reflexivity; try assumption.
Qed.

(* ---------------------------------------------------------------- *)
(* bytes: value -> DAG-CBOR block -> value, through both load paths   *)

Theorem ad_bytes_roundtrip_cbor_proved a :
  wf_ad a = true ->
  typed_load_ad (ad_encode a) = Ok a /\
  (n <- generic_load (ad_encode a) ;; unwrap_ad n) = Ok a.
Proof.
  intro Hwf. pose proof (wf_ad_node a Hwf) as Hn. unfold typed_load_ad, generic_load, unwrap_ad, ad_encode. split.
  - rewrite decode_lax_encode by exact Hn. cbn [bind]. apply ad_node_roundtrip_norm.
  - rewrite dagcbor_roundtrip_proved by exact Hn. cbn [bind]. apply ad_node_roundtrip_norm.
Qed.

Theorem chunk_bytes_roundtrip_cbor_proved c :
  wf_chunk c = true ->
  typed_load_chunk (chunk_encode c) = Ok c /\
  (n <- generic_load (chunk_encode c) ;; unwrap_chunk n) = Ok c.
Proof.
  intro Hwf. pose proof (wf_chunk_node c Hwf) as Hn. unfold typed_load_chunk, generic_load, unwrap_chunk, chunk_encode. split.
  - rewrite decode_lax_encode by exact Hn. cbn [bind]. apply chunk_node_roundtrip_norm.
  - rewrite dagcbor_roundtrip_proved by exact Hn. cbn [bind]. apply chunk_node_roundtrip_norm.
Qed.

(* ---------------------------------------------------------------- *)
(* generic load + unwrap vs typed load                                *)

(* whenever the generic prototype accepts a block, the typed prototype gives exactly what
   unwrapping the generic node gives (value or error) *)
Theorem generic_eq_typed_proved b n :
  generic_load b = Ok n ->
  typed_load_ad b = unwrap_ad n /\ typed_load_chunk b = unwrap_chunk n.
Proof.
  unfold generic_load. intro H. apply decode_ok_lax in H as [H _].
  unfold typed_load_ad, typed_load_chunk, unwrap_ad, unwrap_chunk. rewrite H. split; reflexivity.
Qed.

(* the converse fails: bindnode's struct assembler accepts a repeated field, basicnode's map
   does not.  {"Entries":[h'01'],"Entries":[h'02',h'03']} *)
From Coq Require Import String.
Definition dup_block : bytes := unhex "a267456e747269657381410167456e74726965738241024103"%string.
Theorem typed_accepts_repeated_field_proved :
  (exists c, generic_load dup_block = Err c) /\
  typed_load_chunk dup_block = Ok {| c_entries := [[1]; [2]; [3]]; c_next := None |}.
Proof. split; [exists EDupKey|]; vm_compute; reflexivity. Qed.

(* ---------------------------------------------------------------- *)
(* same value => same block => same CID; different values => different blocks *)

Theorem ad_encode_injective a1 a2 :
  wf_ad a1 = true -> wf_ad a2 = true -> ad_encode a1 = ad_encode a2 -> a1 = a2.
Proof.
  intros H1 H2 E. destruct (ad_bytes_roundtrip_cbor_proved a1 H1) as [R1 _].
  destruct (ad_bytes_roundtrip_cbor_proved a2 H2) as [R2 _]. rewrite E, R2 in R1. inversion R1. reflexivity.
Qed.
Theorem chunk_encode_injective c1 c2 :
  wf_chunk c1 = true -> wf_chunk c2 = true -> chunk_encode c1 = chunk_encode c2 -> c1 = c2.
Proof.
  intros H1 H2 E. destruct (chunk_bytes_roundtrip_cbor_proved c1 H1) as [R1 _].
  destruct (chunk_bytes_roundtrip_cbor_proved c2 H2) as [R2 _]. rewrite E, R2 in R1. inversion R1. reflexivity.
Qed.

Section Cids.
  (* any hash function; a CID of a block = (codec, hash of the bytes) *)
  Variable H : bytes -> bytes.
  Definition block_cid (codec : N) (b : bytes) : N * bytes := (codec, H b).

  Theorem encode_deterministic_proved (a1 a2 : ad) (c1 c2 : chunk) codec :
    (a1 = a2 -> block_cid codec (ad_encode a1) = block_cid codec (ad_encode a2)) /\
    (c1 = c2 -> block_cid codec (chunk_encode c1) = block_cid codec (chunk_encode c2)) /\
    ((forall x y, H x = H y -> x = y) ->
       (wf_ad a1 = true -> wf_ad a2 = true ->
          block_cid codec (ad_encode a1) = block_cid codec (ad_encode a2) -> a1 = a2) /\
       (wf_chunk c1 = true -> wf_chunk c2 = true ->
          block_cid codec (chunk_encode c1) = block_cid codec (chunk_encode c2) -> c1 = c2)).
  Proof.
    split; [intros ->; reflexivity|]. split; [intros ->; reflexivity|].
    intro Hinj. split; intros W1 W2 E; unfold block_cid in E; inversion E as [E'].
    - apply ad_encode_injective; auto.
    - apply chunk_encode_injective; auto.
  Qed.
End Cids.
