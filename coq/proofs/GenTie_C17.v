(* GenTie_C17 -- pcache/provider_cache.go GetResults: the two loops that expand chain-level and
   context-level extended providers, as regenerated from the Go source
   (gen/Gen_Funcs_pcache.v), compute the model's [expand] (model/C17_GetResults.v). *)
From Coq Require Import ZArith NArith List Bool Lia String.
From Lib Require Import Bytes.
From Model Require Import C17_GetResults.
From Proofs Require Import GenTie_Lib.
From Gen Require Import Gen_Consts Gen_Funcs_prelude Gen_Funcs_pcache.
Import ListNotations.
Open Scope Z_scope.

(* reading: a peer ID is the one-element byte string of its number (any injective naming);
   a result is compared by context ID, metadata CONTENT and provider (Go's nil / empty
   distinction of the metadata is the subject of the correspondence cases, not of this tie) *)
Definition pid_bytes (n : N) : list N := [n].
Definition view := (list N * list N * addrinfo)%type.
Definition view_of (r : result) : view := (pr_ctx r, mcontent (pr_md r), pr_prov r).
Definition mk_view (c x : list N) (p : addrinfo) : view := (c, x, p).

Lemma md_at_content : forall (mds : list mbytes) (i : nat),
  mcontent (md_at mds i) =
  if Z.of_nat i <? len (map mcontent mds) then nth i (map mcontent mds) [] else [].
Proof.
  intros. unfold md_at, len. rewrite map_length.
  destruct (Z.ltb_spec (Z.of_nat i) (Z.of_nat (List.length mds))).
  - assert (Hi : (i < List.length mds)%nat) by lia.
    destruct (nth_error mds i) as [m|] eqn:E.
    + change [] with (mcontent None). rewrite map_nth. f_equal. symmetry. apply nth_error_nth. exact E.
    + apply nth_error_None in E. lia.
  - destruct (nth_error mds i) as [m|] eqn:E; [|reflexivity].
    assert (nth_error mds i <> None) by congruence. apply nth_error_Some in H0. lia.
Qed.

Lemma mempty_len (m : mbytes) : mempty m = (len (mcontent m) =? 0).
Proof. destruct m as [b|]; [destruct b|]; reflexivity. Qed.

Section Loop.
  Variables (pid : N) (ctx : bytes) (md : mbytes) (mds : list mbytes).
  Variable k : list view -> frag (list view).

  Lemma chain_loop_expand : forall (provs : list addrinfo) (i : nat) (acc : list view),
    pcache_GetResults_chain_loop_loop_1 view addrinfo (fun p => pid_bytes (ai_id p)) mk_view
      (pid_bytes pid) ctx (mcontent md) (map mcontent mds) k provs (Z.of_nat i) acc
    = k (acc ++ map view_of (expand pid ctx md provs mds i))%list.
  Proof.
    induction provs as [|p ps IH]; intros i acc; cbn [pcache_GetResults_chain_loop_loop_1 expand map].
    - rewrite app_nil_r. reflexivity.
    - pose proof (md_at_content mds i) as Hmd. unfold bytes in *.
      destruct (Z.of_nat i <? @len (list N) (@map mbytes (list N) mcontent mds)) eqn:Ei.
      + replace (0 <=? Z.of_nat i) with true by (symmetry; apply Z.leb_le; lia).
        cbn [andb negb]. rewrite Nat2Z.id. rewrite <- Hmd.
        rewrite <- mempty_len. unfold pid_bytes at 1 2. cbn [Gen_Funcs_prelude.bytes_eqb]. rewrite andb_true_r.
        unfold mequal. rewrite gen_bytes_eqb_eq.
        replace (Z.of_nat i + 1) with (Z.of_nat (S i)) by lia.
        destruct ((ai_id p =? pid)%N && (mempty (md_at mds i) || Bytes.bytes_eqb (mcontent (md_at mds i)) (mcontent md))).
        * apply IH.
        * rewrite IH. cbn [map]. rewrite <- app_assoc. cbn [app]. unfold view_of at 2, mk_view. cbn [pr_ctx pr_md pr_prov].
          destruct (mempty (md_at mds i)); reflexivity.
      + assert (Hc : mcontent (md_at mds i) = []) by exact Hmd.
        assert (He : mempty (md_at mds i) = true) by (rewrite mempty_len, Hc; reflexivity).
        rewrite He. change (len (@nil N) =? 0) with true. cbn [orb].
        unfold pid_bytes at 1 2. cbn [Gen_Funcs_prelude.bytes_eqb]. rewrite !andb_true_r.
        replace (Z.of_nat i + 1) with (Z.of_nat (S i)) by lia.
        destruct (ai_id p =? pid)%N.
        * apply IH.
        * rewrite IH. cbn [map]. rewrite <- app_assoc. reflexivity.
  Qed.
End Loop.

(* chain-level extended providers (extended.Providers / extended.Metadatas) *)
Theorem tie_GetResults_chain_loop : forall pid ctx md provs mds (acc : list view),
  pcache_GetResults_chain_loop view addrinfo (fun p => pid_bytes (ai_id p)) mk_view
     (pid_bytes pid) ctx (mcontent md) (map mcontent mds) provs acc
  = FFall (acc ++ map view_of (expand pid ctx md provs mds 0))%list.
Proof.
  intros. unfold pcache_GetResults_chain_loop. apply (chain_loop_expand pid ctx md mds _ provs 0%nat acc).
Qed.

Section LoopCtx.
  Variables (pid : N) (ctx : bytes) (md : mbytes) (mds : list mbytes).
  Variable k : list view -> frag (list view).

  Lemma ctx_loop_expand : forall (provs : list addrinfo) (i : nat) (acc : list view),
    pcache_GetResults_ctx_loop_loop_1 view addrinfo (fun p => pid_bytes (ai_id p)) mk_view
      (pid_bytes pid) ctx (mcontent md) (map mcontent mds) k provs (Z.of_nat i) acc
    = k (acc ++ map view_of (expand pid ctx md provs mds i))%list.
  Proof.
    induction provs as [|p ps IH]; intros i acc; cbn [pcache_GetResults_ctx_loop_loop_1 expand map].
    - rewrite app_nil_r. reflexivity.
    - pose proof (md_at_content mds i) as Hmd. unfold bytes in *.
      destruct (Z.of_nat i <? @len (list N) (@map mbytes (list N) mcontent mds)) eqn:Ei.
      + replace (0 <=? Z.of_nat i) with true by (symmetry; apply Z.leb_le; lia).
        cbn [andb negb]. rewrite Nat2Z.id. rewrite <- Hmd.
        rewrite <- mempty_len. unfold pid_bytes at 1 2. cbn [Gen_Funcs_prelude.bytes_eqb]. rewrite andb_true_r.
        unfold mequal. rewrite gen_bytes_eqb_eq.
        replace (Z.of_nat i + 1) with (Z.of_nat (S i)) by lia.
        destruct ((ai_id p =? pid)%N && (mempty (md_at mds i) || Bytes.bytes_eqb (mcontent (md_at mds i)) (mcontent md))).
        * apply IH.
        * rewrite IH. cbn [map]. rewrite <- app_assoc. cbn [app]. unfold view_of at 2, mk_view. cbn [pr_ctx pr_md pr_prov].
          destruct (mempty (md_at mds i)); reflexivity.
      + assert (Hc : mcontent (md_at mds i) = []) by exact Hmd.
        assert (He : mempty (md_at mds i) = true) by (rewrite mempty_len, Hc; reflexivity).
        rewrite He. change (len (@nil N) =? 0) with true. cbn [orb].
        unfold pid_bytes at 1 2. cbn [Gen_Funcs_prelude.bytes_eqb]. rewrite !andb_true_r.
        replace (Z.of_nat i + 1) with (Z.of_nat (S i)) by lia.
        destruct (ai_id p =? pid)%N.
        * apply IH.
        * rewrite IH. cbn [map]. rewrite <- app_assoc. reflexivity.
  Qed.
End LoopCtx.

(* context-level extended providers (ctxExtended.providers / ctxExtended.metadatas) *)
Theorem tie_GetResults_ctx_loop : forall pid ctx md provs mds (acc : list view),
  pcache_GetResults_ctx_loop view addrinfo (fun p => pid_bytes (ai_id p)) mk_view
     (pid_bytes pid) ctx (mcontent md) (map mcontent mds) provs acc
  = FFall (acc ++ map view_of (expand pid ctx md provs mds 0))%list.
Proof.
  intros. unfold pcache_GetResults_ctx_loop. apply (ctx_loop_expand pid ctx md mds _ provs 0%nat acc).
Qed.
