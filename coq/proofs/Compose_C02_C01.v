(* C02 over an HONEST publisher is C01: if every answer is the genuine body of the requested
   block, C02's fwalk / fhandle compute exactly C01's walk / handle (same order, same
   requests, the C01 store with the bodies attached), for every segment size. *)
From Lib Require Import Bytes.
From Model Require Import C01_ChainSync C02_FetchVerify.
From Proofs Require Import C01_ChainSync C02_FetchVerify.
From Coq Require Import Lia.
Open Scope N_scope.

Section Honest.
Variable body : Type.
Variable hashes_to : body -> cid -> bool.
Variable links_of : body -> option (list edge).
Variable w : world.
Variable content : cid -> body.                      (* the genuine body of a block *)
Hypothesis Hhash : forall c, hashes_to (content c) c = true.
Hypothesis Hlinks : forall c, links_of (content c) = dag_get (w_dag w) c.
Variable verifiable : cid -> bool.                   (* the hash function a CID names is available *)
Hypothesis Hver : forall c, verifiable c = true.

Notation bget := (bget body).
Notation local_ok := (local_ok body hashes_to links_of).
Notation fetch_block := (fetch_block body hashes_to links_of).
Notation fwalk := (fwalk body hashes_to links_of verifiable).
Notation fwalk_kids := (fwalk_kids body hashes_to links_of verifiable).

(* what an honest publisher answers when asked for c *)
Definition genuine (c : cid) : option body :=
  match dag_get (w_dag w) c with
  | Some _ => if memb c (w_pub w) then Some (content c) else None
  | None => None
  end.

(* every request listed in L is answered honestly *)
Definition honest_on (resp : responder body) (L : list cid) : Prop :=
  forall i x, nth_error L i = Some x -> resp i = genuine x.

(* the C01 store with the bodies attached *)
Definition attach (s : list cid) : bstore body := map (fun c => (c, content c)) s.

(* stored blocks are blocks of the world *)
Definition store_wf (s : list cid) : bool :=
  forallb (fun c => C02_FetchVerify.is_some (dag_get (w_dag w) c)) s.

Definition conv_res (r : wres) : fres :=
  match r with WOk => FOk | WMissing c => FBad c | WFuel => FFuel end.

Definition conv_hout (o : hout) : fhout body :=
  FHO body (h_hooks o) (h_reqs o) (attach (h_store o)) (h_count o) (option_map conv_res (h_err o)).

Lemma bget_attach s c : bget (attach s) c = if memb c s then Some (content c) else None.
Proof.
  induction s as [|k r IH]; [reflexivity|]. cbn [attach map C02_FetchVerify.bget]. fold (attach r).
  rewrite memb_cons, N.eqb_sym. destruct (c =? k) eqn:E; [apply N.eqb_eq in E; subst; reflexivity|exact IH].
Qed.

Lemma store_wf_In s c : store_wf s = true -> memb c s = true -> exists es, dag_get (w_dag w) c = Some es.
Proof.
  unfold store_wf. rewrite forallb_forall. intros H M. apply memb_In in M. specialize (H c M).
  destruct (dag_get (w_dag w) c); [eauto|discriminate].
Qed.

Lemma local_ok_attach s c :
  store_wf s = true -> local_ok (attach s) c = if memb c s then Some (content c) else None.
Proof.
  intro W. unfold C02_FetchVerify.local_ok. rewrite bget_attach.
  destruct (memb c s) eqn:M; [|reflexivity].
  rewrite Hhash, Hlinks. destruct (store_wf_In s c W M) as [es ->]. reflexivity.
Qed.

(* fetchBlock against an honest answer is C01's load *)
Lemma fetch_honest resp reqs c s :
  store_wf s = true -> (memb c s = false -> resp (length reqs) = genuine c) ->
  fetch_block resp reqs c (attach s) =
  match load w c s with
  | Some (es, req) => (if req then reqs ++ [c] else reqs, attach (if req then c :: s else s), Some (content c))
  | None => (reqs ++ [c], attach s, None)
  end /\
  (load w c s = None -> memb c s = false).
Proof.
  intros W H. unfold C02_FetchVerify.fetch_block, load. rewrite (local_ok_attach s c W).
  destruct (memb c s) eqn:M.
  - destruct (store_wf_In s c W M) as [es ->]. split; [reflexivity|discriminate].
  - rewrite (H eq_refl). unfold genuine. destruct (dag_get (w_dag w) c) as [es|]; [|split; reflexivity].
    destruct (memb c (w_pub w)); [|split; reflexivity]. rewrite Hhash. split; [reflexivity|discriminate].
Qed.

Lemma walk_kids_reqs f v stop lim : forall l acc,
  exists t, o_reqs (walk_kids f w v stop lim l acc) = o_reqs acc ++ t.
Proof.
  induction l as [|e r IH]; intro acc; [exists []; cbn; now rewrite app_nil_r|].
  cbn [walk_kids]. destruct (is_stop stop e || negb (deeper lim)); [apply IH|].
  set (o := walk f w v stop (dec_lim lim) e (o_store acc)).
  destruct (o_res o).
  - destruct (IH (WO (o_order acc ++ o_order o) (o_reqs acc ++ o_reqs o) (o_store o) WOk)) as [t Ht].
    exists (o_reqs o ++ t). rewrite Ht. cbn. now rewrite app_assoc.
  - exists (o_reqs o). reflexivity.
  - exists (o_reqs o). reflexivity.
Qed.

Lemma honest_prefix resp (a t : list cid) : honest_on resp (a ++ t) -> honest_on resp a.
Proof.
  intros H i x Hn. apply H. rewrite nth_error_app1; [exact Hn|]. apply nth_error_Some. rewrite Hn. discriminate.
Qed.

(* ---- the walk ---- *)

Theorem honest_fwalk_is_walk_proved resp v stop : forall fuel lim c reqs s,
  store_wf s = true ->
  let o := walk fuel w v stop lim c s in
  honest_on resp (reqs ++ o_reqs o) ->
  fwalk fuel resp v stop lim c reqs (attach s) =
    FO body (o_order o) (reqs ++ o_reqs o) (attach (o_store o)) (conv_res (o_res o)) /\
  store_wf (o_store o) = true.
Proof.
  induction fuel as [|f IH]; intros lim c reqs s W o Hh.
  - cbn in *. rewrite app_nil_r. split; [reflexivity|exact W].
  - subst o. rewrite fwalk_unfold, Hver. cbn [negb]. rewrite walk_unfold in *.
    assert (Hreq : memb c s = false -> load w c s <> None \/ True -> resp (length reqs) = genuine c).
    { intros M _. destruct (load w c s) as [[es req]|] eqn:L.
      - assert (req = true).
        { unfold load in L. destruct (dag_get (w_dag w) c); [|discriminate]. rewrite M in L.
          destruct (memb c (w_pub w)); inversion L; reflexivity. }
        subst req.
        pose proof (walk_kids_reqs f v stop lim (follow v es) (WO [c] [c] (c :: s) WOk)) as [t Ht].
        cbn [o_reqs] in Ht. rewrite Ht in Hh.
        apply (Hh (length reqs) c). rewrite nth_error_app2, Nat.sub_diag by lia. reflexivity.
      - cbn [o_reqs] in Hh. rewrite M in Hh.
        apply (Hh (length reqs) c). rewrite nth_error_app2, Nat.sub_diag by lia. reflexivity. }
    destruct (fetch_honest resp reqs c s W (fun M => Hreq M (or_intror I))) as [F Fn]. rewrite F. clear F.
    destruct (load w c s) as [[es req]|] eqn:L.
    + (* the block is there: its links are the world's *)
      assert (G : dag_get (w_dag w) c = Some es).
      { unfold load in L. destruct (dag_get (w_dag w) c) as [es'|]; [|discriminate].
        destruct (memb c s); [inversion L; reflexivity|]. destruct (memb c (w_pub w)); inversion L; reflexivity. }
      rewrite Hlinks, G.
      set (s1 := if req then c :: s else s) in *.
      assert (W1 : store_wf s1 = true).
      { unfold s1. destruct req; [|exact W]. cbn. rewrite G. exact W. }
      assert (K : forall l acc,
        store_wf (o_store acc) = true -> o_res acc = WOk ->
        let o := walk_kids f w v stop lim l acc in
        honest_on resp (reqs ++ o_reqs o) ->
        fwalk_kids f resp v stop lim l (FO body (o_order acc) (reqs ++ o_reqs acc) (attach (o_store acc)) FOk) =
          FO body (o_order o) (reqs ++ o_reqs o) (attach (o_store o)) (conv_res (o_res o)) /\
        store_wf (o_store o) = true).
      { induction l as [|e r IHl]; intros acc Wa Ra o Ho.
        - subst o. cbn. rewrite Ra. split; [reflexivity|exact Wa].
        - subst o. cbn [walk_kids C02_FetchVerify.fwalk_kids] in *.
          destruct (is_stop stop e || negb (deeper lim)); [apply IHl; assumption|].
          cbn [f_reqs f_store f_order].
          set (sub := walk f w v stop (dec_lim lim) e (o_store acc)) in *.
          (* the final request list extends this sub-walk's *)
          assert (Hsub : honest_on resp ((reqs ++ o_reqs acc) ++ o_reqs sub)).
          { destruct (o_res sub) eqn:R.
            - destruct (walk_kids_reqs f v stop lim r (WO (o_order acc ++ o_order sub) (o_reqs acc ++ o_reqs sub) (o_store sub) WOk)) as [t Ht].
              rewrite Ht in Ho. cbn [o_reqs] in Ho. rewrite <- app_assoc, app_assoc in Ho.
              rewrite <- app_assoc. rewrite <- !app_assoc in Ho. rewrite !app_assoc in Ho.
              eapply honest_prefix. rewrite <- !app_assoc in *. exact Ho.
            - cbn [o_reqs] in Ho. rewrite <- app_assoc. exact Ho.
            - cbn [o_reqs] in Ho. rewrite <- app_assoc. exact Ho. }
          destruct (IH (dec_lim lim) e (reqs ++ o_reqs acc) (o_store acc) Wa Hsub) as [E Ws]. fold sub in E, Ws.
          rewrite E. cbn [f_res f_order f_reqs f_store].
          destruct (o_res sub) eqn:R; cbn [conv_res].
          + specialize (IHl (WO (o_order acc ++ o_order sub) (o_reqs acc ++ o_reqs sub) (o_store sub) WOk) Ws eq_refl).
            cbn [o_order o_reqs o_store] in IHl. rewrite <- app_assoc. apply IHl. exact Ho.
          + cbn. rewrite <- app_assoc. split; [reflexivity|exact Ws].
          + cbn. rewrite <- app_assoc. split; [reflexivity|exact Ws]. }
      specialize (K (follow v es) (WO [c] (if req then [c] else []) s1 WOk) W1 eq_refl).
      cbn [o_order o_reqs o_store] in K.
      assert (Er : (if req then reqs ++ [c] else reqs) = reqs ++ (if req then [c] else [])).
      { destruct req; [reflexivity|now rewrite app_nil_r]. }
      rewrite Er. apply K. exact Hh.
    + cbn [o_order o_reqs o_store o_res conv_res]. rewrite (Fn eq_refl). split; [reflexivity|exact W].
Qed.

(* every block of the traversal order is stored afterwards (any world, any outcome) *)
Lemma walk_order_stored v stop : forall fuel lim c s,
  let o := walk fuel w v stop lim c s in
  (forall x, memb x s = true -> memb x (o_store o) = true) /\
  (forall x, In x (o_order o) -> memb x (o_store o) = true).
Proof.
  induction fuel as [|f IH]; intros lim c s; [cbn; split; [auto|contradiction]|].
  cbv zeta. rewrite walk_unfold. destruct (load w c s) as [[es req]|] eqn:L; [|cbn; split; [auto|contradiction]].
  assert (Hc : memb c (if req then c :: s else s) = true).
  { destruct req; [rewrite memb_cons, N.eqb_refl; reflexivity|].
    unfold load in L. destruct (dag_get (w_dag w) c); [|discriminate]. destruct (memb c s); [reflexivity|].
    destruct (memb c (w_pub w)); discriminate. }
  assert (Hm : forall x, memb x s = true -> memb x (if req then c :: s else s) = true).
  { intros x Hx. destruct req; [rewrite memb_cons, Hx; apply orb_true_r|exact Hx]. }
  assert (K : forall l acc,
    (forall x, memb x s = true -> memb x (o_store acc) = true) ->
    (forall x, In x (o_order acc) -> memb x (o_store acc) = true) ->
    let o := walk_kids f w v stop lim l acc in
    (forall x, memb x s = true -> memb x (o_store o) = true) /\
    (forall x, In x (o_order o) -> memb x (o_store o) = true)).
  { induction l as [|e r IHl]; intros acc A B; [cbn; auto|].
    cbn [walk_kids]. destruct (is_stop stop e || negb (deeper lim)); [apply IHl; assumption|].
    destruct (IH (dec_lim lim) e (o_store acc)) as [M O].
    set (sub := walk f w v stop (dec_lim lim) e (o_store acc)) in *.
    assert (A' : forall x, memb x s = true -> memb x (o_store sub) = true) by (intros x Hx; apply M, A, Hx).
    assert (B' : forall x, In x (o_order acc ++ o_order sub) -> memb x (o_store sub) = true).
    { intros x Hx. apply in_app_or in Hx as [Hx|Hx]; [apply M, B, Hx|apply O, Hx]. }
    destruct (o_res sub); try (cbn; split; assumption). apply IHl; cbn; assumption. }
  apply K; cbn; [exact Hm|]. intros x [<-|[]]. exact Hc.
Qed.

(* ---- handler.handle ---- *)

Notation fhandle_plain := (fhandle_plain body hashes_to links_of verifiable).
Notation fseg_loop := (fseg_loop body hashes_to links_of verifiable).
Notation fhandle := (fhandle body hashes_to links_of verifiable).

Lemma honest_handle_plain resp v stop lim h c s :
  store_wf s = true ->
  honest_on resp (h_reqs (handle_plain w v stop lim h c s)) ->
  fhandle_plain (walk_fuel w) resp v stop lim h c [] (attach s) = conv_hout (handle_plain w v stop lim h c s).
Proof.
  intros W Hh. unfold C02_FetchVerify.fhandle_plain, handle_plain in *.
  assert (Hh' : honest_on resp ([] ++ o_reqs (walk (walk_fuel w) w v stop lim c s))).
  { cbn [app]. destruct (o_res (walk (walk_fuel w) w v stop lim c s)); exact Hh. }
  destruct (honest_fwalk_is_walk_proved resp v stop (walk_fuel w) lim c [] s W Hh') as [E _].
  rewrite E. cbn [app f_res f_order f_reqs f_store].
  destruct (o_res (walk (walk_fuel w) w v stop lim c s)); reflexivity.
Qed.

Lemma fnominated_attach s h order :
  store_wf s = true -> (forall x, In x order -> memb x s = true) ->
  fnominated body links_of (attach s) h order = nominated w h order.
Proof.
  intros W Hin. unfold fnominated, nominated. destruct h; try reflexivity.
  destruct (rev order) as [|lastc r] eqn:R; [reflexivity|].
  assert (M : memb lastc s = true).
  { apply Hin. apply in_rev. rewrite R. left. reflexivity. }
  rewrite bget_attach, M, Hlinks. unfold chain_link. destruct (dag_get (w_dag w) lastc); reflexivity.
Qed.

Lemma seg_loop_reqs v stop orig segdl h : forall fuel nd dsf next acc,
  exists t, h_reqs (seg_loop fuel w v stop orig segdl h nd dsf next acc) = h_reqs acc ++ t.
Proof.
  induction fuel as [|f IH]; intros nd dsf next acc; [exists []; cbn; now rewrite app_nil_r|].
  cbn [seg_loop]. set (o := walk (walk_fuel w) w v stop (Some nd) next (h_store acc)).
  destruct (o_res o); try (exists (o_reqs o); reflexivity).
  set (acc' := HO (h_hooks acc ++ o_order o) (h_reqs acc ++ o_reqs o) (o_store o) (h_count acc + length (o_order o)) None).
  assert (Base : exists t, h_reqs acc' = h_reqs acc ++ t) by (exists (o_reqs o); reflexivity).
  destruct (nominated w h (o_order o)) as [n|]; [|exact Base].
  destruct (is_stop stop n); [exact Base|].
  assert (Rec : forall nd' dsf', exists t, h_reqs (seg_loop f w v stop orig segdl h nd' dsf' n acc') = h_reqs acc ++ t).
  { intros nd' dsf'. destruct (IH nd' dsf' n acc') as [t Ht]. exists (o_reqs o ++ t). rewrite Ht. cbn. now rewrite app_assoc. }
  destruct orig as [D|]; [|apply Rec]. destruct (D <=? dsf + nd)%nat; [exact Base|apply Rec].
Qed.

Lemma honest_seg_loop resp v stop orig segdl h : forall fuel nd dsf next acc,
  store_wf (h_store acc) = true -> h_err acc = None ->
  honest_on resp (h_reqs (seg_loop fuel w v stop orig segdl h nd dsf next acc)) ->
  fseg_loop fuel (walk_fuel w) resp v stop orig segdl h nd dsf next (conv_hout acc) =
  conv_hout (seg_loop fuel w v stop orig segdl h nd dsf next acc).
Proof.
  induction fuel as [|f IH]; intros nd dsf next acc W Herr Hh.
  - cbn. unfold conv_hout. cbn. reflexivity.
  - cbn [seg_loop C02_FetchVerify.fseg_loop] in *.
    change (fh_reqs body (conv_hout acc)) with (h_reqs acc).
    change (fh_store body (conv_hout acc)) with (attach (h_store acc)).
    change (fh_hooks body (conv_hout acc)) with (h_hooks acc).
    change (fh_count body (conv_hout acc)) with (h_count acc).
    set (o := walk (walk_fuel w) w v stop (Some nd) next (h_store acc)) in *.
    assert (Hsub : honest_on resp (h_reqs acc ++ o_reqs o)).
    { destruct (o_res o) eqn:R; try exact Hh.
      set (acc' := HO (h_hooks acc ++ o_order o) (h_reqs acc ++ o_reqs o) (o_store o) (h_count acc + length (o_order o)) None) in *.
      destruct (nominated w h (o_order o)) as [n|]; [|exact Hh].
      destruct (is_stop stop n); [exact Hh|].
      assert (Rec : forall nd' dsf', honest_on resp (h_reqs (seg_loop f w v stop orig segdl h nd' dsf' n acc')) ->
                                     honest_on resp (h_reqs acc ++ o_reqs o)).
      { intros nd' dsf' H. destruct (seg_loop_reqs v stop orig segdl h f nd' dsf' n acc') as [t Ht].
        rewrite Ht in H. eapply honest_prefix. exact H. }
      destruct orig as [D|]; [|eapply Rec; exact Hh]. destruct (D <=? dsf + nd)%nat; [exact Hh|eapply Rec; exact Hh]. }
    destruct (honest_fwalk_is_walk_proved resp v stop (walk_fuel w) (Some nd) next (h_reqs acc) (h_store acc) W Hsub) as [E Ws].
    fold o in E, Ws. rewrite E. cbv zeta. cbn [f_res f_order f_reqs f_store].
    destruct (walk_order_stored v stop (walk_fuel w) (Some nd) next (h_store acc)) as [_ Ord]. fold o in Ord.
    destruct (o_res o) eqn:R; cbn [conv_res]; cbv beta iota; cbn [f_res f_order f_reqs f_store]; try (unfold conv_hout; cbn; reflexivity).
    rewrite (fnominated_attach (o_store o) h (o_order o) Ws Ord).
    set (acc' := HO (h_hooks acc ++ o_order o) (h_reqs acc ++ o_reqs o) (o_store o) (h_count acc + length (o_order o)) None) in *.
    change (FHO body (h_hooks acc ++ o_order o) (h_reqs acc ++ o_reqs o) (attach (o_store o))
                (h_count acc + length (o_order o)) None) with (conv_hout acc').
    destruct (nominated w h (o_order o)) as [n|]; [|reflexivity].
    destruct (is_stop stop n); [reflexivity|].
    destruct orig as [D|].
    + destruct (D <=? dsf + nd)%nat; [reflexivity|]. apply IH; [exact Ws|reflexivity|exact Hh].
    + apply IH; [exact Ws|reflexivity|exact Hh].
Qed.

Theorem honest_fhandle_is_handle_proved resp q s :
  store_wf s = true ->
  let o := handle w (fs_view q) (fs_stop q) (fs_lim q) (fs_segdl q) (fs_hook q) (fs_head q) s in
  honest_on resp (h_reqs o) ->
  fhandle (walk_fuel w) resp q (attach s) = conv_hout o.
Proof.
  intros W o Hh. subst o. unfold C02_FetchVerify.fhandle, handle in *.
  destruct (seg_enabled (fs_segdl q) (fs_hook q) (fs_lim q)).
  - change (FHO body [] [] (attach s) 0 None) with (conv_hout (HO [] [] s 0 None)).
    apply honest_seg_loop; [exact W|reflexivity|exact Hh].
  - apply honest_handle_plain; assumption.
Qed.

End Honest.

(* ================================================================ *)
(* C02's sync on an honest publisher meets C01's specification       *)

Theorem honest_sync_meets_c01_spec_proved :
  forall (body : Type) (hashes_to : body -> cid -> bool) (links_of : body -> option (list edge))
         (content : cid -> body) (verifiable : cid -> bool) k extra ch pub head stop lim segdl s resp,
    let w := chain_world k extra ch pub in
    (forall c, hashes_to (content c) c = true) ->
    (forall c, links_of (content c) = dag_get (w_dag w) c) ->
    (forall c, verifiable c = true) ->
    chain_wf k extra ch = true -> In head ch -> is_stop stop head = false ->
    store_wf w s = true ->
    let seg := segment ch head stop lim in
    avail pub s seg = true ->
    honest_on body w content resp (missing s seg) ->
    fhandle body hashes_to links_of verifiable (walk_fuel w) resp (FSYNC (kind_view k) stop lim segdl HNominate head)
            (attach body content s) =
    FHO body seg (missing s seg) (attach body content (rev (missing s seg) ++ s)) (length seg) None.
Proof.
  intros body hashes_to links_of content verifiable k extra ch pub head stop lim segdl s resp w Hh Hl Hv Hwf Hin Hs W seg Hav Hon.
  pose proof (handle_segment k extra ch pub Hwf head stop lim s segdl Hin Hs Hav) as H1. cbv zeta in H1.
  unfold w in *. clear w. unfold seg in *. clear seg.
  rewrite (honest_fhandle_is_handle_proved body hashes_to links_of (chain_world k extra ch pub) content Hh Hl verifiable Hv resp
             (FSYNC (kind_view k) stop lim segdl HNominate head) s W).
  - cbn [fs_view fs_stop fs_lim fs_segdl fs_hook fs_head]. rewrite H1. reflexivity.
  - cbn [fs_view fs_stop fs_lim fs_segdl fs_hook fs_head]. rewrite H1. exact Hon.
Qed.
