(* GenTie_P3_C12 -- phase 3: the body of FindAsync's loop over encrypted value keys, as regenerated
   from find/client/dhash_client.go (gen/Gen_Funcs_findclient.v, findclient_FindAsync_evk_body:
   from `vk, err := dhash.DecryptValueKey(evk, mh)` to the `if err != nil` after
   `prs, err := c.pcache.GetResults(..)`), against model find_one.

   The `select` of the metadata-only branch is in the fragment: which of its cases proceeds is the
   parameter sel_191 (0 = the send on resChan, otherwise ctx.Done()).  What remains outside is the
   last loop, `for _, pr := range prs { select {...} }`, which only sends prs one by one.

   Reading of the opaque parts:
     dhash.DecryptValueKey / dhash.SplitValueKey / c.fetchMetadata := the model's functions, an
       error being any Err (pairE / pairE2); a Panic of one of them is a panic of the whole call in
       the model and is not in the Go fragment's vocabulary: those rows say True;
     c.pcache == nil            := the model's provider source is None (WithMetadataOnly);
     c.pcache.GetResults(..)    := the known provider with its address tag, or no result;
     model.ProviderResult{ContextID, Metadata, Provider: &peer.AddrInfo{ID}} := (pid, ctx, md, 0). *)
From Coq Require Import ZArith NArith List Bool Lia String.
From Lib Require Import Bytes.
From Model Require Import C12_DHash.
From Proofs Require Import GenTie_Lib.
From Gen Require Import Gen_Consts Gen_Funcs_prelude Gen_Funcs_findclient.
Import ListNotations.
Open Scope Z_scope.

Definition pairE (r : res (list N)) : list N * option string :=
  match r with Ok b => (b, None) | _ => ([], Some "error"%string) end.
Definition pairE2 (r : res (list N * list N)) : list N * list N * option string :=
  match r with Ok (a, b) => (a, b, None) | _ => ([], [], Some "error"%string) end.

Definition get_results (known : list N -> option N) (pid ctx md : list N) : list presult * option string :=
  match known pid with Some a => ([(pid, ctx, md, a)], None) | None => ([], None) end.

Definition no_panic {A} (r : res A) : Prop := match r with Panic _ => False | _ => True end.

Section Body.
  Variables (dec_vk dec_md : bytes -> bytes -> res bytes) (P : prims) (st : store).
  Variables (mh evk : list N).

  Definition body (ps : provider_src) (sel : Z) : frag (list presult * list string) :=
    findclient_FindAsync_evk_body unit presult provider_src (list N)
      (fun _ pid ctx md => match ps with Some known => get_results known pid ctx md | None => ([], None) end)
      (fun e m => pairE (dec_vk e m))
      (fun vk => pairE2 (split_value_key vk))
      (fun p => match p with None => true | Some _ => false end)
      (fun ctx md pid => (pid, ctx, md, 0%N))
      (fun pid => pid)
      tt mh ps evk
      (snd (pairE (match dec_vk evk mh with Ok vk => fetch_metadata dec_md P st vk | _ => Ok [] end)))
      (fst (pairE (match dec_vk evk mh with Ok vk => fetch_metadata dec_md P st vk | _ => Ok [] end)))
      sel.

  (* with a provider cache: the body either skips this key (`continue`, the model has no result
     for it) or reaches the sending loop with exactly the model's results in prs *)
  Theorem tie_evk_body_pcache : forall (known : list N -> option N) (sel : Z),
    match find_one dec_vk dec_md P st (Some known) mh evk with
    | Ok rs => (exists tr, body (Some known) sel = FFall (rs, tr))
               \/ (rs = [] /\ exists tr, body (Some known) sel = FContinue ""%string ([], tr))
    | Err _ => False
    | Panic _ => True
    end.
  Proof.
    intros. unfold find_one, body, findclient_FindAsync_evk_body.
    destruct (dec_vk evk mh) as [vk|c|c]; cbn [pairE fst snd isNone negb]; [|right; split; [reflexivity|eexists; reflexivity]|exact I].
    destruct (split_value_key vk) as [[pid ctx]|c|c]; cbn [pairE2 fst snd isNone negb]; [|right; split; [reflexivity|eexists; reflexivity]|exact I].
    destruct (fetch_metadata dec_md P st vk) as [md|c|c]; cbn [pairE fst snd isNone negb]; [|right; split; [reflexivity|eexists; reflexivity]|exact I].
    rewrite len_eqb_0.
    replace (C12_DHash.is_nil md) with (Gen_Funcs_prelude.is_nil md) by (destruct md; reflexivity).
    destruct (Gen_Funcs_prelude.is_nil md); [right; split; [reflexivity|eexists; reflexivity]|].
    unfold get_results. destruct (known pid) as [a|]; cbn [isNone negb]; left; eexists; reflexivity.
  Qed.

  (* metadata only (no provider cache): skip, or build the one result and either send it
     (sel = 0: `resChan <- pr` is recorded, then `continue`) or give up on cancellation *)
  Theorem tie_evk_body_metadata_only : forall (sel : Z),
    match find_one dec_vk dec_md P st None mh evk with
    | Ok [] => exists tr, body None sel = FContinue ""%string ([], tr) /\ ~ In "resChan <- pr"%string tr
    | Ok (r :: rest) =>
        rest = [] /\ snd r = 0%N /\
        exists tr, body None sel =
          if sel =? 0 then FContinue ""%string ([], (tr ++ ["resChan <- pr"%string])%list)
          else FReturn "return ctx.Err()"%string ([], (tr ++ ["<-ctx.Done()"%string])%list)
    | Err _ => False
    | Panic _ => True
    end.
  Proof.
    intros. unfold find_one, body, findclient_FindAsync_evk_body.
    destruct (dec_vk evk mh) as [vk|c|c]; cbn [pairE fst snd isNone negb];
      [|eexists; split; [reflexivity|cbn; tauto]|exact I].
    destruct (split_value_key vk) as [[pid ctx]|c|c]; cbn [pairE2 fst snd isNone negb];
      [|eexists; split; [reflexivity|cbn; tauto]|exact I].
    destruct (fetch_metadata dec_md P st vk) as [md|c|c]; cbn [pairE fst snd isNone negb];
      [|eexists; split; [reflexivity|cbn; intros [H|[]]; discriminate H]|exact I].
    rewrite len_eqb_0.
    replace (C12_DHash.is_nil md) with (Gen_Funcs_prelude.is_nil md) by (destruct md; reflexivity).
    destruct (Gen_Funcs_prelude.is_nil md).
    - eexists; split; [reflexivity|cbn; intros [H|[]]; discriminate H].
    - split; [reflexivity|]. split; [reflexivity|].
      exists ["metadata, err := c.fetchMetadata(ctx, vk)"%string;
              "pr := model.ProviderResult{ContextID: ctxID, Metadata: metadata, Provider: &peer.AddrInfo{ID: pid}}"%string].
      destruct (sel =? 0); reflexivity.
  Qed.
End Body.
Print Assumptions tie_evk_body_pcache.
Print Assumptions tie_evk_body_metadata_only.
